(* Correspondence + property checker for C15, evaluated by the driver with vm_compute on the
   observations of the real transform.BlockIndexer / GenericBlockIndexProvider / FileSource code.
   Verdict codes:
     0 ok | 1 model and implementation differ | 2 the boolean form of the property rejects the
     implementation's observation | 3 both | 4 implementation panicked / hung where the model
     does not *)
From BV Require Import Base.Prelude Model.BlockIndex.
Local Open Scope N_scope.

(* one BlocksInRange call as observed *)
Inductive c15_r := RPanic | RErr | ROk (l : list N).

(* an indexer run: index size, defined start block, number of chain blocks fed to it *)
Definition c15_ix := (N * option N * N)%type.

Inductive c15_case :=
  (* indexers -> one store -> provider -> a sequence of BlocksInRange(base, bundleSize) calls.
     observed: which indexer panicked, the files found in the store (low, size, content), the
     result of every call *)
| CProv (fsb : N) (chain : feed) (ixs : list c15_ix) (possible : list N) (flt : list fitem)
        (reqs : list (N * N))
        (o_ixpanic : list bool) (o_files : list (N * N * kvmap)) (o_res : list c15_r)
  (* indexers -> store -> provider -> FileSource over the chain cut into bundle files.
     observed: indexer panics, index file names, delivered block numbers,
     end (0 ErrStopBlockReached, 1 waiting for bundle o_wait, 2 other error, 3 hang/panic) *)
| CStream (fsb : N) (chain : feed) (ixs : list c15_ix) (possible : list N) (flt : list fitem)
        (bundle start stop : N) (wl : list N) (progress : bool)
        (o_ixpanic : list bool) (o_files : list (N * N)) (o_deliv : list N) (o_end : N) (o_wait : N).

(* ---------------- the model side ---------------- *)
Definition enc0 (kv : kvmap) : kvmap := kv.
Definition dec0 (kv : kvmap) : option kvmap := Some kv.
Definition mstore := store kvmap.

Definition build_store (fsb : N) (chain : feed) (ixs : list c15_ix) : mstore * list bool :=
  fold_left (fun (acc : mstore * list bool) (ix : c15_ix) =>
    let '(st, ps) := acc in
    let '(size, start, upto) := ix in
    match new_indexer st size start with
    | Panic => (st, ps ++ [true])
    | Ok i0 =>
        match indexer_run enc0 fsb i0 (firstn (N.to_nat upto) chain) with
        | Panic => (st, ps ++ [true])
        | Ok i1 => (ix_store i1, ps ++ [false])
        end
    end) ixs ([], []).

Fixpoint run_requests (fsb : N) (st : mstore) (possible : list N) (m : str -> bool)
         (p : prov) (reqs : list (N * N)) : list c15_r :=
  match reqs with
  | [] => []
  | (base, bsize) :: reqs' =>
      match blocks_in_range dec0 fsb st possible m p base bsize with
      | Panic => RPanic :: run_requests fsb st possible m p reqs'
      | Ok (p', None) => RErr :: run_requests fsb st possible m p' reqs'
      | Ok (p', Some l) => ROk l :: run_requests fsb st possible m p' reqs'
      end
  end.

Definition listN_eqb := list_eqb N.eqb.
Definition r_eqb (a b : c15_r) : bool :=
  match a, b with
  | RPanic, RPanic => true
  | RErr, RErr => true
  | ROk x, ROk y => listN_eqb x y
  | _, _ => false
  end.

Definition kv_equiv (a b : kvmap) : bool :=
  (length a =? length b)%nat &&
  forallb (fun e => match kv_get (fst e) b with Some s => listN_eqb s (snd e) | None => false end) a.

Definition files_match (st : mstore) (o_files : list (N * N * kvmap)) : bool :=
  forallb (fun o => let '(low, size, kv) := o in
                    match store_find st low size with Some kv' => kv_equiv kv kv' | None => false end) o_files
  && forallb (fun f => existsb (fun o => let '(low, size, _) := o in
                                         (low =? if_low f) && (size =? if_size f)) o_files) st.

Definition names_match (st : mstore) (o_files : list (N * N)) : bool :=
  forallb (fun o => match store_find st (fst o) (snd o) with Some _ => true | None => false end) o_files
  && forallb (fun f => existsb (fun o => (fst o =? if_low f) && (snd o =? if_size f)) o_files) st.

(* ---------------- the chain as bundle files ---------------- *)
Definition nums (chain : feed) : list N := map snd chain.
Definition bundle_blocks (chain : feed) (bundle b : N) : list N :=
  filter (fun n => (b <=? n) && (n <? b + bundle)) (nums chain).
Definition bundle_exists (chain : feed) (bundle b : N) : bool :=
  match bundle_blocks chain bundle b with [] => false | _ => true end.

Definition maxl (l : list N) : N := fold_right N.max 0 l.

(* the query of the attached provider, as the file source sees it *)
Definition gquery (fsb : N) (st : mstore) (possible : list N) (m : str -> bool) (bundle : N)
           (p : prov) (base : N) : prov * option (list N) :=
  generic_query dec0 fsb st possible m bundle p base.

Definition end_code (e : fend) : N * N :=
  match e with
  | EStop => (0, 0)
  | EWait b => (1, b)
  | EFuel => (5, 0)
  | EPanic => (3, 0)
  end.

(* ---------------- the property, computed from the inputs and the observation alone ---------- *)
Fixpoint ascending (l : list N) : bool :=
  match l with
  | x :: ((y :: _) as l') => (x <? y) && ascending l'
  | _ => true
  end.

Definition opt_le (a : option N) (b : N) : bool := match a with Some d => d <=? b | None => true end.

(* inputs inside the property's hypotheses: a chain fed in ascending order, nothing below the first
   streamable block, non-zero sizes, aligned defined start blocks not above the first block fed *)
Definition valid_common (fsb : N) (chain : feed) (ixs : list c15_ix) : bool :=
  ascending (nums chain) && forallb (fun n => fsb <=? n) (nums chain) &&
  forallb (fun ix : c15_ix => let '(size, start, _) := ix in
             negb (size =? 0) &&
             match start with
             | Some d => (d mod size =? 0) && match nums chain with n0 :: _ => d <=? n0 | [] => true end
             | None => true
             end) ixs.

Definition block_matches (m : str -> bool) (chain : feed) (n : N) : bool :=
  existsb (fun e => (snd e =? n) && existsb m (fst e)) chain.

Definition matching_nums (m : str -> bool) (chain : feed) : list N :=
  filter (block_matches m chain) (nums chain).

Definition covered (possible : list N) (names : list (N * N)) (b bsize : N) : bool :=
  existsb (fun s => (bsize <=? s) && (b + bsize <=? low_boundary b s + s) &&
                    existsb (fun o => (fst o =? low_boundary b s) && (snd o =? s)) names) possible.

Definition prov_prop (fsb : N) (chain : feed) (possible : list N) (m : str -> bool)
           (names : list (N * N)) (req : N * N) (o : c15_r) : bool :=
  let '(base, bsize) := req in
  if (bsize =? 0) then true else
  if negb (base mod bsize =? 0) then match o with RErr => true | _ => false end else
  match o with
  | RPanic => false
  | RErr => negb (covered possible names base bsize)
  | ROk l => covered possible names base bsize &&
             listN_eqb l (filter (fun n => (base <=? n) && (n <? base + bsize)) (matching_nums m chain))
  end.

Fixpoint forallb2 {A C} (f : A -> C -> bool) (a : list A) (c : list C) : bool :=
  match a, c with
  | [], [] => true
  | x :: a', y :: c' => f x y && forallb2 f a' c'
  | _, _ => false
  end.

(* first aligned base >= b0 the index does not cover *)
Fixpoint first_uncovered (fuel : nat) (possible : list N) (names : list (N * N)) (bundle b : N) : N :=
  match fuel with
  | O => b
  | S f => if covered possible names b bundle then first_uncovered f possible names bundle (b + bundle) else b
  end.

Definition stream_prop (chain : feed) (possible : list N) (m : str -> bool)
           (bundle start stop : N) (wl : list N) (progress : bool)
           (names : list (N * N)) (deliv : list N) (o_end o_wait : N) : bool :=
  let ns := nums chain in
  let ms := matching_nums m chain in
  let b0 := low_boundary start bundle in
  let hi := maxl (map (fun o => fst o + snd o) names) in
  let u := first_uncovered (S (N.to_nat (hi / bundle))) possible names bundle b0 in
  let in_scope (n : N) := (start <=? n) &&
        (if o_end =? 0 then low_boundary n bundle <=? stop else n <? o_wait) in
  let wanted (w : N) := memN w ms || (w =? start) || (negb (stop =? 0) && (w =? stop)) || memN w wl in
  (o_end <? 2) &&
  (if o_end =? 0 then negb (stop =? 0)
   else (o_wait mod bundle =? 0) && negb (bundle_exists chain bundle o_wait)) &&
  (* ascending, each once, only existing blocks from start on *)
  ascending deliv && forallb (fun d => memN d ns && (start <=? d)) deliv &&
  (* every matching block between start and stop *)
  forallb (fun n => negb (in_scope n && ((stop =? 0) || (n <=? stop))) || memN n deliv) ms &&
  (* once the index has ended: every block *)
  forallb (fun n => negb (in_scope n && (u <=? n)) || memN n deliv) ns &&
  (* covered bundles other than the last available ones: nothing but the wanted blocks *)
  forallb (fun d =>
     let b := low_boundary d bundle in
     negb (b + bundle <? u) ||
     existsb (fun w => (b <=? w) && (w <=? d) && (wanted w || (progress && (w =? b))) &&
                       negb (existsb (fun y => (w <=? y) && (y <? d)) ns))
             (b :: start :: stop :: wl ++ ms)) deliv.

(* Y1 (W1 C15 'tightness'): second clause next to [stream_prop] (which Cxx_Audit2 speaks about).  "In bundles the index
   covers OTHER THAN THE LAST AVAILABLE ONES, nothing besides these is delivered": [stream_prop] demands it for bundles
   with b + bundle < u only, i.e. it exempts the last bundle the INDEX covers (b = u - bundle) whether or not that bundle
   is one of the last available bundle FILES.  Here the exemption is cut down to what the sentence says: the last covered
   bundle is exempt only when the bundle file after it (base u, the first one the index does not cover) does not exist;
   when file u exists, bundle u - bundle is not a last available one and must hold nothing but the wanted blocks.  Same
   'wanted' / 'next existing block' test as in [stream_prop]; [u] is computed in the same way. *)
Definition stream_tight_y1 (chain : feed) (possible : list N) (m : str -> bool)
           (bundle start stop : N) (wl : list N) (progress : bool)
           (names : list (N * N)) (deliv : list N) : bool :=
  let ns := nums chain in
  let ms := matching_nums m chain in
  let b0 := low_boundary start bundle in
  let hi := maxl (map (fun o => fst o + snd o) names) in
  let u := first_uncovered (S (N.to_nat (hi / bundle))) possible names bundle b0 in
  let wanted (w : N) := memN w ms || (w =? start) || (negb (stop =? 0) && (w =? stop)) || memN w wl in
  forallb (fun d =>
     let b := low_boundary d bundle in
     negb ((b + bundle =? u) && bundle_exists chain bundle u) ||
     existsb (fun w => (b <=? w) && (w <=? d) && (wanted w || (progress && (w =? b))) &&
                       negb (existsb (fun y => (w <=? y) && (y <? d)) ns))
             (b :: start :: stop :: wl ++ ms)) deliv.

(* ---------------- verdicts ---------------- *)
Definition c15_verdict (k : c15_case) : N :=
  match k with
  | CProv fsb chain ixs possible flt reqs o_ixpanic o_files o_res =>
      let m := key_matches flt in
      let '(st, ixp) := build_store fsb chain ixs in
      let mres := run_requests fsb st possible m prov0 reqs in
      let corr := list_eqb Bool.eqb ixp o_ixpanic && files_match st o_files && list_eqb r_eqb mres o_res in
      let unexpected_panic :=
          existsb (fun pr => fst pr && negb (snd pr)) (combine o_ixpanic ixp) ||
          existsb (fun pr => match fst pr, snd pr with RPanic, RPanic => false | RPanic, _ => true | _, _ => false end)
                  (combine o_res mres) in
      if unexpected_panic then 4 else
      let names := map (fun o => let '(low, size, _) := o in (low, size)) o_files in
      let p := negb (valid_common fsb chain ixs) ||
               forallb2 (prov_prop fsb chain possible m names) reqs o_res in
      (if corr then 0 else 1) + (if p then 0 else 2)
  | CStream fsb chain ixs possible flt bundle start stop wl progress o_ixpanic o_files o_deliv o_end o_wait =>
      if 3 <=? o_end then 4 else
      let m := key_matches flt in
      let '(st, ixp) := build_store fsb chain ixs in
      let hi := N.max (maxl (nums chain)) (N.max stop (maxl (map (fun f => if_low f + if_size f) st))) in
      let fuel := (length wl + S (S (N.to_nat (hi / bundle))))%nat in
      let '(d, e) := file_source_run prov (gquery fsb st possible m bundle) start stop bundle
                       (fun _ => progress) (bundle_exists chain bundle) (bundle_blocks chain bundle)
                       fuel fuel (Some prov0) wl in
      let '(ec, ew) := end_code e in
      let corr := list_eqb Bool.eqb ixp o_ixpanic && names_match st o_files &&
                  listN_eqb d o_deliv && (ec =? o_end) && (ew =? o_wait) in
      let valid := valid_common fsb chain ixs && negb (bundle =? 0) && ((stop =? 0) || (start <=? stop)) in
      let p := negb valid ||
               (stream_prop chain possible m bundle start stop wl progress o_files o_deliv o_end o_wait &&
                stream_tight_y1 chain possible m bundle start stop wl progress o_files o_deliv) in
      (if corr then 0 else 1) + (if p then 0 else 2)
  end.

Definition c15_verdicts (l : list c15_case) : list (N * N) := nonzero (map c15_verdict l).
