(* C08S: differential check of the schedule-level hub model Model/HubSched.v against the real code, at
   lock granularity.  The harness (harness/c08sched.go) runs the real ForkableHub with one goroutine
   per model thread (producer = Forkable.ProcessBlock of every live block; requester i = one
   ForkableHub.SourceFromXxx call; consumer i = Subscription.Run of the source requester i obtained),
   each parked at the schedule points of the hooks patch and released ONE atomic step at a time, in
   the order of the schedule.  After every schedule entry it records what the real thread did; here the
   same schedule is run through `cstep` and every observation is compared.

   Schedule points (real code) <-> program counters (model):
     producer   forkable:lock (before RWMutex.Lock)                      PIdle, script not empty
                inside RWMutex.Lock / arrived at forkable:locked        PWait  (ss_arr: Lock has returned)
                forkable:locked, acknowledged                          PLocked
                processblock:enter (before subscribersLock.Lock)        PEvents (_ :: _)
                processblock:snapshot / processblock:after-push         PFan
                processblock:push-failed (before unsubscribe+Shutdown)  PDrop
                forkable:unlock (before RWMutex.Unlock)                  PEvents []
                every block processed                                  PIdle, script empty
     requester  forkable:rlock RStart | forkable:rlocked RLocked | subscribe:before-append RHook |
                subscribe:locked RMutex, then RRead (the statement h.subscribers = append(...) reads and
                writes in one go: the model's read step is acknowledged without releasing the thread) |
                subscribe:appended RWritten | forkable:runlock RUnlocking | SourceFromXxx returned RDone
     consumer   subscription:receive (top of the loop of Subscription.run), position = items handed to the handler

   A step whose lock is not available is NOT attempted (the real goroutine would commit to the wait,
   the model retries): the harness asks the real lock instead (RWMutex.TryRLock on the Forkable: no
   writer holds or has announced; TryLock on subscribersLock: free) and records the answer as the
   step's enabledness.  The one wait that is really performed is the producer's RWMutex.Lock(), which
   the model has as its own state PWait.

   Codes: 0 ok | 1 an observation differs from the model (correspondence) | 2 the property, evaluated on
   the observation alone, is violated | 3 both | 4 the real run hung. *)
From BV Require Import Base.Prelude Model.Block Model.ForkDB Model.Forkable Model.ForkableLookups Model.Burst Model.Hub
  Model.HubSubs Model.HubSched Spec.Consumer Check.Fk_Check Check.Burst_Check Check.C08_Check.
Local Open Scope N_scope.

(* one schedule entry with what the real thread did *)
Record s_step := mkSS {
  ss_tid : N;             (* 0 producer | 1 + 2i requester i | 2 + 2i consumer i *)
  ss_skip : bool;         (* not attempted: consumer of a subscription that was shut down (run() leaves its loop) *)
  ss_en : bool;           (* the real thread made a step *)
  ss_pos : N;             (* where it is afterwards (codes below) *)
  ss_arr : bool;          (* producer inside RWMutex.Lock(): Lock has returned *)
  ss_qi : N;              (* channel lengths, per requester q_i = 0 while SourceFromXxx has not returned a source, *)
  ss_qv : N               (* 1 + len(channel) afterwards: this step changed q_(qi-1) to qv (qi = 0: no change); a step
                             of the real code that changes two of them is reported by the harness as anomaly 1 *)
}.

Record s_req := mkSR {
  sr_obs : sub_obs;       (* request (kind, start, cursor), served, every item delivered (received ++ still queued), cap, dropped *)
  sr_nrecv : N;           (* items its consumer received *)
  sr_pos : N              (* final position of the requester *)
}.

Inductive c08s_case :=
| C08SSkip
| mkC08S (first kept : N) (boot live : list block) (reqs : list s_req) (steps : list s_step)
         (order : list N)          (* h.subscribers at the end, as requester ids *)
         (anomaly : N)             (* 0 | 1 a thread reached a schedule point the model does not expect | 2 hang *)
         (tracker : bool).         (* requester 0 registered first and received after every producer step *)

Definition tid_of (n : N) : tid :=
  if n =? 0 then TProd
  else if N.odd n then TReq (N.to_nat ((n - 1) / 2)) else TCons (N.to_nat ((n - 2) / 2)).

Definition ppos (st : cstate) : N :=
  match g_ppc st with
  | PIdle => match g_script st with [] => 9 | _ => 0 end
  | PWait _ => 1
  | PLocked _ => 2
  | PEvents [] => 4
  | PEvents _ => 3
  | PFan _ _ _ => 5
  | PDrop _ _ _ _ => 6
  end.

Definition rpos (pc : rpc) : N :=
  match pc with
  | RStart => 0 | RLocked => 1 | RHook => 2 | RMutex => 3 | RRead _ => 4 | RWritten => 5 | RUnlocking => 6 | RDone => 7
  end.

(* everything an enabled step changes: used to read "the step was enabled" off cstep itself *)
Definition psig (st : cstate) : list N :=
  match g_ppc st with
  | PIdle => [0; 0; 0]
  | PWait _ => [1; 0; 0]
  | PLocked _ => [2; 0; 0]
  | PEvents evs => [3; 0; N.of_nat (length evs)]
  | PFan _ todo evs => [5; N.of_nat (length todo); N.of_nat (length evs)]
  | PDrop _ _ todo evs => [6; N.of_nat (length todo); N.of_nat (length evs)]
  end ++ [N.of_nat (length (g_script st))].
Definition rsig (c : req) : list N := [rpos (r_pc c); N.of_nat (length (r_got c))].
Definition changed (st st' : cstate) : bool :=
  negb (eqb_list (psig st) (psig st') && list_eqb eqb_list (map rsig (g_reqs st)) (map rsig (g_reqs st'))).

Definition qlens (st : cstate) : list N :=
  map (fun c => match r_pc c, r_sub c with
                | RDone, Some s => 1 + N.of_nat (length (ms_queue s))
                | _, _ => 0
                end) (g_reqs st).

Definition pos_after (st : cstate) (t : tid) : N :=
  match t with
  | TProd => ppos st
  | TReq i => match nth_error (g_reqs st) i with Some c => rpos (r_pc c) | None => 99 end
  | TCons i => match nth_error (g_reqs st) i with Some c => N.of_nat (length (r_got c)) | None => 99 end
  end.

Definition arr_after (st : cstate) (t : tid) : bool :=
  match t, g_ppc st with
  | TProd, PWait _ => Nat.eqb (g_readers st) 0
  | _, _ => false
  end.

(* subscription i was dropped AND shut down (the producer's unsubscribe + Shutdown step is done) *)
Definition shut (st : cstate) (i : nat) : bool :=
  match nth_error (g_reqs st) i with
  | Some c =>
      match r_sub c with
      | Some s => ms_dropped s && negb (match g_ppc st with PDrop _ k _ _ => Nat.eqb k i | _ => false end)
      | None => false
      end
  | None => false
  end.

(* the observed channel lengths after the step, from those before it *)
Definition q_after (q : list N) (s : s_step) : list N :=
  if ss_qi s =? 0 then q else set_nth (N.to_nat (ss_qi s - 1)) (ss_qv s) q.

Definition step_parts (first kept : N) (st : cstate) (q : list N) (s : s_step) : list bool * cstate * list N :=
  let t := tid_of (ss_tid s) in
  if ss_skip s then ([match t with TCons i => shut st i | _ => false end; ss_qi s =? 0], st, q)
  else
    let st' := cstep true first kept st t in
    let q' := q_after q s in
    ([ (* a consumer entry that was attempted: its subscription is not shut down *)
       match t with TCons i => negb (shut st i) | _ => true end;
       Bool.eqb (changed st st') (ss_en s);
       pos_after st' t =? ss_pos s;
       Bool.eqb (arr_after st' t) (ss_arr s);
       eqb_list (qlens st') q' ], st', q').

Fixpoint run_steps (first kept : N) (st : cstate) (q : list N) (steps : list s_step) : bool * cstate :=
  match steps with
  | [] => (true, st)
  | s :: steps' =>
      let '(parts, st', q') := step_parts first kept st q s in
      if forallb (fun b => b) parts then run_steps first kept st' q' steps' else (false, st')
  end.

(* diagnostic (not used by the verdict): index of the first step whose observation differs, and which parts *)
Fixpoint first_bad (first kept : N) (st : cstate) (q : list N) (steps : list s_step) (k : N) : option (N * list bool) :=
  match steps with
  | [] => None
  | s :: steps' =>
      let '(parts, st', q') := step_parts first kept st q s in
      if forallb (fun b => b) parts then first_bad first kept st' q' steps' (k + 1) else Some (k, parts)
  end.

Definition req_final_parts (st : cstate) (i : nat) (c : req) (o : s_req) : list bool :=
  let so := sr_obs o in
  (rpos (r_pc c) =? sr_pos o) ::
  match r_pc c, r_sub c with
  | RDone, Some s =>
      let all := r_got c ++ ms_queue s in
      [ so_served so;
        events_eqb (qitem_events all) (concat (so_chunks so));
        list_eqb block_eqb (fold_right insert_nb [] (qitem_blocks all)) (so_forks so);
        ms_cap s =? so_cap so;
        Bool.eqb (shut st i) (so_dropped so);
        N.of_nat (length (r_got c)) =? sr_nrecv o ]
  | RDone, None => [ negb (so_served so) ]
  | _, _ => [ negb (so_served so) ]         (* the request has not returned: nothing else is observable *)
  end.

Fixpoint reqs_final (st : cstate) (i : nat) (cs : list req) (os : list s_req) : bool :=
  match cs, os with
  | [], [] => true
  | c :: cs', o :: os' => forallb (fun b => b) (req_final_parts st i c o) && reqs_final st (S i) cs' os'
  | _, _ => false
  end.

Definition reqs_of (reqs : list s_req) : option (list sub_req) :=
  fold_right (fun o acc => match req_of (sr_obs o), acc with Some r, Some l => Some (r :: l) | _, _ => None end)
             (Some []) reqs.

Definition c08s_corresponds (k : c08s_case) : bool :=
  match k with
  | C08SSkip => true
  | mkC08S first kept boot live reqs steps order anomaly tracker =>
      match reqs_of reqs with
      | None => false
      | Some rl =>
          let st0 := cinit (boot_hub first kept boot) live rl in
          let '(ok, st) := run_steps first kept st0 (map (fun _ => 0) reqs) steps in
          (anomaly =? 0) && ok && reqs_final st 0 (g_reqs st) reqs &&
          eqb_list (map N.of_nat (g_subs st)) order
      end
  end.

Definition c08s_diag (k : c08s_case) : option (N * list bool) :=
  match k with
  | C08SSkip => None
  | mkC08S first kept boot live reqs steps order anomaly tracker =>
      match reqs_of reqs with
      | None => Some (0, [])
      | Some rl => first_bad first kept (cinit (boot_hub first kept boot) live rl) (map (fun _ => 0) reqs) steps 0
      end
  end.

(* ---- the property at schedule level, from the observation alone ----
   With a tracker (requester 0: from the hub's lowest block, registered before the producer starts,
   never dropped) the hub's event sequence is what the tracker was delivered, and every other served
   subscription must hold its burst followed by every later event exactly once and in order, and leave a
   consumer where one that never disconnected is (c08_sub_ok of Check/C08_Check.v, concurrent mode).
   Always: a subscription is dropped only after its channel was full (at least `cap` items delivered:
   a slow subscriber is dropped alone, nobody else is), the registered subscribers are exactly the
   served, not dropped ones, each once, and nobody was served without being registered. *)
Definition items (o : sub_obs) : N := N.of_nat (length (concat (so_chunks o)) + length (so_forks o)).

Definition drop_justified (o : sub_obs) : bool :=
  negb (so_served o && so_dropped o) || (so_cap o <=? items o).

Fixpoint expected_order (i : N) (reqs : list s_req) : list N :=
  match reqs with
  | [] => []
  | o :: reqs' =>
      (if so_served (sr_obs o) && negb (so_dropped (sr_obs o)) then [i] else []) ++ expected_order (i + 1) reqs'
  end.

Fixpoint insert_n (x : N) (l : list N) : list N :=
  match l with
  | [] => [x]
  | y :: l' => if x <=? y then x :: l else y :: insert_n x l'
  end.

Definition c08s_prop (k : c08s_case) : bool :=
  match k with
  | C08SSkip => true
  | mkC08S first kept boot live reqs steps order anomaly tracker =>
      let subs := map sr_obs reqs in
      forallb drop_justified subs &&
      eqb_list (fold_right insert_n [] order) (expected_order 0 reqs) &&
      (if tracker then
         match subs with
         | t0 :: others =>
             if so_served t0 && negb (so_dropped t0) && (so_kind t0 =? 2) then
               let log := concat (so_chunks t0) in
               forallb (c08_sub_ok 1 log []) others
             else true
         | [] => true
         end
       else true)
  end.

Definition c08s_verdict (k : c08s_case) : N :=
  match k with
  | C08SSkip => 0
  | mkC08S _ _ _ _ _ _ _ anomaly _ =>
      if anomaly =? 2 then 4
      else (if c08s_corresponds k then 0 else 1) + (if c08s_prop k then 0 else 2)
  end.
Definition c08s_verdicts (l : list c08s_case) := nonzero (map c08s_verdict l).
Definition c08s_in_scope (k : c08s_case) : bool := match k with C08SSkip => false | _ => true end.
