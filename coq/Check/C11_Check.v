(* Correspondence + property checker for C11, evaluated by the driver with vm_compute on the
   observations of the real file source / joining source / stream under one injected fault.
   Verdict codes:
     0 ok
     1 the observation is outside what the model allows for this fault site (prefix of the
       reference sequence within the blocks that precede the fault; the fault's error class when
       the site lies on the path of every run; otherwise that class or the regular end)
     2 the boolean form of the PROPERTY rejects the observation (error reported and identifying
       the cause, deliveries in stored order, gap-free, parent-linked, each with its own object)
     3 both
     4 Run did not return / panicked
     5 a handler call began after Run had returned, or the object's cursor did not describe the block
   Error enum of the harness: 0 nil | 1 stop block reached | 2 non-sequential | 3 other
   (header / read / decode errors) | 4 file-existence fault | 5 open fault | 6 preprocessor fault |
   7 handler fault. *)
From BV Require Import Base.Prelude Model.FileSeq Model.Pipeline Spec.C10_Spec Spec.C11_Spec Check.C10_Check.
Local Open Scope N_scope.

Inductive c11_case :=
| C11Case (kind : N)          (* 0 file source | 1 joining source | 2 stream | 3 file source from a cursor *)
          (L : layout) (f : fault)
          (want : N)          (* the enum value with which this fault reports itself *)
          (forced : bool) (calls : list (blk * N)) (err : N) (hung : bool) (bad : bool).

Fixpoint common_len (a b : list blk) : nat :=
  match a, b with
  | x :: a', y :: b' => if blk_eqb x y then S (common_len a' b') else O
  | _, _ => O
  end.

(* upper bound of the deliveries (Spec/C11_Spec.v [before_site], theorem c11_bound, cut to the
   reference sequence by c11_prefix), and whether the site lies on the path of every run *)
(* [nonseq] = the reference run ends at a parent-link break (after exactly d): then a site is
   on the path of every run only if it is met before the offending block is read *)
Definition site_limit (L : layout) (f : fault) (d : list blk) (nonseq : bool) : list blk * bool :=
  let early (b : list blk) := negb nonseq || Nat.leb (length b) (length d) in
  match f with
  | FNone => (d, false)
  | FExists i =>
      let b := before_site L i 0 in
      (firstn (common_len b d) d,
       Nat.leb i (nsend L) && (Nat.ltb i (nsend L) || negb (stopped L)) && early b)
  | FOpen i | FHeader i =>
      let b := before_site L i 0 in
      (firstn (common_len b d) d, Nat.ltb i (nsend L) && early b)
  | FRead i k =>
      let b := before_site L i k in
      (firstn (common_len b d) d,
       Nat.ltb i (nsend L) && Nat.leb k (length (file_of L i)) && early b)
  | FPre i k =>
      let lim := firstn (common_len (before_site L i k) d) d in
      (lim, Nat.ltb i (nsend L) && Nat.ltb (length lim) (length d) &&
            match nth_error (file_of L i) k with Some b => keep L i b | None => false end &&
            (* the failing block is the next one of the reference sequence *)
            match nth_error (file_of L i) k, nth_error d (length lim) with
            | Some b, Some b' => blk_eqb b b' | _, _ => false end)
  | FHandler n => (firstn (S n) d, Nat.ltb n (length d))
  end.

(* Stream.Run: the stop-block handler ends the stream at the stop block itself *)
Fixpoint stream_cut (stop : N) (d : list blk) : list blk * bool :=
  match d with
  | [] => ([], false)
  | b :: d' =>
      if stop <? b_num b then ([], true)
      else if stop =? b_num b then ([b], true)
      else let (r, s) := stream_cut stop d' in (b :: r, s)
  end.

Definition c11_model_ok (kind : N) (L : layout) (f : fault) (want : N) (forced : bool)
    (calls : list (blk * N)) (err : N) : bool :=
  if kind =? 3 then
    (* the one-block download fails while the cursor is being resolved: nothing reached the handler *)
    match calls with [] => (err =? want) && negb forced | _ => false end
  else
  let (d0, o0) := expected L in
  let (d, o) :=
    if (kind =? 2) && negb (l_stop L =? 0) then
      let (ds, st) := stream_cut (l_stop L) d0 in
      if st then (ds, OStop) else (d0, o0)
    else (d0, o0) in
  let mk := map (fun b => (b, c10_tag 0 b)) in
  let (lim, must0) := site_limit L f d (outcome_eqb o ONonSeq) in
  (* a stream ends at the stop block itself: a site behind it need not be reached *)
  let must := if kind =? 2 then
                match f with FHandler _ => must0 | _ => must0 && Nat.ltb (length lim) (length d) end
              else must0 in
  let full := list_eqb pblk_eqb calls (mk d) in
  let regular :=
    match o with
    | OTail => forced && full && (err =? 0)
    | _ => negb forced && full && (err =? outcome_code o)
    end in
  match f with
  | FNone => regular
  | FHandler n =>
      if must then negb forced && (err =? want) && list_eqb pblk_eqb calls (mk lim)
      else regular
  | _ =>
      (negb forced && (err =? want) && is_prefix pblk_eqb calls (mk lim)) ||
      (negb must && regular)
  end.

Definition c11_check (kind : N) (L : layout) (f : fault) (want : N) (forced : bool)
    (calls : list (blk * N)) (err : N) : bool :=
  let blocks := map fst calls in
  let el := eligible L in
  let rest := skipn (length blocks) el in
  forallb (fun v => snd v =? c10_tag 0 (fst v)) calls &&
  is_prefix blk_eqb blocks el &&
  linkedb 0 blocks &&
  (* a handler call that failed is the cause, whatever else (e.g. the stop block) came with it *)
  let failed_call := match f with FHandler n => negb (kind =? 3) && Nat.ltb n (length calls) | _ => false end in
  (* ... and it is the LAST call: "the handler is not called again afterwards" (W1 conclusion audit: this clause used
     to be left to the correspondence bit, c11_bound) *)
  let failed_is_last := match f with FHandler n => Nat.eqb (length calls) (S n) | _ => true end in
  if failed_call then negb forced && (err =? want) && negb (want =? 0) && failed_is_last else
  match err with
  | 0 => forced && match rest with [] => true | _ => false end
  | 1 => negb (l_stop L =? 0) && negb forced && forallb (fun b => l_stop L <? b_num b) rest
  | 2 => negb forced &&
         match rest with
         | b :: _ => negb (last_id 0 blocks =? 0) && negb (b_par b =? last_id 0 blocks)
         | [] => false
         end
  | c => negb forced && (c =? want) && negb (want =? 0)
  end.

Definition c11_verdict (k : c11_case) : N :=
  match k with
  | C11Case kind L f want forced calls err hung bad =>
      if hung then 4 else if bad then 5 else
      (if c11_model_ok kind L f want forced calls err then 0 else 1) +
      (if c11_check kind L f want forced calls err then 0 else 2)
  end.

Definition c11_verdicts (l : list c11_case) : list (N * N) := nonzero (map c11_verdict l).
