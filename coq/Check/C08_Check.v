(* C08: hub subscriptions.  Codes: 0 ok | 1 model/implementation mismatch (sequential mode) |
   2 property rejected on the observation | 3 both.

   V2 (finding W1-C08-2): the model run pushes with Model/HubAll.v [push_block_all] = the fan-out of
   [hub_live_all], which hands the subscriptions EVERY event of the hub's Forkable, before readiness too
   (for a ready hub it is HubSubs.push_block: Proofs/C08_LiveAll.v hub_live_all_ready).  Cases whose hub is
   not ready when subscriptions are requested are generated (harness/c08.go, class names "not-ready"); a
   push may come with the one-block files the store offers at that moment ([c08x_case], passes). *)
From BV Require Import Base.Prelude Model.Block Model.ForkDB Model.Forkable Model.ForkableLookups Model.Burst Model.Hub Model.HubSubs Model.HubAll
  Spec.Consumer Check.Fk_Check Check.Burst_Check.
Local Open Scope N_scope.

Inductive c08_op := OpPush | OpSub | OpDrain (which : N) (skip0 : bool).

Record sub_obs := mkSubObs {
  so_kind : N;            (* 0 cursor | 1 through | 2 num | 3 forks *)
  so_at : N;              (* live blocks pushed when it was created (sequential mode) *)
  so_start : N; so_cur : option cursor;
  so_served : bool;
  so_chunks : list (list event);
  so_forks : list block;
  so_cap : N; so_dropped : bool }.

Inductive c08_case :=
| C08Skip
| mkC08 (mode first kept : N) (boot live : list block) (ops : list c08_op)
        (log : list event) (log_at : list N) (subs : list sub_obs) (nsubs pushed : N).

Definition req_of (o : sub_obs) : option sub_req :=
  if so_kind o =? 2 then Some (RNum (so_start o))
  else if so_kind o =? 3 then Some (RForks (so_start o))
  else match so_cur o with
       | None => None
       | Some c => if so_kind o =? 0 then Some (RCursor c) else Some (RThrough (so_start o) c)
       end.

Definition boot_hub (first kept : N) (boot : list block) : hub :=
  match rev boot with
  | [] => hub_init
  | lb :: before_rev => let '(h, _, _) := hub_live first kept hub_init (PBlocks (rev before_rev)) lb in h
  end.

(* sequential replay: per served subscription the chunks its drains must return *)
Fixpoint seq_run (first kept : N) (sh : shub) (live : list block) (passes : list (list block))
         (ops : list c08_op) (reqs : list sub_obs)
         (chunks : list (list (list qitem))) (served : list bool) : list (list (list qitem)) * list bool * shub :=
  match ops with
  | [] => (chunks, served, sh)
  | OpPush :: ops' =>
      match live with
      | [] => seq_run first kept sh live passes ops' reqs chunks served
      | b :: live' => let '(sh', _) := push_block_all first kept (PBlocks (hd [] passes)) sh b in
                      seq_run first kept sh' live' (tl passes) ops' reqs chunks served
      end
  | OpSub :: ops' =>
      match reqs with
      | [] => seq_run first kept sh live passes ops' reqs chunks served
      | o :: reqs' =>
          match req_of o with
          | None => seq_run first kept sh live passes ops' reqs' chunks (served ++ [false])
          | Some r => let '(sh', ok) := subscribe sh r in
                      seq_run first kept sh' live passes ops' reqs' (if ok then chunks ++ [[]] else chunks) (served ++ [ok])
          end
      end
  | OpDrain w skip0 :: ops' =>
      match length (sh_subs sh) with
      | O => seq_run first kept sh live passes ops' reqs chunks served
      | n => if skip0 && Nat.eqb n 1 then seq_run first kept sh live passes ops' reqs chunks served else
             let k := if skip0 then S (N.to_nat (w mod N.of_nat (n - 1))) else N.to_nat (w mod N.of_nat n) in
             let '(subs', q) := drain_nth k (sh_subs sh) in
             let chunks' := (fix upd (i : nat) (l : list (list (list qitem))) :=
                               match l with
                               | [] => []
                               | c :: l' => match i with O => (c ++ [q]) :: l' | S i' => c :: upd i' l' end
                               end) k chunks in
             seq_run first kept (mkSH (sh_hub sh) subs') live passes ops' reqs chunks' served
      end
  end.

Definition qitem_events (q : list qitem) : list event :=
  flat_map (fun x => match x with QEv e => [e] | QBlk _ => [] end) q.
Definition qitem_blocks (q : list qitem) : list block :=
  flat_map (fun x => match x with QBlk b => [b] | QEv _ => [] end) q.

Definition strip (e : event) : event := mkEv (estep e) (eblk e) (ecblk e) (ehead e) (elib e) (ejunc e) (eidx e) (ecount e).

(* the observation of one subscription against the model's chunks (+ final drain) *)
Definition sub_matches (o : sub_obs) (chunks : list (list qitem)) (final : msub) : bool :=
  let all := chunks ++ [ms_queue final] in
  let flat := concat all in
  events_eqb (qitem_events flat) (concat (so_chunks o)) &&
  list_eqb block_eqb (fold_right insert_nb [] (qitem_blocks flat)) (so_forks o) &&
  (ms_cap final =? so_cap o) && Bool.eqb (ms_dropped final) (so_dropped o).

Fixpoint zip3_ok (obs : list sub_obs) (chunks : list (list (list qitem))) (subs : list msub) : bool :=
  match obs with
  | [] => true
  | o :: obs' =>
      if so_served o then
        match chunks, subs with
        | c :: chunks', s :: subs' => sub_matches o c s && zip3_ok obs' chunks' subs'
        | _, _ => false
        end
      else zip3_ok obs' chunks subs
  end.

(* passes: for the n-th push the one-block files the store offers then (missing = none) *)
Definition c08_corresponds_p (passes : list (list block)) (k : c08_case) : bool :=
  match k with
  | C08Skip => true
  | mkC08 mode first kept boot live ops log log_at subs nsubs pushed =>
      if mode =? 1 then true (* concurrent mode: the schedule is not an input; judged by the property only *)
      else
        let h0 := boot_hub first kept boot in
        (* the tracker is the first subscription of the real hub; it is drained after every push and is
           not part of the model's list *)
        let '(chunks, served, sh) := seq_run first kept (mkSH h0 []) live passes ops subs [] [] in
        list_eqb Bool.eqb served (map so_served subs) &&
        zip3_ok subs chunks (sh_subs sh) &&
        (N.of_nat (length (filter (fun s => negb (ms_dropped s)) (sh_subs sh))) =? nsubs)
  end.

Definition c08_corresponds (k : c08_case) : bool := c08_corresponds_p [] k.

(* ---- property, from the observation alone ---- *)

Fixpoint is_suffix_from (fuel : nat) (rest log : list event) : bool :=
  match fuel with
  | O => events_eqb rest log
  | S f => events_eqb rest log || match log with [] => false | _ :: log' => is_suffix_from f rest log' end
  end.

Fixpoint is_prefix (a b : list event) : bool :=
  match a, b with
  | [], _ => true
  | x :: a', y :: b' => event_eqb x y && is_prefix a' b'
  | _ :: _, [] => false
  end.

(* undos for blocks this consumer never received (a reorganisation reaching below its first block)
   are ignored, as are finality announcements for blocks below its start *)
Fixpoint fold_tolerant (start : N) (c : cons) (l : list event) : option cons :=
  match l with
  | [] => Some c
  | e :: l' =>
      if step_eqb (estep e) SIrr && (bnum (eblk e) <? start) && negb (memN (bid (eblk e)) (ids (cs_stack c)))
      then fold_tolerant start c l' else
      match cs_stack c, estep e with
      | [], SUndo => fold_tolerant start c l'
      | _, _ => match cons_apply c e with Some c' => fold_tolerant start c' l' | None => None end
      end
  end.

(* W1 (conclusion audit): two clauses the property text has and the acceptance condition did not.

   (1) "terminated" only when it "falls behind by more than its buffer": a subscription reported dropped was
       delivered at least `cap` items (received + still queued + burst blocks).  Without it a subscription
       dropped for no reason was accepted whenever what it had received was a prefix (sequential mode) and
       without any condition at all in concurrent mode.  (Check/C08S_Check.v has this clause, drop_justified,
       for its own cases only.)

   (2) a with-forks subscription: its burst (plain blocks, so_forks) was not looked at by the property at all,
       and in concurrent mode nothing tied the burst to the position of the first later event.  Now: every
       block of the burst exactly once, and the join: p = number of hub events before the first event the
       subscription received after its burst (known in sequential mode; in concurrent mode the later events
       are a suffix of the log, so p = |log| - |later|); the block of the last New / New+Irreversible event
       before p is the hub's head at the snapshot, it is stored, so when its number is at or above the
       requested start it is in the burst.  A block processed between the computation of the burst and the
       registration (registration not atomic with block processing) makes that block the head before p
       without being in the burst. *)
Definition head_before (l : list event) : option block :=
  fold_left (fun acc e => if step_eqb (estep e) SNew || step_eqb (estep e) SNewIrr then Some (eblk e) else acc) l None.

Fixpoint nodupN (l : list N) : bool :=
  match l with [] => true | x :: l' => negb (memN x l') && nodupN l' end.

Definition c08_drop_justified (o : sub_obs) : bool :=
  negb (so_dropped o) || (so_cap o <=? N.of_nat (length (concat (so_chunks o)) + length (so_forks o))).

Definition c08_forks_ok (mode : N) (log : list event) (log_at : list N) (o : sub_obs) (rest : list event) : bool :=
  if negb (so_kind o =? 3) then true else
  nodupN (ids (so_forks o)) &&
  (if (mode =? 1) && so_dropped o then true else
   let p := if mode =? 0 then N.to_nat (nth (N.to_nat (so_at o)) log_at 0) else (length log - length rest)%nat in
   match head_before (firstn p log) with
   | None => true
   | Some hb => (bnum hb <? so_start o) || memN (bid hb) (ids (so_forks o))
   end).

Definition c08_sub_ok (mode : N) (log : list event) (log_at : list N) (o : sub_obs) : bool :=
  if negb (so_served o) then true else
  let recv := concat (so_chunks o) in
  let nburst := N.to_nat (so_cap o - 100) in
  let burst := if so_kind o =? 3 then [] else firstn nburst recv in
  let rest := if so_kind o =? 3 then recv else skipn nburst recv in
  c08_drop_justified o && c08_forks_ok mode log log_at o rest &&
  (* after its burst a subscription receives every later hub event, in order, exactly once *)
  (if so_dropped o then
     (if mode =? 0 then is_prefix rest (skipn (N.to_nat (nth (N.to_nat (so_at o)) log_at 0)) log) else true)
   else
     (if mode =? 0 then events_eqb rest (skipn (N.to_nat (nth (N.to_nat (so_at o)) log_at 0)) log)
      else is_suffix_from (length log) rest log)) &&
  (* burst + later events leave the consumer where a consumer that never disconnected is *)
  (so_dropped o || (so_kind o =? 3) ||
   match cons_fold cons0 log with
   | None => false
   | Some cm =>
       if (so_kind o =? 2) || (so_kind o =? 1) then
         (* from a number / through a cursor: a consumer starting empty at `start` *)
         match fold_tolerant (so_start o) cons0 recv with
         | Some c' => eqb_list (ids (filter (fun b => so_start o <=? bnum b) (cs_stack c')))
                               (ids (filter (fun b => so_start o <=? bnum b) (cs_stack cm)))
         | None => false end
       else
         (* from a cursor: the consumer holds what the stream had delivered at the cursor's event *)
         match so_cur o with
         | None => true
         | Some cu =>
             let matches_cursor (e : event) :=
               ref_eqb (ecblk e) (cu_blk cu) &&
               (step_eqb (estep e) (cu_step cu) || (step_eqb (cu_step cu) SNew && step_eqb (estep e) SNewIrr)) in
             let fix upto (l : list event) (acc : list event) : option (list event) :=
               match l with
               | [] => None
               | e :: l' => if matches_cursor e then Some (acc ++ [e]) else upto l' (acc ++ [e])
               end in
             match upto log [] with
             | None => true
             | Some pre =>
                 match cons_fold cons0 pre with
                 | None => false
                 | Some ck0 =>
                     let ck := mkCons (cs_stack ck0) (length (filter (fun b => bnum b <=? rn (cu_lib cu)) (cs_stack ck0))) true in
                     match fold_tolerant 0 ck recv with
                     | Some c' => eqb_list (ids (cs_stack c')) (ids (cs_stack cm))
                     | None => false end
                 end
             end
         end
   end).

Definition c08_prop (k : c08_case) : bool :=
  match k with
  | C08Skip => true
  | mkC08 mode first kept boot live ops log log_at subs nsubs pushed =>
      forallb (c08_sub_ok mode log log_at) subs &&
      (* every served subscription that was not dropped is still registered *)
      (N.of_nat (length (filter (fun o => so_served o && negb (so_dropped o)) subs)) =? nsubs)
  end.

Definition c08_verdict (k : c08_case) : N := (if c08_corresponds k then 0 else 1) + (if c08_prop k then 0 else 2).
Definition c08_verdicts (l : list c08_case) := nonzero (map c08_verdict l).
Definition c08_in_scope (k : c08_case) : bool := match k with C08Skip => false | _ => true end.

(* the case as the harness writes it: the observation with the per-push one-block passes *)
Inductive c08x_case := mkC08X (passes : list (list block)) (k : c08_case).
Definition c08x_verdict (x : c08x_case) : N :=
  match x with mkC08X passes k => (if c08_corresponds_p passes k then 0 else 1) + (if c08_prop k then 0 else 2) end.
Definition c08x_verdicts (l : list c08x_case) := nonzero (map c08x_verdict l).
Definition c08x_in_scope (x : c08x_case) : bool := match x with mkC08X _ k => c08_in_scope k end.
