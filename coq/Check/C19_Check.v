(* Correspondence + property checker for C19, evaluated by the driver with vm_compute on the
   observations of the real bstream.Range code.  Verdict codes:
     0 ok | 1 model and implementation differ | 2 the boolean form of the property rejects the
     implementation's observation | 3 both | 4 implementation panicked | 5 implementation hung
     (watchdog) | 6 Split union clause only: the chunks of a both-exclusive range lose exactly
     the inner boundaries (known finding; every other loss or surplus is code 2).
   The boolean property checkers below use plain arithmetic on N (no mod 2^64) under the
   property's guards and are computed from the observation, not from the model; their soundness
   w.r.t. Spec/C19_Spec.v is proved in Proofs/C19_CheckFacts.v. *)
From BV Require Import Base.Prelude Base.Decimal Model.Range Spec.C19_Spec.
Local Open Scope N_scope.

Inductive split_obs := OSplit (l : list range) | OSplitErr | OSplitPanic | OSplitHang.

Inductive c19_case :=
  (* r, n, size, candidate; Contains(n), ReachedEndBlock(n), Size(), Next(size), Previous(size),
     IsNext(candidate, size), IsNext(fresh copy of Next(size), size), panicked *)
| KMeth (r : range) (n sz : N) (cand : range)
        (o_contains o_reached : bool) (o_size : option N) (o_next o_prev : range)
        (o_isnext o_isnext_own : bool) (panic : bool)
  (* r, chunk size, Split(chunk), probes (n, r.Contains(n), exists chunk c. c.Contains(n)) *)
| KSplit (r : range) (chunk : N) (o : split_obs) (probes : list (N * (bool * bool)))
  (* text, WithExclusiveStart?, WithExclusiveEnd?, ParseRange(text, opts) *)
| KParse (s : str) (exs exe : bool) (o : parse_res)
  (* 0 NewOpenRange(a) | 1 NewRangeExcludingEnd(a,b) | 2 NewInclusiveRange(a,b) |
     3 NewRangeContaining(a,b) *)
| KCtor (kind a b : N) (o : ctor_res).

(* ---- boolean forms of the specification ---- *)
Definition range_okb (r : range) : bool :=
  (rstart r <? two64) &&
  match rend r with Some e => (e <? two64) && (rstart r <? e) | None => true end.

Definition in_rangeb (r : range) (n : N) : bool :=
  (if rexs r then rstart r <? n else rstart r <=? n) &&
  match rend r with None => true | Some e => if rexe r then n <? e else n <=? e end.

Definition reachedb (r : range) (n : N) : bool :=
  match rend r with None => false | Some e => e <=? n + b2n (rexe r) end.

Definition sizeb (r : range) : option N :=
  match rend r with None => None | Some e => Some (e - rstart r) end.

(* Next under its guard; None = guard does not hold, nothing is claimed *)
Definition nextb (r : range) (sz : N) : option range :=
  match rend r with
  | Some e => if e + sz <? two64 then Some (mkRange e (Some (e + sz)) (rexs r) (rexe r)) else None
  | None => if rstart r + sz <? two64 then Some (mkRange (rstart r + sz) None (rexs r) (rexe r)) else None
  end.

Definition prevb (r : range) (sz : N) : option range :=
  if sz <=? rstart r then
    Some (mkRange (rstart r - sz) (match rend r with Some _ => Some (rstart r) | None => None end) (rexs r) (rexe r))
  else None.

(* the chunk list is a chain from cs to e (see Proofs/RangeSplitFacts.v) *)
Fixpoint chainb (xs xe : bool) (chunk e cs : N) (l : list range) : bool :=
  match l with
  | [] => false
  | c :: t =>
      match t with
      | [] => range_eqb c (mkRange cs (Some e) xs xe) && (cs <? e) && (e - cs <=? chunk)
      | _ :: _ =>
          match rend c with
          | Some ce => range_eqb c (mkRange cs (Some ce) xs xe) && (cs <? ce) && (ce - cs <=? chunk) &&
                       (ce mod chunk =? 0) && (ce <? e) && chainb xs xe chunk e ce t
          | None => false
          end
      end
  end.

Fixpoint inner_boundsb (l : list range) : list N :=
  match l with
  | a :: ((_ :: _) as t) => match rend a with Some e => e :: inner_boundsb t | None => inner_boundsb t end
  | _ => []
  end.

(* ---- equality of outcomes ---- *)
Definition split_corr (o : split_obs) (m : split_res) : bool :=
  match o, m with
  | OSplit l, SplitOk l' => list_eqb range_eqb l l'
  | OSplitErr, SplitErrOpen => true
  | OSplitPanic, SplitPanic => true
  | _, _ => false
  end.

Definition parse_res_eqb (a b : parse_res) : bool :=
  match a, b with
  | ParseOk x, ParseOk y => range_eqb x y
  | ParseErr, ParseErr => true
  | ParsePanic, ParsePanic => true
  | _, _ => false
  end.

Definition ctor_res_eqb (a b : ctor_res) : bool :=
  match a, b with
  | CtorOk x, CtorOk y => range_eqb x y
  | CtorErr, CtorErr => true
  | CtorPanic, CtorPanic => true
  | _, _ => false
  end.

Definition orange_eqb := opt_eqb range_eqb.

(* ---- "digits sep digits": the well-formed inputs of ParseRange, recognised independently ---- *)
Fixpoint span_digits (s : str) : str * str :=
  match s with
  | c :: s' => if is_digit c then let (d, r) := span_digits s' in (c :: d, r) else ([], s)
  | [] => ([], [])
  end.

Definition simple_form (s : str) : option (N * N) :=
  let (da, r1) := span_digits s in
  match da, r1 with
  | _ :: _, sep :: r2 =>
      if is_sep sep then
        let (db, r3) := span_digits r2 in
        match db, r3 with
        | _ :: _, [] => Some (dval_from 0 da, dval_from 0 db)
        | _, _ => None
        end
      else None
  | _, _ => None
  end.

Definition code (m p : bool) : N := (if m then 0 else 1) + (if p then 0 else 2).

Definition c19_verdict (k : c19_case) : N :=
  match k with
  | KMeth r n sz cand o_contains o_reached o_size o_next o_prev o_isnext o_own panic =>
      if panic then 4 else
      let m := Bool.eqb o_contains (contains r n) && Bool.eqb o_reached (reached r n) &&
               opt_eqb N.eqb o_size (size r) && range_eqb o_next (next r sz) &&
               range_eqb o_prev (previous r sz) && Bool.eqb o_isnext (is_next r cand sz) &&
               Bool.eqb o_own (is_next r (next r sz) sz) in
      let p :=
        (* Contains is claimed for every range *)
        Bool.eqb o_contains (in_rangeb r n) && o_own &&
        (negb (range_okb r) ||
         (Bool.eqb o_reached (reachedb r n) && opt_eqb N.eqb o_size (sizeb r) &&
          match nextb r sz with
          | Some x => range_eqb o_next x && Bool.eqb o_isnext (range_eqb cand x)
          | None => true
          end &&
          match prevb r sz with Some x => range_eqb o_prev x | None => true end)) in
      (* the range Next / Previous should produce does not exist in 64-bit heights (end + size >= 2^64, or size > start): the API has
         no error result and wraps around silently: code 7 (known finding) when everything else is right *)
      let wraps := range_okb r && (match nextb r sz with None => true | Some _ => false end ||
                                   match prevb r sz with None => true | Some _ => false end) in
      if ((code m p) =? 0) && wraps then 7 else code m p
  | KSplit r chunk o probes =>
      match o with
      | OSplitHang => 5
      | _ =>
          let m := split_corr o (split r chunk) in
          if negb (range_okb r) || (chunk =? 0) || (two64 <=? chunk) then code m true
          else
            match o with
            | OSplitPanic => 4
            | OSplitHang => 5
            | OSplitErr => code m match rend r with None => true | Some _ => false end
            | OSplit l =>
                match rend r with
                | None => code m false
                | Some e =>
                    let shape := chainb (rexs r) (rexe r) chunk e (rstart r) l in
                    let tt := rexs r && rexe r in
                    let honest := forallb (fun q => Bool.eqb (fst (snd q)) (in_rangeb r (fst q))) probes in
                    let proved := forallb (fun q => Bool.eqb (snd (snd q))
                                     (fst (snd q) && negb (tt && memN (fst q) (inner_boundsb l)))) probes in
                    let exact := forallb (fun q => Bool.eqb (snd (snd q)) (fst (snd q))) probes in
                    let c := code m (shape && honest && proved) in
                    if exact then c else if c =? 0 then 6 else c
                end
            end
      end
  | KParse s exs exe o =>
      match o with
      | ParsePanic => 4
      | _ =>
          let m := parse_res_eqb o (parse_range s exs exe) in
          let p1 := match o with
                    | ParseOk r => range_okb r && Bool.eqb (rexs r) exs && Bool.eqb (rexe r) exe &&
                                   match rend r with Some _ => true | None => false end
                    | _ => true
                    end in
          let p2 := match simple_form s with
                    | Some (a, b) =>
                        parse_res_eqb o (if (a <? two63) && (b <? two63) && (a <? b)
                                         then ParseOk (mkRange a (Some b) exs exe) else ParseErr)
                    | None => true
                    end in
          code m (p1 && p2)
      end
  | KCtor kind a b o =>
      let mres := if kind =? 0 then new_open_range a
                  else if kind =? 1 then new_range_excluding_end a b
                  else if kind =? 2 then new_inclusive_range a b
                  else new_range_containing a b in
      let m := ctor_res_eqb o mres in
      (* the expected outcome by plain arithmetic; None = nothing claimed (wrapping sum) *)
      let want : option ctor_res :=
        if kind =? 0 then Some (CtorOk (mkRange a None false true))
        else if kind =? 1 then Some (if a <? b then CtorOk (mkRange a (Some b) false true) else CtorPanic)
        else if kind =? 2 then Some (if a <? b then CtorOk (mkRange a (Some b) false false) else CtorPanic)
        else if b =? 0 then Some CtorErr
        else let st := a - a mod b in
             if st + b <? two64 then Some (CtorOk (mkRange st (Some (st + b)) false false)) else None in
      match want with
      | Some w =>
          if ctor_res_eqb o w then code m true
          else match o with CtorPanic => 4 | _ => code m false end
      | None => code m true
      end
  end.

Definition c19_verdicts (l : list c19_case) : list (N * N) := nonzero (map c19_verdict l).
