(* Which generated cases meet every hypothesis of c01_moving_lib_partial (Properties/C01_Moving.v) and of
   c02_moving_lib_partial (Properties/C02.v): filters for the evidence counter
   "cases_meeting_theorem_hypotheses".  driver/thm_C02.json carries c02_thm_scope_inline (the same
   function written with names visible from the check imports); the lemma below ties the two. *)
From BV Require Import Base.Prelude Model.Block Model.ForkDB Model.Forkable Spec.Consumer Spec.Universe
  Spec.C01_Moving_Spec Check.Fk_Check Check.Fk_Props_Check.
Local Open Scope N_scope.

Definition c01_moving_thm_scope (k : fk_case) : bool :=
  match k_mode k with
  | LExcl r0 | LIncl r0 => filt_nu k && moving_scope_b r0 (k_hist k)
  | LNone => c_hold (k_cfg k) && negb (c_incl (k_cfg k)) && filt_nu k && disc_scope_b (k_hist k)
  end.

Definition c02_thm_scope (k : fk_case) : bool :=
  match k_mode k with
  | LExcl r0 | LIncl r0 => filt_nu k && filt_irr k && moving_scope_b r0 (k_hist k)
  | LNone => c_hold (k_cfg k) && negb (c_incl (k_cfg k)) && filt_nu k && filt_irr k && disc_scope_b (k_hist k)
  end.

Definition c02_thm_scope_inline : fk_case -> bool :=
  (fun k => match k_mode k with
            | LExcl r0 | LIncl r0 =>
                filt_nu k && filt_irr k &&
                (BV.Spec.Universe.wf_b (k_hist k) && BV.Spec.Universe.lib_ok_b (LExcl r0) (k_hist k) && negb (ri r0 =? 0) &&
                 forallb (fun b => negb (bparent b =? 0) && (if bparent b =? ri r0 then rn r0 <? bnum b else true) &&
                                   (if bid b =? ri r0 then bnum b =? rn r0 else true)) (k_hist k))
            | LNone =>
                c_hold (k_cfg k) && negb (c_incl (k_cfg k)) && filt_nu k && filt_irr k &&
                (BV.Spec.Universe.wf_b (k_hist k) && BV.Spec.Universe.lib_ok_b LNone (k_hist k) &&
                 forallb (fun b => negb (bparent b =? 0)) (k_hist k))
            end).

Lemma c02_thm_scope_inline_eq k : c02_thm_scope_inline k = c02_thm_scope k.
Proof. reflexivity. Qed.
