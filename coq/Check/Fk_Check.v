(* Case type of the forkable family (C01, C02, C03, C04, C18) and the correspondence test
   "model run = observed run".  Each property adds its own checker over the observation. *)
From BV Require Import Base.Prelude Model.Block Model.ForkDB Model.Forkable Model.ForkableLookups Model.ForkableCache.
Local Open Scope N_scope.

Record look := mkLook {
  l_ids : list N; l_lowest : option N; l_canon : list N;
  l_allat : list (option (list N)); l_byhash : list bool }.

Record obs := mkObs {
  o_events : list event; o_result : result; o_head : option (ref * N); o_headnum : N;
  o_look : option look }.

Record fk_case := mkFkCase {
  k_cfg : config; k_mode : libmode; k_hist : list block; k_obs : list obs;
  k_qh : list N; k_qi : list N }.

Definition model_look (s : fstate) (qh qi : list N) : look :=
  mkLook (all_ids s) (lowest_block_num s) (map (canonical_block_at s) qh)
         (map (all_blocks_at s) qh) (map (get_block_by_hash s) qi).

Definition optN_eqb := opt_eqb N.eqb.
Definition look_eqb (a b : look) : bool :=
  eqb_list (l_ids a) (l_ids b) && optN_eqb (l_lowest a) (l_lowest b) && eqb_list (l_canon a) (l_canon b) &&
  list_eqb (opt_eqb eqb_list) (l_allat a) (l_allat b) && list_eqb Bool.eqb (l_byhash a) (l_byhash b).

Definition head_eqb (a b : option (ref * N)) : bool :=
  opt_eqb (fun x y => ref_eqb (fst x) (fst y) && (snd x =? snd y)) a b.

(* runs the model along the observed steps; true iff every observed step equals the model's *)
Fixpoint model_matches (cfg : config) (s : fstate) (h : list block) (os : list obs) (qh qi : list N) : bool :=
  match h, os with
  | [], [] => true
  | b :: rest, o :: os' =>
      let '(s', evs, r) := fk_step cfg s b in
      list_eqb event_eqb evs (o_events o) && result_eqb r (o_result o) &&
      head_eqb (head_info s') (o_head o) && (head_num s' =? o_headnum o) &&
      (match o_look o with Some l => look_eqb (model_look s' qh qi) l | None => true end) &&
      (match r with
       | ROk => model_matches cfg s' rest os' qh qi
       | _ => match os' with [] => true | _ => false end
       end)
  | _ :: _, [] => false   (* the implementation stopped although no error was reported *)
  | [], _ :: _ => false
  end.

Definition fk_corresponds (k : fk_case) : bool :=
  model_matches (k_cfg k) (fs_init (k_mode k)) (k_hist k) (k_obs k) (k_qh k) (k_qi k).

(* the same test for the model WITH the lastLongestChain cache (Model/ForkableCache.v): events, result and head of
   every step *)
Fixpoint model_matches_c (cfg : config) (sc : fstate * list seg) (h : list block) (os : list obs) : bool :=
  match h, os with
  | [], [] => true
  | b :: rest, o :: os' =>
      let '(sc', evs, r) := fk_step_c cfg sc b in
      list_eqb event_eqb evs (o_events o) && result_eqb r (o_result o) &&
      head_eqb (head_info (fst sc')) (o_head o) && (head_num (fst sc') =? o_headnum o) &&
      (match r with
       | ROk => model_matches_c cfg sc' rest os'
       | _ => match os' with [] => true | _ => false end
       end)
  | _ :: _, [] => false
  | [], _ :: _ => false
  end.

Definition fk_corresponds_c (k : fk_case) : bool :=
  model_matches_c (k_cfg k) (fs_init (k_mode k), []) (k_hist k) (k_obs k).

(* temporary: correspondence only *)
Definition fk_corr_verdict (k : fk_case) : N := if fk_corresponds k then 0 else 1.
Definition fk_corr_verdicts (l : list fk_case) : list (N * N) := nonzero (map fk_corr_verdict l).
