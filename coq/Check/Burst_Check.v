(* C05 / C09 (Forkable level): bursts answered by a hub-configured Forkable.
   Codes: 0 ok | 1 model/implementation mismatch | 2 property rejected on the observation | 3 both | 4 panic *)
From BV Require Import Base.Prelude Model.Block Model.ForkDB Model.Forkable Model.ForkableLookups Model.Burst
  Spec.Consumer Spec.Universe Check.Fk_Check.
Local Open Scope N_scope.

Record ans := mkAns {
  a_kind : N;            (* 0 from cursor | 1 through cursor | 2 from num | 3 from num with forks *)
  a_m : N;               (* instant: number of history blocks processed *)
  a_k : N;               (* global index of the event whose cursor is used *)
  a_cur : cursor; a_start : N;
  a_served : bool; a_events : list event; a_forks : list block;
  a_libon : bool;        (* cursor LIB is on the retained canonical chain (implementation lookups) *)
  a_blkret : bool;       (* cursor block is still retained (GetBlockByHash) *)
  a_lowest : N;          (* LowestBlockNum at that instant *)
  a_stored : list N;     (* ids retained at that instant (GetBlockByHash over the universe) *)
  a_panic : bool }.

Record br_case := mkBrCase { r_first : N; r_kept : N; r_hist : list block; r_steps : list obs; r_ans : list ans }.

Definition hub_cfg (k : br_case) : config :=
  mkCfg (r_first k) false true (r_kept k) false (mkFilter true true true true) None.

(* state after m blocks *)
Fixpoint state_after (cfg : config) (s : fstate) (h : list block) (m : nat) : fstate :=
  match m, h with
  | S m', b :: h' => let '(s', _, _) := fk_step cfg s b in state_after cfg s' h' m'
  | _, _ => s
  end.

Definition events_eqb := list_eqb event_eqb.

Definition model_answer_ok (k : br_case) (a : ans) : bool :=
  let s := state_after (hub_cfg k) (fs_init LNone) (r_hist k) (N.to_nat (a_m a)) in
  let cmp (b : burst) :=
    match b with
    | BOk evs => a_served a && negb (a_panic a) && events_eqb evs (a_events a)
    | BErr => negb (a_served a) && negb (a_panic a)
    | BPanic => a_panic a
    | BFuel => false
    end in
  if a_kind a =? 0 then cmp (blocks_from_cursor s (a_cur a))
  else if a_kind a =? 1 then cmp (hub_through_cursor s (a_start a) (a_cur a))
  else if a_kind a =? 2 then cmp (blocks_from_num s (a_start a))
  else match blocks_from_num_with_forks s (a_start a) with
       | Some bl => a_served a && list_eqb block_eqb bl (a_forks a)
       | None => negb (a_served a)
       end.

Definition br_corresponds (k : br_case) : bool :=
  model_matches (hub_cfg k) (fs_init LNone) (r_hist k) (r_steps k) [] [] &&
  forallb (model_answer_ok k) (r_ans k).

(* ---------------- the consumer, with finality ---------------- *)

Record cons := mkCons { cs_stack : list block; cs_nf : nat; cs_any : bool }.
Definition cons0 : cons := mkCons [] 0 false.

Definition cons_apply (c : cons) (e : event) : option cons :=
  let b := eblk e in
  match estep e with
  | SNew =>
      match cs_stack c with
      | top :: _ => if bparent b =? bid top then Some (mkCons (b :: cs_stack c) (cs_nf c) (cs_any c)) else None
      | [] => Some (mkCons [b] (cs_nf c) (cs_any c))
      end
  | SNewIrr =>
      if negb (Nat.eqb (cs_nf c) (length (cs_stack c))) then None else
      match cs_stack c with
      | top :: _ => if bparent b =? bid top then Some (mkCons (b :: cs_stack c) (S (cs_nf c)) true) else None
      | [] => Some (mkCons [b] 1 true)
      end
  | SUndo =>
      match cs_stack c with
      | top :: rest => if (bid b =? bid top) && Nat.ltb (cs_nf c) (length (cs_stack c))
                       then Some (mkCons rest (cs_nf c) (cs_any c)) else None
      | [] => None
      end
  | SIrr =>
      match nth_from_bottom (cs_stack c) (cs_nf c) with
      | Some p =>
          if bid p =? bid b then Some (mkCons (cs_stack c) (S (cs_nf c)) true)
          else if negb (cs_any c) && Nat.eqb (cs_nf c) 0 && (bparent p =? bid b)
               then Some (mkCons (cs_stack c) 0 true) else None
      | None => if negb (cs_any c) && Nat.eqb (cs_nf c) 0 then Some (mkCons (cs_stack c) 0 true) else None
      end
  | SStalled => Some c
  end.

Fixpoint cons_fold (c : cons) (l : list event) : option cons :=
  match l with
  | [] => Some c
  | e :: l' => match cons_apply c e with Some c' => cons_fold c' l' | None => None end
  end.

Definition ids (l : list block) : list N := map bid l.

Definition stream_events (steps : list obs) (m : nat) : list event := concat (map o_events (firstn m steps)).

(* last common block of two stacks (both newest first): the junction height *)
Definition junction_num (a b : list block) : N :=
  let fix go (x y : list block) (acc : N) : N :=
    match x, y with
    | p :: x', q :: y' => if bid p =? bid q then go x' y' (bnum p) else acc
    | _, _ => acc
    end in
  go (rev a) (rev b) 0.

Definition finals_of (c : cons) : list block := firstn (cs_nf c) (rev (cs_stack c)).

Fixpoint after_id (id : N) (l : list block) : option (list block) :=
  match l with
  | [] => None
  | b :: l' => if bid b =? id then Some l' else after_id id l'
  end.

(* the hub's chain as a from-start consumer sees it: when the discovered LIB block itself was never
   delivered as New (it is only announced irreversible) it still is the first block of the chain *)
Definition with_root (k : br_case) (c : cons) : cons :=
  match stream_events (r_steps k) (length (r_steps k)) with
  | [] => c
  | e0 :: _ =>
      match lookup (ri (elib e0)) (r_hist k) with
      | None => c
      | Some rb =>
          match rev (cs_stack c) with
          | bottom :: _ => if (bparent bottom =? bid rb) && negb (bid bottom =? bid rb)
                           then mkCons (cs_stack c ++ [rb]) (S (cs_nf c)) true else c
          | [] => c
          end
      end
  end.

(* … and below the LIB block the hub may still retain final ancestors (kept final blocks; in discovery mode blocks that
   arrived before the LIB was found): they belong to the retained canonical chain a from-number / through-cursor request is
   served from, although the never-disconnected subscriber was never given them *)
Fixpoint extend_down (fuel : nat) (U : list block) (stored : list N) (c : cons) : cons :=
  match fuel with
  | O => c
  | S f =>
      match rev (cs_stack c) with
      | bottom :: _ =>
          match lookup (bparent bottom) U with
          | Some p => if memN (bid p) stored && negb (bid p =? bid bottom) && (bnum p <? bnum bottom)
                      then extend_down f U stored (mkCons (cs_stack c ++ [p]) (S (cs_nf c)) true)
                      else c
          | None => c
          end
      | [] => c
      end
  end.
Definition with_retained (k : br_case) (a : ans) (c : cons) : cons :=
  extend_down (length (r_hist k)) (r_hist k) (a_stored a) (with_root k c).

Definition c05_answer_ok (k : br_case) (a : ans) : bool :=
  let all := stream_events (r_steps k) (length (r_steps k)) in
  let evm := stream_events (r_steps k) (N.to_nat (a_m a)) in
  match cons_fold cons0 (firstn (S (N.to_nat (a_k a))) all), cons_fold cons0 evm with
  | Some ck0, Some cm =>
      (* the consumer's knowledge of finality at the crash point is what its cursor says: every
         block it holds up to the cursor LIB height is final *)
      let ck := mkCons (cs_stack ck0)
                       (length (filter (fun b => bnum b <=? rn (cu_lib (a_cur a))) (cs_stack ck0))) true in
      if a_kind a =? 0 then
        (* serving obligation *)
        (negb (a_libon a && a_blkret a) || a_served a) &&
        (negb (a_served a) ||
         match cu_step (a_cur a) with
         | SNew | SUndo =>
             match cons_fold ck (a_events a) with
             | Some c' => eqb_list (ids (cs_stack c')) (ids (cs_stack cm)) && Nat.eqb (cs_nf c') (cs_nf cm)
             | None => false
             end
         | SIrr | SNewIrr =>
             let expected := match after_id (ri (cu_blk (a_cur a))) (finals_of cm) with
                             | Some l => l | None => finals_of cm end in
             eqb_list (ids (map eblk (filter (fun e => matches_irr (estep e)) (a_events a)))) (ids expected)
         | SStalled => true
         end)
      else if a_kind a =? 1 then
        negb (a_served a) ||
        match cu_step (a_cur a) with
        | SNew | SUndo =>
            if (a_start a <=? junction_num (cs_stack ck) (cs_stack cm)) then
              (* tolerance: finality announcements for blocks below the start block concern blocks
                 this consumer never received; they are ignored (cf. C07's "events for blocks below
                 the first delivered block aside") *)
              match cons_fold cons0 (filter (fun e => negb (step_eqb (estep e) SIrr && (bnum (eblk e) <? a_start a))) (a_events a)) with
              | Some c' =>
                  let cmr := with_retained k a cm in
                  let exp := filter (fun b => a_start a <=? bnum b) (cs_stack cmr) in
                  eqb_list (ids (cs_stack c')) (ids exp) &&
                  Nat.eqb (cs_nf c') (length (filter (fun b => a_start a <=? bnum b) (finals_of cmr)))
              | None => false
              end
            else true
        | _ => true
        end
      else true
  | _, _ => false
  end.

(* serving obligation of the THROUGH-cursor variant ("also the through-cursor variant from every start block at or
   below the junction"; "serves at least every cursor whose LIB lies on its retained canonical chain and whose block
   is still retained"): the request is for a retained canonical start block at or below the junction.
   0 = no obligation or served; 2 = refused (violation); 6 = refused in the one situation recorded as known finding
   C05-through-forked-below-hub-lib: the cursor block is on a fork whose junction the hub's LIB has passed. *)
Definition c05_through_obligation (k : br_case) (a : ans) : N :=
  if negb (a_kind a =? 1) || a_served a || a_panic a then 0 else
  let all := stream_events (r_steps k) (length (r_steps k)) in
  let evm := stream_events (r_steps k) (N.to_nat (a_m a)) in
  match cons_fold cons0 (firstn (S (N.to_nat (a_k a))) all), cons_fold cons0 evm with
  | Some ck, Some cm =>
      let cmr := with_retained k a cm in
      let j := junction_num (cs_stack ck) (cs_stack cm) in
      let start_ok := existsb (fun b => (bnum b =? a_start a) && memN (bid b) (a_stored a)) (cs_stack cmr) in
      if a_libon a && a_blkret a && start_ok && (a_lowest a <=? a_start a) && (a_start a <=? j) &&
         match cu_step (a_cur a) with SNew | SUndo => true | _ => false end
      then
        let forked := negb (memN (ri (cu_blk (a_cur a))) (ids (cs_stack cm))) in
        let libnum := match rev (finals_of cm) with l :: _ => bnum l | [] => 0 end in
        if forked && (j <? libnum) then 6 else 2
      else 0
  | _, _ => 0
  end.
Definition c05_through_code (k : br_case) : N :=
  if negb (wf_b (r_hist k) && lib_ok_b LNone (r_hist k)) then 0 else
  let cs := map (c05_through_obligation k) (r_ans k) in
  if existsb (N.eqb 2) cs then 2 else if existsb (N.eqb 6) cs then 6 else 0.

Definition c05_prop (k : br_case) : bool :=
  negb (wf_b (r_hist k) && lib_ok_b LNone (r_hist k)) || forallb (c05_answer_ok k) (r_ans k).

(* ---------------- W3 (conclusion audit): what `c05_answer_ok` leaves to the model comparison ----------------
   The property speaks of cursors as crash points ("any New or Undo cursor delivered"), the check takes "the consumer's knowledge
   of finality" from the cursor LIB, and the burst's items are delivered events like any other: a consumer that crashes in
   the middle of the burst resumes from the cursor of the last item it applied.  Hence, item by item, on the consumer
   state the fold reaches:
   - the item's cursor names the item's block;
   - its head is the hub's head (top of the never-disconnected consumer's stack);
   - its LIB is the consumer's final block after the item (when the consumer holds one; for a resume-from-cursor answer
     the resumed cursor's LIB otherwise);
   - an Undo names the junction: the block the consumer is on when the run of Undo items it belongs to is over. *)
Definition last_final (c : cons) : option block :=
  match rev (finals_of c) with b :: _ => Some b | [] => None end.

Fixpoint strip_undos (c : cons) (l : list event) : cons :=
  match l with
  | e :: l' => if step_eqb (estep e) SUndo
               then match cons_apply c e with Some c' => strip_undos c' l' | None => c end
               else c
  | [] => c
  end.

Fixpoint w3_walk (kind0 : bool) (cur : cursor) (head : option ref) (c : cons) (l : list event) : bool :=
  match l with
  | [] => true
  | e :: l' =>
      match cons_apply c e with
      | None => false
      | Some c' =>
          ref_eqb (ecblk e) (bref (eblk e)) &&
          match head with Some h => ref_eqb (ehead e) h | None => true end &&
          match last_final c' with
          | Some b => ref_eqb (elib e) (bref b)
          | None => negb kind0 || ref_eqb (elib e) (cu_lib cur)
          end &&
          (if step_eqb (estep e) SUndo then
             match ejunc e, cs_stack (strip_undos c l) with
             | Some j, top :: _ => ref_eqb j (bref top)
             | Some _, [] => true
             | None, _ => false
             end
           else true) &&
          w3_walk kind0 cur head c' l'
      end
  end.

Definition c05_answer_w3 (k : br_case) (a : ans) : bool :=
  let all := stream_events (r_steps k) (length (r_steps k)) in
  let evm := stream_events (r_steps k) (N.to_nat (a_m a)) in
  match cons_fold cons0 (firstn (S (N.to_nat (a_k a))) all), cons_fold cons0 evm with
  | Some ck0, Some cm =>
      let ck := mkCons (cs_stack ck0)
                       (length (filter (fun b => bnum b <=? rn (cu_lib (a_cur a))) (cs_stack ck0))) true in
      let head := match cs_stack cm with top :: _ => Some (bref top) | [] => None end in
      if negb (a_served a) then true else
      match cu_step (a_cur a) with
      | SNew | SUndo =>
          if a_kind a =? 0 then w3_walk true (a_cur a) head ck (a_events a)
          else if a_kind a =? 1 then
            if (a_start a <=? junction_num (cs_stack ck) (cs_stack cm)) then
              w3_walk false (a_cur a) head cons0
                (filter (fun e => negb (step_eqb (estep e) SIrr && (bnum (eblk e) <? a_start a))) (a_events a))
            else true
          else true
      | SIrr | SNewIrr =>
          (* final-only variant: each irreversible item's cursor names the item's block and carries it as LIB *)
          if a_kind a =? 0 then
            forallb (fun e => negb (matches_irr (estep e)) ||
                              (ref_eqb (ecblk e) (bref (eblk e)) && ref_eqb (elib e) (bref (eblk e)))) (a_events a)
          else true
      | _ => true
      end
  | _, _ => true
  end.

Definition c05_prop_w3 (k : br_case) : bool :=
  negb (wf_b (r_hist k) && lib_ok_b LNone (r_hist k)) || forallb (c05_answer_w3 k) (r_ans k).

Definition br_panicked (k : br_case) : bool :=
  existsb a_panic (r_ans k) || existsb (fun o => result_eqb (o_result o) RPanic) (r_steps k).

Definition c05_verdict (k : br_case) : N :=
  if br_panicked k then 4 else
  let base := (if br_corresponds k then 0 else 1) + (if c05_prop k && c05_prop_w3 k && negb (c05_through_code k =? 2) then 0 else 2) in
  if (base =? 0) && (c05_through_code k =? 6) then 6 else base.
Definition c05_verdicts (l : list br_case) := nonzero (map c05_verdict l).
Definition c05_in_scope (k : br_case) : bool :=
  wf_b (r_hist k) && lib_ok_b LNone (r_hist k) && existsb a_served (r_ans k).

(* ---------------- C09 at the Forkable level: from-num snapshots ---------------- *)

Fixpoint drop_until_num (n : N) (l : list block) : list block :=
  match l with
  | [] => []
  | b :: l' => if bnum b =? n then l else drop_until_num n l'
  end.

Fixpoint nondecreasing (l : list block) : bool :=
  match l with
  | a :: ((b :: _) as l') => (bnum a <=? bnum b) && nondecreasing l'
  | _ => true
  end.

Fixpoint nodupN (l : list N) : bool :=
  match l with [] => true | x :: l' => negb (memN x l') && nodupN l' end.

Definition c09_answer_ok (k : br_case) (a : ans) : bool :=
  let evm := stream_events (r_steps k) (N.to_nat (a_m a)) in
  match cons_fold cons0 evm with
  | None => false
  | Some cm0 =>
      let cm := with_retained k a cm0 in
      let canon := rev (cs_stack cm) in                 (* oldest first *)
      let servable := existsb (fun b => (bnum b =? a_start a) && memN (bid b) (a_stored a) && (a_lowest a <=? bnum b)) canon in
      if a_kind a =? 2 then
        Bool.eqb (a_served a) servable &&
        (negb (a_served a) ||
         let exp := drop_until_num (a_start a) canon in
         let nfin := length (finals_of cm) in
         let nskip := (length canon - length exp)%nat in
         eqb_list (ids (map eblk (a_events a))) (ids exp) &&
         (* steps: new+irreversible up to the LIB, New above it *)
         forallb (fun p => let '(i, e) := p in
                    step_eqb (estep e) (if Nat.ltb (nskip + i) nfin then SNewIrr else SNew))
                 (combine (seq 0 (length (a_events a))) (a_events a)) &&
         (* cursors: block = the block, head = hub head, LIB height never above the block *)
         forallb (fun e => ref_eqb (ecblk e) (bref (eblk e)) &&
                           match cs_stack cm with top :: _ => ref_eqb (ehead e) (bref top) | [] => false end &&
                           (rn (elib e) <=? bnum (eblk e))) (a_events a))
      else if a_kind a =? 3 then
        negb (a_served a) ||
        (nondecreasing (a_forks a) && nodupN (ids (a_forks a)) &&
         forallb (fun b => (a_start a <=? bnum b) && memN (bid b) (a_stored a)) (a_forks a) &&
         forallb (fun id => match lookup id (r_hist k) with
                            | Some b => negb (a_start a <=? bnum b) || memN id (ids (a_forks a))
                            | None => true end) (a_stored a))
      else true
  end.

Definition c09f_prop (k : br_case) : bool :=
  negb (wf_b (r_hist k) && lib_ok_b LNone (r_hist k)) || forallb (c09_answer_ok k) (r_ans k).
Definition c09f_verdict (k : br_case) : N :=
  if br_panicked k then 4 else (if br_corresponds k then 0 else 1) + (if c09f_prop k then 0 else 2).
Definition c09f_verdicts (l : list br_case) := nonzero (map c09f_verdict l).
