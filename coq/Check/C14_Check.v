(* Correspondence + property checker for C14, evaluated by the driver with vm_compute on the
   observations of the real bstream.Cursor code.  Verdict codes:
     0 ok | 1 model and implementation differ | 2 property checker rejects the implementation's
     observation | 3 both | 4 implementation panicked *)
From BV Require Import Base.Prelude Base.Decimal Model.CursorCodec.
Local Open Scope N_scope.

Inductive c14_case :=
  (* cursor, String(c), FromString(String(c)), CursorFromOpaque(ToOpaque(c)), panicked *)
| CCur (c : cursor) (o_str : str) (o_dec : option cursor) (o_opq : option cursor) (panic : bool)
  (* text, FromString(text), FromString(String(decoded)) when decoded, panicked *)
| CStr (s : str) (o_dec : option cursor) (o_re : option cursor) (panic : bool)
  (* foreign opaque text: CursorFromOpaque(text), FromString(String(decoded)), panicked *)
| COpq (o_dec : option cursor) (o_re : option cursor) (panic : bool).

Definition ocur_eqb := opt_eqb cursor_eqb.

Definition expected_layout (c : cursor) : N :=
  if eqb_list (rid (chead c)) (rid (cblk c)) then 1
  else if eqb_list (rid (cblk c)) (rid (clib c)) then 2 else 3.

(* W1: boolean form of the fourth conjunct of Spec.C14_layout (segment count of the chosen layout) *)
Definition expected_segments (c : cursor) : nat := if expected_layout c =? 3 then 8%nat else 6%nat.

Definition reenc_ok (dec re : option cursor) : bool :=
  match dec with
  | None => true
  | Some c => cursor_ok c && match re with Some c' => cursor_equiv c' c | None => false end
  end.

Definition c14_verdict (k : c14_case) : N :=
  match k with
  | CCur c o_str o_dec o_opq panic =>
      if panic then 4 else
      let m := eqb_list o_str (cursor_string c) &&
               (negb (cursor_ok c) || ocur_eqb o_dec (from_string (cursor_string c))) in
      let p := negb (cursor_ok c && alias_ok c) ||
               (ocur_eqb o_dec (Some c) && ocur_eqb o_opq (Some c) &&
                (layout_of o_str =? expected_layout c) &&
                Nat.eqb (length (split colon o_str)) (expected_segments c)) in
      (if m then 0 else 1) + (if p then 0 else 2)
  | CStr s o_dec o_re panic =>
      if panic then 4 else
      let m := ocur_eqb o_dec (from_string s) in
      let p := reenc_ok o_dec o_re in
      (if m then 0 else 1) + (if p then 0 else 2)
  | COpq o_dec o_re panic =>
      if panic then 4 else if reenc_ok o_dec o_re then 0 else 2
  end.

Definition c14_verdicts (l : list c14_case) : list (N * N) := nonzero (map c14_verdict l).
