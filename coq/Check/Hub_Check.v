(* C09: the real ForkableHub bootstrapped from one-block passes and live blocks.
   Codes: 0 ok | 1 model/implementation mismatch | 2 property rejected on the observation | 3 both | 4 panic *)
From BV Require Import Base.Prelude Model.Block Model.ForkDB Model.Forkable Model.ForkableLookups Model.Burst Model.Hub
  Spec.Consumer Spec.Universe Spec.ForkChoice Check.Fk_Check Check.Burst_Check.
Local Open Scope N_scope.

Record hub_obs := mkHObs {
  ho_result : result;
  ho_ready : bool; ho_lowest : N; ho_head : option (ref * N);
  ho_tracker : list event;        (* drained from the never-disconnected subscription after this block *)
  ho_ans : list ans }.            (* kinds 2 (from num) and 3 (with forks) *)

Record hub_case := mkHubCase {
  hc_first : N; hc_kept : N;
  hc_live : list (block * pass);
  hc_obs : list hub_obs }.

Definition hub_answer_model_ok (s : fstate) (ready : bool) (a : ans) : bool :=
  if a_kind a =? 2 then
    match blocks_from_num s (a_start a) with
    | BOk evs => a_served a && events_eqb evs (a_events a)
    | BErr => negb (a_served a)
    | _ => false
    end
  else match blocks_from_num_with_forks s (a_start a) with
       | Some bl => a_served a && list_eqb block_eqb bl (a_forks a)
       | None => negb (a_served a)
       end.

(* tracked = has the tracking subscription been created (at the first ready instant) *)
Fixpoint hub_matches (first kept : N) (h : hub) (tracked : bool) (l : list (block * pass)) (os : list hub_obs) : bool :=
  match l, os with
  | [], [] => true
  | (b, p) :: l', o :: os' =>
      let '(h', evs, r) := hub_live first kept h p b in
      let '(exp_tracker, tracked') :=
        if tracked then (Some evs, true)
        else if h_ready h' then
          match blocks_from_num (h_f h') (hub_lowest h') with
          | BOk e => (Some e, true)
          | BErr => (Some [], false)
          | _ => (None, false) end
        else (Some [], false) in
      result_eqb r (ho_result o) && Bool.eqb (h_ready h') (ho_ready o) && (hub_lowest h' =? ho_lowest o) &&
      head_eqb (hub_head h') (ho_head o) &&
      match exp_tracker with Some e => events_eqb e (ho_tracker o) | None => false end &&
      forallb (hub_answer_model_ok (h_f h') (h_ready h')) (ho_ans o) &&
      match r with ROk => hub_matches first kept h' tracked' l' os' | _ => match os' with [] => true | _ => false end end
  | _, _ => false
  end.

Definition hub_corresponds (k : hub_case) : bool :=
  hub_matches (hc_first k) (hc_kept k) hub_init false (hc_live k) (hc_obs k).

(* ---- property checker over the observation ---- *)

(* every block offered so far: pass blocks (if the pass may have been used) and live blocks *)
Definition offered (l : list (block * pass)) : list block :=
  flat_map (fun bp => match snd bp with PBlocks bl => bl ++ [fst bp] | PNil => [fst bp] end) l.

Definition universe_of (k : hub_case) : list block := offered (hc_live k).

Fixpoint c09_follow (k : hub_case) (c : cons) (was_ready : bool) (seen : list (block * pass))
         (l : list (block * pass)) (os : list hub_obs) : bool :=
  match l, os with
  | (b, p) :: l', o :: os' =>
      let seen' := seen ++ [(b, p)] in
      match cons_fold c (ho_tracker o) with
      | None => false
      | Some c' =>
          (* readiness is a latch and is reached only on a live block that links, through blocks
             received so far, to the height it declares as LIB *)
          (negb was_ready || ho_ready o) &&
          (negb (ho_ready o && negb was_ready) ||
           (* W1: "through RECEIVED blocks" - of the blocks offered so far only those the hub holds at this instant
              (GetBlockByHash) count; a pass that was offered but never run, or blocks under its start block, do not *)
           let recv := match ho_ans o with
                       | a :: _ => filter (fun x => memN (bid x) (a_stored a)) (offered seen')
                       | [] => offered seen' end in
           match ancestor_at (S (length recv)) recv b (blib b) with Some _ => true | None => false end) &&
          (* not ready: no head, lowest is 0 (the property says nothing about snapshots before readiness) *)
          (ho_ready o || ((ho_lowest o =? 0) && match ho_head o with None => true | Some _ => false end)) &&
          (* ready: head = tip of the tracked consumer; answers against the tracked chain *)
          (negb (ho_ready o) ||
           (match ho_head o, cs_stack c' with
            | Some (r, _), top :: _ => ri r =? bid top
            | _, _ => false end &&
            forallb (fun a =>
               let canon := rev (cs_stack c') in
               (* W1: "retained" is what the hub holds (GetBlockByHash), not what LowestBlockNum says; the reported lowest number
                  is then checked against it: it is the number of a retained canonical block (and, by the clause above, served
                  when asked - the harness always asks at it), and nothing below it is served *)
               let servable := existsb (fun x => (bnum x =? a_start a) && memN (bid x) (a_stored a)) canon in
               existsb (fun x => (bnum x =? ho_lowest o) && memN (bid x) (a_stored a)) canon &&
               if a_kind a =? 2 then
                 Bool.eqb (a_served a) servable &&
                 (negb (a_start a <? ho_lowest o) || negb (a_served a)) &&
                 (negb (a_served a) ||
                  let exp := drop_until_num (a_start a) canon in
                  let nfin := cs_nf c' in
                  let nskip := (length canon - length exp)%nat in
                  eqb_list (ids (map eblk (a_events a))) (ids exp) &&
                  forallb (fun q => let '(i, e) := q in
                             step_eqb (estep e) (if Nat.ltb (nskip + i) nfin then SNewIrr else SNew))
                          (combine (seq 0 (length (a_events a))) (a_events a)) &&
                  forallb (fun e => ref_eqb (ecblk e) (bref (eblk e)) &&
                                    match cs_stack c' with top :: _ => ref_eqb (ehead e) (bref top) | [] => false end &&
                                    (rn (elib e) <=? bnum (eblk e))) (a_events a))
               else
                 (* W1: a ready hub may refuse a with-forks request only when it retains no block at or above the number *)
                 (a_served a ||
                  forallb (fun id => match lookup id (universe_of k) with
                                     | Some x => negb (a_start a <=? bnum x)
                                     | None => true end) (a_stored a)) &&
                 (negb (a_served a) ||
                 (nondecreasing (a_forks a) && nodupN (ids (a_forks a)) &&
                  forallb (fun x => (a_start a <=? bnum x) && memN (bid x) (a_stored a)) (a_forks a) &&
                  forallb (fun id => match lookup id (universe_of k) with
                                     | Some x => negb (a_start a <=? bnum x) || memN id (ids (a_forks a))
                                     | None => true end) (a_stored a))))
               (ho_ans o))) &&
          c09_follow k c' (ho_ready o) seen' l' os'
      end
  | _, _ => true
  end.

Definition c09_in_scope (k : hub_case) : bool :=
  wf_b (universe_of k) && lib_ok_b LNone (universe_of k).
Definition c09_prop (k : hub_case) : bool :=
  negb (c09_in_scope k) || c09_follow k cons0 false [] (hc_live k) (hc_obs k).
Definition hub_panicked (k : hub_case) : bool :=
  existsb (fun o => result_eqb (ho_result o) RPanic || existsb a_panic (ho_ans o)) (hc_obs k).
Definition c09_verdict (k : hub_case) : N :=
  if hub_panicked k then 4 else (if hub_corresponds k then 0 else 1) + (if c09_prop k then 0 else 2).
Definition c09_verdicts (l : list hub_case) := nonzero (map c09_verdict l).
Definition c09_scope (k : hub_case) : bool := c09_in_scope k && existsb ho_ready (hc_obs k).
