(* Correspondence + property checker for C20, evaluated by the driver with vm_compute on the
   observations of the real blockstream.Server.  Verdict codes:
     0 ok | 1 model and implementation differ | 2 the property checker rejects the
     implementation's observation | 3 both | 4 the implementation panicked, blocked or hung.
   CSeq: one sequential operation sequence (compared with the model AND checked by the property).
   CConc: one concurrent stress run (goroutines), checked by the property checker only. *)
From BV Require Import Base.Prelude Model.BlockServer Spec.C20_Spec.
Local Open Scope Z_scope.

(* final observation of one subscription handle: queue left in the channel, closed field, cap *)
Inductive subobs := SObs (queue : list N) (closed : bool) (cap : N).

(* one subscriber of a concurrent run: requested burst, everything it received (drained at the
   end), whether its channel was found closed, whether it unsubscribed during the run *)
Inductive concsub := CSub (burst : Z) (recv : list N) (closed : bool) (unsub : bool).

Inductive c20_case :=
| CSeq (buffered : bool) (size : Z) (ops : list op) (obs : list oobs) (fin : list subobs) (hang : bool)
| CConc (size : Z) (pushes : list N) (win : list N) (rdy : bool) (subs : list concsub) (bad : bool).

(* ------------------------------------------------------------------ equality tests *)

Definition cres_eqb (a b : cres) : bool :=
  match a, b with
  | CGot x, CGot y => N.eqb x y
  | CEmpty, CEmpty => true
  | CClosed, CClosed => true
  | _, _ => false
  end.

Definition onat_eqb (a b : option nat) : bool := opt_eqb Nat.eqb a b.

Definition oobs_eqb (a b : oobs) : bool :=
  match a, b with
  | ObPush w r, ObPush w' r' => eqb_list w w' && Bool.eqb r r'
  | ObSub h c q, ObSub h' c' q' => onat_eqb h h' && N.eqb c c' && N.eqb q q'
  | ObUnsub n, ObUnsub n' => N.eqb n n'
  | ObCons r, ObCons r' => cres_eqb r r'
  | ObBlocked, ObBlocked => true
  | ObPanic, ObPanic => true
  | _, _ => false
  end.

Definition subobs_eqb (a b : subobs) : bool :=
  match a, b with SObs q c n, SObs q' c' n' => eqb_list q q' && Bool.eqb c c' && N.eqb n n' end.

Definition sub_final (s : sub) : subobs := SObs (s_q s) (s_closed s) (s_cap s).

(* ------------------------------------------------------------------ model side (code 1) *)

Definition model_agrees (buffered : bool) (size : Z) (ops : list op) (obs : list oobs) (fin : list subobs) : bool :=
  let '(sv, tr) := run (init_server buffered size) ops in
  list_eqb oobs_eqb tr obs && list_eqb subobs_eqb (map sub_final (sv_subs sv)) fin.

(* ------------------------------------------------------------------ property side (code 2) *)

(* every operation returned with an observation of its own kind *)
Fixpoint shape_ok (ops : list op) (obs : list oobs) : bool :=
  match ops, obs with
  | [], [] => true
  | o :: ops', ob :: obs' =>
      (match o, ob with
       | OPush _, ObPush _ _ => true
       | OSubscribe _, ObSub _ _ _ => true
       | OAttach _, ObSub (Some _) _ _ => true
       | OUnsubscribe _, ObUnsub _ => true
       | OConsume _, ObCons _ => true
       | _, _ => false
       end) && shape_ok ops' obs'
  | _, _ => false
  end.

(* after every PushBlock the window is the reference window of the pushes so far and Ready() says
   whether `size` distinct blocks were seen *)
Fixpoint win_check (buffered : bool) (size : Z) (wref seen : list N) (ops : list op) (obs : list oobs) : bool :=
  match ops, obs with
  | OPush x :: ops', ObPush w r :: obs' =>
      let wref' := if buffered then win_step size wref x else [] in
      let seen' := if memN x seen then seen else x :: seen in
      eqb_list w wref' &&
      Bool.eqb r (if buffered then zlen seen' >=? size else true) &&
      win_check buffered size wref' seen' ops' obs'
  | _ :: ops', _ :: obs' => win_check buffered size wref seen ops' obs'
  | _, _ => true
  end.

(* what subscriber k received through its receives *)
Fixpoint recv_of (k : nat) (ops : list op) (obs : list oobs) : list N :=
  match ops, obs with
  | OConsume k' :: ops', ObCons r :: obs' =>
      match r with
      | CGot x => if Nat.eqb k' k then x :: recv_of k ops' obs' else recv_of k ops' obs'
      | _ => recv_of k ops' obs'
      end
  | _ :: ops', _ :: obs' => recv_of k ops' obs'
  | _, _ => []
  end.

(* delivery to the subscription created with burst B and capacity cap, followed by post *)
Definition sub_check (k : nat) (cap : N) (B : list N) (post : list op) (obs : list oobs) (fin : list subobs) : bool :=
  let v := ref_sub cap (mkView [] B false) (proj k true post) in
  eqb_list (recv_of k post obs) (v_recv v) &&
  match nth_error fin k with
  | Some (SObs q cl c) => eqb_list q (v_q v) && Bool.eqb cl (v_closed v) && N.eqb c cap
  | None => false
  end.

(* w = the window the implementation showed after its last PushBlock; nh = next handle *)
Fixpoint deliv_check (w : list N) (nh : nat) (ops : list op) (obs : list oobs) (fin : list subobs) : bool :=
  match ops, obs with
  | o :: ops', ob :: obs' =>
      match o, ob with
      | OPush _, ObPush w' _ => deliv_check w' nh ops' obs' fin
      | OSubscribe b, ObSub (Some h) cap ql =>
          let B := burst_of b w in
          Nat.eqb h nh && N.eqb cap (Z.to_N (chan_base + zlen B)) && N.eqb ql (N.of_nat (length B)) &&
          sub_check nh cap B ops' obs' fin && deliv_check w (S nh) ops' obs' fin
      | OAttach c, ObSub (Some h) cap ql =>
          Nat.eqb h nh && N.eqb cap c && N.eqb ql 0 &&
          sub_check nh cap [] ops' obs' fin && deliv_check w (S nh) ops' obs' fin
      | _, _ => deliv_check w nh ops' obs' fin     (* subscribe returning nil is an error value: allowed *)
      end
  | _, _ => true
  end.

Definition seq_property (buffered : bool) (size : Z) (ops : list op) (obs : list oobs) (fin : list subobs) : bool :=
  shape_ok ops obs && win_check buffered size [] [] ops obs && deliv_check [] 0 ops obs fin.

(* ---- W1 (conclusion audit): what the CONSUMER of subscription k sees at each of its receives.
   sub_check compares the blocks received, the final queue and the final `closed` FIELD, but never
   whether the CHANNEL was seen closed ("... at which point only that subscriber's channel is
   closed"): an implementation that sets the field without closing the channel (the subscriber is
   never told) or that closes the channel of a subscription that never overflowed passed
   seq_property and was reported as a model mismatch only.  vis_check compares every receive result
   (got x / empty / closed) of every handle with the reference automaton of Spec.C20_Spec. *)
Fixpoint cons_of (k : nat) (ops : list op) (obs : list oobs) : list cres :=
  match ops, obs with
  | OConsume k' :: ops', ObCons r :: obs' =>
      if Nat.eqb k' k then r :: cons_of k ops' obs' else cons_of k ops' obs'
  | _ :: ops', _ :: obs' => cons_of k ops' obs'
  | _, _ => []
  end.

Fixpoint ref_cons (cap : N) (v : sview) (evs : list sev) : list cres :=
  match evs with
  | [] => []
  | e :: evs' =>
      let v' := ref_step cap v e in
      match e with
      | EvCons =>
          (match v_q v with
           | x :: _ => CGot x
           | [] => if v_closed v then CClosed else CEmpty
           end) :: ref_cons cap v' evs'
      | EvPush _ => ref_cons cap v' evs'
      end
  end.

Definition cons_check (k : nat) (cap : N) (B : list N) (post : list op) (obs : list oobs) : bool :=
  list_eqb cres_eqb (cons_of k post obs) (ref_cons cap (mkView [] B false) (proj k true post)).

Fixpoint vis_check (w : list N) (nh : nat) (ops : list op) (obs : list oobs) : bool :=
  match ops, obs with
  | o :: ops', ob :: obs' =>
      match o, ob with
      | OPush _, ObPush w' _ => vis_check w' nh ops' obs'
      | OSubscribe b, ObSub (Some _) cap _ =>
          cons_check nh cap (burst_of b w) ops' obs' && vis_check w (S nh) ops' obs'
      | OAttach _, ObSub (Some _) cap _ =>
          cons_check nh cap [] ops' obs' && vis_check w (S nh) ops' obs'
      | _, _ => vis_check w nh ops' obs'
      end
  | _, _ => true
  end.

(* ---- concurrent runs: per subscriber, received = burst at some instant x of the push sequence
   followed by the contiguous run of pushes starting at x; complete unless closed or unsubscribed;
   closed only after at least cap = 200 + |burst| blocks were sent to it *)

Fixpoint is_prefix (a b : list N) : bool :=
  match a, b with
  | [], _ => true
  | x :: a', y :: b' => N.eqb x y && is_prefix a' b'
  | _, _ => false
  end.

Definition conc_here (b : Z) (R : list N) (closed unsub : bool) (W rest : list N) : bool :=
  let B := burst_of b W in
  is_prefix B R &&
  let C := skipn (length B) R in
  is_prefix C rest &&
  (if closed then Nat.ltb (length C) (length rest) && (chan_base + zlen B <=? zlen R)
   else if unsub then true else Nat.eqb (length C) (length rest)).

Fixpoint conc_scan (size : Z) (b : Z) (R : list N) (closed unsub : bool) (W rest : list N) : bool :=
  conc_here b R closed unsub W rest ||
  match rest with
  | [] => false
  | p :: rest' => conc_scan size b R closed unsub (win_step size W p) rest'
  end.

Definition conc_sub_ok (size : Z) (P : list N) (s : concsub) : bool :=
  match s with CSub b R closed unsub => conc_scan size b R closed unsub [] P end.

Definition conc_property (size : Z) (P win : list N) (rdy : bool) (subs : list concsub) : bool :=
  eqb_list win (spec_window size P) &&
  Bool.eqb rdy (Z.of_nat (distinct P) >=? size) &&
  forallb (conc_sub_ok size P) subs.

(* ------------------------------------------------------------------ verdicts *)

Definition c20_verdict (k : c20_case) : N :=
  match k with
  | CSeq buffered size ops obs fin hang =>
      if hang || existsb is_bad obs then 4%N
      else ((if model_agrees buffered size ops obs fin then 0 else 1) +
            (if seq_property buffered size ops obs fin && vis_check [] 0 ops obs then 0 else 2))%N
  | CConc size P win rdy subs bad =>
      if bad then 4%N else if conc_property size P win rdy subs then 0%N else 2%N
  end.

Definition c20_verdicts (l : list c20_case) : list (N * N) := nonzero (map c20_verdict l).
