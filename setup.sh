#!/bin/bash
# Offline setup: full .vo build of the Coq development and a first build of the Go harness.
set -e
cd "$(dirname "$0")"
export GOFLAGS=-mod=mod GOPROXY=off GOSUMDB=off GOTOOLCHAIN=local
mkdir -p .build out evidence
python3 - <<'PY'
import sys, os
sys.path.insert(0, "driver")
import core
ok, out, failing = core.coq_build()
print(out[-3000:])
if not ok:
    print("coq build failed:", failing); sys.exit(1)
binp, out = core.harness_build()
if binp is None:
    print(out); sys.exit(1)
print("setup ok")
PY
