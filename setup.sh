#!/bin/bash
# Offline setup: full .vo build of the Coq development and a first build of the Go harness.
set -e
cd "$(dirname "$0")"
export GOFLAGS=-mod=mod GOPROXY=off GOSUMDB=off GOTOOLCHAIN=local
mkdir -p .build out evidence
( cd coq && coq_makefile -f _CoqProject -o Makefile >/dev/null && timeout 3000 make -j16 )
cp /repo/go.sum harness/go.sum
( cd harness && go build -tags verif -o ../.build/harness . )
echo setup ok
