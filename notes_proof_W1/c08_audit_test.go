// package directory: hub; run: cd <repo> && timeout 600 go test -vet=off -count=1 -tags verif -v -run 'TestW1_C08_' ./hub/   (copy kept as verif/notes_proof_W1/c08_audit_test.go)

//go:build verif

package hub

// W1 conclusion audit of C08: replays on the REAL ForkableHub of the places where the conclusion of the C08
// theorems / the acceptance condition of the C08 checkers says less than the property text, or where the real
// code has an observable the model and the harness projection do not have.  Every test PASSES and asserts the
// behaviour it logs (it documents what the real code does; none is written to fail).
//
// The hub is driven like harness/hubh.go does: a live-source factory that only captures the hub's handler
// (live blocks are pushed by the test) and a one-block factory that serves the pass of the current step.

import (
	"fmt"
	"sort"
	"strings"
	"sync"
	"sync/atomic"
	"testing"
	"time"

	"github.com/streamingfast/bstream"
	"github.com/streamingfast/bstream/forkable"
	pbbstream "github.com/streamingfast/bstream/pb/sf/bstream/v1"
	"github.com/streamingfast/shutter"
	"google.golang.org/protobuf/types/known/timestamppb"
)

type w1c08Blk struct{ id, num, parent, lib uint64 }

func w1c08ID(n uint64) string {
	if n == 0 {
		return ""
	}
	return fmt.Sprintf("%020x", n)
}

func w1c08PB(b w1c08Blk) *pbbstream.Block {
	return &pbbstream.Block{Id: w1c08ID(b.id), Number: b.num, ParentId: w1c08ID(b.parent), LibNum: b.lib,
		Timestamp: timestamppb.New(time.Unix(1600000000+int64(b.num%100000), 0))}
}

// linear chain lo..hi, ids 0x1000+k, block k declares LIB k-lag
func w1c08Chain(lo, hi, lag uint64) []w1c08Blk {
	var out []w1c08Blk
	for k := lo; k <= hi; k++ {
		lib := uint64(0)
		if k >= lag {
			lib = k - lag
		}
		out = append(out, w1c08Blk{0x1000 + k, k, 0x1000 + k - 1, lib})
	}
	return out
}

type w1c08PassSource struct {
	*shutter.Shutter
	blocks []w1c08Blk
	h      bstream.Handler
}

func (s *w1c08PassSource) Run() {
	for _, b := range s.blocks {
		if err := s.h.ProcessBlock(w1c08PB(b), nil); err != nil {
			s.Shutdown(err)
			return
		}
	}
	s.Shutdown(nil)
}

type w1c08Idle struct{ *shutter.Shutter }

func (s *w1c08Idle) Run() { <-s.Terminating() }

type w1c08Hub struct {
	t       *testing.T
	fh      *ForkableHub
	handler bstream.Handler
	files   []w1c08Blk // what the one-block factory serves
}

var w1c08Nop = bstream.HandlerFunc(func(blk *pbbstream.Block, obj interface{}) error { return nil })

func w1c08New(t *testing.T, first uint64, kept int) *w1c08Hub {
	h := &w1c08Hub{t: t}
	saved := bstream.GetProtocolFirstStreamableBlock
	bstream.GetProtocolFirstStreamableBlock = first
	handlerCh := make(chan bstream.Handler, 1)
	lsf := func(hd bstream.Handler) bstream.Source {
		select {
		case handlerCh <- hd:
		default:
		}
		return &w1c08Idle{shutter.New()}
	}
	obsf := bstream.SourceFromNumFactory(func(start uint64, hd bstream.Handler) bstream.Source {
		var bl []w1c08Blk
		for _, b := range h.files {
			if b.num >= start {
				bl = append(bl, b)
			}
		}
		return &w1c08PassSource{Shutter: shutter.New(), blocks: bl, h: hd}
	})
	h.fh = NewForkableHub(lsf, obsf, kept)
	go h.fh.Run()
	select {
	case h.handler = <-handlerCh:
	case <-time.After(5 * time.Second):
		t.Fatal("hub did not create its live source")
	}
	t.Cleanup(func() {
		done := make(chan struct{})
		go func() { h.fh.Shutdown(nil); close(done) }()
		select {
		case <-done:
		case <-time.After(2 * time.Second): // a test that wedged the hub on purpose
		}
		bstream.GetProtocolFirstStreamableBlock = saved
	})
	return h
}

// live pushes one live block on a fresh goroutine; the channel yields "ok" / "err: .." when ProcessBlock returns
func (h *w1c08Hub) liveAsync(b w1c08Blk) chan string {
	res := make(chan string, 1)
	go func() {
		if err := h.handler.ProcessBlock(w1c08PB(b), nil); err != nil {
			res <- "err: " + err.Error()
			return
		}
		res <- "ok"
	}()
	return res
}

func (h *w1c08Hub) live(b w1c08Blk) {
	h.t.Helper()
	select {
	case r := <-h.liveAsync(b):
		if r != "ok" {
			h.t.Fatalf("live %d: %s", b.num, r)
		}
	case <-time.After(5 * time.Second):
		h.t.Fatalf("live %d: hang", b.num)
	}
}

func w1c08Desc(pb *bstream.PreprocessedBlock) string {
	if fo, ok := pb.Obj.(*forkable.ForkableObject); ok && fo != nil {
		return fmt.Sprintf("%s#%d", fo.Step(), pb.Block.Number)
	}
	return fmt.Sprintf("blk#%d", pb.Block.Number)
}

func w1c08DrainChan(s *Subscription) (out []string) {
	for {
		select {
		case pb := <-s.blocks:
			out = append(out, w1c08Desc(pb))
		default:
			return
		}
	}
}

// a ready hub over the linear chain 1..head (files 1..head-1, live head), LIB two behind, kept 5
func w1c08Ready(t *testing.T, ch []w1c08Blk, head int) *w1c08Hub {
	h := w1c08New(t, 1, 5)
	h.files = ch[:head-1]
	h.live(ch[head-1])
	if !h.fh.IsReady() {
		t.Fatal("hub not ready")
	}
	return h
}

func within(d time.Duration, c chan string) (string, bool) {
	select {
	case r := <-c:
		return r, true
	case <-time.After(d):
		return "", false
	}
}

// W1-C08-1.  "A subscriber that falls behind by more than its buffer is terminated with an error and never delays
// ... delivery to the hub or to other subscribers."  The termination is sub.Shutdown(err), called by
// ForkableHub.processBlock on the PRODUCER goroutine, inside Forkable.ProcessBlock (write lock held); shutter.Shutdown
// runs the OnTerminating / OnTerminated callbacks of the subscription synchronously.  The callbacks are code of the
// slow subscriber (bstream.Source exposes OnTerminating/OnTerminated to whoever obtained the source).
// PASSES, asserting: while the overflowed subscriber's OnTerminating callback has not returned (a) ProcessBlock of
// the live block does not return (the hub is delayed), (b) a healthy subscriber registered AFTER the slow one has
// not been offered the event that overflowed the slow one (delivery to another subscriber is delayed), (c) a new
// subscription request and HeadInfo() do not return (they wait for the read lock); everything completes as soon as
// the callback returns, and the slow subscriber ends with the capacity error.
func TestW1_C08_TerminationCallbackDelaysHubAndOthers(t *testing.T) {
	ch := w1c08Chain(1, 400, 2)
	h := w1c08Ready(t, ch, 20)

	slowSrc := h.fh.SourceFromBlockNum(18, w1c08Nop) // never read: "a consumer that never reads"
	if slowSrc == nil {
		t.Fatal("no source")
	}
	slow := slowSrc.(*Subscription)
	entered := make(chan struct{})
	release := make(chan struct{})
	slowSrc.OnTerminating(func(err error) {
		close(entered)
		<-release
	})
	var healthyGot int32
	healthySrc := h.fh.SourceFromBlockNum(20, bstream.HandlerFunc(func(blk *pbbstream.Block, obj interface{}) error {
		atomic.AddInt32(&healthyGot, 1)
		return nil
	}))
	go healthySrc.Run()
	for i := 0; atomic.LoadInt32(&healthyGot) == 0; i++ {
		if i > 5000 {
			t.Fatal("healthy consumer never started")
		}
		time.Sleep(time.Millisecond)
	}

	// fill the slow subscriber's channel exactly
	next := 20 // index of block 21
	for len(slow.blocks) < cap(slow.blocks) {
		h.live(ch[next])
		next++
	}
	time.Sleep(100 * time.Millisecond)
	before := atomic.LoadInt32(&healthyGot)
	t.Logf("slow subscriber: cap %d, full after live block %d; healthy subscriber has received %d items", cap(slow.blocks), next, before)

	// the next live block overflows it
	push := h.liveAsync(ch[next])
	select {
	case <-entered:
	case <-time.After(5 * time.Second):
		t.Fatal("OnTerminating callback of the overflowed subscriber never ran")
	}
	_, pushDone := within(500*time.Millisecond, push)
	afterHalf := atomic.LoadInt32(&healthyGot)
	req := make(chan string, 1)
	go func() {
		s := h.fh.SourceFromBlockNum(uint64(next), w1c08Nop)
		req <- fmt.Sprintf("%v", s != nil)
	}()
	head := make(chan string, 1)
	go func() {
		n, _, _, _, _ := h.fh.HeadInfo()
		head <- fmt.Sprintf("%d", n)
	}()
	_, reqDone := within(500*time.Millisecond, req)
	_, headDone := within(100*time.Millisecond, head)
	t.Logf("while the slow subscriber's OnTerminating callback is blocked (1.1 s): ProcessBlock returned=%v, healthy subscriber received %d new items, "+
		"SourceFromBlockNum returned=%v, HeadInfo returned=%v", pushDone, afterHalf-before, reqDone, headDone)
	if pushDone || reqDone || headDone || afterHalf != before {
		t.Errorf("expected the hub, the other subscriber and new requests to be held up by the callback (documented behaviour)")
	}
	close(release)
	if r, ok := within(5*time.Second, push); !ok || r != "ok" {
		t.Fatalf("push after release: %q %v", r, ok)
	}
	if _, ok := within(5*time.Second, req); !ok {
		t.Fatal("request still blocked after release")
	}
	if _, ok := within(5*time.Second, head); !ok {
		t.Fatal("HeadInfo still blocked after release")
	}
	time.Sleep(100 * time.Millisecond)
	t.Logf("after the callback returned: healthy subscriber received %d more items; slow subscriber Err() = %v", atomic.LoadInt32(&healthyGot)-before, slow.Err())
	if atomic.LoadInt32(&healthyGot) == before {
		t.Errorf("healthy subscriber still has not received the event")
	}
	if slow.Err() == nil || !strings.Contains(slow.Err().Error(), "max capacity") {
		t.Errorf("slow subscriber error = %v", slow.Err())
	}
}

// W1-C08-1, second form: the callback of the overflowed subscriber uses the hub (here HeadInfo(); SourceFromBlockNum to
// re-subscribe behaves the same): it asks for the Forkable's read lock on the goroutine that holds its write lock.
// PASSES, asserting: 2 s later ProcessBlock has not returned, the healthy subscriber has received nothing more, a new
// request has not returned: the hub is wedged for good (nothing can ever release it).
func TestW1_C08_TerminationCallbackUsingHubWedgesIt(t *testing.T) {
	ch := w1c08Chain(1, 400, 2)
	h := w1c08Ready(t, ch, 20)
	slowSrc := h.fh.SourceFromBlockNum(18, w1c08Nop)
	slow := slowSrc.(*Subscription)
	entered := make(chan struct{})
	returned := make(chan struct{})
	slowSrc.OnTerminating(func(err error) {
		close(entered)
		h.fh.HeadInfo() // e.g. "log where the hub was when I was dropped"
		close(returned)
	})
	var healthyGot int32
	healthySrc := h.fh.SourceFromBlockNum(20, bstream.HandlerFunc(func(blk *pbbstream.Block, obj interface{}) error {
		atomic.AddInt32(&healthyGot, 1)
		return nil
	}))
	go healthySrc.Run()
	for i := 0; atomic.LoadInt32(&healthyGot) == 0; i++ {
		if i > 5000 {
			t.Fatal("healthy consumer never started")
		}
		time.Sleep(time.Millisecond)
	}
	next := 20
	for len(slow.blocks) < cap(slow.blocks) {
		h.live(ch[next])
		next++
	}
	time.Sleep(100 * time.Millisecond)
	before := atomic.LoadInt32(&healthyGot)
	push := h.liveAsync(ch[next])
	select {
	case <-entered:
	case <-time.After(5 * time.Second):
		t.Fatal("callback never ran")
	}
	req := make(chan string, 1)
	go func() {
		s := h.fh.SourceFromBlockNum(uint64(next), w1c08Nop)
		req <- fmt.Sprintf("%v", s != nil)
	}()
	_, pushDone := within(2*time.Second, push)
	_, reqDone := within(100*time.Millisecond, req)
	cbDone := false
	select {
	case <-returned:
		cbDone = true
	default:
	}
	t.Logf("2 s after the overflow: callback returned=%v ProcessBlock returned=%v SourceFromBlockNum returned=%v healthy subscriber received %d new items",
		cbDone, pushDone, reqDone, atomic.LoadInt32(&healthyGot)-before)
	if cbDone || pushDone || reqDone || atomic.LoadInt32(&healthyGot) != before {
		t.Errorf("expected a wedged hub (documented behaviour)")
	}
}

// "terminated with an error": what the CONSUMER of a dropped subscription gets.  The model keeps the queue of a dropped
// subscription and lets its consumer go on receiving (theorems speak of taken ++ pending; C08_sched_complete_delivery
// says a dropped subscriber has RECEIVED burst ++ evs1).  Real code: Subscription.run leaves its loop as soon as the
// shutter is terminating; what was buffered is never handed to the handler.
// PASSES, asserting: a consumer whose handler is slow (blocked in its first call) is dropped with the capacity error,
// Run() returns, and the handler has been called for 1 item only: the cap items buffered at the drop are never handed to it
// (they stay in the channel; run() may discard one of them on its way out).
func TestW1_C08_DroppedConsumerLosesBufferedItems(t *testing.T) {
	ch := w1c08Chain(1, 400, 2)
	h := w1c08Ready(t, ch, 20)
	var calls int32
	gate := make(chan struct{})
	src := h.fh.SourceFromBlockNum(18, bstream.HandlerFunc(func(blk *pbbstream.Block, obj interface{}) error {
		atomic.AddInt32(&calls, 1)
		<-gate
		return nil
	}))
	sub := src.(*Subscription)
	capacity := cap(sub.blocks)
	runDone := make(chan struct{})
	go func() { src.Run(); close(runDone) }()
	for i := 0; atomic.LoadInt32(&calls) == 0; i++ { // the consumer is inside its first handler call (burst item new#18)
		if i > 5000 {
			t.Fatal("handler never called")
		}
		time.Sleep(time.Millisecond)
	}
	next := 20
	pushedEvents := 0
	for !sub.IsTerminating() && next < 399 {
		h.live(ch[next])
		next++
	}
	pushedEvents = len(sub.blocks)
	close(gate)
	select {
	case <-runDone:
	case <-time.After(5 * time.Second):
		t.Fatal("Run did not return")
	}
	left := len(sub.blocks)
	t.Logf("cap %d; dropped while processing live block %d; handler calls=%d; items in the channel at the drop=%d, left behind after Run returned=%d; Err()=%v",
		capacity, next, atomic.LoadInt32(&calls), pushedEvents, left, sub.Err())
	if atomic.LoadInt32(&calls) != 1 {
		t.Errorf("handler calls = %d, expected 1", calls)
	}
	// run() may take one more item out of the channel before it sees IsTerminating() and returns: that item is discarded too
	if left != capacity && left != capacity-1 {
		t.Errorf("expected the full channel (%d or %d items) to be left behind, got %d", capacity, capacity-1, left)
	}
	if sub.Err() == nil || !strings.Contains(sub.Err().Error(), "max capacity") {
		t.Errorf("Err() = %v", sub.Err())
	}
}

// Input class the C08 harness never draws (c08Setup skips a hub that is not ready) and on which Model/Hub.v hub_live
// answers "no event for subscribers": a subscription obtained BEFORE the hub is ready.  Files 1..30, live 40 (hole
// 31..39: not ready; the Forkable holds 1..30 with a LIB and a head, and serves requests).  Then the live source delivers
// 31 (linkable: the hub becomes ready on it), 32, 33.
// PASSES, asserting: the real subscriber receives its burst new#26..new#30 followed by EVERY later event, including those
// of block 31, the block that makes the hub ready (the model's push_events has no event for that block: witness
// c08_ready_transition_events_conclusion_weaker in audit2_C08.v): the real code conforms to the property text here.
func TestW1_C08_SubscribedBeforeReadyReceivesEverything(t *testing.T) {
	ch := w1c08Chain(1, 60, 2)
	h := w1c08New(t, 1, 5)
	h.files = ch[:30]
	h.live(ch[39])
	if h.fh.IsReady() {
		t.Fatal("unexpectedly ready")
	}
	src := h.fh.SourceFromBlockNum(26, w1c08Nop)
	if src == nil {
		t.Fatal("the not-ready hub did not serve block 26")
	}
	sub := src.(*Subscription)
	burst := w1c08DrainChan(sub)
	h.files = nil
	h.live(ch[30]) // 31
	ready31 := h.fh.IsReady()
	ev31 := w1c08DrainChan(sub)
	h.live(ch[31]) // 32
	ev32 := w1c08DrainChan(sub)
	h.live(ch[32]) // 33
	ev33 := w1c08DrainChan(sub)
	t.Logf("not ready; SourceFromBlockNum(26) burst=%v | live 31 -> ready=%v events=%v | live 32 -> %v | live 33 -> %v", burst, ready31, ev31, ev32, ev33)
	if strings.Join(burst, " ") != "new,irreversible#26 new,irreversible#27 new,irreversible#28 new#29 new#30" {
		t.Errorf("burst = %v", burst)
	}
	if !ready31 {
		t.Errorf("expected the hub to become ready on live 31")
	}
	if len(ev31) == 0 || ev31[0] != "new#31" {
		t.Errorf("events of block 31 = %v, expected new#31 first (the real hub delivers the events of the block that makes it ready)", ev31)
	}
	if len(ev32) == 0 || ev32[0] != "new#32" || len(ev33) == 0 || ev33[0] != "new#33" {
		t.Errorf("events of 32/33 = %v / %v", ev32, ev33)
	}
}

// "in order ... its initial burst" for a with-forks burst: the harness sorts the observed burst by (number, id) before
// the comparison (sortForks; DESIGN 4/C08 tolerance "height-sorted multisets"), so the order of a with-forks burst is
// not an observable of any C08 check.  Real code: blocksFromNumWithForks collects from a map and sort.Slice's by number.
// PASSES, asserting over 200 requests on a hub holding siblings at three heights: the burst is ALWAYS non-decreasing in
// block number (a parent never comes after its child); the order among siblings of one height varies from request to request.
func TestW1_C08_WithForksBurstOrder(t *testing.T) {
	ch := w1c08Chain(1, 30, 2)
	h := w1c08Ready(t, ch, 20)
	// siblings 21b, 22b (child of 21b), 21c, and the canonical 21, 22, 23
	h.live(ch[20])
	h.live(w1c08Blk{0x2000 + 21, 21, 0x1000 + 20, 18})
	h.live(w1c08Blk{0x3000 + 21, 21, 0x1000 + 20, 18})
	h.live(w1c08Blk{0x2000 + 22, 22, 0x2000 + 21, 19})
	h.live(ch[21])
	h.live(w1c08Blk{0x3000 + 22, 22, 0x1000 + 21, 19})
	h.live(ch[22])
	orders := map[string]int{}
	for i := 0; i < 200; i++ {
		src := h.fh.SourceFromBlockNumWithForks(20, w1c08Nop)
		if src == nil {
			t.Fatal("no source")
		}
		sub := src.(*Subscription)
		var nums []uint64
		var ids []string
	loop:
		for {
			select {
			case pb := <-sub.blocks:
				nums = append(nums, pb.Block.Number)
				ids = append(ids, strings.TrimLeft(pb.Block.Id, "0"))
			default:
				break loop
			}
		}
		h.fh.unsubscribe(sub)
		if !sort.SliceIsSorted(nums, func(a, b int) bool { return nums[a] < nums[b] }) {
			t.Fatalf("with-forks burst not ordered by number: %v", nums)
		}
		orders[strings.Join(ids, " ")]++
	}
	t.Logf("200 with-forks requests from 20: always non-decreasing in number; %d distinct sibling orders, e.g.:", len(orders))
	n := 0
	for o, c := range orders {
		if n < 3 {
			t.Logf("  %3d x %s", c, o)
		}
		n++
	}
	if len(orders) < 2 {
		t.Logf("(sibling order did not vary in this run)")
	}
}

// A subscription that ends on its own (its handler returned an error) is not removed from h.subscribers: the hub
// goes on pushing into its channel until the channel is full (100 + burst events later), and only then unsubscribes it.
// PASSES, asserting that; the hub is not delayed and the other subscriber receives everything.
func TestW1_C08_SelfTerminatedSubscriptionStaysRegistered(t *testing.T) {
	ch := w1c08Chain(1, 400, 2)
	h := w1c08Ready(t, ch, 20)
	src := h.fh.SourceFromBlockNum(20, bstream.HandlerFunc(func(blk *pbbstream.Block, obj interface{}) error {
		return fmt.Errorf("consumer is done")
	}))
	sub := src.(*Subscription)
	var mu sync.Mutex
	var other []string
	osrc := h.fh.SourceFromBlockNum(20, bstream.HandlerFunc(func(blk *pbbstream.Block, obj interface{}) error {
		mu.Lock()
		other = append(other, fmt.Sprintf("%s#%d", obj.(*forkable.ForkableObject).Step(), blk.Number))
		mu.Unlock()
		return nil
	}))
	go osrc.Run()
	for i := 0; ; i++ { // the other consumer is running (it has handled its burst item)
		mu.Lock()
		n := len(other)
		mu.Unlock()
		if n > 0 {
			break
		}
		if i > 5000 {
			t.Fatal("other consumer never started")
		}
		time.Sleep(time.Millisecond)
	}
	src.Run() // returns at once: the handler fails on the burst
	regAfterEnd := h.fh.VerifSubscribers()
	next := 20
	pushedWhileDead := 0
	for h.fh.VerifSubscribers() == regAfterEnd && next < 399 {
		h.live(ch[next])
		next++
		pushedWhileDead++
	}
	time.Sleep(100 * time.Millisecond)
	mu.Lock()
	n := len(other)
	mu.Unlock()
	t.Logf("subscription ended by its own handler (Err=%v): still registered (%d subscribers); removed only after %d more live blocks, "+
		"when its channel (cap %d) was full; final Err=%v; the other subscriber received %d items", "consumer is done", regAfterEnd, pushedWhileDead, cap(sub.blocks), sub.Err(), n)
	if regAfterEnd != 2 {
		t.Errorf("expected the ended subscription to stay registered, subscribers=%d", regAfterEnd)
	}
	if h.fh.VerifSubscribers() != 1 {
		t.Errorf("expected it to be removed at overflow, subscribers=%d", h.fh.VerifSubscribers())
	}
	if sub.Err() == nil || sub.Err().Error() != "consumer is done" {
		t.Errorf("Err() = %v", sub.Err())
	}
	if n < 2*pushedWhileDead {
		t.Errorf("other subscriber received %d items for %d blocks", n, pushedWhileDead)
	}
}
