// package directory: . (package bstream)   run: go test -vet=off -count=1 -run 'TestW1_C16_|TestW1_C11_HugePrefix' .
// W1 conclusion audit, C16: the checker's EHuge tolerance (Check/C16_Check.v oend_matches EHuge OFuel; harness cap
// c16AllocCapQuick) never lets the real reader see a corrupted length prefix above 2 MiB.  This test does.
package bstream

import (
	"bytes"
	"io"
	"os"
	"os/exec"
	"runtime"
	"strings"
	"testing"
	"time"

	pbbstream "github.com/streamingfast/bstream/pb/sf/bstream/v1"
	"github.com/streamingfast/dstore"
	"go.uber.org/zap"
	"google.golang.org/protobuf/types/known/anypb"
	"google.golang.org/protobuf/types/known/timestamppb"
)

func w1c16File(t *testing.T, n int) []byte {
	buf := &bytes.Buffer{}
	w, err := NewDBinBlockWriter(buf)
	if err != nil {
		t.Fatal(err)
	}
	for i := 1; i <= n; i++ {
		blk := &pbbstream.Block{Number: uint64(i), Id: strings.Repeat("a", 15) + string(rune('0'+i)), ParentId: strings.Repeat("a", 15) + string(rune('0'+i-1)),
			Timestamp: timestamppb.New(time.Unix(1700000000, 0)), LibNum: uint64(i - 1), ParentNum: uint64(i - 1),
			Payload: &anypb.Any{TypeUrl: "type.googleapis.com/test.Block", Value: []byte{1, 2, 3}}}
		if err := w.Write(blk); err != nil {
			t.Fatal(err)
		}
	}
	return buf.Bytes()
}

// offset of the first byte of the length prefix of frame k (0-based)
func w1c16FrameOffsets(data []byte) []int {
	ctLen := int(data[5])<<8 | int(data[6])
	off := 7 + ctLen
	var out []int
	for off+4 <= len(data) {
		out = append(out, off)
		l := int(data[off])<<24 | int(data[off+1])<<16 | int(data[off+2])<<8 | int(data[off+3])
		off += 4 + l
	}
	return out
}

func w1c16ReadAll(data []byte) (n int, err error) {
	r, err := NewDBinBlockReader(bytes.NewReader(data))
	if err != nil {
		return 0, err
	}
	for {
		_, err := r.Read()
		if err != nil {
			return n, err
		}
		n++
	}
}

// Child mode: read the corrupted file and print the outcome.
func TestW1_C16_HugePrefixChild(t *testing.T) {
	if os.Getenv("W1_C16_CHILD") != "1" {
		t.Skip("child only")
	}
	data := w1c16File(t, 3)
	offs := w1c16FrameOffsets(data)
	data[offs[1]] = 0xff // ONE corrupted byte: high byte of the length prefix of block 2: 0x00 -> 0xff
	var ms runtime.MemStats
	n, err := w1c16ReadAll(data)
	runtime.ReadMemStats(&ms)
	t.Logf("CHILD-RESULT blocks=%d err=%v eof=%v sys=%dMiB", n, err, err == io.EOF, ms.Sys>>20)
}

// One corrupted byte in a length prefix: unlimited address space -> an error after a ~4 GiB allocation;
// with the address space limited (ulimit -v 2 GiB, as in a container with a memory limit and no overcommit)
// the Go runtime dies with "fatal error: runtime: out of memory", which recover() cannot catch.
func TestW1_C16_HugePrefix(t *testing.T) {
	if os.Getenv("W1_C16_CHILD") != "" {
		t.Skip("parent only")
	}
	exe, _ := os.Executable()
	run := func(limitKB string) string {
		sh := "exec " + exe + " -test.run '^TestW1_C16_HugePrefixChild$' -test.v"
		if limitKB != "" {
			sh = "ulimit -v " + limitKB + "; " + sh
		}
		cmd := exec.Command("bash", "-c", sh)
		cmd.Env = append(os.Environ(), "W1_C16_CHILD=1")
		out, _ := cmd.CombinedOutput()
		return string(out)
	}
	free := run("")
	t.Logf("no limit:\n%s", free)
	if !strings.Contains(free, "CHILD-RESULT blocks=1 err=") || strings.Contains(free, "eof=true") {
		t.Fatalf("expected: 1 block then an error")
	}
	lim := run("2097152")
	if len(lim) > 1500 {
		lim = lim[:1500]
	}
	t.Logf("ulimit -v 2 GiB:\n%s", lim)
	if !strings.Contains(lim, "out of memory") && !strings.Contains(lim, "cannot allocate") {
		t.Fatalf("expected the runtime to die with out of memory")
	}
}

// The same single corrupted byte in a merged-blocks bundle read by a FileSource (C11: "bad length prefix ... Run
// returns, the reported error identifies the cause").  harness/c11.go caps its "lenbig" damage at 1 MiB.
func TestW1_C11_HugePrefixFileSourceChild(t *testing.T) {
	if os.Getenv("W1_C16_CHILD") != "2" {
		t.Skip("child only")
	}
	data := w1c16File(t, 4)
	offs := w1c16FrameOffsets(data)
	data[offs[2]] = 0xff
	st := dstore.NewMockStore(nil)
	st.SetFile("0000000000", data)
	var got []uint64
	fs := NewFileSource(st, 1, HandlerFunc(func(blk *pbbstream.Block, obj interface{}) error {
		got = append(got, blk.Number)
		return nil
	}), zap.NewNop(), FileSourceWithBundleSize(5), FileSourceWithStopBlock(4))
	fs.Run()
	t.Logf("CHILD-RESULT delivered=%v err=%v", got, fs.Err())
}

func TestW1_C11_HugePrefixFileSource(t *testing.T) {
	if os.Getenv("W1_C16_CHILD") != "" {
		t.Skip("parent only")
	}
	exe, _ := os.Executable()
	run := func(limitKB string) string {
		sh := "exec " + exe + " -test.run '^TestW1_C11_HugePrefixFileSourceChild$' -test.v"
		if limitKB != "" {
			sh = "ulimit -v " + limitKB + "; " + sh
		}
		cmd := exec.Command("bash", "-c", sh)
		cmd.Env = append(os.Environ(), "W1_C16_CHILD=2")
		out, _ := cmd.CombinedOutput()
		return string(out)
	}
	free := run("")
	t.Logf("no limit:\n%s", free)
	if !strings.Contains(free, "CHILD-RESULT delivered=[1 2] err=processing of file") {
		t.Fatalf("expected: blocks 1, 2 then a read error")
	}
	lim := run("2097152")
	if i := strings.Index(lim, "goroutine "); i > 0 {
		lim = lim[:i]
	}
	t.Logf("ulimit -v 2 GiB:\n%s", lim)
	if !strings.Contains(lim, "fatal error: out of memory") {
		t.Fatalf("expected the process to die with out of memory")
	}
}
