(* W1 — conclusion audit of C14 (cursor text and opaque encodings).  Stand-alone:
     cd coq && timeout 600 coqc -Q . BV ../notes_proof_W1/audit2_C14.v
   No divergence between the model and the property text was found inside the quantifier.  The witnesses below record the
   two places where a conclusion is weaker than a naive reading of the sentence it stands for:
   (1) "re-encodes to an equivalent cursor" is the relation cursor_equiv (step, block reference, head id, LIB id) — the heights of
       head and LIB are NOT preserved for decoder inputs that give one id two heights (reading choice; Cursor.Equals of the code
       is weaker still);
   (2) the boolean checker's layout clause (as found, before check_C14.diff) looked at the prefix byte only: the fourth conjunct
       of Spec.C14_layout (segment count) had no counterpart; harmless for the verdict (the correspondence bit still fires). *)
From BV Require Import Base.Prelude Base.Decimal Model.CursorCodec.
From BV Require Import Spec.C14_Spec.
Local Open Scope N_scope.

(* "c3:1:5:aa:7:aa:3:bb": head id = block id with heights 7 and 5 *)
Definition c14_w_text : str := [99;51;58;49;58;53;58;97;97;58;55;58;97;97;58;51;58;98;98].
Definition c14_w_dec : cursor := mkCur 1 (mkRef [97;97] 5) (mkRef [97;97] 7) (mkRef [98;98] 3).
Definition c14_w_re  : cursor := mkCur 1 (mkRef [97;97] 5) (mkRef [97;97] 5) (mkRef [98;98] 3).

(* the decoder accepts the text; the decoded cursor re-encodes (c1 layout) to a cursor the Spec's conclusion calls equivalent,
   although the head height changed 7 -> 5: "equivalent" is weaker than "unchanged in ... head block" *)
Theorem c14_decode_equiv_conclusion_weaker :
  exists s c c',
    from_string s = Some c /\
    from_string (cursor_string c) = Some c' /\ cursor_equiv c' c = true /\   (* what C14_decode_total concludes *)
    cursor_eqb c' c = false /\ rnum (chead c) <> rnum (chead c').           (* "unchanged" fails *)
Proof.
  exists c14_w_text, c14_w_dec, c14_w_re.
  repeat split; try (vm_compute; reflexivity).
  vm_compute. discriminate.
Qed.
Print Assumptions c14_decode_equiv_conclusion_weaker.

(* "c3:16:5:aa:9:hh:3:aa": block id = LIB id with heights 5 and 3; the LIB height is rewritten 3 -> 5 (on the real code
   IsOnFinalBlock flips from false to true across the re-encoding: TestW1_C14_DecodeInconsistentRefs) *)
Theorem c14_decode_equiv_lib_conclusion_weaker :
  exists s c c',
    from_string s = Some c /\
    from_string (cursor_string c) = Some c' /\ cursor_equiv c' c = true /\
    (rnum (cblk c) =? rnum (clib c)) = false /\ (rnum (cblk c') =? rnum (clib c')) = true.
Proof.
  exists [99;51;58;49;54;58;53;58;97;97;58;57;58;104;104;58;51;58;97;97],
         (mkCur 16 (mkRef [97;97] 5) (mkRef [104;104] 9) (mkRef [97;97] 3)),
         (mkCur 16 (mkRef [97;97] 5) (mkRef [104;104] 9) (mkRef [97;97] 5)).
  repeat split; vm_compute; reflexivity.
Qed.
Print Assumptions c14_decode_equiv_lib_conclusion_weaker.

(* such decoded cursors are exactly the ones outside "equal ids imply equal heights": for decoded cursors inside it the
   re-encoding is the identity, so nothing is lost where the quantifier of the round-trip clause applies *)
Theorem c14_decode_equiv_only_outside_alias :
  alias_ok c14_w_dec = false /\ cursor_ok c14_w_dec = true.
Proof. split; vm_compute; reflexivity. Qed.
Print Assumptions c14_decode_equiv_only_outside_alias.

(* (2) the layout clause of the checker as found: acceptance condition copied here (C14_Check.c14_verdict, CCur, property bit).
   An observation whose text has the right prefix byte but 8 segments under "c1" passes it, while Spec.C14_layout's
   fourth conjunct (6 segments for c1/c2) fails. *)
Definition c14_old_layout_clause (c : cursor) (o_str : str) : bool :=
  layout_of o_str =? (if eqb_list (rid (chead c)) (rid (cblk c)) then 1
                      else if eqb_list (rid (cblk c)) (rid (clib c)) then 2 else 3).

Theorem c14_checker_layout_conclusion_weaker :
  exists c o_str,
    cursor_ok c = true /\ alias_ok c = true /\
    c14_old_layout_clause c o_str = true /\                                     (* the checker's clause accepts *)
    length (split colon o_str) <> (if layout_of o_str =? 3 then 8%nat else 6%nat). (* C14_layout, 4th conjunct, fails *)
Proof.
  exists (mkCur 1 (mkRef [97] 5) (mkRef [97] 5) (mkRef [98] 3)),
         (* "c1:1:5:a:3:b:5:a" *)
         [99;49;58;49;58;53;58;97;58;51;58;98;58;53;58;97].
  repeat split; try (vm_compute; reflexivity).
  vm_compute. discriminate.
Qed.
Print Assumptions c14_checker_layout_conclusion_weaker.
