(* W1 — conclusion audit of C20 (block-stream server fan-out).  Closed witnesses for the places where the
   acceptance condition of the boolean property checker says LESS than the property sentence it stands for.
   No divergence of the MODEL (or of the real code) from the property text was found for C20: both witnesses
   below are about observations that the real code does not produce (Go tests TestW1_C20_...), i.e. about
   violations the property checker alone would not notice.  seq_property / conc_sub_ok are the definitions of
   Check/C20_Check.v as they were before notes_proof_W1/check_C20.diff (which leaves them unchanged and adds
   vis_check to c20_verdict). *)
From BV Require Import Base.Prelude Model.BlockServer Spec.C20_Spec Check.C20_Check.
Local Open Scope Z_scope.

(* what the consumer of subscription k sees at each of its receives *)
Fixpoint w1_cons_of (k : nat) (ops : list op) (obs : list oobs) : list cres :=
  match ops, obs with
  | OConsume k' :: ops', ObCons r :: obs' =>
      if Nat.eqb k' k then r :: w1_cons_of k ops' obs' else w1_cons_of k ops' obs'
  | _ :: ops', _ :: obs' => w1_cons_of k ops' obs'
  | _, _ => []
  end.

(* ... and what the reference automaton of Spec.C20_Spec (ref_step) shows at these receives: the head of
   the queue, `closed` once the channel is closed AND drained, `empty` otherwise *)
Fixpoint w1_ref_cons (cap : N) (v : sview) (evs : list sev) : list cres :=
  match evs with
  | [] => []
  | e :: evs' =>
      let v' := ref_step cap v e in
      match e with
      | EvCons =>
          (match v_q v with
           | x :: _ => CGot x
           | [] => if v_closed v then CClosed else CEmpty
           end) :: w1_ref_cons cap v' evs'
      | EvPush _ => w1_ref_cons cap v' evs'
      end
  end.

(* W1-C20-1a.  "... until its buffer overflows, at which point only that subscriber's channel is closed":
   a capacity-2 subscription overflows at the third push; the consumer drains the two queued blocks and
   then finds the channel EMPTY for ever (the channel was never closed, only the `closed` field was set).
   seq_property accepts this observation; the reference says the third receive sees `closed`. *)
Definition w1_ops_a : list op := [OAttach 2; OPush 1; OPush 2; OPush 3; OConsume 0; OConsume 0; OConsume 0]%N.
Definition w1_obs_a : list oobs :=
  [ObSub (Some 0%nat) 2 0; ObPush [1] false; ObPush [1;2] false; ObPush [1;2;3] true;
   ObCons (CGot 1); ObCons (CGot 2); ObCons CEmpty]%N.
Definition w1_fin_a : list subobs := [SObs [] true 2%N].

Theorem c20_seq_checker_never_closed_conclusion_weaker :
  exists ops obs fin,
    (* the property checker accepts *)
    seq_property true 3 ops obs fin = true /\
    (* the subscription did overflow: the reference view of handle 0 is closed ... *)
    v_closed (ref_sub 2 (mkView [] [] false) (proj 0 true (tl ops))) = true /\
    (* ... the text demands that its channel is then closed: the consumer must see `closed` after the
       drain, but the accepted observation shows `empty` *)
    w1_ref_cons 2 (mkView [] [] false) (proj 0 true (tl ops)) = [CGot 1; CGot 2; CClosed]%N /\
    w1_cons_of 0 (tl ops) (tl obs) = [CGot 1; CGot 2; CEmpty]%N.
Proof. exists w1_ops_a, w1_obs_a, w1_fin_a. vm_compute. repeat split. Qed.
Print Assumptions c20_seq_checker_never_closed_conclusion_weaker.

(* W1-C20-1b.  the converse: a subscription that never overflowed (one push into a capacity-2 channel,
   read at once) whose consumer then sees the channel CLOSED.  Accepted by seq_property; the text allows a
   close only at the overflow of that subscriber's buffer. *)
Definition w1_ops_b : list op := [OAttach 2; OPush 1; OConsume 0; OConsume 0]%N.
Definition w1_obs_b : list oobs :=
  [ObSub (Some 0%nat) 2 0; ObPush [1] false; ObCons (CGot 1); ObCons CClosed]%N.
Definition w1_fin_b : list subobs := [SObs [] false 2%N].

Theorem c20_seq_checker_spurious_close_conclusion_weaker :
  exists ops obs fin,
    seq_property true 3 ops obs fin = true /\
    v_closed (ref_sub 2 (mkView [] [] false) (proj 0 true (tl ops))) = false /\
    w1_ref_cons 2 (mkView [] [] false) (proj 0 true (tl ops)) = [CGot 1; CEmpty]%N /\
    w1_cons_of 0 (tl ops) (tl obs) = [CGot 1; CClosed]%N.
Proof. exists w1_ops_b, w1_obs_b, w1_fin_b. vm_compute. repeat split. Qed.
Print Assumptions c20_seq_checker_spurious_close_conclusion_weaker.

(* both observations are told apart from the model's run (verdict code 1 or 3, never 0): the weakness is
   in the PROPERTY side of the verdict only *)
Theorem c20_seq_checker_gap_is_a_model_mismatch :
  model_agrees true 3 w1_ops_a w1_obs_a w1_fin_a = false /\
  model_agrees true 3 w1_ops_b w1_obs_b w1_fin_b = false.
Proof. vm_compute. split; reflexivity. Qed.
Print Assumptions c20_seq_checker_gap_is_a_model_mismatch.

(* W1-C20-2.  concurrent runs: the acceptance condition of a CLOSED subscriber is "a strict prefix of the
   later pushes and at least 200 + |burst| blocks received in all"; it does not fix the overflow point.
   For 1000 pushes and a burst-less subscriber it accepts a close after 200 blocks (the only outcome of a
   subscriber that never reads during the run) and equally a close after 900 blocks.  The text's "until
   its buffer overflows" is checked exactly in sequential cases only (ref_sub). *)
Definition w1_P : list N := map N.of_nat (seq 1 1000).
Theorem c20_conc_checker_overflow_point_conclusion_weaker :
  conc_sub_ok 3 w1_P (CSub 0 (map N.of_nat (seq 1 200)) true false) = true /\
  conc_sub_ok 3 w1_P (CSub 0 (map N.of_nat (seq 1 900)) true false) = true /\
  (* an unsubscribed subscriber may have received anything contiguous, even nothing *)
  conc_sub_ok 3 w1_P (CSub 0 [] false true) = true.
Proof. vm_compute. repeat split. Qed.
Print Assumptions c20_conc_checker_overflow_point_conclusion_weaker.
