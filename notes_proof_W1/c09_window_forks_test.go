// package directory: hub ; run: go test -vet=off -count=1 -run 'TestW1_C09_' ./hub/
//
// W1 conclusion audit of C09.  Four clauses of the property text had no (or a weaker) counterpart in the acceptance
// condition of the property checker (Check/Hub_Check.v c09_follow; harness/hubh.go projection):
//   1. with-forks snapshot "in non-decreasing height"            (the harness sorted the answer before checking it)
//   2. with-forks snapshot "contains every retained block ..."    (a refused with-forks request was never looked at)
//   3. "the lowest block number it reports is itself servable", "n is the number of a RETAINED canonical block"
//                                                                  (retained was defined by the reported lowest number)
//   4. ready only after a live block links "through RECEIVED blocks" (the checker walked through every OFFERED block)
// These tests record what the REAL ForkableHub does at exactly those places (scenario of notes_proof_W1/audit2_C09.v:
// chain 1..8, block k declares LIB k-2, a fork block at height 6).  The real hub satisfies all four clauses; the tests
// PASS and assert that.  No defect of the library is claimed.
package hub

import (
	"fmt"
	"sort"
	"testing"
	"time"

	"github.com/streamingfast/bstream"
	pbbstream "github.com/streamingfast/bstream/pb/sf/bstream/v1"
	"github.com/streamingfast/shutter"
	"github.com/stretchr/testify/require"
	"google.golang.org/protobuf/types/known/timestamppb"
)

type w1c09Blk struct{ id, num, parent, lib uint64 }

func w1c09ID(n uint64) string {
	if n == 0 {
		return ""
	}
	return fmt.Sprintf("%020x", n)
}

func w1c09PB(b w1c09Blk) *pbbstream.Block {
	return &pbbstream.Block{Id: w1c09ID(b.id), Number: b.num, ParentId: w1c09ID(b.parent), LibNum: b.lib,
		Timestamp: timestamppb.New(time.Unix(1600000000+int64(b.num), 0))}
}

type w1c09PassSource struct {
	*shutter.Shutter
	blocks []w1c09Blk
	h      bstream.Handler
}

func (s *w1c09PassSource) Run() {
	for _, b := range s.blocks {
		if err := s.h.ProcessBlock(w1c09PB(b), nil); err != nil {
			s.Shutdown(err)
			return
		}
	}
	s.Shutdown(nil)
}

type w1c09Idle struct{ *shutter.Shutter }

func (s *w1c09Idle) Run() { <-s.Terminating() }

type w1c09Hub struct {
	fh      *ForkableHub
	handler bstream.Handler
	pass    []w1c09Blk // nil: the one-block factory answers "no source yet"
	starts  []uint64
}

var w1c09Nop = bstream.HandlerFunc(func(blk *pbbstream.Block, obj interface{}) error { return nil })

func w1c09New(t *testing.T, first uint64, kept int) *w1c09Hub {
	h := &w1c09Hub{}
	saved := bstream.GetProtocolFirstStreamableBlock
	bstream.GetProtocolFirstStreamableBlock = first
	handlerCh := make(chan bstream.Handler, 1)
	lsf := func(hd bstream.Handler) bstream.Source {
		select {
		case handlerCh <- hd:
		default:
		}
		return &w1c09Idle{shutter.New()}
	}
	obsf := bstream.SourceFromNumFactory(func(start uint64, hd bstream.Handler) bstream.Source {
		h.starts = append(h.starts, start)
		if h.pass == nil {
			return nil
		}
		var bl []w1c09Blk
		for _, b := range h.pass {
			if b.num >= start {
				bl = append(bl, b)
			}
		}
		return &w1c09PassSource{Shutter: shutter.New(), blocks: bl, h: hd}
	})
	h.fh = NewForkableHub(lsf, obsf, kept)
	go h.fh.Run()
	select {
	case h.handler = <-handlerCh:
	case <-time.After(5 * time.Second):
		t.Fatal("hub did not create its live source")
	}
	t.Cleanup(func() {
		h.fh.Shutdown(nil)
		bstream.GetProtocolFirstStreamableBlock = saved
	})
	return h
}

func (h *w1c09Hub) live(t *testing.T, b w1c09Blk, pass []w1c09Blk) {
	h.pass = pass
	done := make(chan error, 1)
	go func() { done <- h.handler.ProcessBlock(w1c09PB(b), nil) }()
	select {
	case err := <-done:
		require.NoError(t, err)
	case <-time.After(5 * time.Second):
		t.Fatal("live block: handler did not return")
	}
}

// drain returns what a source obtained from the hub holds in its queue, in delivery order, and ends the subscription.
func w1c09Drain(src bstream.Source) (out []*pbbstream.Block) {
	sub := src.(*Subscription)
	for {
		select {
		case b := <-sub.blocks:
			out = append(out, b.Block)
		default:
			sub.Shutdown(nil)
			return
		}
	}
}

func w1c09Chain() (blocks map[uint64]w1c09Blk, fork w1c09Blk, universe []w1c09Blk) {
	blocks = map[uint64]w1c09Blk{}
	for k := uint64(1); k <= 8; k++ {
		b := w1c09Blk{id: 10 + k, num: k, parent: 9 + k, lib: 1}
		if k == 1 {
			b.parent = 0
		}
		if k > 3 {
			b.lib = k - 2
		}
		blocks[k] = b
		universe = append(universe, b)
	}
	fork = w1c09Blk{id: 26, num: 6, parent: 15, lib: 4}
	universe = append(universe, fork)
	return
}

// clauses 1, 2, 3 after every live block, for two retention values
func TestW1_C09_WindowAndWithForksOnTheRealHub(t *testing.T) {
	for _, kept := range []int{0, 2} {
		blocks, fork, universe := w1c09Chain()
		h := w1c09New(t, 1, kept)
		lives := []w1c09Blk{blocks[5], fork, blocks[6], blocks[7], blocks[8]}
		for i, lb := range lives {
			var pass []w1c09Blk
			if i == 0 {
				pass = []w1c09Blk{blocks[1], blocks[2], blocks[3], blocks[4]}
			}
			h.live(t, lb, pass)
			require.True(t, h.fh.IsReady(), "kept %d step %d", kept, i)
			low := h.fh.LowestBlockNum()
			headNum, headID, _, _, err := h.fh.HeadInfo()
			require.NoError(t, err)

			// what the hub holds (the harness' notion of "retained": GetBlockByHash over the universe)
			retained := map[string]uint64{}
			for _, b := range universe {
				if h.fh.GetBlockByHash(w1c09ID(b.id)) != nil {
					retained[w1c09ID(b.id)] = b.num
				}
			}

			// clause 3: the reported lowest number is the number of a retained canonical block, it is served, nothing below is,
			// and every retained canonical number up to the head is served with the chain from it to the head
			lowBlk := h.fh.GetBlock(low, "")
			require.NotNil(t, lowBlk, "kept %d step %d: no canonical block at the reported lowest %d", kept, i, low)
			_, ok := retained[lowBlk.Id]
			require.True(t, ok)
			if low > 0 {
				require.Nil(t, h.fh.SourceFromBlockNum(low-1, w1c09Nop), "kept %d step %d: served below lowest", kept, i)
			}
			var served []uint64
			for n := uint64(0); n <= headNum+2; n++ {
				src := h.fh.SourceFromBlockNum(n, w1c09Nop)
				canon := h.fh.GetBlock(n, "")
				if n > headNum {
					canon = nil // CanonicalBlockAt above the head answers the head (recorded in notes_C18/DESIGN 8.3)
				}
				if src == nil {
					require.True(t, canon == nil || n < low, "kept %d step %d: retained canonical number %d refused", kept, i, n)
					continue
				}
				got := w1c09Drain(src)
				require.NotNil(t, canon)
				require.Equal(t, canon.Id, got[0].Id)
				require.Equal(t, headID, got[len(got)-1].Id)
				served = append(served, n)
			}
			require.Equal(t, low, served[0])

			// clauses 1 and 2: with-forks at every number from 0 to beyond the head: never refused, non-decreasing height AS
			// DELIVERED, exactly the retained blocks at or above the number, each once
			for n := uint64(0); n <= headNum+3; n++ {
				src := h.fh.SourceFromBlockNumWithForks(n, w1c09Nop)
				require.NotNil(t, src, "kept %d step %d: with-forks at %d refused by a ready hub", kept, i, n)
				got := w1c09Drain(src)
				var nums []uint64
				var ids, want []string
				for _, b := range got {
					nums = append(nums, b.Number)
					ids = append(ids, b.Id)
				}
				require.True(t, sort.SliceIsSorted(nums, func(a, b int) bool { return nums[a] < nums[b] }),
					"kept %d step %d: with-forks at %d not in non-decreasing height: %v", kept, i, n, nums)
				for id, num := range retained {
					if num >= n {
						want = append(want, id)
					}
				}
				sort.Strings(ids)
				sort.Strings(want)
				require.Equal(t, want, ids, "kept %d step %d: with-forks at %d", kept, i, n)
			}
			t.Logf("kept %d after live %d@%d: ready lowest=%d head=%d retained=%d from-num served at %v; with-forks served at 0..%d, non-decreasing, = retained blocks",
				kept, lb.id, lb.num, low, headNum, len(retained), served, headNum+3)
		}
	}
}

// clause 4: the real hub does not become ready on a live block that links to its declared LIB height only through
// blocks it was OFFERED but never received (factory "not yet" / pass not covering them); it does once it received them.
func TestW1_C09_NotReadyThroughUnreceivedBlocks(t *testing.T) {
	blocks, _, _ := w1c09Chain()
	h := w1c09New(t, 1, 0)
	h.live(t, blocks[5], nil) // one-block factory answers nil: nothing received
	require.False(t, h.fh.IsReady())
	require.Equal(t, uint64(0), h.fh.LowestBlockNum())
	h.live(t, blocks[6], []w1c09Blk{blocks[1], blocks[2]}) // files lag: 3, 4 (the LIB heights of 5 and 6) not there yet
	require.False(t, h.fh.IsReady())
	t.Logf("live 5 (no source), live 6 (files 1, 2 only): ready=%v lowest=%d starts=%v", h.fh.IsReady(), h.fh.LowestBlockNum(), h.starts)
	// (not replayed here: continuing with files 1..4 and then 1..7 runs into U2's recorded candidate "ready hub cut off from
	// the live blocks": live 8 links through the stored LIVE blocks 7, 6 to its LIB height 6, the pass is skipped and the hub
	// turns ready with head 4 - observed while writing this test, already in notes_proof_U2/notes_C09.md)
	h.live(t, blocks[7], []w1c09Blk{blocks[1], blocks[2], blocks[3], blocks[4], blocks[5], blocks[6]})
	require.True(t, h.fh.IsReady())
	t.Logf("live 7 (files 1..6): ready=%v lowest=%d head=%d", h.fh.IsReady(), h.fh.LowestBlockNum(), h.fh.HeadNum())
	require.Equal(t, uint64(7), h.fh.HeadNum())
}
