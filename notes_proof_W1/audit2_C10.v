(* W1 conclusion audit, C10.  Standalone: coqc -Q . BV ../notes_proof_W1/audit2_C10.v
   One confirmed (low-ranked) divergence between the property TEXT and the conclusion of C10_seq / c10_continuity /
   the checker c10_check: the delivered sequence is described as a FILTER over all stored blocks
   (num >= start && num >= bundle base), and parent links are demanded between consecutive KEPT blocks, where the text
   speaks of the stored blocks "in exactly stored order, beginning with the first block at or above the start block"
   (a suffix of the stored sequence; the quantifier allows a legacy LEADING block) and of "consecutive STORED blocks". *)
From BV Require Import Base.Prelude Model.FileSeq Model.Pipeline Spec.C10_Spec Check.C10_Check.
Local Open Scope N_scope.

(* ---- the text, read literally ---- *)
(* leading blocks of file i that lie below the bundle base (the legacy leading block of the quantifier) *)
Fixpoint a2_drop_leading (base : N) (f : list blk) : list blk :=
  match f with
  | [] => []
  | b :: f' => if b_num b <? base then a2_drop_leading base f' else f
  end.

(* the stored blocks of the files read, in stored order, legacy leading blocks removed *)
Definition a2_stored_seq (L : layout) : list blk :=
  flat_map (fun i => a2_drop_leading (base_of L i) (file_of L i)) (seq 0 (nsend L)).

(* "beginning with the first block at or above the start block": the suffix from that block on *)
Fixpoint a2_from_start (start : N) (l : list blk) : list blk :=
  match l with
  | [] => []
  | b :: l' => if b_num b <? start then a2_from_start start l' else l
  end.

Definition a2_text_stream (L : layout) : list blk := a2_from_start (l_start L) (a2_stored_seq L).

(* what the text lets the handler see: the parent-linked prefix of that suffix (first block unchecked, as in the
   model), and whether the run must end with the out-of-sequence error *)
Definition a2_text_expected (L : layout) : list blk * bool := seq_cut 0 (a2_text_stream L).

Definition a2_pre (b : blk) : N := 3 * b_id b + b_num b.

(* W1-C10-1a: bundle 0 holds 1, 2, 5, 3' (parent 2), 6 (parent 5); start 4, stop 6 *)
Definition a2_lay_start : layout :=
  mkLayout [[mkBlk 1 1 0; mkBlk 2 2 1; mkBlk 5 5 2; mkBlk 33 3 2; mkBlk 6 6 5]] 4 10 6.

(* W1-C10-1b: bundle 100 holds 100, 101, 99' (number 99, parent 101 -- not leading), 102 (parent 101); start 100 *)
Definition a2_lay_base : layout :=
  mkLayout [[mkBlk 100 100 99; mkBlk 101 101 100; mkBlk 990 99 101; mkBlk 102 102 101]] 100 100 102.

Definition a2_quiet_run (L : layout) : state :=
  let C := mkCfg L 2 FNone false true true in run a2_pre C (rounds C 40) (init C).

Definition a2_weaker (L : layout) (d : list blk) : Prop :=
  (* the reference model, the interleaving model after a fair run (Run has returned) and the checker (both verdict codes) all accept
     "d delivered, stop-block-reached" ... *)
  expected L = (d, OStop) /\
  returned (a2_quiet_run L) = true /\
  s_calls (a2_quiet_run L) = pairs a2_pre d /\ s_err (a2_quiet_run L) = Some EStop /\
  c10_check L 0 false false (pairs a2_pre d) 1 = true /\
  c10_verdict (C10Case L 2 0 false false (pairs a2_pre d) 1 false false) = 0 /\
  (* ... while in stored order from the first block at or above the start block two consecutive stored blocks are
     not parent-linked, so the text demands an error in front of the out-of-sequence block, and d is not even a
     prefix of the stored sequence ("exactly stored order") *)
  snd (a2_text_expected L) = true /\
  fst (a2_text_expected L) <> d /\
  ~ prefix d (a2_text_stream L).

Lemma a2_not_prefix_by_bool : forall d l, is_prefix blk_eqb d l = false -> ~ prefix d l.
Proof.
  induction d as [|x d IH]; intros l H [r E]; simpl in *; [discriminate|].
  destruct l as [|y l]; [discriminate|]. simpl in E. injection E as E1 E2. subst y.
  assert (Hx : blk_eqb x x = true).
  { unfold blk_eqb. rewrite !N.eqb_refl. reflexivity. }
  rewrite Hx in H. simpl in H. apply (IH l H). exists r. exact E2.
Qed.

Theorem c10_filter_below_start_conclusion_weaker :
  exists L d, a2_weaker L d.
Proof.
  exists a2_lay_start, [mkBlk 5 5 2; mkBlk 6 6 5]. unfold a2_weaker.
  split; [vm_compute; reflexivity|]. split; [vm_compute; reflexivity|].
  split; [vm_compute; reflexivity|]. split; [vm_compute; reflexivity|].
  split; [vm_compute; reflexivity|]. split; [vm_compute; reflexivity|].
  split; [vm_compute; reflexivity|]. split; [vm_compute; discriminate|].
  apply a2_not_prefix_by_bool. vm_compute. reflexivity.
Qed.
Print Assumptions c10_filter_below_start_conclusion_weaker.

Theorem c10_filter_below_base_conclusion_weaker :
  exists L d, a2_weaker L d.
Proof.
  exists a2_lay_base, [mkBlk 100 100 99; mkBlk 101 101 100; mkBlk 102 102 101]. unfold a2_weaker.
  split; [vm_compute; reflexivity|]. split; [vm_compute; reflexivity|].
  split; [vm_compute; reflexivity|]. split; [vm_compute; reflexivity|].
  split; [vm_compute; reflexivity|]. split; [vm_compute; reflexivity|].
  split; [vm_compute; reflexivity|]. split; [vm_compute; discriminate|].
  apply a2_not_prefix_by_bool. vm_compute. reflexivity.
Qed.
Print Assumptions c10_filter_below_base_conclusion_weaker.

(* The two readings coincide on every layout whose stored numbers never fall back below the start block / the
   bundle base once they have reached it -- in particular on every layout with non-decreasing numbers, which is all
   the generator draws.  Stated for the filter itself: *)
Lemma a2_filter_is_suffix : forall (p : blk -> bool) l,
  (forall a b r1 r2, l = r1 ++ a :: b :: r2 -> p a = true -> p b = true) ->
  filter p l = (fix go l := match l with [] => [] | b :: l' => if p b then l else go l' end) l.
Proof.
  intros p l. induction l as [|x l IH]; intros H; [reflexivity|]. simpl.
  destruct (p x) eqn:E.
  - f_equal. clear IH. revert x E H. induction l as [|y l IHl]; intros x E H; [reflexivity|].
    simpl. assert (Hy : p y = true) by (apply (H x y [] l); [reflexivity|exact E]).
    rewrite Hy. f_equal. apply (IHl y Hy). intros a b r1 r2 Hl. apply (H a b (x :: r1) r2). simpl. f_equal. exact Hl.
  - apply IH. intros a b r1 r2 Hl. apply (H a b (x :: r1) r2). simpl. f_equal. exact Hl.
Qed.
Print Assumptions a2_filter_is_suffix.
