// package directory: . ; run: go test -vet=off -count=1 -tags verif -run 'TestW1_C12_Mux' .
// W1 conclusion audit of C12, clause "a multiplexed source ... shuts down all its inner sources when the handler fails".
// C12_fail_stops_all says: the goroutine that got the error calls Shutdown next, and once Terminated every started inner source
// is shut down.  It says nothing about handler calls between the failure and the Shutdown it triggers.  The wrapper releases
// handlerLock BEFORE it calls Shutdown, so another inner source can begin a handler call after the handler has failed and
// before the terminating channel is closed.  The model has the same window (IInH -> IUnl b false releases the lock one step
// before the once is won).  The property text does not forbid it ("after which" = after Run returned and Terminated); this
// test only records what the real code does.  It PASSES and asserts the behaviour it logs.

//go:build verif

package bstream

import (
	"errors"
	"fmt"
	"sync"
	"testing"
	"time"

	pbbstream "github.com/streamingfast/bstream/pb/sf/bstream/v1"
	"github.com/streamingfast/shutter"
	"go.uber.org/zap"
)

type w1c12MuxSrc struct {
	*shutter.Shutter
	h      Handler
	blocks chan *pbbstream.Block
	done   chan struct{}
}

func newW1c12MuxSrc(h Handler) *w1c12MuxSrc {
	return &w1c12MuxSrc{Shutter: shutter.New(), h: h, blocks: make(chan *pbbstream.Block), done: make(chan struct{})}
}
func (s *w1c12MuxSrc) SetLogger(*zap.Logger) {}
func (s *w1c12MuxSrc) Run() {
	defer close(s.done)
	for {
		select {
		case <-s.Terminating():
			return
		case b := <-s.blocks:
			if s.IsTerminating() {
				return
			}
			if err := s.h.ProcessBlock(b, nil); err != nil {
				s.Shutdown(err)
				return
			}
		}
	}
}

func TestW1_C12_Mux_HandlerCallBeginsAfterHandlerFailureBeforeTerminating(t *testing.T) {
	SetVerifSourceReconnectDelay(time.Millisecond)
	defer SetVerifSourceReconnectDelay(5 * time.Second)
	var mu sync.Mutex
	var log []string
	add := func(f string, a ...interface{}) { mu.Lock(); log = append(log, fmt.Sprintf(f, a...)); mu.Unlock() }
	var mx *MultiplexedSource
	secondBegan := make(chan struct{})
	handler := HandlerFunc(func(blk *pbbstream.Block, obj interface{}) error {
		add("begin %s terminating=%v", blk.Id, mx.IsTerminating())
		if blk.Id == "1f" {
			add("end %s error", blk.Id)
			return errors.New("handler failed")
		}
		close(secondBegan)
		add("end %s ok", blk.Id)
		return nil
	})
	var srcs []*w1c12MuxSrc
	var smu sync.Mutex
	mk := func(h Handler) Source {
		s := newW1c12MuxSrc(h)
		smu.Lock()
		srcs = append(srcs, s)
		smu.Unlock()
		return s
	}
	mx = NewMultiplexedSource([]SourceFactory{mk, mk}, handler)
	// at mux.handler_unlocked of the FAILED call (handlerLock released, Shutdown not called yet) wait until the other
	// inner source's handler call has begun
	var once sync.Once
	SetVerifHook(func(name string) {
		if name == "mux.handler_unlocked" {
			first := false
			once.Do(func() { first = true })
			if first {
				select {
				case <-secondBegan:
				case <-time.After(3 * time.Second):
				}
			}
		}
	})
	defer SetVerifHook(nil)
	runDone := make(chan struct{})
	go func() { mx.Run(); close(runDone) }()
	deadline := time.Now().Add(3 * time.Second)
	for {
		smu.Lock()
		n := len(srcs)
		smu.Unlock()
		if n >= 2 || time.Now().After(deadline) {
			break
		}
		time.Sleep(time.Millisecond)
	}
	smu.Lock()
	s0, s1 := srcs[0], srcs[1]
	smu.Unlock()
	send := func(s *w1c12MuxSrc, id string) {
		select {
		case s.blocks <- &pbbstream.Block{Id: id, Number: 1}:
		case <-time.After(3 * time.Second):
			t.Errorf("watchdog: source did not take block %s", id)
		}
	}
	go send(s0, "1f") // the handler fails on it; its goroutine then waits at mux.handler_unlocked
	time.Sleep(20 * time.Millisecond)
	go send(s1, "2a")
	select {
	case <-runDone:
	case <-time.After(5 * time.Second):
		t.Fatalf("watchdog: Run did not return after the handler failure")
	}
	for i := 0; i < 1000 && !mx.IsTerminated(); i++ {
		time.Sleep(time.Millisecond)
	}
	mu.Lock()
	got := fmt.Sprint(log)
	mu.Unlock()
	t.Logf("OBSERVED: %s | terminated=%v err=%v inner terminating=%v,%v", got, mx.IsTerminated(), mx.Err(), s0.IsTerminating(), s1.IsTerminating())
	want := "[begin 1f terminating=false end 1f error begin 2a terminating=false end 2a ok]"
	if got != want {
		t.Fatalf("log %s, want %s", got, want)
	}
	if !mx.IsTerminated() || mx.Err() == nil || !s0.IsTerminating() || !s1.IsTerminating() {
		t.Fatalf("after the failure: terminated=%v err=%v inner terminating=%v,%v", mx.IsTerminated(), mx.Err(), s0.IsTerminating(), s1.IsTerminating())
	}
}
