// package directory: . (module root, package bstream) — run: cd <repo> && GOFLAGS=-mod=mod GOPROXY=off GOSUMDB=off GOTOOLCHAIN=local timeout 600 go test -vet=off -count=1 -run 'TestW1_C14_' .
package bstream

import (
	"math/rand"
	"strings"
	"testing"
	"time"
)

// w1Watch fails the test when f does not return in time (hang guard).
func w1Watch(t *testing.T, d time.Duration, f func()) {
	t.Helper()
	done := make(chan struct{})
	go func() { defer close(done); f() }()
	select {
	case <-done:
	case <-time.After(d):
		t.Fatalf("watchdog: no return after %s", d)
	}
}

type w1cur struct {
	step             StepType
	bid, hid, lid    string
	bnum, hnum, lnum uint64
}

func w1proj(c *Cursor) w1cur {
	return w1cur{c.Step, c.Block.ID(), c.HeadBlock.ID(), c.LIB.ID(), c.Block.Num(), c.HeadBlock.Num(), c.LIB.Num()}
}

// W1-C14-1 (reading choice, not a defect by the letter): the decoders accept a text whose references are
// internally inconsistent (one id with two heights); re-encoding silently rewrites a height. The decoded and the
// re-decoded cursor differ in HeadBlock.Num / LIB.Num; Cursor.Equals (ids only) calls them equal.
func TestW1_C14_DecodeInconsistentRefs(t *testing.T) {
	w1Watch(t, 10*time.Second, func() {
		// head id = block id, head height 7 <> block height 5
		c, err := FromString("c3:1:5:aa:7:aa:3:bb")
		if err != nil {
			t.Fatalf("expected acceptance, got %v", err)
		}
		if got := w1proj(c); got != (w1cur{1, "aa", "aa", "bb", 5, 7, 3}) {
			t.Fatalf("decoded %+v", got)
		}
		re := c.String()
		if re != "c1:1:5:aa:3:bb" {
			t.Fatalf("re-encoded %q", re)
		}
		c2, err := FromString(re)
		if err != nil {
			t.Fatal(err)
		}
		if got := w1proj(c2); got != (w1cur{1, "aa", "aa", "bb", 5, 5, 3}) {
			t.Fatalf("re-decoded %+v", got)
		}
		if c2.HeadBlock.Num() == c.HeadBlock.Num() {
			t.Fatal("head height expected to change 7 -> 5")
		}
		if !c.Equals(c2) {
			t.Fatal("Cursor.Equals expected to hold (ids only)")
		}
		t.Logf("FromString(%q) = head (aa,7); String = %q; FromString again = head (aa,5); Equals = true", "c3:1:5:aa:7:aa:3:bb", re)

		// block id = LIB id, LIB height 3 <> block height 5: LIB.Num rewritten 3 -> 5; also through the opaque form
		d, err := FromString("c3:16:5:aa:9:hh:3:aa")
		if err != nil {
			t.Fatal(err)
		}
		d2, err := CursorFromOpaque(d.ToOpaque())
		if err != nil {
			t.Fatal(err)
		}
		if w1proj(d).lnum != 3 || w1proj(d2).lnum != 5 || d.String() != "c2:16:5:aa:9:hh" {
			t.Fatalf("got %+v then %+v (%q)", w1proj(d), w1proj(d2), d.String())
		}
		// IsOnFinalBlock changes its answer across the re-encoding: Block.Num == LIB.Num is false before, true after
		if d.IsOnFinalBlock() || !d2.IsOnFinalBlock() {
			t.Fatalf("IsOnFinalBlock before=%v after=%v", d.IsOnFinalBlock(), d2.IsOnFinalBlock())
		}
		t.Logf("c3:16:5:aa:9:hh:3:aa: LIB (aa,3) -> (aa,5) after ToOpaque/CursorFromOpaque; IsOnFinalBlock false -> true; Equals=%v", d.Equals(d2))
		if !d.Equals(d2) {
			t.Fatal("Equals expected true")
		}
	})
}

// Cursor.Equals, the code's notion of "equivalent", ignores the step and the heights.
func TestW1_C14_EqualsIgnoresStepAndHeights(t *testing.T) {
	a, _ := FromString("c1:1:5:aa:3:bb")
	b, _ := FromString("c1:2:6:aa:4:bb")
	if a == nil || b == nil {
		t.Fatal("decode")
	}
	if !a.Equals(b) {
		t.Fatal("expected Equals = true for cursors differing in step (new/undo) and heights")
	}
	t.Logf("Equals(new 5/aa lib 3/bb, undo 6/aa lib 4/bb) = true")
}

// Input classes the generator never draws: ids made of arbitrary bytes except ':' (NUL, newline, '%', invalid UTF-8,
// very long), all five aliasing patterns, extreme heights. Observed: the unchanged round trip holds for all of them.
func TestW1_C14_ArbitraryByteIDsRoundTrip(t *testing.T) {
	w1Watch(t, 60*time.Second, func() {
		r := rand.New(rand.NewSource(14))
		mkid := func() string {
			switch r.Intn(6) {
			case 0:
				return ""
			case 1:
				return "%d%s%!v(MISSING)\x00\n\r\t"
			case 2:
				return "\xff\xfe\x80\xc0"
			case 3:
				return strings.Repeat("z", 1<<16)
			}
			n := r.Intn(24)
			b := make([]byte, n)
			for i := range b {
				b[i] = byte(r.Intn(256))
				if b[i] == ':' {
					b[i] = ';'
				}
			}
			return string(b)
		}
		hs := []uint64{0, 1, 1<<32 - 1, 1 << 32, 1<<63 - 1, 1 << 63, 1<<64 - 1}
		mkh := func() uint64 {
			if r.Intn(2) == 0 {
				return hs[r.Intn(len(hs))]
			}
			return r.Uint64()
		}
		steps := []StepType{StepNew, StepUndo, StepIrreversible, StepNewIrreversible}
		n := 0
		for i := 0; i < 20000; i++ {
			blk, head, lib := NewBlockRef(mkid(), mkh()), NewBlockRef(mkid(), mkh()), NewBlockRef(mkid(), mkh())
			switch r.Intn(5) {
			case 1:
				head = blk
			case 2:
				lib = blk
			case 3:
				lib = head
			case 4:
				head, lib = blk, blk
			}
			// equal ids imply equal heights
			if head.ID() == blk.ID() {
				head = blk
			}
			if lib.ID() == blk.ID() {
				lib = blk
			}
			if lib.ID() == head.ID() {
				lib = head
			}
			c := &Cursor{Step: steps[r.Intn(4)], Block: blk, HeadBlock: head, LIB: lib}
			want := w1proj(c)
			d, err := FromString(c.String())
			if err != nil || w1proj(d) != want {
				t.Fatalf("text round trip failed on %+v: %v", want, err)
			}
			o, err := CursorFromOpaque(c.ToOpaque())
			if err != nil || w1proj(o) != want {
				t.Fatalf("opaque round trip failed on %+v: %v", want, err)
			}
			wantLayout := "c3"
			if head.ID() == blk.ID() {
				wantLayout = "c1"
			} else if blk.ID() == lib.ID() {
				wantLayout = "c2"
			}
			s := c.String()
			wantSeg := 6
			if wantLayout == "c3" {
				wantSeg = 8
			}
			if s[:2] != wantLayout || len(strings.Split(s, ":")) != wantSeg {
				t.Fatalf("layout %q segs %d, want %s/%d", s[:2], len(strings.Split(s, ":")), wantLayout, wantSeg)
			}
			n++
		}
		t.Logf("%d cursors with arbitrary-byte ids: text and opaque round trips unchanged, layout shortest", n)
	})
}

// Foreign decoder input the generator never draws: long inputs, many separators, base64 with embedded newlines.
func TestW1_C14_DecodersHostileInput(t *testing.T) {
	w1Watch(t, 60*time.Second, func() {
		r := rand.New(rand.NewSource(15))
		alphabet := []byte("c123:+-0123456789:::ab\x00\xff \n")
		acc := 0
		for i := 0; i < 200000; i++ {
			var s string
			if i%2 == 0 {
				n := r.Intn(40)
				b := make([]byte, n)
				for j := range b {
					b[j] = alphabet[r.Intn(len(alphabet))]
				}
				s = string(b)
			} else { // segment-structured: mostly well-formed texts with hostile tokens
				toks := []string{"1", "2", "16", "17", "+1", "+17", "0017", "-0", "3", "32", "0", "5", "007", "18446744073709551615", "18446744073709551616", "", "aa", "bb", "aa", "\x00", "\xff", "c1", " 5", "+5"}
				k := []int{6, 6, 8, 8, 5, 7, 9}[r.Intn(7)]
				parts := []string{[]string{"c1", "c2", "c3", "c3", "c4"}[r.Intn(5)], toks[r.Intn(8)]}
				for len(parts) < k {
					parts = append(parts, toks[r.Intn(len(toks))])
				}
				s = strings.Join(parts, ":")
			}
			c, err := FromString(s)
			if err != nil {
				if c != nil {
					t.Fatalf("error with non-nil cursor on %q", s)
				}
				continue
			}
			acc++
			c2, err := FromString(c.String())
			if err != nil {
				t.Fatalf("re-decode of %q failed: %v", s, err)
			}
			p, p2 := w1proj(c), w1proj(c2)
			if p.step != p2.step || p.bid != p2.bid || p.bnum != p2.bnum || p.hid != p2.hid || p.lid != p2.lid {
				t.Fatalf("not equivalent: %q -> %+v -> %+v", s, p, p2)
			}
		}
		for _, s := range []string{strings.Repeat(":", 1<<20), "c1:" + strings.Repeat("9", 1<<20) + ":1:a:1:b", strings.Repeat("c3:1:1:a", 1<<16)} {
			if _, err := FromString(s); err == nil {
				t.Fatalf("expected an error on a %d-byte hostile text", len(s))
			}
		}
		// base64 decoder of the opaque layer ignores CR/LF: a valid opaque cursor with newlines inside still decodes
		c, _ := FromString("c1:1:5:aa:3:bb")
		o := c.ToOpaque()
		o2 := o[:5] + "\n" + o[5:10] + "\r\n" + o[10:]
		d, err := CursorFromOpaque(o2)
		if err != nil || w1proj(d) != w1proj(c) {
			t.Fatalf("opaque with CR/LF: %v", err)
		}
		for _, s := range []string{"", "=", "====", strings.Repeat("A", 1<<20), o[:len(o)-1], o + "A"} {
			if d, err := CursorFromOpaque(s); err == nil || d != nil {
				t.Fatalf("expected an error on opaque %q...", s[:min(len(s), 12)])
			}
		}
		t.Logf("200000 random texts (%d accepted, all re-encode to an equivalent cursor), hostile long inputs rejected, no panic; opaque text with CR/LF accepted", acc)
	})
}
