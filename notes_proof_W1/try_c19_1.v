(* W1 scratch: C19 conclusion audit experiments *)
From BV Require Import Base.Prelude Base.Decimal Model.Range Spec.C19_Spec Check.C19_Check.
Local Open Scope N_scope.

Definition nums := map N.of_nat (seq 0 41).
Definition members (r : range) := filter (contains r) nums.
Definition II := mkRange 10 (Some 15) false false.
Definition EE := mkRange 10 (Some 15) true true.
Definition IE := mkRange 10 (Some 15) false true.
Definition EI := mkRange 10 (Some 15) true false.
Eval vm_compute in (members II, members (next II 5), members (next (next II 5) 5)).
Eval vm_compute in (members EE, members (next EE 5), members (next (next EE 5) 5)).
Eval vm_compute in (members IE, members (next IE 5)).
Eval vm_compute in (members EI, members (next EI 5)).
Eval vm_compute in (members (previous II 5), members (previous EE 5)).
Eval vm_compute in (next (mkRange 10 None false true) 5, previous (mkRange 10 None false true) 5).

(* the checker accepts the real observation of [10,15].Next(5) at the shared number 15 (verdict 0) *)
Eval vm_compute in c19_verdict (KMeth II 15 5 (mkRange 15 (Some 20) false false)
   true true (Some 5) (mkRange 15 (Some 20) false false) (mkRange 5 (Some 10) false false) true true false).
(* ... and (10,15).Next(5) at the uncovered number 15 *)
Eval vm_compute in c19_verdict (KMeth EE 15 5 (mkRange 15 (Some 20) true true)
   false true (Some 5) (mkRange 15 (Some 20) true true) (mkRange 5 (Some 10) true true) true true false).

(* Split of a both-inclusive range: every inner boundary is in two chunks (union as a set is exact) *)
Eval vm_compute in split (mkRange 10 (Some 30) false false) 10.
(* a range exactly one chunk wide that straddles a multiple stays ONE chunk (no inner boundary: text vacuous) *)
Eval vm_compute in (split (mkRange 15 (Some 25) false true) 10, split (mkRange 15 (Some 26) false true) 10).
(* ReachedEndBlock: last member or beyond, all four combinations, n = 13..16 *)
Eval vm_compute in map (fun r => map (reached r) [13;14;15;16]) [II; IE; EI; EE].
(* Size ignores the flags (U2 remark) *)
Eval vm_compute in map (fun r => (size r, length (members r))) [II; IE; EI; EE].
(* NewRangeContaining *)
Eval vm_compute in (new_range_containing 150 100, new_range_containing 200 100).
