(* W1 scratch for C12: the model evaluated at the concrete inputs used in notes_C12.md (conclusion audit).
   Needs the STRENGTHENED Check/C12_Check.v (check_C12.diff applied: restarts_happen, count_factory, expected_starts);
   audit2_C12.v does not. *)
From BV Require Import Base.Prelude Model.Lifecycle Spec.C12_Spec Check.C12_Check.
Local Open Scope nat_scope.

(* ---- S7: "after which no handler call begins" — the Spec uses quiet := returned.  Is there a call that begins after
   Terminated but before Run returned (the reading "after Shutdown completed")?  Eternal: Shutdown complete while the inner
   source is between two deliveries. *)
Definition et1 := run (Et.step true) (repeat Et.TRun 6 ++ repeat Et.TX 5) (Et.init [[IBlock 1 true; IBlock 2 true; IBlock 3 true]]).
Compute (Et.pcr et1, Et.terminated et1, Et.src_term et1, Et.hbegun et1).
Compute (let s := run (Et.step true) (repeat Et.TRun 10) et1 in (Et.pcr s, Et.hbegun s, rev (Et.log s))).
(* Shutdown between close(terminatingCh) and the callback: calls still begin (terminating, not terminated) *)
Definition et2 := run (Et.step true) (repeat Et.TRun 4 ++ [Et.TX; Et.TX]) (Et.init [[IBlock 1 true; IBlock 2 true; IBlock 3 true]]).
Compute (Et.pcr et2, Et.terminating et2, Et.terminated et2, Et.hbegun et2).
Compute (let s := run (Et.step true) (repeat Et.TRun 4) et2 in (Et.pcr s, Et.terminating s, Et.terminated s, Et.hbegun s)).

(* joining, same question: complete Shutdown while the file source is between two deliveries *)
Definition jc := Jn.mkcfg true false true.
Definition jn1 := run (Jn.step jc) (repeat Jn.TRun 5 ++ repeat Jn.TX 5) (Jn.init [Jn.FBlock 1 true; Jn.FBlock 2 true; Jn.FJoin 3] [IBlock 3 true]).
Compute (Jn.pcr jn1, Jn.terminated jn1, Jn.hbegun jn1).
Compute (let s := run (Jn.step jc) (repeat Jn.TRun 10) jn1 in (Jn.pcr s, Jn.hbegun s, rev (Jn.log s))).

(* ---- S10: C12_fail_stops_all, 1st clause, the alternative "finds the once won": an external Shutdown has won the once
   (stage SClose: channel not closed yet) when the handler fails *)
Definition mx1 :=
  run (Mx.step true) (repeat Mx.TRun 7 ++ [Mx.TIn 0; Mx.TIn 0; Mx.TIn 0] ++ [Mx.TX] ++ [Mx.TIn 0; Mx.TIn 0])
      (Mx.init 2 [[IBlock 1 false]; [IBlock 2 true]]).
Compute (Mx.sdst mx1, Mx.failed mx1, map Mx.i_pc (Mx.inners mx1), map Mx.i_term (Mx.inners mx1), Mx.terminating mx1).
(* the failing goroutine goes on without shutting anything down (IFailRet -> its own source only) *)
Compute (let s := run (Mx.step true) [Mx.TIn 0; Mx.TIn 0; Mx.TIn 0] mx1 in
         (Mx.sdst s, map Mx.i_pc (Mx.inners s), map Mx.i_term (Mx.inners s))).
(* source 1 can still begin a handler call after the failure, until the external thread closes the channel *)
Compute (let s := run (Mx.step true) [Mx.TIn 1; Mx.TIn 1; Mx.TIn 1] mx1 in (Mx.hbegun mx1, Mx.hbegun s, Mx.terminating s)).
(* all inner sources are shut down once the external Shutdown goes on *)
Compute (let s := run (Mx.step true) (repeat Mx.TX 4) mx1 in (Mx.terminated s, map Mx.i_term (Mx.inners s))).

(* a handler call that begins AFTER a handler failure and before the terminating channel closes (no external Shutdown):
   IInH -> IUnl b false releases handlerLock one step before the once is won *)
Definition mx2 :=
  run (Mx.step true) (repeat Mx.TRun 7 ++ [Mx.TIn 0; Mx.TIn 0; Mx.TIn 0; Mx.TIn 1; Mx.TIn 0] ++ [Mx.TIn 1; Mx.TIn 1])
      (Mx.init 2 [[IBlock 1 false]; [IBlock 2 true]]).
Compute (Mx.failed mx2, Mx.sdst mx2, Mx.hbegun mx2, map Mx.i_pc (Mx.inners mx2), rev (Mx.log mx2)).

(* ---- S12: the model does restart (liveness of the restart is not in the Spec): idle-time schedule *)
Definition et3 := et_model [[IBlock 1 true; IFail]; [IFail]; [IBlock 2 true]] InjIdle.
Compute (rev (Et.log et3)).
Compute (count_factory (rev (Et.log et3)), expected_starts [[IBlock 1 true; IFail]; [IFail]; [IBlock 2 true]]).

(* the checker's eternal acceptance condition (original: without restarts_happen) on an observation in which the inner
   source failed on its own and was never replaced *)
Definition l_norestart := [EPoint 0; EFactory 0 0; EPoint 1; EPoint 2; EHBegin 0 1; EHEnd 0 1 true; EDown 0; EPoint 3; ERet].
Definition o_norestart := mkObs l_norestart true true 0 false true false.
Compute (common_ok o_norestart && no_begin_after_ret false l_norestart && restarts_ok_chrono 0 l_norestart).
Compute (restarts_happen [[IBlock 1 true; IFail]] InjIdle l_norestart).
Compute (c12_verdict (KEternal [[IBlock 1 true; IFail]] InjRandom o_norestart)).
Compute (c12_verdict (KEternal [[IBlock 1 true; IFail]] InjIdle o_norestart)).

(* ---- K4: fail_then_down looks for EDown s ANYWHERE in the log *)
Compute (fail_then_down [EDown 0; EHBegin 0 1; EHEnd 0 1 false] [EDown 0; EHBegin 0 1; EHEnd 0 1 false]).
(* ---- K8: sequential accepts a log that ends inside a call *)
Compute (sequential None [EHBegin 0 1]).
