(* W1 conclusion audit, C09.  Standalone: coqc -Q . BV ../notes_proof_W1/audit2_C09.v
   The witnesses are about the ACCEPTANCE CONDITION of the C09 property checker (Check/Hub_Check.v, c09_follow /
   c09_prop, verdict code 2) as it stood when the audit began.  So that this file keeps compiling when the checker is
   strengthened (check_C09.diff), the audited definitions are copied VERBATIM below under the names a2_offered,
   a2_universe_of, a2_follow_orig, a2_in_scope, a2_prop_orig (original: /tmp/ag/W1/verif/coq/Check/Hub_Check.v,
   "property checker over the observation").  Observations are built from the model's own run (a2_obs: what a faithful
   hub shows) and then altered at ONE place; every altered observation contradicts a clause of the property text and is
   still accepted.  No candidate DEFECT OF THE LIBRARY is claimed here: the real hub never shows these observations
   (replayed: see notes_C09.md); the witnesses show which violations the property checker could not have reported. *)
From BV Require Import Base.Prelude Model.Block Model.ForkDB Model.Forkable Model.ForkableLookups Model.Burst Model.Hub.
From BV Require Import Spec.Consumer Spec.Universe Spec.ForkChoice Check.Fk_Check Check.Burst_Check.
Local Open Scope N_scope.

(* ---- the observation record of Check/Hub_Check.v (copied: hub_obs, hub_case) ---- *)
Record a2_hub_obs := a2_mkHObs {
  a2o_result : result;
  a2o_ready : bool; a2o_lowest : N; a2o_head : option (ref * N);
  a2o_tracker : list event;
  a2o_ans : list ans }.

Record a2_hub_case := a2_mkHubCase {
  a2c_first : N; a2c_kept : N;
  a2c_live : list (block * pass);
  a2c_obs : list a2_hub_obs }.

(* ---- verbatim copy of the original property checker ---- *)
(* every block a2_offered so far: pass blocks (if the pass may have been used) and live blocks *)
Definition a2_offered (l : list (block * pass)) : list block :=
  flat_map (fun bp => match snd bp with PBlocks bl => bl ++ [fst bp] | PNil => [fst bp] end) l.

Definition a2_universe_of (k : a2_hub_case) : list block := a2_offered (a2c_live k).

Fixpoint a2_follow_orig (k : a2_hub_case) (c : cons) (was_ready : bool) (seen : list (block * pass))
         (l : list (block * pass)) (os : list a2_hub_obs) : bool :=
  match l, os with
  | (b, p) :: l', o :: os' =>
      let seen' := seen ++ [(b, p)] in
      match cons_fold c (a2o_tracker o) with
      | None => false
      | Some c' =>
          (* readiness is a latch and is reached only on a live block that links, through blocks
             received so far, to the height it declares as LIB *)
          (negb was_ready || a2o_ready o) &&
          (negb (a2o_ready o && negb was_ready) ||
           let recv := a2_offered seen' in
           match ancestor_at (S (length recv)) recv b (blib b) with Some _ => true | None => false end) &&
          (* not ready: no head, lowest is 0 (the property says nothing about snapshots before readiness) *)
          (a2o_ready o || ((a2o_lowest o =? 0) && match a2o_head o with None => true | Some _ => false end)) &&
          (* ready: head = tip of the tracked consumer; answers against the tracked chain *)
          (negb (a2o_ready o) ||
           (match a2o_head o, cs_stack c' with
            | Some (r, _), top :: _ => ri r =? bid top
            | _, _ => false end &&
            forallb (fun a =>
               let canon := rev (cs_stack c') in
               let servable := existsb (fun x => (bnum x =? a_start a) && (a2o_lowest o <=? bnum x)) canon in
               if a_kind a =? 2 then
                 Bool.eqb (a_served a) servable &&
                 (negb (a_served a) ||
                  let exp := drop_until_num (a_start a) canon in
                  let nfin := cs_nf c' in
                  let nskip := (length canon - length exp)%nat in
                  eqb_list (ids (map eblk (a_events a))) (ids exp) &&
                  forallb (fun q => let '(i, e) := q in
                             step_eqb (estep e) (if Nat.ltb (nskip + i) nfin then SNewIrr else SNew))
                          (combine (seq 0 (length (a_events a))) (a_events a)) &&
                  forallb (fun e => ref_eqb (ecblk e) (bref (eblk e)) &&
                                    match cs_stack c' with top :: _ => ref_eqb (ehead e) (bref top) | [] => false end &&
                                    (rn (elib e) <=? bnum (eblk e))) (a_events a))
               else
                 negb (a_served a) ||
                 (nondecreasing (a_forks a) && nodupN (ids (a_forks a)) &&
                  forallb (fun x => (a_start a <=? bnum x) && memN (bid x) (a_stored a)) (a_forks a) &&
                  forallb (fun id => match lookup id (a2_universe_of k) with
                                     | Some x => negb (a_start a <=? bnum x) || memN id (ids (a_forks a))
                                     | None => true end) (a_stored a)))
               (a2o_ans o))) &&
          a2_follow_orig k c' (a2o_ready o) seen' l' os'
      end
  | _, _ => true
  end.

Definition a2_in_scope (k : a2_hub_case) : bool :=
  wf_b (a2_universe_of k) && lib_ok_b LNone (a2_universe_of k).
Definition a2_prop_orig (k : a2_hub_case) : bool :=
  negb (a2_in_scope k) || a2_follow_orig k cons0 false [] (a2c_live k) (a2c_obs k).

(* ---- the model's own observation of a hub run (what a faithful hub shows) ---- *)
Definition a2_cur0 : cursor := mkCursor SNew (mkR 0 0) (mkR 0 0) (mkR 0 0).
Definition a2_stored (s : fstate) : list N := map (fun e => bid (eb e)) (store (db s)).
Definition a2_ans (s : fstate) (low m kind n : N) : ans :=
  if kind =? 2 then
    match blocks_from_num s n with
    | BOk evs => mkAns 2 m 0 a2_cur0 n true evs [] false false low (a2_stored s) false
    | _ => mkAns 2 m 0 a2_cur0 n false [] [] false false low (a2_stored s) false
    end
  else match blocks_from_num_with_forks s n with
       | Some bl => mkAns 3 m 0 a2_cur0 n true [] bl false false low (a2_stored s) false
       | None => mkAns 3 m 0 a2_cur0 n false [] [] false false low (a2_stored s) false
       end.

Fixpoint a2_obs (first kept : N) (h : hub) (tracked : bool) (m : N) (l : list (block * pass))
         (reqs : list (list (N * N))) : list a2_hub_obs :=
  match l with
  | [] => []
  | (b, p) :: l' =>
      let '(h', evs, r) := hub_live first kept h p b in
      let '(tr, tracked') :=
        if tracked then (evs, true)
        else if h_ready h' then
          match blocks_from_num (h_f h') (hub_lowest h') with BOk e => (e, true) | _ => ([], false) end
        else ([], false) in
      let rq := match reqs with q :: _ => q | [] => [] end in
      a2_mkHObs r (h_ready h') (hub_lowest h') (hub_head h') tr
                (map (fun q => a2_ans (h_f h') (hub_lowest h') (m + 1) (fst q) (snd q)) rq)
      :: a2_obs first kept h' tracked' (m + 1) l' (tl reqs)
  end.

(* chain 1..8 (ids 11..18), block k declares LIB k-2; a fork block 26 at height 6 on top of 15.
   First streamable block 1, no kept final blocks.  Live 5 with one-block files 1..4, then live 26, 6, 7, 8. *)
Definition a2_B (k : N) : block := mkBlock (10 + k) k (if k =? 1 then 0 else 9 + k) (if k <=? 3 then 1 else k - 2).
Definition a2_F6 : block := mkBlock 26 6 15 4.
Definition a2_live : list (block * pass) :=
  [(a2_B 5, PBlocks [a2_B 1; a2_B 2; a2_B 3; a2_B 4]); (a2_F6, PNil); (a2_B 6, PNil); (a2_B 7, PNil); (a2_B 8, PNil)].
(* requests (kind, number) after each live block; kind 2 = from number, 3 = with forks *)
Definition a2_reqs : list (list (N * N)) :=
  [[(2, 2); (2, 3); (2, 5); (2, 6); (3, 0)]; [(2, 3); (2, 4); (3, 4)]; [(2, 3); (2, 4); (3, 5)];
   [(2, 4); (2, 5); (3, 6); (3, 9)]; [(2, 5); (2, 6); (3, 6); (2, 0)]].
Definition a2_faithful : list a2_hub_obs := a2_obs 1 0 hub_init false 0 a2_live a2_reqs.
Definition a2_case (os : list a2_hub_obs) : a2_hub_case := a2_mkHubCase 1 0 a2_live os.

(* replace observation number i *)
Fixpoint a2_set {A} (i : nat) (f : A -> A) (l : list A) : list A :=
  match l, i with
  | [], _ => []
  | x :: l', O => f x :: l'
  | x :: l', S i' => x :: a2_set i' f l'
  end.
Definition a2_set_ans (f : list ans -> list ans) (o : a2_hub_obs) : a2_hub_obs :=
  a2_mkHObs (a2o_result o) (a2o_ready o) (a2o_lowest o) (a2o_head o) (a2o_tracker o) (f (a2o_ans o)).
Definition a2_refuse (a : ans) : ans :=
  mkAns (a_kind a) (a_m a) (a_k a) (a_cur a) (a_start a) false [] [] (a_libon a) (a_blkret a) (a_lowest a) (a_stored a) false.
Definition a2_with_forks (l : list block) (a : ans) : ans :=
  mkAns (a_kind a) (a_m a) (a_k a) (a_cur a) (a_start a) (a_served a) (a_events a) l (a_libon a) (a_blkret a) (a_lowest a) (a_stored a) false.

(* the case is inside the checker's scope, the hub is ready from the first live block on, and the faithful observation is
   accepted: lowest 3, 4, 4, 5, 6; head 15, 26, 26, 17, 18 *)
Example a2_faithful_accepted :
  a2_in_scope (a2_case a2_faithful) = true /\ a2_prop_orig (a2_case a2_faithful) = true /\
  map a2o_ready a2_faithful = [true; true; true; true; true] /\
  map a2o_lowest a2_faithful = [3; 4; 4; 5; 6].
Proof. vm_compute. repeat split; reflexivity. Qed.

(* ------------------------------------------------------------------------------------------------------------------
   W1-C09-2  "its with-forks snapshot contains every retained block at or above the requested number":
   a READY hub that REFUSES the with-forks request (nil source) although it retains blocks at or above the number is
   accepted (`negb (a_served a) || ...`: an unserved with-forks answer is never looked at).                        *)
Definition a2_obs_forks_refused : list a2_hub_obs :=
  a2_set 3 (a2_set_ans (a2_set 2 a2_refuse)) a2_faithful.

Theorem c09_forks_refused_conclusion_weaker :
  exists os a,
    (* accepted by the property checker, in scope *)
    a2_in_scope (a2_case os) = true /\ a2_prop_orig (a2_case os) = true /\
    (* a with-forks request at 6 to a ready hub, after the fourth live block *)
    nth_error os 3 = Some (a2_mkHObs ROk true 5 (Some (mkR 17 7, 5)) (a2o_tracker (nth 3 os (a2_mkHObs ROk false 0 None [] [])))
                                    (a2o_ans (nth 3 os (a2_mkHObs ROk false 0 None [] [])))) /\
    nth_error (a2o_ans (nth 3 os (a2_mkHObs ROk false 0 None [] []))) 2 = Some a /\
    a_kind a = 3 /\ a_start a = 6 /\
    (* what the text demands fails: no snapshot at all, while three retained blocks (26, 16, 17) are numbered >= 6 *)
    a_served a = false /\
    filter (fun id => match lookup id (a2_universe_of (a2_case os)) with Some x => 6 <=? bnum x | None => false end) (a_stored a)
      = [26; 16; 17].
Proof.
  exists a2_obs_forks_refused. eexists.
  split; [vm_compute; reflexivity|]. split; [vm_compute; reflexivity|].
  split; [vm_compute; reflexivity|]. split; [vm_compute; reflexivity|].
  vm_compute. repeat split; reflexivity.
Qed.
Print Assumptions c09_forks_refused_conclusion_weaker.

(* ------------------------------------------------------------------------------------------------------------------
   W1-C09-3  "the lowest block number it reports is itself servable" / "when n is the number of a retained canonical
   block": in the checker a canonical block counts as retained iff its number is >= the REPORTED lowest number
   (`ho_lowest o <=? bnum x`), so the reported number is never compared with what the hub holds.  A ready hub that
   reports lowest = 100 (far above its head 26) and refuses every from-number request is accepted, although the hub
   holds the canonical blocks 14, 15, 26 (a_stored) and no request at 100 could be served.                          *)
Definition a2_obs_lowest_100 : list a2_hub_obs :=
  a2_set 2 (fun o => a2_mkHObs (a2o_result o) true 100 (a2o_head o) (a2o_tracker o)
                               (map (fun a => if a_kind a =? 2 then a2_refuse a else a) (a2o_ans o) ++
                                [mkAns 2 3 0 a2_cur0 100 false [] [] false false 100 [14; 15; 26] false]))
         a2_faithful.

Theorem c09_lowest_unservable_conclusion_weaker :
  exists os o,
    a2_in_scope (a2_case os) = true /\ a2_prop_orig (a2_case os) = true /\
    nth_error os 2 = Some o /\ a2o_ready o = true /\ a2o_lowest o = 100 /\
    a2o_head o = Some (mkR 26 6, 4) /\
    (* the reported lowest number is not servable: the request at it is refused, as is every from-number request ... *)
    forallb (fun a => negb (a_kind a =? 2) || negb (a_served a)) (a2o_ans o) = true /\
    existsb (fun a => (a_kind a =? 2) && (a_start a =? 100)) (a2o_ans o) = true /\
    (* ... among them the request at 4, the number of the canonical block 14, which the hub holds *)
    existsb (fun a => (a_kind a =? 2) && (a_start a =? 4) && memN 14 (a_stored a)) (a2o_ans o) = true.
Proof.
  exists a2_obs_lowest_100. eexists.
  split; [vm_compute; reflexivity|]. split; [vm_compute; reflexivity|].
  split; [vm_compute; reflexivity|].
  vm_compute. repeat split; reflexivity.
Qed.
Print Assumptions c09_lowest_unservable_conclusion_weaker.

(* ------------------------------------------------------------------------------------------------------------------
   W1-C09-4  "reports ready only after a live block links through RECEIVED blocks to the LIB height it declares":
   the checker walks through every block OFFERED so far (`offered seen'`: all blocks of every pass), whether or not the
   hub ran that pass.  A hub that ignores the one-block files, holds only the live block 15 and reports ready is
   accepted: 15 -> 14 -> 13 (its declared LIB height 3) exists among the offered blocks only.                       *)
Definition a2_ev15 : event := mkEv SNew (a2_B 5) (bref (a2_B 5)) (bref (a2_B 5)) (mkR 13 3) None 0 0.
Definition a2_obs_ready_unreceived : list a2_hub_obs :=
  [a2_mkHObs ROk true 5 (Some (mkR 15 5, 3)) [a2_ev15]
     [mkAns 2 1 0 a2_cur0 4 false [] [] false false 5 [15] false;
      mkAns 2 1 0 a2_cur0 5 true [a2_ev15] [] false false 5 [15] false;
      mkAns 2 1 0 a2_cur0 6 false [] [] false false 5 [15] false;
      mkAns 3 1 0 a2_cur0 0 true [] [a2_B 5] false false 5 [15] false]].
Definition a2_case_one : a2_hub_case := a2_mkHubCase 1 0 [(a2_B 5, PBlocks [a2_B 1; a2_B 2; a2_B 3; a2_B 4])] a2_obs_ready_unreceived.

Theorem c09_ready_through_unreceived_conclusion_weaker :
  a2_in_scope a2_case_one = true /\ a2_prop_orig a2_case_one = true /\
  map a2o_ready (a2c_obs a2_case_one) = [true] /\
  (* the hub holds the live block only ... *)
  map a_stored (a2o_ans (nth 0 (a2c_obs a2_case_one) (a2_mkHObs ROk false 0 None [] []))) = [[15]; [15]; [15]; [15]] /\
  (* ... through which the live block does not reach the height 3 it declares as LIB *)
  blib (a2_B 5) = 3 /\ ancestor_at 10 [a2_B 5] (a2_B 5) 3 = None /\
  (* the checker's walk succeeds only through blocks of the pass *)
  ancestor_at 10 (a2_offered (a2c_live a2_case_one)) (a2_B 5) 3 = Some (a2_B 3).
Proof. vm_compute. repeat split; reflexivity. Qed.
Print Assumptions c09_ready_through_unreceived_conclusion_weaker.

(* ------------------------------------------------------------------------------------------------------------------
   W1-C09-1  "in non-decreasing height": the HARNESS sorted every with-forks answer by (height, id) before handing it to
   the checker (harness/hubh.go, `sort.SliceStable(ans.Forks, ...)`; the same in harness/burst.go), so the clause
   `nondecreasing (a_forks a)` and the comparison with the model only ever saw a sorted list.  a2_proj is that
   projection.  A hub that delivers the snapshot highest block first is projected onto the faithful observation.
   OBSERVED on the real code: with `blocksFromNumWithForks` sorting in DESCENDING height, `./check C09` exited 0.   *)
Definition a2_proj_ans (a : ans) : ans := a2_with_forks (fold_right insert_nb [] (a_forks a)) a.
Definition a2_proj (os : list a2_hub_obs) : list a2_hub_obs := map (a2_set_ans (map a2_proj_ans)) os.
Definition a2_obs_forks_descending : list a2_hub_obs :=
  map (a2_set_ans (map (fun a => a2_with_forks (rev (a_forks a)) a))) a2_faithful.

Theorem c09_forks_order_projection_conclusion_weaker :
  exists raw,
    (* what reaches the checker is the faithful observation: accepted, and equal to the model's answers *)
    a2_proj raw = a2_faithful /\ a2_prop_orig (a2_case (a2_proj raw)) = true /\
    (* what the hub delivered: every with-forks snapshot of two or more heights in DECREASING height *)
    map (fun o => map (fun a => map bnum (a_forks a)) (filter (fun a => a_kind a =? 3) (a2o_ans o))) raw
      = [[[5; 4; 3]]; [[6; 5; 4]]; [[6; 6; 5]]; [[7; 6; 6]; []]; [[8; 7; 6; 6]]] /\
    forallb (fun o => forallb (fun a => nondecreasing (a_forks a)) (a2o_ans o)) raw = false.
Proof.
  exists a2_obs_forks_descending.
  split; [vm_compute; reflexivity|]. split; [vm_compute; reflexivity|].
  vm_compute. split; reflexivity.
Qed.
Print Assumptions c09_forks_order_projection_conclusion_weaker.
