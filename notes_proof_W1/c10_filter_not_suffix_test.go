// package directory: . ; run: go test -vet=off -count=1 -run 'TestW1_C10_' ./
//
// W1 conclusion audit of C10.  The Spec (C10_seq: E = filter keep stored), the reference model (FileSeq.candidates)
// and the checker (C10_Check.eligible) all describe the delivered sequence as a FILTER over the stored blocks
// (num >= start && num >= bundle base, applied to every stored block) and check parent links between consecutive
// KEPT blocks.  The property text says "the stored blocks in exactly stored order, beginning with the first block at
// or above the start block" (a SUFFIX of the stored sequence, legacy LEADING block aside) and "if consecutive STORED
// blocks are not parent-linked it stops with an error".  The two readings differ only when a stored block in the
// middle of the stream carries a number below the start block / below its bundle base.  These tests record what the
// real FileSource does there.  All tests PASS and assert the observed behaviour.
package bstream

import (
	"errors"
	"fmt"
	"testing"
	"time"

	pbbstream "github.com/streamingfast/bstream/pb/sf/bstream/v1"
	"github.com/streamingfast/dstore"
	"github.com/stretchr/testify/require"
)

func w1c10Run(t *testing.T, fs *FileSource) {
	done := make(chan struct{})
	go func() { fs.Run(); close(done) }()
	select {
	case <-done:
	case <-time.After(3 * time.Second):
		fs.Shutdown(errors.New("w1 watchdog: Run did not return"))
		<-done
		t.Fatalf("Run did not return within the watchdog")
	}
}

func w1c10Collect(out *[]string) Handler {
	return HandlerFunc(func(blk *pbbstream.Block, obj interface{}) error {
		*out = append(*out, fmt.Sprintf("%d:%s<-%s", blk.Number, blk.Id, blk.ParentId))
		return nil
	})
}

// W1-C10-1a.  Stored order 1a, 2a, 5a, 3b, 6a: the stored block 3b (number 3, parent 2a) sits between 5a and 6a.
// It does not follow 5a, and 6a does not follow it.
//   start 1: delivered 1a 2a 5a, then the non-sequential error in front of 3b      (what the text asks)
//   start 4: 3b is below the start block and is dropped by the per-block test `blockNum < startBlockNum` although the
//            delivery began two blocks earlier: delivered 5a 6a, stop-block-reached, NO error.
func TestW1_C10_StoredBlockBelowStartInsideTheStreamIsSilentlyDropped(t *testing.T) {
	mk := func() *dstore.MockStore {
		bs := dstore.NewMockStore(nil)
		bs.SetFile(base(0), testBlocks(
			TestBlockWithNumbers("1a", "", 1, 0),
			TestBlockWithNumbers("2a", "1a", 2, 1),
			TestBlockWithNumbers("5a", "2a", 5, 2),
			TestBlockWithNumbers("3b", "2a", 3, 2),
			TestBlockWithNumbers("6a", "5a", 6, 5),
		))
		return bs
	}
	var got []string
	fs := NewFileSource(mk(), 1, w1c10Collect(&got), zlog, FileSourceWithStopBlock(6))
	w1c10Run(t, fs)
	t.Logf("start 1: delivered=%v Err=%v", got, fs.Err())
	require.Equal(t, []string{"1:1a<-", "2:2a<-1a", "5:5a<-2a"}, got)
	require.Contains(t, fs.Err().Error(), "non-sequential")

	got = nil
	fs = NewFileSource(mk(), 4, w1c10Collect(&got), zlog, FileSourceWithStopBlock(6))
	w1c10Run(t, fs)
	t.Logf("start 4: delivered=%v Err=%v", got, fs.Err())
	require.Equal(t, []string{"5:5a<-2a", "6:6a<-5a"}, got)
	require.True(t, errors.Is(fs.Err(), ErrStopBlockReached))
}

// W1-C10-1b.  The same with the legacy test `blockNum < incomingBlockFile.baseNum`, which the quantifier describes as a
// legacy LEADING block: bundle 0000000100 holds 100a, 101a, 99b (number 99, parent 101a -- not leading), 102a<-101a.
// Observed: 99b is dropped wherever it stands, delivered 100a 101a 102a, stop-block-reached, no error.
// A stored block with a number at or above the base in the same position (103b<-101a) is reported: 100a 101a + error.
func TestW1_C10_StoredBlockBelowBundleBaseInsideAFileIsSilentlyDropped(t *testing.T) {
	bs := dstore.NewMockStore(nil)
	bs.SetFile(base(100), testBlocks(
		TestBlockWithNumbers("100a", "99a", 100, 99),
		TestBlockWithNumbers("101a", "100a", 101, 100),
		TestBlockWithNumbers("99b", "101a", 99, 98),
		TestBlockWithNumbers("102a", "101a", 102, 101),
	))
	var got []string
	fs := NewFileSource(bs, 100, w1c10Collect(&got), zlog, FileSourceWithStopBlock(102))
	w1c10Run(t, fs)
	t.Logf("99b inside bundle 100: delivered=%v Err=%v", got, fs.Err())
	require.Equal(t, []string{"100:100a<-99a", "101:101a<-100a", "102:102a<-101a"}, got)
	require.True(t, errors.Is(fs.Err(), ErrStopBlockReached))

	bs = dstore.NewMockStore(nil)
	bs.SetFile(base(100), testBlocks(
		TestBlockWithNumbers("100a", "99a", 100, 99),
		TestBlockWithNumbers("101a", "100a", 101, 100),
		TestBlockWithNumbers("103b", "100a", 103, 100),
		TestBlockWithNumbers("102a", "101a", 102, 101),
	))
	got = nil
	fs = NewFileSource(bs, 100, w1c10Collect(&got), zlog, FileSourceWithStopBlock(102))
	w1c10Run(t, fs)
	t.Logf("103b inside bundle 100: delivered=%v Err=%v", got, fs.Err())
	require.Equal(t, []string{"100:100a<-99a", "101:101a<-100a"}, got)
	require.Contains(t, fs.Err().Error(), "non-sequential")
}

// Audited element "stop block at bundle granularity" (FileSeq.stop_after / C10_seq last conjunct / c10_check err=1
// `forallb (stop <? num) rest`): observed, weaker than a reader might expect but allowed by the text ("only after every
// block up to the stop block was delivered"): the file source itself delivers every block of the bundle that holds the
// stop block, also those above it, and a parent-link break above the stop block turns the ending into the
// non-sequential error.
func TestW1_C10_StopBlockIsHonouredPerBundle(t *testing.T) {
	bs := dstore.NewMockStore(nil)
	bs.SetFile(base(0), testBlocks(
		TestBlockWithNumbers("1a", "", 1, 0),
		TestBlockWithNumbers("2a", "1a", 2, 1),
		TestBlockWithNumbers("3a", "2a", 3, 2),
		TestBlockWithNumbers("4a", "3a", 4, 3),
	))
	var got []string
	fs := NewFileSource(bs, 1, w1c10Collect(&got), zlog, FileSourceWithStopBlock(2))
	w1c10Run(t, fs)
	t.Logf("stop 2: delivered=%v Err=%v", got, fs.Err())
	require.Equal(t, 4, len(got))
	require.True(t, errors.Is(fs.Err(), ErrStopBlockReached))

	bs = dstore.NewMockStore(nil)
	bs.SetFile(base(0), testBlocks(
		TestBlockWithNumbers("1a", "", 1, 0),
		TestBlockWithNumbers("2a", "1a", 2, 1),
		TestBlockWithNumbers("3a", "2a", 3, 2),
		TestBlockWithNumbers("4a", "zz", 4, 3),
	))
	got = nil
	fs = NewFileSource(bs, 1, w1c10Collect(&got), zlog, FileSourceWithStopBlock(2))
	w1c10Run(t, fs)
	t.Logf("stop 2, break at 4: delivered=%v Err=%v", got, fs.Err())
	require.Equal(t, 3, len(got))
	require.Contains(t, fs.Err().Error(), "non-sequential")
}
