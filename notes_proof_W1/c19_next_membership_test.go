// package directory: . (module root, package bstream) -- run: go test -vet=off -count=1 -run 'TestW1_C19_' .
//
// W1 conclusion audit of C19.  The Spec (C19_next / C19_previous / C19_isnext) states Next and
// Previous by the code's own formula ("starts where r ends, flags kept") and contains NO membership
// clause.  These tests record what membership the real Next/Previous chains have for the four
// inclusivity combinations and for open-ended ranges.  They PASS and assert what they log.
package bstream

import (
	"fmt"
	"testing"
)

func w1Range(start, end uint64, exs, exe bool) *Range {
	e := end
	return &Range{startBlock: start, endBlock: &e, exclusiveStartBlock: exs, exclusiveEndBlock: exe}
}

// how many ranges of the list contain n
func w1Count(rs []*Range, n uint64) int {
	c := 0
	for _, r := range rs {
		if r.Contains(n) {
			c++
		}
	}
	return c
}

func w1Members(r *Range, lo, hi uint64) (out []uint64) {
	for n := lo; n <= hi; n++ {
		if r.Contains(n) {
			out = append(out, n)
		}
	}
	return
}

// chain r, r.Next(5), r.Next(5).Next(5) for r = 10..15 with every flag combination
func TestW1_C19_NextChainMembership(t *testing.T) {
	type want struct {
		twice   []uint64 // numbers in 10..25 that belong to TWO ranges of the chain
		never   []uint64 // numbers strictly between the first and the last member that belong to NO range
		perNext int      // how many numbers r.Next(5) contains
	}
	cases := []struct {
		name     string
		exs, exe bool
		w        want
	}{
		{"[10,15]", false, false, want{twice: []uint64{15, 20}, never: nil, perNext: 6}},
		{"[10,15)", false, true, want{twice: nil, never: nil, perNext: 5}},
		{"(10,15]", true, false, want{twice: nil, never: nil, perNext: 5}},
		{"(10,15)", true, true, want{twice: nil, never: []uint64{15, 20}, perNext: 4}},
	}
	for _, c := range cases {
		r := w1Range(10, 15, c.exs, c.exe)
		n1 := r.Next(5)
		n2 := n1.Next(5)
		chain := []*Range{r, n1, n2}
		if !r.IsNext(n1, 5) || !n1.IsNext(n2, 5) {
			t.Fatalf("%s: IsNext rejects its own Next", c.name)
		}
		if n1.startBlock != 15 || *n1.endBlock != 20 || n1.exclusiveStartBlock != c.exs || n1.exclusiveEndBlock != c.exe {
			t.Fatalf("%s: Next(5) = %s", c.name, n1)
		}
		var twice, never []uint64
		first, last := uint64(0), uint64(0)
		seen := false
		for n := uint64(0); n <= 40; n++ {
			if w1Count(chain, n) > 0 {
				if !seen {
					first, seen = n, true
				}
				last = n
			}
		}
		for n := first; n <= last; n++ {
			switch w1Count(chain, n) {
			case 0:
				never = append(never, n)
			case 2:
				twice = append(twice, n)
			}
		}
		got := len(w1Members(n1, 0, 40))
		sz, _ := n1.Size()
		t.Logf("%s: chain %s %s %s; members %d..%d; in two ranges: %v; in no range: %v; Next(5) contains %d numbers, Size()=%d",
			c.name, r, n1, n2, first, last, twice, never, got, sz)
		if fmt.Sprint(twice) != fmt.Sprint(c.w.twice) || fmt.Sprint(never) != fmt.Sprint(c.w.never) || got != c.w.perNext || sz != 5 {
			t.Fatalf("%s: unexpected membership (twice %v never %v count %d size %d)", c.name, twice, never, got, sz)
		}
	}
}

// Previous mirrors Next: [10,15].Previous(5) = [5,10] shares 10 with r; (10,15).Previous(5) = (5,10) leaves 10 out
func TestW1_C19_PreviousMembership(t *testing.T) {
	ii := w1Range(10, 15, false, false)
	p := ii.Previous(5)
	t.Logf("%s.Previous(5) = %s: both contain 10: %v %v", ii, p, ii.Contains(10), p.Contains(10))
	if !(ii.Contains(10) && p.Contains(10)) || len(w1Members(p, 0, 40)) != 6 {
		t.Fatalf("expected the overlap at 10 and 6 members")
	}
	ee := w1Range(10, 15, true, true)
	p = ee.Previous(5)
	t.Logf("%s.Previous(5) = %s: 10 in neither: %v %v; members of Previous: %v", ee, p, ee.Contains(10), p.Contains(10), w1Members(p, 0, 40))
	if ee.Contains(10) || p.Contains(10) || len(w1Members(p, 0, 40)) != 4 {
		t.Fatalf("expected 10 in neither and 4 members")
	}
}

// open-ended ranges: Next is a SUB-range of r, Previous a SUPER-range of r (both still open-ended)
func TestW1_C19_OpenEndedNextPrevious(t *testing.T) {
	r := NewOpenRange(10)
	n := r.Next(5)
	p := r.Previous(5)
	t.Logf("%s.Next(5) = %s, .Previous(5) = %s", r, n, p)
	if n.endBlock != nil || p.endBlock != nil || n.startBlock != 15 || p.startBlock != 5 {
		t.Fatalf("unexpected bounds")
	}
	// every member of Next is a member of r; every member of r is a member of Previous
	for x := uint64(0); x <= 100; x++ {
		if n.Contains(x) && !r.Contains(x) {
			t.Fatalf("Next not inside r at %d", x)
		}
		if r.Contains(x) && !p.Contains(x) {
			t.Fatalf("r not inside Previous at %d", x)
		}
	}
	t.Logf("17 is in r: %v and in r.Next(5): %v; 12 is in r: %v and in r.Previous(5): %v", r.Contains(17), n.Contains(17), r.Contains(12), p.Contains(12))
	if !(r.Contains(17) && n.Contains(17) && r.Contains(12) && p.Contains(12)) {
		t.Fatalf("expected the overlaps")
	}
	if !r.IsNext(n, 5) {
		t.Fatalf("IsNext")
	}
}

// NewRangeContaining builds INCLUSIVE [k*size, (k+1)*size]: consecutive aligned ranges share their boundary
func TestW1_C19_RangeContainingSharesBoundary(t *testing.T) {
	a, err := NewRangeContaining(150, 100)
	if err != nil {
		t.Fatal(err)
	}
	b, err := NewRangeContaining(200, 100)
	if err != nil {
		t.Fatal(err)
	}
	t.Logf("NewRangeContaining(150,100) = %s, NewRangeContaining(200,100) = %s; 200 in both: %v %v; members of the first: %d",
		a, b, a.Contains(200), b.Contains(200), len(w1Members(a, 0, 1000)))
	if !(a.Contains(200) && b.Contains(200)) || len(w1Members(a, 0, 1000)) != 101 || !a.IsNext(b, 100) {
		t.Fatalf("expected the shared boundary, 101 members, IsNext true")
	}
}
