(* W1 conclusion audit, C11 (every fault ends a source cleanly): places where the checker's PROPERTY bit says less
   than the property text.  Every theorem is closed (vm_compute).  See notes_proof_W1/notes_C11.md. *)
From BV Require Import Base.Prelude Model.FileSeq Model.Pipeline Spec.C10_Spec Spec.C11_Spec Check.C10_Check Check.C11_Check Properties.C11.
Local Open Scope N_scope.

(* the layout of the non-vacuity example of Properties/C11.v: start 2, bundle 5, stop 7; the reference run delivers
   2 3 4 5 7 9 and ends with stop-block-reached *)
Definition c11w_calls (l : list blk) : list (blk * N) := map (fun b => (b, c10_tag 0 b)) l.
Definition c11w_d : list blk := fst (expected nv_lay).

(* ------------------------------------------------------------------ "the handler is not called again afterwards".
   Fault: the handler call number 1 (block 3) fails.  Observation: the source went on and called the handler for 4 and
   5 as well, then reported the handler's error.  The PROPERTY bit of the checker accepts it ([c11_check] = true): when a
   failed call is in the log it only asks for the error class, not that the failing call is the LAST one.  Only the
   correspondence bit ([c11_model_ok], theorem c11_bound) rejects, so such a regression is reported as a model mismatch
   (verdict 1), not as a violation of the clause.  Strengthening implemented in Check/C11_Check.v: [length calls = S n]. *)
Theorem c11_call_after_failed_call_conclusion_weaker :
  map b_num c11w_d = [2; 3; 4; 5; 7; 9] /\
  let calls := c11w_calls (firstn 4 c11w_d) in
  c11_model_ok 0 nv_lay (FHandler 1) 7 false calls 7 = false /\
  (* the property bit as it was before the W1 strengthening: every conjunct of c11_check but the new one *)
  (let blocks := map fst calls in
   forallb (fun v => snd v =? c10_tag 0 (fst v)) calls && is_prefix blk_eqb blocks (eligible nv_lay) &&
   linkedb 0 blocks && (Nat.ltb 1 (length calls)) && (7 =? 7) && negb (7 =? 0)) = true /\
  (* ... and after it *)
  c11_check 0 nv_lay (FHandler 1) 7 false calls 7 = false /\
  c11_check 0 nv_lay (FHandler 1) 7 false (c11w_calls (firstn 2 c11w_d)) 7 = true.
Proof. vm_compute. repeat split; reflexivity. Qed.
Print Assumptions c11_call_after_failed_call_conclusion_weaker.

(* ------------------------------------------------------------------ "the reported error identifies the cause".
   The harness maps every error it does not recognise to class 3 ("other": header / read / decode), and for header and
   read faults the checker asks for class 3.  So for those fault sites ANY error that is not nil, stop-block-reached,
   non-sequential or one of the other injected faults "identifies the cause" - the clause is checked as "some error".
   (Observed on the real code, TestW1_C11_ErrorTextPerDamage: all 11 damage classes name the file and the failing
   operation; a zero length prefix is reported as "failed reading next dbin message: %!s(<nil>)".)  The witness shows the
   acceptance: a read fault at message 2 of file 1 accepted with class 3, whatever the text was. *)
Theorem c11_error_class_other_conclusion_weaker :
  c11_check 0 nv_lay (FRead 1 2) 3 false (c11w_calls (firstn 1 c11w_d)) 3 = true /\
  c11_model_ok 0 nv_lay (FRead 1 2) 3 false (c11w_calls (firstn 1 c11w_d)) 3 = true.
Proof. vm_compute. split; reflexivity. Qed.
Print Assumptions c11_error_class_other_conclusion_weaker.
