(* W1 — conclusion audit of C12 (complement of the hypothesis audit U2).  Standalone:
     cd coq && coqc -Q . BV ../notes_proof_W1/audit2_C12.v
   Uses only definitions that exist in the ORIGINAL Check/C12_Check.v (it also compiles against the strengthened one of
   notes_proof_W1/check_C12.diff).  No real-code defect was found for C12; the witnesses below are about what the Spec /
   the checker ACCEPT:
     c12_restart_liveness_conclusion_weaker   clause "an eternal source RESTARTS its inner source": Spec and checker only say
                                               from where a restart that happens is made (confirmed on a breaking change of
                                               the library: reported only as a correspondence failure, no replay)
     c12_mx_call_after_failure_witness         observation, NOT a divergence from the text: a handler call begins after the
                                               handler has failed, before the Shutdown it triggers closes the channel *)
From BV Require Import Base.Prelude Model.Lifecycle Spec.C12_Spec Check.C12_Check.
Local Open Scope nat_scope.

(* ------------------------------------------------------------------------------------------------------------------
   1. "an eternal source restarts its inner source from the last block its handler accepted"
      Spec: C12_restart_point = forall ... log = post ++ EFactory slot r :: pre -> r = last_accepted pre   (safety only)
      Check: prop_ok (KEternal _ _ o) = common_ok o && no_begin_after_ret false (o_log o) && restarts_ok_chrono 0 (o_log o)
      An observation in which inner source 0 (script: block 1 accepted, then a failure of its own) goes down and is NEVER
      replaced — the Shutdown comes at idle time, i.e. after it — is accepted by both; the model (and the real code,
      w1_c12_eternal_restart_test.go) make a second factory call from block 1. *)
Definition w1_sup : list (list iev) := [[IBlock 1 true; IFail]].
Definition w1_log : list ev :=
  [EPoint 0; EFactory 0 0; EPoint 1; EPoint 2; EHBegin 0 1; EHEnd 0 1 true; EDown 0; EPoint 3; ERet].
Definition w1_obs : obs := mkObs w1_log true true 0 false true false.

Fixpoint w1_count_factory (l : list ev) : nat :=
  match l with
  | [] => 0
  | EFactory _ _ :: l' => S (w1_count_factory l')
  | _ :: l' => w1_count_factory l'
  end.

Lemma w1_spec_shape_holds :
  forall post r pre slot, rev w1_log = post ++ EFactory slot r :: pre -> r = last_accepted pre.
Proof.
  intros post r pre slot H. cbn in H.
  repeat (destruct post as [|? post]; cbn in H;
          [ try discriminate H; try (injection H as ? ? ?; subst; reflexivity) | injection H as ? H; subst ]).
  destruct post; discriminate H.
Qed.

Theorem c12_restart_liveness_conclusion_weaker :
  exists (sup : list (list iev)) (o : obs),
    sup = w1_sup /\
    (* the checker's acceptance condition for an eternal observation (prop_ok, KEternal arm, as audited) *)
    common_ok o && no_begin_after_ret false (o_log o) && restarts_ok_chrono 0 (o_log o) = true /\
    (* the whole verdict is 0 when the timing of the Shutdown is uncontrolled (no comparison with the model) *)
    c12_verdict (KEternal sup InjRandom o) = 0%N /\
    (* the Spec's form of the clause holds of that log (newest first, as in C12_restart_point) *)
    (forall post r pre slot, rev (o_log o) = post ++ EFactory slot r :: pre -> r = last_accepted pre) /\
    (* what the text demands fails: the inner source went down on its own and no factory call follows *)
    (exists pre post, o_log o = pre ++ EDown 0 :: post /\ forall slot r, ~ In (EFactory slot r) post) /\
    w1_count_factory (o_log o) = 1 /\
    (* the model, on the idle-time schedule of the same input, restarts (from block 1, the last accepted one) *)
    w1_count_factory (rev (Et.log (et_model sup InjIdle))) = 2 /\
    In (EFactory 0 1) (Et.log (et_model sup InjIdle)).
Proof.
  exists w1_sup, w1_obs. split; [reflexivity|].
  split; [vm_compute; reflexivity|].
  split; [vm_compute; reflexivity|].
  split; [exact w1_spec_shape_holds|].
  split.
  - exists [EPoint 0; EFactory 0 0; EPoint 1; EPoint 2; EHBegin 0 1; EHEnd 0 1 true], [EPoint 3; ERet].
    split; [reflexivity|]. intros slot r [H|[H|[]]]; discriminate H.
  - split; [vm_compute; reflexivity|]. split; [vm_compute; reflexivity|].
    vm_compute. tauto.
Qed.
Print Assumptions c12_restart_liveness_conclusion_weaker.

(* ------------------------------------------------------------------------------------------------------------------
   2. "a multiplexed source ... shuts down all its inner sources when the handler fails"
      C12_fail_stops_all: the goroutine that got the error calls Shutdown NEXT (or finds the once won); once Terminated every
      started inner source is shut down.  Nothing is said about handler calls between the failure and that Shutdown: the
      wrapper releases handlerLock first.  Schedule: two inner sources, the handler fails on block 1 of source 0, source 1
      takes the lock and its call for block 2 begins while no Shutdown has been called yet.  The theorem holds (it is proved);
      the text does not forbid the call ("after which" = after Run returned and Terminated).  Same on the real code:
      w1_c12_mux_failwindow_test.go. *)
Definition w1_mx_sched : list Mx.tid :=
  repeat Mx.TRun 7 ++ [Mx.TIn 0; Mx.TIn 0; Mx.TIn 0; Mx.TIn 1; Mx.TIn 0] ++ [Mx.TIn 1; Mx.TIn 1].
Definition w1_mx_sup : list (list iev) := [[IBlock 1 false]; [IBlock 2 true]].

Theorem c12_mx_call_after_failure_witness :
  let s0 := run (Mx.step true) (repeat Mx.TRun 7 ++ [Mx.TIn 0; Mx.TIn 0; Mx.TIn 0; Mx.TIn 1; Mx.TIn 0]) (Mx.init 2 w1_mx_sup) in
  let s := run (Mx.step true) w1_mx_sched (Mx.init 2 w1_mx_sup) in
  (* after the failed call: handlerLock free, nobody has called Shutdown *)
  Mx.failed s0 = true /\ Mx.sdst s0 = None /\ Mx.hholder s0 = None /\ Mx.hbegun s0 = 1 /\
  (* two more steps of source 1: its handler call begins, still no Shutdown, no overlap *)
  Mx.hbegun s = 2 /\ Mx.sdst s = None /\ Mx.terminating s = false /\ Mx.overlap s = false /\
  rev (Mx.log s) = [EPoint 20; EPoint 22; EFactory 0 0; EPoint 23; EPoint 24; EFactory 1 0; EPoint 23; EPoint 24; EPoint 21;
                    EPoint 25; EHBegin 0 1; EHEnd 0 1 false; EPoint 26; EPoint 25; EHBegin 1 2] /\
  (* and the clause of the Spec is met afterwards: the failing goroutine shuts the source down, both inner sources end shut *)
  (let s' := run (Mx.step true) (repeat (Mx.TIn 0) 6 ++ [Mx.TIn 1; Mx.TIn 1]) s in
   Mx.terminated s' = true /\ map Mx.i_term (Mx.inners s') = [true; true]).
Proof. vm_compute. repeat split; reflexivity. Qed.
Print Assumptions c12_mx_call_after_failure_witness.

(* ------------------------------------------------------------------------------------------------------------------
   3. audited and found harmless, kept as computations (no divergence):
      - quiet := returned in C12_no_call_after is STRONGER than the text's "Run returned and Terminated";
      - in the eternal / joining models no call begins once the source is Terminated either (the callback has shut the
        inner source down), although calls may begin while the channel is closed and the callback has not run yet. *)
Example w1_et_no_call_after_terminated :
  let s := run (Et.step true) (repeat Et.TRun 6 ++ repeat Et.TX 5) (Et.init [[IBlock 1 true; IBlock 2 true; IBlock 3 true]]) in
  Et.terminated s = true /\ Et.returned s = false /\ Et.hbegun s = 2 /\
  Et.hbegun (run (Et.step true) (repeat Et.TRun 10) s) = 2 /\ Et.done (run (Et.step true) (repeat Et.TRun 10) s) = true.
Proof. vm_compute. repeat split; reflexivity. Qed.
Example w1_et_calls_begin_between_close_and_callback :
  let s := run (Et.step true) (repeat Et.TRun 4 ++ [Et.TX; Et.TX]) (Et.init [[IBlock 1 true; IBlock 2 true; IBlock 3 true]]) in
  Et.terminating s = true /\ Et.terminated s = false /\ Et.hbegun s = 1 /\
  Et.hbegun (run (Et.step true) (repeat Et.TRun 4) s) = 3.
Proof. vm_compute. repeat split; reflexivity. Qed.
(* the 'or' of C12_fail_stops_all's first clause ("or finds the once won"): an external Shutdown has won the once and has not
   closed the channel yet; the failing goroutine shuts nothing down; everything is shut once the external thread goes on *)
Example w1_mx_failure_finds_once_won :
  let s := run (Mx.step true) (repeat Mx.TRun 7 ++ [Mx.TIn 0; Mx.TIn 0; Mx.TIn 0] ++ [Mx.TX] ++ [Mx.TIn 0; Mx.TIn 0])
               (Mx.init 2 w1_mx_sup) in
  Mx.failed s = true /\ Mx.sdst s = Some SClose /\ Mx.terminating s = false /\ map Mx.i_term (Mx.inners s) = [false; false] /\
  (let s' := run (Mx.step true) (repeat Mx.TX 4) s in Mx.terminated s' = true /\ map Mx.i_term (Mx.inners s') = [true; true]).
Proof. vm_compute. repeat split; reflexivity. Qed.
