From BV Require Import Base.Prelude Model.Block Model.ForkDB Model.Forkable Model.ForkableLookups Model.Burst Model.Hub.
From BV Require Import Spec.Consumer Spec.Universe Spec.ForkChoice Check.Fk_Check Check.Burst_Check Check.Hub_Check.
Local Open Scope N_scope.

(* the model's own observation of a hub run: what a faithful implementation would show *)
Definition t_cur0 : cursor := mkCursor SNew (mkR 0 0) (mkR 0 0) (mkR 0 0).
Definition t_stored (s : fstate) : list N := map (fun e => bid (eb e)) (store (db s)).
Definition t_ans (s : fstate) (low : N) (m : N) (kind n : N) : ans :=
  if kind =? 2 then
    match blocks_from_num s n with
    | BOk evs => mkAns 2 m 0 t_cur0 n true evs [] false false low (t_stored s) false
    | _ => mkAns 2 m 0 t_cur0 n false [] [] false false low (t_stored s) false
    end
  else match blocks_from_num_with_forks s n with
       | Some bl => mkAns 3 m 0 t_cur0 n true [] bl false false low (t_stored s) false
       | None => mkAns 3 m 0 t_cur0 n false [] [] false false low (t_stored s) false
       end.

Fixpoint t_obs (first kept : N) (h : hub) (tracked : bool) (m : N) (l : list (block * pass))
         (reqs : list (list (N * N))) : list hub_obs :=
  match l with
  | [] => []
  | (b, p) :: l' =>
      let '(h', evs, r) := hub_live first kept h p b in
      let '(tr, tracked') :=
        if tracked then (evs, true)
        else if h_ready h' then
          match blocks_from_num (h_f h') (hub_lowest h') with BOk e => (e, true) | _ => ([], false) end
        else ([], false) in
      let rq := match reqs with q :: _ => q | [] => [] end in
      mkHObs r (h_ready h') (hub_lowest h') (hub_head h') tr
             (map (fun q => t_ans (h_f h') (hub_lowest h') (m + 1) (fst q) (snd q)) rq)
      :: t_obs first kept h' tracked' (m + 1) l' (tl reqs)
  end.

(* chain 1..8, block k declares LIB k-2 (ids 10+k) ; a fork block 26 at height 6 *)
Definition B (k : N) : block := mkBlock (10 + k) k (if k =? 1 then 0 else 9 + k) (if k <=? 3 then 1 else k - 2).
Definition F6 : block := mkBlock 26 6 15 4.
Definition lv : list (block * pass) :=
  [(B 5, PBlocks [B 1; B 2; B 3; B 4]); (F6, PNil); (B 6, PNil); (B 7, PNil); (B 8, PNil)].
Definition rq : list (list (N * N)) :=
  [[(2, 1); (2, 5); (2, 6); (3, 0)]; [(2, 3); (3, 4)]; [(2, 4); (3, 5)]; [(2, 5); (3, 6); (3, 9)]; [(2, 6); (3, 6); (2, 0)]].
Definition ob := t_obs 1 0 hub_init false 0 lv rq.
Definition kc := mkHubCase 1 0 lv ob.
Eval vm_compute in (c09_in_scope kc, c09_verdict kc).
Eval vm_compute in map (fun o => (ho_ready o, ho_lowest o, ho_head o, map (fun e => (estep e, bid (eblk e))) (ho_tracker o),
   map (fun a => (a_kind a, a_start a, a_served a, map (fun e => bid (eblk e)) (a_events a), map bid (a_forks a))) (ho_ans o))) ob.
