#!/usr/bin/env python3
"""Concatenate notes_proof_W1/audit2_Cxx.v into coq/Properties/Cxx_Audit2.v, one Module per property.
Require's are hoisted to the top (without Import); each module Imports exactly what its source file imported, in order."""
import re, sys, os, glob
root = os.path.dirname(os.path.dirname(os.path.abspath(__file__)))
files = sorted(glob.glob(os.path.join(root, "notes_proof_W1", "audit2_C*.v")))
req_re = re.compile(r'^From\s+(\w+)\s+Require\s+Import\s+(.*?)\.\s*$', re.S | re.M)
reqs = []   # (lib, module)
bodies = []
for f in files:
    pid = re.search(r'audit2_(C\d+)\.v', f).group(1)
    src = open(f).read()
    imports = []
    def repl(m):
        lib = m.group(1)
        mods = m.group(2).split()
        for x in mods:
            if (lib, x) not in reqs:
                reqs.append((lib, x))
            imports.append((lib, x))
        return "Import " + " ".join(("BV." + x) if lib == "BV" else x for x in mods) + "."
    # a Require Import statement may span several lines: match from 'From' to the first '.' followed by newline
    src2 = re.sub(r'^From\s+(\w+)\s+Require\s+Import\s+([^.]*(?:\.[A-Za-z_][^.]*)*?)\.\s*$', repl, src, flags=re.M)
    if "Require" in re.sub(r'\(\*.*?\*\)', '', src2, flags=re.S):
        print("WARNING: leftover Require in", f)
    bodies.append((pid, src2))
out = []
out.append("(* W1 conclusion audit (the complement of the U2 hypothesis audit): witnesses for places where the CONCLUSION of a\n"
           "   theorem, a Spec definition or the checker's acceptance condition says less than (or something other than) the\n"
           "   property text of properties.jsonl.  One module per property; every theorem `cxx_<what>_conclusion_weaker` is closed\n"
           "   (vm_compute on concrete inputs).  Which witnesses are candidate defects of the library, and what the real code does\n"
           "   there: notes_proof_W1.md.  GENERATED from notes_proof_W1/audit2_Cxx.v by notes_proof_W1/mkaudit2.py. *)\n")
by_lib = {}
for lib, x in reqs:
    by_lib.setdefault(lib, []).append(x)
for lib in sorted(by_lib, key=lambda l: (l != "Coq", l)):
    out.append("From %s Require %s." % (lib, " ".join(by_lib[lib])))
out.append("")
for pid, body in bodies:
    out.append("Module %s." % pid)
    out.append(body.rstrip())
    out.append("End %s.\n" % pid)
open(os.path.join(root, "coq", "Properties", "Cxx_Audit2.v"), "w").write("\n".join(out) + "\n")
print("modules:", [p for p, _ in bodies])
