(* W1 — conclusion audit of C18 (fork buffer bounded by the window above the LIB; lookups match the stream).  Stand-alone:
     cd coq && timeout 600 coqc -Q . BV ../notes_proof_W1/audit2_C18.v
   The Spec files (C18_Spec / C18_Moving_Spec / C18_Disc_Spec) state the text at full strength over the kept window and the real
   Forkable passes a text-level oracle (notes_proof_W1/c18_text_oracle_test.go).  What is weaker is the BOOLEAN CHECKER
   (Check/Fk_Props_Check.v: look_ok / c18_follow), which is the only thing that judges the implementation's own observation:
   each witness below is an observation that the checker's property bit ACCEPTS although a clause of the text fails on it.
   (All of them differ from the model's run, so the correspondence bit still reports them: the exit code is unaffected, the
   label is `no-failing-input-found` instead of a property replay.)  The one real-code finding of this audit (HeadInfo panics
   on a block without a valid timestamp, W1-C18-1) has no Coq witness: the model has no timestamps. *)
From BV Require Import Base.Prelude Model.Block Model.ForkDB Model.Forkable Model.ForkableLookups.
From BV Require Import Spec.Consumer Spec.C18_Spec Spec.C18_Moving_Spec Check.Fk_Check Check.Fk_Props_Check.
Local Open Scope N_scope.

(* exclusive LIB 1 (id 1), chain 2..7 with a fork block 13 at height 3; block 5 declares LIB 3, blocks 6 and 7 declare LIB 4 *)
Definition c18w_hist : list block :=
  [mkBlock 2 2 1 1; mkBlock 3 3 2 1; mkBlock 13 3 2 1; mkBlock 4 4 3 1; mkBlock 5 5 4 3; mkBlock 6 6 5 4; mkBlock 7 7 6 4].
Definition c18w_qh : list N := [1;2;3;4;5;6;7].
Definition c18w_qi : list N := [1;2;3;4;5;6;7;13].
Definition c18w_cfg (kept : N) : config := mkCfg 1 false false kept false (mkFilter true true true true) None.
Definition c18w_case (kept : N) : fk_case := model_case (c18w_cfg kept) (LExcl (mkR 1 1)) c18w_hist c18w_qh c18w_qi.

(* replace the recorded lookups of observation number i *)
Fixpoint c18w_set_look (i : nat) (f : look -> look) (os : list obs) : list obs :=
  match os, i with
  | [], _ => []
  | o :: os', O => mkObs (o_events o) (o_result o) (o_head o) (o_headnum o) (option_map f (o_look o)) :: os'
  | o :: os', S j => o :: c18w_set_look j f os'
  end.
Definition c18w_tamper (k : fk_case) (i : nat) (f : look -> look) : fk_case :=
  mkFkCase (k_cfg k) (k_mode k) (k_hist k) (c18w_set_look i f (k_obs k)) (k_qh k) (k_qi k).
Definition c18w_look_at (k : fk_case) (i : nat) : option look :=
  match nth_error (k_obs k) i with Some o => o_look o | None => None end.
(* the consumer's chain after all delivered events (newest first) *)
Definition c18w_chain (k : fk_case) : option cstack :=
  apply_all (root_lib (k_mode k) (obs_trace k)) [] (all_events (obs_trace k)).

(* sanity: the untampered runs are in scope, correspond and pass *)
Example c18w_base_ok :
  c18_in_scope (c18w_case 2) = true /\ fk_corresponds (c18w_case 2) = true /\ c18_prop (c18w_case 2) = true /\
  c18_in_scope (c18w_case 0) = true /\ fk_corresponds (c18w_case 0) = true /\ c18_prop (c18w_case 0) = true.
Proof. vm_compute. repeat split. Qed.

(* ---- (1) canonical lookup: the checker looks at heights AT OR ABOVE the LIB only (`negb (libn <=? bnum c) || ...`), the text
   says "at a height present on the consumer's chain" and Spec.canonical_clause (a) covers the kept window LIB - kept.
   Retention 2, after block 7: LIB 4, blocks 2 and 3 are kept final blocks of the consumer's chain, still found by hash.
   An observation whose canonical lookup answers nil at heights 2 and 3 is accepted. *)
Definition c18w_canon_nil_below_lib (l : look) : look :=
  mkLook (l_ids l) (l_lowest l) [0; 0; 0; 4; 5; 6; 7] (l_allat l) (l_byhash l).
Definition c18w_k1 : fk_case := c18w_tamper (c18w_case 2) 6 c18w_canon_nil_below_lib.

Theorem c18_checker_canonical_window_conclusion_weaker :
  exists k c l,
    c18_in_scope k = true /\ c18_prop k = true /\                    (* the checker's property bit accepts *)
    c18w_look_at k 6 = Some l /\
    (exists S, c18w_chain k = Some S /\ In c S) /\                    (* c is on the consumer's chain ... *)
    4 - c_kept (k_cfg k) <= bnum c /\                                 (* ... inside the kept window of LIB 4 ... *)
    nth 2 (l_byhash l) false = true /\                                (* ... still returned by hash ... *)
    nth 2 (l_canon l) 0 <> bid c.                                     (* ... but the canonical lookup at its height is not c *)
Proof.
  exists c18w_k1, (mkBlock 3 3 2 1).
  eexists. split; [vm_compute; reflexivity|]. split; [vm_compute; reflexivity|].
  split; [vm_compute; reflexivity|].
  split. { eexists. split; [vm_compute; reflexivity|]. simpl. tauto. }
  split; [vm_compute; discriminate|]. split; [vm_compute; reflexivity|].
  vm_compute. discriminate.
Qed.
Print Assumptions c18_checker_canonical_window_conclusion_weaker.

(* ---- (2) bound: demanded on the step that MOVES the LIB only (`negb moved || ...`).  Retention 0: block 6 moves the LIB to 4
   (cutoff 4); block 7 moves nothing.  An observation that holds block 2 again after block 7 is accepted: "after every LIB move
   the buffer holds no block below LIB minus the retention" is checked at one instant, not from then on
   (Spec.window_clause: at every later point). *)
Definition c18w_hold_2 (l : look) : look := mkLook (2 :: l_ids l) (l_lowest l) (l_canon l) (l_allat l) (l_byhash l).
Definition c18w_k2 : fk_case := c18w_tamper (c18w_case 0) 6 c18w_hold_2.

Theorem c18_checker_bound_moving_step_only_conclusion_weaker :
  exists k l,
    c18_in_scope k = true /\ c18_prop k = true /\
    c18w_look_at k 6 = Some l /\
    In 2 (l_ids l) /\                                                 (* block 2 (height 2) is held ... *)
    (2 <? 4 - c_kept (k_cfg k)) = true.                               (* ... below LIB 4 minus retention 0, after two LIB moves *)
Proof.
  exists c18w_k2. eexists. split; [vm_compute; reflexivity|]. split; [vm_compute; reflexivity|].
  split; [vm_compute; reflexivity|]. split; [simpl; tauto|]. vm_compute. reflexivity.
Qed.
Print Assumptions c18_checker_bound_moving_step_only_conclusion_weaker.

(* ---- (3) bound: evaluated on AllIDs (the `links` map) only.  On the moving step itself (block 6, retention 0, cutoff 4) an
   observation in which GetBlockByHash and AllBlocksAt still return the purged block 2 is accepted: the buffer of the code is
   three maps (links, nums, objects) and the bound looks at one. *)
Definition c18w_ghost_2 (l : look) : look :=
  mkLook (l_ids l) (l_lowest l) (l_canon l)
         [Some []; Some [2]; Some []; Some [4]; Some [5]; Some [6]; Some []]
         [false; true; false; true; true; true; false; false].
Definition c18w_k3 : fk_case := c18w_tamper (c18w_case 0) 5 c18w_ghost_2.

Theorem c18_checker_bound_allids_only_conclusion_weaker :
  exists k l,
    c18_in_scope k = true /\ c18_prop k = true /\
    c18w_look_at k 5 = Some l /\
    ~ In 2 (l_ids l) /\                                               (* AllIDs does not list block 2 ... *)
    nth 1 (l_byhash l) false = true /\                                (* ... GetBlockByHash returns it ... *)
    nth 1 (l_allat l) None = Some [2] /\                              (* ... AllBlocksAt(2) returns it ... *)
    (2 <? 4 - c_kept (k_cfg k)) = true.                               (* ... below the cutoff, on the step that moved the LIB to 4 *)
Proof.
  exists c18w_k3. eexists. split; [vm_compute; reflexivity|]. split; [vm_compute; reflexivity|].
  split; [vm_compute; reflexivity|].
  split. { simpl. intros [H|[H|[H|H]]]; try discriminate; exact H. }
  repeat split; vm_compute; reflexivity.
Qed.
Print Assumptions c18_checker_bound_allids_only_conclusion_weaker.

(* ---- (4) head information: the property bit compares the ID of HeadInfo with the last New only; number and LIB number of the
   head information are left to the correspondence bit. *)
Fixpoint c18w_set_head (i : nat) (hd : option (ref * N)) (os : list obs) : list obs :=
  match os, i with
  | [], _ => []
  | o :: os', O => mkObs (o_events o) (o_result o) hd (o_headnum o) (o_look o) :: os'
  | o :: os', S j => o :: c18w_set_head j hd os'
  end.
Definition c18w_k4 : fk_case :=
  let k := c18w_case 2 in
  mkFkCase (k_cfg k) (k_mode k) (k_hist k) (c18w_set_head 6 (Some (mkR 7 999, 0)) (k_obs k)) (k_qh k) (k_qi k).

Theorem c18_checker_head_id_only_conclusion_weaker :
  exists k o,
    c18_in_scope k = true /\ c18_prop k = true /\
    nth_error (k_obs k) 6 = Some o /\
    last_new 0 (all_events (obs_trace k)) = 7 /\                      (* the last block delivered as New is block 7, number 7, LIB 4 *)
    o_head o = Some (mkR 7 999, 0).                                   (* accepted head information: number 999, LIB number 0 *)
Proof.
  exists c18w_k4. eexists. split; [vm_compute; reflexivity|]. split; [vm_compute; reflexivity|].
  split; [vm_compute; reflexivity|]. split; vm_compute; reflexivity.
Qed.
Print Assumptions c18_checker_head_id_only_conclusion_weaker.

(* ---- (5) "observed after every single input block": a step whose lookups were not recorded (o_look = None) is accepted
   (`| None => true`); the harness records them for every step of a C18 case, so this only matters for a harness change. *)
Definition c18w_drop_looks (os : list obs) : list obs :=
  map (fun o => mkObs (o_events o) (o_result o) (o_head o) (o_headnum o) None) os.
Theorem c18_checker_unobserved_accepted_conclusion_weaker :
  exists k, c18_in_scope k = true /\ c18_prop k = true /\ fk_corresponds k = true /\
            Forall (fun o => o_look o = None) (k_obs k) /\ k_obs k <> [].
Proof.
  exists (let k := c18w_case 2 in mkFkCase (k_cfg k) (k_mode k) (k_hist k) (c18w_drop_looks (k_obs k)) (k_qh k) (k_qi k)).
  split; [vm_compute; reflexivity|]. split; [vm_compute; reflexivity|]. split; [vm_compute; reflexivity|].
  split; [vm_compute; repeat constructor|]. vm_compute. discriminate.
Qed.
Print Assumptions c18_checker_unobserved_accepted_conclusion_weaker.
