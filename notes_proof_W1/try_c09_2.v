(* scratch: the STRENGTHENED Check/Hub_Check.v (check_C09.diff applied) rejects the four altered observations of
   audit2_C09.v and still accepts the faithful one.  Needs a compiled copy of audit2_C09.v under the name Audit2C09tmp:
   cd coq && cp ../notes_proof_W1/audit2_C09.v ../notes_proof_W1/Audit2C09tmp.v && coqc -Q . BV -Q ../notes_proof_W1 W1 ../notes_proof_W1/Audit2C09tmp.v
   && coqc -Q . BV -Q ../notes_proof_W1 W1 ../notes_proof_W1/try_c09_2.v   -- result: (true, 0, false, false, false, false) *)
From BV Require Import Base.Prelude Model.Block Model.ForkDB Model.Forkable Model.ForkableLookups Model.Burst Model.Hub.
From BV Require Import Spec.Consumer Spec.Universe Spec.ForkChoice Check.Fk_Check Check.Burst_Check Check.Hub_Check.
From W1 Require Import Audit2C09tmp.
Definition conv_o (o : a2_hub_obs) : hub_obs :=
  mkHObs (a2o_result o) (a2o_ready o) (a2o_lowest o) (a2o_head o) (a2o_tracker o) (a2o_ans o).
Definition conv (k : a2_hub_case) : hub_case := mkHubCase (a2c_first k) (a2c_kept k) (a2c_live k) (map conv_o (a2c_obs k)).
Eval vm_compute in
  (c09_prop (conv (a2_case a2_faithful)), c09_verdict (conv (a2_case a2_faithful)),
   c09_prop (conv (a2_case a2_obs_forks_refused)),
   c09_prop (conv (a2_case a2_obs_lowest_100)),
   c09_prop (conv a2_case_one),
   c09_prop (conv (a2_case a2_obs_forks_descending))).
