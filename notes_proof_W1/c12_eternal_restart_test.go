// package directory: . ; run: go test -vet=off -count=1 -run 'TestW1_C12_Eternal' .
// W1 conclusion audit of C12, clause "an eternal source restarts its inner source from the last block its handler accepted".
// The Spec (C12_restart_point) and the checker (restarts_ok_chrono) only say FROM WHERE a restart that happens is made, and the
// harness projection keeps only the identity of the restart reference.  These tests record what the real EternalSource does
// for the two things that conclusion leaves out: (1) the restart reference carries the id AND the number of the last accepted
// block (fork-shaped heights: the last accepted block is not the highest one), (2) the inner source IS restarted after every
// kind of termination (own failure, clean termination, handler error) until the eternal source is shut down.
// Both tests PASS on the audited library and assert the behaviour they log.
package bstream

import (
	"errors"
	"fmt"
	"sync"
	"testing"
	"time"

	pbbstream "github.com/streamingfast/bstream/pb/sf/bstream/v1"
	"github.com/streamingfast/shutter"
	"go.uber.org/zap"
)

type w1c12Ev struct {
	id     string // "" : terminate instead of delivering
	num    uint64
	endErr error // used when id == "": Shutdown(endErr)
}

// w1c12Src obeys the Source contract of the C12 model: handler calls from inside Run, a handler error or a failure of its own
// makes it shut itself down, Shutdown makes Run return.
type w1c12Src struct {
	*shutter.Shutter
	script []w1c12Ev
	h      Handler
}

func (s *w1c12Src) SetLogger(*zap.Logger) {}
func (s *w1c12Src) Run() {
	for _, ev := range s.script {
		if s.IsTerminating() {
			return
		}
		if ev.id == "" {
			s.Shutdown(ev.endErr)
			return
		}
		if err := s.h.ProcessBlock(&pbbstream.Block{Id: ev.id, Number: ev.num}, nil); err != nil {
			s.Shutdown(err)
			return
		}
	}
	<-s.Terminating()
}

func w1c12Watch(t *testing.T, d time.Duration, what string, done <-chan struct{}) {
	t.Helper()
	select {
	case <-done:
	case <-time.After(d):
		t.Fatalf("watchdog: %s", what)
	}
}

func TestW1_C12_Eternal_RestartRefIsIdAndNumberOfLastAccepted(t *testing.T) {
	// heights are fork-shaped: 5, 6, 6', then (2nd source) 7, 5''; the handler rejects "rej"
	scripts := [][]w1c12Ev{
		{{id: "aa", num: 5}, {id: "bb", num: 6}, {id: "cc", num: 6}, {id: "", endErr: errors.New("inner failed")}},
		{{id: "dd", num: 7}, {id: "ee", num: 5}, {id: "rej", num: 8}},
		{{id: "rej", num: 9}},
		{{id: "ff", num: 4}, {id: "", endErr: nil}},
		{}, // idles until shut down
	}
	var mu sync.Mutex
	var refs []string
	var accepted []string
	idle := make(chan struct{})
	handler := HandlerFunc(func(blk *pbbstream.Block, obj interface{}) error {
		if blk.Id == "rej" {
			return errors.New("handler refuses")
		}
		mu.Lock()
		accepted = append(accepted, fmt.Sprintf("%s#%d", blk.Id, blk.Number))
		mu.Unlock()
		return nil
	})
	n := 0
	factory := SourceFromRefFactory(func(ref BlockRef, h Handler) Source {
		mu.Lock()
		refs = append(refs, fmt.Sprintf("%s#%d", ref.ID(), ref.Num()))
		k := n
		n++
		mu.Unlock()
		var sc []w1c12Ev
		if k < len(scripts) {
			sc = scripts[k]
		}
		if k == len(scripts)-1 {
			close(idle)
		}
		return &w1c12Src{Shutter: shutter.New(), script: sc, h: h}
	})
	eternalRestartWaitTime = 0
	es := NewEternalSource(factory, handler)
	runDone := make(chan struct{})
	go func() { es.Run(); close(runDone) }()
	w1c12Watch(t, 5*time.Second, "the 5th inner source was never created (no restart)", idle)
	es.Shutdown(nil)
	w1c12Watch(t, 5*time.Second, "Run did not return after Shutdown", runDone)
	if !es.IsTerminated() {
		t.Fatalf("not terminated")
	}
	mu.Lock()
	defer mu.Unlock()
	t.Logf("OBSERVED: accepted=%v restart refs=%v", accepted, refs)
	// 1st start: BlockRefEmpty; after source 0 (accepted aa#5 bb#6 cc#6, own failure): cc#6 — NOT the highest bb/cc ambiguity: the LAST;
	// after source 1 (accepted dd#7 ee#5, handler error on rej): ee#5 (lower than dd#7); after source 2 (rejected at once): still ee#5;
	// after source 3 (accepted ff#4, clean termination): ff#4
	want := []string{"#0", "cc#6", "ee#5", "ee#5", "ff#4"}
	if fmt.Sprint(refs) != fmt.Sprint(want) {
		t.Fatalf("restart references %v, want %v", refs, want)
	}
}

func TestW1_C12_Eternal_RestartsAfterEveryKindOfInnerTermination(t *testing.T) {
	kinds := []string{"own-failure", "clean-termination(nil)", "handler-error", "own-failure-before-any-block"}
	scripts := [][]w1c12Ev{
		{{id: "a1", num: 1}, {id: "", endErr: errors.New("inner failed")}},
		{{id: "a2", num: 2}, {id: "", endErr: nil}},
		{{id: "rej", num: 3}},
		{{id: "", endErr: errors.New("inner failed at start")}},
	}
	var mu sync.Mutex
	starts := 0
	calls := 0
	handler := HandlerFunc(func(blk *pbbstream.Block, obj interface{}) error {
		mu.Lock()
		calls++
		mu.Unlock()
		if blk.Id == "rej" {
			return errors.New("handler refuses")
		}
		return nil
	})
	idle := make(chan struct{})
	factory := SourceFromRefFactory(func(ref BlockRef, h Handler) Source {
		mu.Lock()
		k := starts
		starts++
		mu.Unlock()
		var sc []w1c12Ev
		if k < len(scripts) {
			sc = scripts[k]
		} else if k == len(scripts) {
			close(idle)
		}
		return &w1c12Src{Shutter: shutter.New(), script: sc, h: h}
	})
	eternalRestartWaitTime = 0
	es := NewEternalSource(factory, handler)
	runDone := make(chan struct{})
	go func() { es.Run(); close(runDone) }()
	w1c12Watch(t, 5*time.Second, "an inner source was not restarted", idle)
	mu.Lock()
	s0, c0 := starts, calls
	mu.Unlock()
	if s0 != len(scripts)+1 {
		t.Fatalf("starts=%d, want %d (one restart after each of %v)", s0, len(scripts)+1, kinds)
	}
	es.Shutdown(nil)
	w1c12Watch(t, 5*time.Second, "Run did not return after Shutdown", runDone)
	time.Sleep(20 * time.Millisecond)
	mu.Lock()
	s1, c1 := starts, calls
	mu.Unlock()
	t.Logf("OBSERVED: %d factory calls for %d terminating inner sources (%v) + 1; after Shutdown: Run returned, terminated=%v, factory calls %d->%d, handler calls %d->%d",
		s0, len(scripts), kinds, es.IsTerminated(), s0, s1, c0, c1)
	if !es.IsTerminated() || s1 != s0 || c1 != c0 {
		t.Fatalf("after Shutdown: terminated=%v starts %d->%d calls %d->%d", es.IsTerminated(), s0, s1, c0, c1)
	}
}
