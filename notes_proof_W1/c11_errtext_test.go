// package directory: . (package bstream)   run: go test -vet=off -count=1 -run 'TestW1_C11_' .
// W1 conclusion audit, C11 "the reported error identifies the cause": the harness maps every error it does not
// recognise to class 3 (harness/c10.go fsErrClass: default), and Check/C11_Check.v accepts class 3 for header and
// read faults.  This test prints the error TEXT the real file source reports per damage class.
package bstream

import (
	"context"
	"errors"
	"io"
	"strings"
	"testing"
	"time"

	pbbstream "github.com/streamingfast/bstream/pb/sf/bstream/v1"
	"github.com/streamingfast/dstore"
	"go.uber.org/zap"
)

var w1c11ErrRead = errors.New("w1 injected storage read fault")

type w1c11FailReader struct {
	r      io.Reader
	n      int
	failAt int
}

func (z *w1c11FailReader) Read(p []byte) (int, error) {
	if z.n >= z.failAt {
		return 0, w1c11ErrRead
	}
	if z.n+len(p) > z.failAt {
		p = p[:z.failAt-z.n]
	}
	n, err := z.r.Read(p)
	z.n += n
	return n, err
}
func (z *w1c11FailReader) Close() error { return nil }

func w1c11Blocks(from, to uint64) []*pbbstream.Block {
	var out []*pbbstream.Block
	for n := from; n <= to; n++ {
		out = append(out, TestBlockWithNumbers(w1c11ID(n), w1c11ID(n-1), n, n-1))
	}
	return out
}
func w1c11ID(n uint64) string { return strings.Repeat("0", 7) + string(rune('a'+n)) + "aa" }

func w1c11Offsets(data []byte) []int {
	ctLen := int(data[5])<<8 | int(data[6])
	off := 7 + ctLen
	var out []int
	for off+4 <= len(data) {
		out = append(out, off)
		l := int(data[off])<<24 | int(data[off+1])<<16 | int(data[off+2])<<8 | int(data[off+3])
		off += 4 + l
	}
	return append(out, len(data))
}

func TestW1_C11_ErrorTextPerDamage(t *testing.T) {
	clean := testBlocks(w1c11Blocks(5, 9)...)
	offs := w1c11Offsets(clean)
	type dmg struct {
		name   string
		mut    func([]byte) []byte
		failAt int
		want   []string // substrings that identify the cause
	}
	cp := func(b []byte) []byte { return append([]byte(nil), b...) }
	cases := []dmg{
		{"storage error at start of message 2", cp, offs[2], []string{"w1 injected storage read fault"}},
		{"storage error inside message 2", cp, offs[2] + 9, []string{"w1 injected storage read fault"}},
		{"length prefix of message 2 = 0", func(b []byte) []byte { b = cp(b); copy(b[offs[2]:], []byte{0, 0, 0, 0}); return b }, -1, []string{"0000000005"}},
		{"length prefix of message 2 too big", func(b []byte) []byte { b = cp(b); b[offs[2]+1] = 0x7f; return b }, -1, []string{"0000000005", "EOF"}},
		{"file cut inside message 2", func(b []byte) []byte { return cp(b)[:offs[2]+9] }, -1, []string{"0000000005", "EOF"}},
		{"file cut inside the length prefix of message 2", func(b []byte) []byte { return cp(b)[:offs[2]+2] }, -1, []string{"0000000005", "EOF"}},
		{"message 2 undecodable (garbage body)", func(b []byte) []byte {
			b = cp(b)
			for i := offs[2] + 4; i < offs[3]; i++ {
				b[i] = 0xff
			}
			return b
		}, -1, []string{"0000000005", "proto"}},
		{"bad magic", func(b []byte) []byte { b = cp(b); copy(b, "xbin"); return b }, -1, []string{"0000000005", "header"}},
		{"unsupported version", func(b []byte) []byte { b = cp(b); b[4] = 9; return b }, -1, []string{"0000000005", "header"}},
		{"header cut", func(b []byte) []byte { return cp(b)[:3] }, -1, []string{"0000000005", "header"}},
		{"empty file", func(b []byte) []byte { return nil }, -1, []string{"0000000005", "header"}},
	}
	for _, c := range cases {
		st := dstore.NewMockStore(nil)
		files := map[string][]byte{base(0): testBlocks(w1c11Blocks(1, 4)...), base(5): c.mut(clean), base(10): testBlocks(w1c11Blocks(10, 12)...)}
		for n, d := range files {
			st.SetFile(n, d)
		}
		if c.failAt >= 0 {
			fa := c.failAt
			st.OpenObjectFunc = func(ctx context.Context, name string) (io.ReadCloser, error) {
				data := files[name]
				if name == base(5) {
					return &w1c11FailReader{r: strings.NewReader(string(data)), failAt: fa}, nil
				}
				return io.NopCloser(strings.NewReader(string(data))), nil
			}
		}
		var got []uint64
		fs := NewFileSource(st, 1, HandlerFunc(func(blk *pbbstream.Block, obj interface{}) error {
			got = append(got, blk.Number)
			return nil
		}), zap.NewNop(), FileSourceWithBundleSize(5), FileSourceWithStopBlock(12))
		done := make(chan struct{})
		go func() { fs.Run(); close(done) }()
		select {
		case <-done:
		case <-time.After(20 * time.Second):
			t.Fatalf("%s: Run did not return", c.name)
		}
		err := fs.Err()
		t.Logf("%-48s delivered=%v\n      Err() = %v", c.name, got, err)
		if err == nil || errors.Is(err, ErrStopBlockReached) {
			t.Fatalf("%s: expected a fault error, got %v", c.name, err)
		}
		for _, w := range c.want {
			if !strings.Contains(err.Error(), w) {
				t.Errorf("%s: error text %q does not contain %q", c.name, err.Error(), w)
			}
		}
	}
}
