From BV Require Import Base.Prelude Base.Decimal Model.CursorCodec Check.C14_Check.
Local Open Scope N_scope.
Definition s1 : str := [99;51;58;49;58;53;58;97;97;58;55;58;97;97;58;51;58;98;98].
Eval vm_compute in from_string s1.
Eval vm_compute in option_map cursor_string (from_string s1).
Eval vm_compute in match from_string s1 with Some c => from_string (cursor_string c) | None => None end.
Eval vm_compute in c14_verdict (CStr s1 (from_string s1) (match from_string s1 with Some c => from_string (cursor_string c) | None => None end) false).
(* checker: right prefix, wrong text *)
Definition c0 := mkCur 1 (mkRef [97] 5) (mkRef [97] 5) (mkRef [98] 3).
Eval vm_compute in cursor_string c0.
Eval vm_compute in c14_verdict (CCur c0 [99;49] (Some c0) (Some c0) false).
Eval vm_compute in c14_verdict (CCur c0 (cursor_string c0 ++ [58;53;58;97]) (Some c0) (Some c0) false).
