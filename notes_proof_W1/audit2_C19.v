(* W1 — conclusion audit of C19 (block range algebra).  Closed witnesses for the places where a CONCLUSION of
   Spec/C19_Spec.v (and the acceptance condition of Check/C19_Check.v: nextb / prevb) repeats the code's own
   formula instead of the property sentence "Next, Previous and IsNext agree with the interval arithmetic
   implied by the bounds and their inclusivity flags" (why_tests_cant: "membership at the inclusive/exclusive
   boundaries after Split and Next chains").  C19_next / C19_previous / C19_isnext say: Next(size) is
   mkRange end (end+size) with the flags kept, its Size is size, Previous undoes it — and contain NO clause
   about which numbers the produced range contains.  Replayed on the real code: TestW1_C19_... in
   notes_proof_W1/c19_next_membership_test.go. *)
From BV Require Import Base.Prelude Base.Decimal Model.Range Spec.C19_Spec.
Local Open Scope N_scope.

Definition w1_nums : list N := map N.of_nat (seq 0 41).           (* 0 .. 40 *)
Definition w1_members (r : range) : list N := filter (contains r) w1_nums.

(* W1-C19-1a.  both bounds INCLUSIVE: the range Next produces shares its first number with r.
   Everything C19_next concludes holds (formula, Size = size, range_ok, Previous undoes it), and yet 15 is a
   member of [10,15] and of [10,15].Next(5) = [15,20], which has 6 members for a "size" of 5. *)
Theorem c19_next_inclusive_overlap_conclusion_weaker :
  exists r sz n,
    range_ok r /\ rend r = Some 15 /\ 15 + sz < two64 /\
    (* what the Spec concludes *)
    next r sz = mkRange 15 (Some (15 + sz)) (rexs r) (rexe r) /\
    size (next r sz) = Some sz /\ range_ok (next r sz) /\ previous (next r sz) (15 - rstart r) = r /\
    is_next r (next r sz) sz = true /\
    (* what the interval reading of the text excludes: a number in both ranges, and sz + 1 members *)
    in_range r n /\ in_range (next r sz) n /\
    w1_members (next r sz) = [15; 16; 17; 18; 19; 20] /\ sz = 5.
Proof.
  exists (mkRange 10 (Some 15) false false), 5, 15.
  unfold range_ok, u64, in_range, lower_ok, upper_ok; cbn [rstart rend rexs rexe].
  repeat split; try reflexivity; try (vm_compute; reflexivity); try (vm_compute; discriminate).
Qed.
Print Assumptions c19_next_inclusive_overlap_conclusion_weaker.

(* W1-C19-1b.  both bounds EXCLUSIVE: the chain (10,15), (15,20) leaves 15 out although it lies between the
   two ranges (above every member of r, below every member of Next); Next(5) has 4 members.  (The same
   geometry as the known finding C19-split-both-exclusive-inner-boundaries, but for Next, where the Spec has
   no union clause at all.) *)
Theorem c19_next_exclusive_gap_conclusion_weaker :
  exists r sz n,
    range_ok r /\ rend r = Some 15 /\ 15 + sz < two64 /\
    next r sz = mkRange 15 (Some (15 + sz)) (rexs r) (rexe r) /\
    size (next r sz) = Some sz /\ range_ok (next r sz) /\
    is_next r (next r sz) sz = true /\
    (forall m, in_range r m -> m < n) /\ (forall m, in_range (next r sz) m -> n < m) /\
    (exists m, in_range r m) /\ (exists m, in_range (next r sz) m) /\
    ~ in_range r n /\ ~ in_range (next r sz) n /\
    w1_members (next r sz) = [16; 17; 18; 19] /\ sz = 5.
Proof.
  exists (mkRange 10 (Some 15) true true), 5, 15.
  assert (Hn : next (mkRange 10 (Some 15) true true) 5 = mkRange 15 (Some 20) true true) by (vm_compute; reflexivity).
  rewrite Hn.
  unfold range_ok, u64, in_range, lower_ok, upper_ok; cbn [rstart rend rexs rexe].
  repeat split; try reflexivity; try (vm_compute; reflexivity); try (vm_compute; discriminate).
  - intros m [_ H]; exact H.
  - intros m [H _]; exact H.
  - exists 12. split; vm_compute; reflexivity.
  - exists 17. split; vm_compute; reflexivity.
  - intros [_ H]. revert H. vm_compute. discriminate.
  - intros [H _]. revert H. vm_compute. discriminate.
Qed.
Print Assumptions c19_next_exclusive_gap_conclusion_weaker.

(* the two half-open combinations are the ones for which Next tiles exactly (no witness possible there):
   recorded for contrast *)
Theorem c19_next_half_open_tiles :
  w1_members (mkRange 10 (Some 15) false true) = [10;11;12;13;14] /\
  w1_members (next (mkRange 10 (Some 15) false true) 5) = [15;16;17;18;19] /\
  w1_members (mkRange 10 (Some 15) true false) = [11;12;13;14;15] /\
  w1_members (next (mkRange 10 (Some 15) true false) 5) = [16;17;18;19;20].
Proof. vm_compute. repeat split. Qed.
Print Assumptions c19_next_half_open_tiles.

(* W1-C19-1c.  Previous mirrors Next: [10,15].Previous(5) = [5,10] shares 10 with r *)
Theorem c19_previous_inclusive_overlap_conclusion_weaker :
  exists r sz n,
    range_ok r /\ sz <= rstart r /\
    previous r sz = mkRange (rstart r - sz) (Some (rstart r)) (rexs r) (rexe r) /\
    size (previous r sz) = Some sz /\ range_ok (previous r sz) /\
    in_range r n /\ in_range (previous r sz) n /\
    w1_members (previous r sz) = [5; 6; 7; 8; 9; 10] /\ sz = 5.
Proof.
  exists (mkRange 10 (Some 15) false false), 5, 10.
  unfold range_ok, u64, in_range, lower_ok, upper_ok; cbn [rstart rend rexs rexe].
  repeat split; try reflexivity; try (vm_compute; reflexivity); try (vm_compute; discriminate).
Qed.
Print Assumptions c19_previous_inclusive_overlap_conclusion_weaker.

(* W1-C19-1d.  open-ended ranges: the Spec reads Next as "r moved up by size" and Previous as "r moved down
   by size".  Next is then a SUB-range of r and Previous a SUPER-range of r: every member of Next is a member
   of r, every member of r is a member of Previous; nothing follows / precedes r. *)
Theorem c19_open_ended_next_inside_conclusion_weaker :
  exists r sz,
    range_ok r /\ rend r = None /\ rstart r + sz < two64 /\ sz <= rstart r /\ 0 < sz /\
    next r sz = mkRange (rstart r + sz) None (rexs r) (rexe r) /\
    previous r sz = mkRange (rstart r - sz) None (rexs r) (rexe r) /\
    is_next r (next r sz) sz = true /\
    (forall n, in_range (next r sz) n -> in_range r n) /\
    (forall n, in_range r n -> in_range (previous r sz) n) /\
    (exists n, in_range r n /\ in_range (next r sz) n) /\
    (exists n, in_range r n /\ in_range (previous r sz) n).
Proof.
  exists (mkRange 10 None false true), 5.
  assert (Hn : next (mkRange 10 None false true) 5 = mkRange 15 None false true) by (vm_compute; reflexivity).
  assert (Hp : previous (mkRange 10 None false true) 5 = mkRange 5 None false true) by (vm_compute; reflexivity).
  rewrite Hn, Hp.
  assert (A : forall n, in_range (mkRange 15 None false true) n -> in_range (mkRange 10 None false true) n).
  { unfold in_range, lower_ok, upper_ok; cbn [rstart rend rexs rexe]. intros n [H _]. split; [|exact I].
    apply N.le_trans with 15; [vm_compute; discriminate | exact H]. }
  assert (B : forall n, in_range (mkRange 10 None false true) n -> in_range (mkRange 5 None false true) n).
  { unfold in_range, lower_ok, upper_ok; cbn [rstart rend rexs rexe]. intros n [H _]. split; [|exact I].
    apply N.le_trans with 10; [vm_compute; discriminate | exact H]. }
  assert (C : exists n, in_range (mkRange 10 None false true) n /\ in_range (mkRange 15 None false true) n).
  { exists 17. unfold in_range, lower_ok, upper_ok; cbn [rstart rend rexs rexe].
    repeat split; vm_compute; discriminate. }
  assert (D : exists n, in_range (mkRange 10 None false true) n /\ in_range (mkRange 5 None false true) n).
  { exists 12. unfold in_range, lower_ok, upper_ok; cbn [rstart rend rexs rexe].
    repeat split; vm_compute; discriminate. }
  refine (conj _ (conj _ (conj _ (conj _ (conj _ (conj _ (conj _ (conj _ (conj A (conj B (conj C D)))))))))));
    try reflexivity; try (vm_compute; reflexivity); try (vm_compute; discriminate).
  unfold range_ok, u64; cbn [rstart rend]. split; [vm_compute; reflexivity | exact I].
Qed.
Print Assumptions c19_open_ended_next_inside_conclusion_weaker.

(* W1-C19-2.  C19_constructors (an extra theorem, NewRangeContaining is not named in the property sentence)
   concludes "st <= b < st + sz" for the INCLUSIVE range [st, st+sz] it builds: two consecutive aligned
   ranges share their boundary, and the range has sz + 1 members. *)
Theorem c19_range_containing_shared_boundary_conclusion_weaker :
  exists a b,
    new_range_containing 150 100 = CtorOk a /\ new_range_containing 200 100 = CtorOk b /\
    a = mkRange 100 (Some 200) false false /\ b = mkRange 200 (Some 300) false false /\
    in_range a 200 /\ in_range b 200 /\ is_next a b 100 = true /\
    (* 200 is outside the half-open interval the conclusion speaks of for block 150 *)
    ~ (100 <= 200 < 100 + 100).
Proof.
  exists (mkRange 100 (Some 200) false false), (mkRange 200 (Some 300) false false).
  unfold in_range, lower_ok, upper_ok; cbn [rstart rend rexs rexe].
  repeat split; try reflexivity; try (vm_compute; reflexivity); try (vm_compute; discriminate).
  intros [_ H]. revert H. vm_compute. discriminate.
Qed.
Print Assumptions c19_range_containing_shared_boundary_conclusion_weaker.
