(* W1 conclusion audit, C16 (block files, one-block file names, fetch): places where the checker's acceptance
   condition says less than the property text.  Every theorem is closed (vm_compute on concrete inputs).
   See notes_proof_W1/notes_C16.md. *)
From BV Require Import Base.Prelude Base.Decimal Model.CursorCodec Model.Dbin Model.OneBlockName Spec.C16_Spec Check.C16_Check.
Local Open Scope N_scope.

(* ------------------------------------------------------------------ W1-C16-1: "never a crash" and the EHuge tolerance.
   File: content type "T", three 2-byte messages (26 bytes).  ONE corrupted byte: the high byte of the length prefix
   of message 2 (offset 14) 0 -> 255.  The dependency's ReadMessage then makes a buffer of 4 278 190 082 bytes for a
   stream that has 8 bytes left (model: [pb_len] of the padded buffer; real code: make([]byte, 0xff000002), observed
   runtime.MemStats.Sys = 4100 MiB, and "fatal error: out of memory" - which recover() cannot catch - when the address
   space is limited to 2 GiB: TestW1_C16_HugePrefix).  The harness never lets the real reader see such a prefix: it stops
   the read loop before that call and reports the end EHuge, which [oend_matches] pairs with the model's OFuel, and the
   property clause is evaluated on the blocks delivered before it only.  The checker accepts the observation (verdict 0):
   the crash-freedom clause of the property is NOT exercised on the one class of single-byte corruptions that is a
   resource bomb. *)
Definition c16h_ct : str := [84].
Definition c16h_ms : list str := [[1; 7]; [2; 8]; [3; 9]].
Definition c16h_file : str := file_bytes c16h_ct c16h_ms.
Definition c16h_bad : str := corrupt c16h_file 14 255.

(* the stream the reader sees when it asks for message 2 of the corrupted file *)
Definition c16h_rest : str := skipn 14 c16h_bad.

Theorem c16_huge_prefix_conclusion_weaker :
  length c16h_file = 26%nat /\ nth 14 c16h_file 0 = 0 /\
  (* what the (model of the) dependency allocates for the next message, and what it then reports *)
  (let '(m, _, e) := dbin_read_message c16h_rest in
   pb_len m = 4278190082 /\ lenN (pb_data m) = 8 /\ e = EUnexp) /\
  (* the model's own verdict on the whole corrupted file: one block, then an error - "an error or a correct prefix" *)
  read_file toy_dec c16h_bad = (Some (mkHdr 1 c16h_ct), [(1, 7)], OErr) /\
  (* the observation the harness produces (read loop stopped after 1 ReadMessage call, end = huge) is accepted *)
  fault_verdict c16h_ct c16h_ms c16h_file 3
    (mkFobs [CV 14 255 255] (Some 1) CSame [IRef 0] EHuge [IRef 0] EHuge) (FCorrupt 14 255) = 0.
Proof. vm_compute. repeat split; reflexivity. Qed.
Print Assumptions c16_huge_prefix_conclusion_weaker.

(* ------------------------------------------------------------------ fetch: "returns that block or not-found".
   The property clause of [query_verdict] accepts QNotFound unconditionally - also for a block that IS stored, intact,
   under exactly the requested number and id (the answer the model itself gives is FBlock).  Only the correspondence
   bit (1) notices.  No real-code divergence was found behind it (notes_C16.md); the witness records that the PROPERTY
   bit of the checker is safety-only. *)
Definition c16f_store : list (str * str) :=
  [(block_file_name 5 [97] [112] 3 [103], file_bytes [84] [[1; 7]])].

Theorem c16_fetch_notfound_always_accepted_conclusion_weaker :
  fetch_one_block (fun m => Some m) c16f_store 5 [97] = FBlock [1; 7] /\
  query_verdict c16f_store [[1; 7]] [(5, [97])] false (mkQuery 5 [97] QNotFound) = 1 /\   (* 1 = mismatch only; property bit (2) clear *)
  merged_query_verdict [5; 6; 7] (mkQuery 6 [] QNotFound) = 1.
Proof. vm_compute. repeat split; reflexivity. Qed.
Print Assumptions c16_fetch_notfound_always_accepted_conclusion_weaker.

(* ------------------------------------------------------------------ round trip: the property bit looks at the blocks only.
   [round_verdict] evaluates [round_ok] on the blocks read by Read(); what ReadAsBlockMeta delivered enters the
   correspondence bit only.  Observation: Read() delivers the block, ReadAsBlockMeta delivers NOTHING and ends with an
   error (a meta reader that lost every block): verdict 1 (mismatch), property bit clear. *)
Definition c16r_b : blk :=
  mkBlk 7 [97; 98] [97; 97] (Some (1700000000, 5)%Z) 6 0 0%Z [] 0 6 (Some (mkAny [116; 47; 84] [1; 2; 3])).

Theorem c16_round_meta_not_in_property_bit_conclusion_weaker :
  exists flen fsum,
    round_verdict [c16r_b] [Some [9; 9]] flen fsum true false (Some [116; 47; 84]) [None] EEof [None] EEof = 0 /\
    round_verdict [c16r_b] [Some [9; 9]] flen fsum true false (Some [116; 47; 84]) [None] EEof [] EErr = 1.
Proof.
  exists (lenN (fst (write_all (enc_lookup [c16r_b] [Some [9; 9]]) [c16r_b]))),
         (wsum (fst (write_all (enc_lookup [c16r_b] [Some [9; 9]]) [c16r_b]))).
  vm_compute. split; reflexivity.
Qed.
Print Assumptions c16_round_meta_not_in_property_bit_conclusion_weaker.
