(* W1 conclusion audit, C15 (block indexes; indexed file streaming): places where the checker's PROPERTY bit says less
   than the property text.  Closed (vm_compute).  See notes_proof_W1/notes_C15.md. *)
From BV Require Import Base.Prelude Model.BlockIndex Check.C15_Check.
Local Open Scope N_scope.

(* chain 0..29, one block per number, key "a" (byte 97) on block 5 only; bundles of 10; index files of size 10 for
   [0,10) and [10,20): the index covers bundles 0 and 10 and ends at 20; bundle FILES exist for 0, 10 and 20. *)
Definition c15w_chain : feed := map (fun n => (if n =? 5 then [[97]] else [[98]], n)) (map N.of_nat (seq 0 30)).
Definition c15w_m (k : str) : bool := eqb_list k [97].
Definition c15w_names : list (N * N) := [(0, 10); (10, 10)].

(* the run of the MODEL (= the real file source on this input): start block 0, the match 5, then everything from the
   first uncovered bundle (20) on; bundle 10 (covered, no match) is skipped *)
Definition c15w_store : mstore := fst (build_store 0 c15w_chain [(10, None, 30)]).
Definition c15w_model :=
  file_source_run prov (gquery 0 c15w_store [10] c15w_m 10) 0 0 10 (fun _ => false)
    (bundle_exists c15w_chain 10) (bundle_blocks c15w_chain 10) 10 10 (Some prov0) [].

(* "in bundles the index covers other than the LAST AVAILABLE ones, nothing besides these ...": the property bit exempts
   the last bundle the INDEX covers (b + bundle < u), whether or not it is one of the last available bundle FILES.  Here
   bundle 10 is covered by the index, is not the last available file (file 20 exists), yet a delivery that hands the
   consumer all ten non-matching blocks of bundle 10 is accepted by the property bit.  Harmless for the verdict (the
   correspondence bit compares with the model's run), recorded as a weaker conclusion. *)
Theorem c15_last_covered_bundle_exempt_conclusion_weaker :
  fst c15w_model = [0; 5; 20; 21; 22; 23; 24; 25; 26; 27; 28; 29] /\ snd c15w_model = EWait 30 /\
  map (fun f => (if_low f, if_size f)) c15w_store = [(10, 10); (0, 10)] /\
  bundle_exists c15w_chain 10 20 = true /\
  stream_prop c15w_chain [10] c15w_m 10 0 0 [] false c15w_names
    ([0; 5] ++ map N.of_nat (seq 10 20)) 1 30 = true /\
  (* the same clause does reject a stray block in a bundle that is not the last covered one *)
  stream_prop c15w_chain [10] c15w_m 10 0 0 [] false c15w_names
    ([0; 5; 7] ++ map N.of_nat (seq 20 10)) 1 30 = false.
Proof. vm_compute. repeat split; reflexivity. Qed.
Print Assumptions c15_last_covered_bundle_exempt_conclusion_weaker.
