(* W1 scratch: C20 conclusion audit experiments *)
From BV Require Import Base.Prelude Model.BlockServer Model.BlockServerSched Spec.C20_Spec Spec.C20_SchedSpec Check.C20_Check.
Local Open Scope Z_scope.

(* 1. overflow of a capacity-2 subscription, then the consumer drains: model says CClosed at the end *)
Definition ops1 : list op := [OAttach 2; OPush 1; OPush 2; OPush 3; OConsume 0; OConsume 0; OConsume 0]%N.
Eval vm_compute in trace true 3 ops1.
Eval vm_compute in map sub_final (sv_subs (final true 3 ops1)).

(* an observation in which the channel is NEVER closed (consumer sees empty), closed field true *)
Definition obs1_bad : list oobs :=
  [ObSub (Some 0%nat) 2 0; ObPush [1] false; ObPush [1;2] false; ObPush [1;2;3] true;
   ObCons (CGot 1); ObCons (CGot 2); ObCons CEmpty]%N.
Eval vm_compute in seq_property true 3 ops1 obs1_bad [SObs [] true 2%N].
Eval vm_compute in model_agrees true 3 ops1 obs1_bad [SObs [] true 2%N].
Eval vm_compute in c20_verdict (CSeq true 3 ops1 obs1_bad [SObs [] true 2%N] false).

(* an observation in which an open, never-overflowed subscription's channel is seen CLOSED *)
Definition ops2 : list op := [OAttach 2; OPush 1; OConsume 0; OConsume 0]%N.
Definition obs2_bad : list oobs := [ObSub (Some 0%nat) 2 0; ObPush [1] false; ObCons (CGot 1); ObCons CClosed]%N.
Eval vm_compute in seq_property true 3 ops2 obs2_bad [SObs [] false 2%N].
Eval vm_compute in c20_verdict (CSeq true 3 ops2 obs2_bad [SObs [] false 2%N] false).

(* 2. conc checker: a subscriber that received 1..200 of 1000 pushes, then found closed, burst 0 *)
Definition P1000 := map N.of_nat (seq 1 1000).
Definition R200 := map N.of_nat (seq 1 200).
Eval vm_compute in conc_sub_ok 3 P1000 (CSub 0 R200 true false).
(* and one that kept up for 900 blocks and was then closed *)
Definition R900 := map N.of_nat (seq 1 900).
Eval vm_compute in conc_sub_ok 3 P1000 (CSub 0 R900 true false).
(* a subscriber that unsubscribed: any contiguous run accepted, even an empty one *)
Eval vm_compute in conc_sub_ok 3 P1000 (CSub 0 [] false true).
