From BV Require Import Base.Prelude Model.Block Model.ForkDB Model.Forkable Model.ForkableLookups Model.Burst Model.Hub Model.HubSubs Model.HubSched.
From BV Require Import Spec.Consumer Spec.C08_Spec Spec.C08_Sched_Spec.
From BV Require Import Check.Fk_Check Check.Burst_Check Check.C08_Check Check.C08S_Check.
Local Open Scope N_scope.

Definition wblk (n : N) : block := mkBlock n n (n - 1) (n - 2).
Definition wh0 : hub :=
  let '(h, _, _) := hub_live 2 0 hub_init (PBlocks [wblk 2; wblk 3; wblk 4]) (wblk 5) in h.
Definition evs_of (q : list qitem) := qitem_events q.
Definition tracker_burst : list event := match request_burst wh0 (RNum 3) with Some q => qitem_events q | None => [] end.
Definition wlog : list event := tracker_burst ++ push_events 2 0 wh0 [wblk 6; wblk 7; wblk 8].
Definition h6 := hub_after 2 0 wh0 [wblk 6].
Definition wforks : list block := match request_burst h6 (RForks 4) with Some q => qitem_blocks q | None => [] end.
Definition ev7 := push_events 2 0 h6 [wblk 7].
Definition ev8 := push_events 2 0 (hub_after 2 0 h6 [wblk 7]) [wblk 8].
Compute (map (fun e => (estep e, bnum (eblk e))) wlog, map bnum wforks, map (fun e => (estep e, bnum (eblk e))) ev7, map (fun e => (estep e, bnum (eblk e))) ev8).
Compute (hub_lowest wh0, h_ready wh0).
Definition bad_sub : sub_obs := mkSubObs 3 0 4 None true [ev8] wforks (100 + N.of_nat (length wforks)) false.
Definition good_sub : sub_obs := mkSubObs 3 0 4 None true [ev7 ++ ev8] wforks (100 + N.of_nat (length wforks)) false.
Definition bad_case := mkC08 1 2 0 [] [] [] wlog [] [bad_sub] 1 3.
Definition good_case := mkC08 1 2 0 [] [] [] wlog [] [good_sub] 1 3.
Compute (c08_prop bad_case, c08_prop good_case).
(* spurious drop: a by-number subscription, registered after push 6, holding only its burst, reported dropped *)
Definition nburst : list event := match request_burst h6 (RNum 4) with Some q => qitem_events q | None => [] end.
Definition drop_sub : sub_obs := mkSubObs 2 0 4 None true [nburst] [] (100 + N.of_nat (length nburst)) true.
Definition drop_case := mkC08 1 2 0 [] [] [] wlog [] [drop_sub] 0 3.
Compute (c08_prop drop_case, length nburst).
