(* W1 — conclusion audit of C08 (sequence level: Spec/C08_Spec.v, Check/C08_Check.v; schedule level:
   Spec/C08_Sched_Spec.v, Check/C08S_Check.v).  Closed witnesses of the places where a Spec conclusion or a
   checker's acceptance condition says less than (or something else than) the property text.  Details and the
   replays on the real code: notes_proof_W1/notes_C08.md, notes_proof_W1/c08_audit_test.go.
   Compiles alone:  cd coq && coqc -Q . BV ../notes_proof_W1/audit2_C08.v *)
From BV Require Import Base.Prelude Model.Block Model.ForkDB Model.Forkable Model.ForkableLookups Model.Burst Model.Hub Model.HubSubs Model.HubSched.
From BV Require Import Spec.Consumer Spec.C08_Spec Spec.C08_Sched_Spec.
From BV Require Import Check.Fk_Check Check.Burst_Check Check.C08_Check Check.C08S_Check.
Local Open Scope N_scope.

(* ------------------------------------------------------------------------------------------------
   The acceptance condition of Check/C08_Check.v AS AUDITED (verbatim copy of c08_sub_ok / c08_prop of
   the original file, renamed w_sub_ok / w_prop), so that the witnesses below do not depend on whether
   notes_proof_W1/check_C08.diff has been applied to Check/C08_Check.v. *)
Definition w_sub_ok (mode : N) (log : list event) (log_at : list N) (o : sub_obs) : bool :=
  if negb (so_served o) then true else
  let recv := concat (so_chunks o) in
  let nburst := N.to_nat (so_cap o - 100) in
  let burst := if so_kind o =? 3 then [] else firstn nburst recv in
  let rest := if so_kind o =? 3 then recv else skipn nburst recv in
  (* after its burst a subscription receives every later hub event, in order, exactly once *)
  (if so_dropped o then
     (if mode =? 0 then is_prefix rest (skipn (N.to_nat (nth (N.to_nat (so_at o)) log_at 0)) log) else true)
   else
     (if mode =? 0 then events_eqb rest (skipn (N.to_nat (nth (N.to_nat (so_at o)) log_at 0)) log)
      else is_suffix_from (length log) rest log)) &&
  (* burst + later events leave the consumer where a consumer that never disconnected is *)
  (so_dropped o || (so_kind o =? 3) ||
   match cons_fold cons0 log with
   | None => false
   | Some cm =>
       if (so_kind o =? 2) || (so_kind o =? 1) then
         (* from a number / through a cursor: a consumer starting empty at `start` *)
         match fold_tolerant (so_start o) cons0 recv with
         | Some c' => eqb_list (ids (filter (fun b => so_start o <=? bnum b) (cs_stack c')))
                               (ids (filter (fun b => so_start o <=? bnum b) (cs_stack cm)))
         | None => false end
       else
         (* from a cursor: the consumer holds what the stream had delivered at the cursor's event *)
         match so_cur o with
         | None => true
         | Some cu =>
             let matches_cursor (e : event) :=
               ref_eqb (ecblk e) (cu_blk cu) &&
               (step_eqb (estep e) (cu_step cu) || (step_eqb (cu_step cu) SNew && step_eqb (estep e) SNewIrr)) in
             let fix upto (l : list event) (acc : list event) : option (list event) :=
               match l with
               | [] => None
               | e :: l' => if matches_cursor e then Some (acc ++ [e]) else upto l' (acc ++ [e])
               end in
             match upto log [] with
             | None => true
             | Some pre =>
                 match cons_fold cons0 pre with
                 | None => false
                 | Some ck0 =>
                     let ck := mkCons (cs_stack ck0) (length (filter (fun b => bnum b <=? rn (cu_lib cu)) (cs_stack ck0))) true in
                     match fold_tolerant 0 ck recv with
                     | Some c' => eqb_list (ids (cs_stack c')) (ids (cs_stack cm))
                     | None => false end
                 end
             end
         end
   end).

Definition w_prop (k : c08_case) : bool :=
  match k with
  | C08Skip => true
  | mkC08 mode first kept boot live ops log log_at subs nsubs pushed =>
      forallb (w_sub_ok mode log log_at) subs &&
      (* every served subscription that was not dropped is still registered *)
      (N.of_nat (length (filter (fun o => so_served o && negb (so_dropped o)) subs)) =? nsubs)
  end.


(* ================================================================================================
   1. Spec/C08_Spec.v, C08_exactly_once (and C08_lone, C08_registration_atomic, the c08_sched_* statements
      through push_events / hub_push): "every event the hub produces afterwards" is [push_events], i.e. what
      Model/Hub.v [hub_live] returns.  hub_live returns NO event for a block processed while the hub is
      not ready, including the block that MAKES it ready, although the hub's Forkable processes that
      block (ForkableHub.bootstrap calls forkable.ProcessBlock, whose handler is hub.processBlock: the fan-out).
      The statements are stated for every start state sh0 (ready or not); the real ForkableHub serves
      SourceFromBlockNum before it is ready (recorded by U2 for C09: NotReadyServes).

      Input (inside "every subscription obtained from the hub", "for every history"): first streamable 1,
      kept 5, linear chain (block k declares k-2 final), one-block files 1..30, live block 40 (hole 31..39: not
      ready, head 30, LIB 28); SourceFromBlockNum(26): burst 26..30; then live 31 (linkable: the hub becomes
      ready on it), 32, 33.
      Model: the subscription holds burst, New 32, Irr 30, New 33, Irr 31: the Forkable's events for 31
      (New 31, Irr 29) are produced — the hub's Forkable state after the push is fk_step's state — and
      handed to nobody; what the subscription holds is not even a consumable stream (New 32 on top of 30).
      REAL code (TestW1_C08_SubscribedBeforeReadyReceivesEverything): the subscriber receives new#31,
      irreversible#29, new#32, ...: the code conforms to the text, the Spec's [expected] says less. *)
Definition a_blk (n : N) : block := mkBlock (1000 + n) n (1000 + n - 1) (n - 2).
Definition a_files : list block := map (fun k => a_blk (N.of_nat k)) (seq 1 30).
Definition a_h1 : hub := let '(h, _, _) := hub_live 1 5 hub_init (PBlocks a_files) (a_blk 40) in h.

Theorem c08_ready_transition_events_conclusion_weaker :
  exists first kept sh0 r b post' burst evs s',
    let post := OPush b :: post' in
    let expected := burst ++ map QEv (push_events first kept (sh_hub sh0) (pushes post)) in
    (* the hypothesis of c08_exactly_once holds, and its conclusion (not dropped: taken ++ pending = expected) *)
    h_ready (sh_hub sh0) = false /\
    request_burst (sh_hub sh0) r = Some burst /\
    (exists s got, hview (run first kept (start sh0) (OSub r :: post)) 0 = Some (s, got) /\
                   ms_dropped s = false /\ got ++ ms_queue s = expected) /\
    (* the hub's Forkable processes b and produces events for it ... *)
    fk_step (hub_config first kept) (h_f (sh_hub sh0)) b = (s', evs, ROk) /\
    h_f (fst (hub_push first kept (sh_hub sh0) b)) = s' /\
    map (fun e => (estep e, bnum (eblk e))) evs = [(SNew, 31); (SIrr, 29)] /\
    (* ... which the Spec does not count among "the events the hub produces": no subscription gets them *)
    snd (hub_push first kept (sh_hub sh0) b) = [] /\
    (* the text fails on what the Spec accepts: [expected] is not a stream a consumer can follow (block 32
       arrives on top of 30), with the Forkable's events for b it is *)
    cons_fold cons0 (qitem_events expected) = None /\
    cons_fold cons0 (qitem_events burst ++ evs ++ push_events first kept (sh_hub sh0) (pushes post)) <> None.
Proof.
  exists 1, 5, (mkSH a_h1 []), (RNum 26), (a_blk 31), [OPush (a_blk 32); OPush (a_blk 33)].
  eexists. eexists. eexists. cbv zeta.
  split; [vm_compute; reflexivity|].
  split; [vm_compute; reflexivity|].
  split; [eexists; eexists; vm_compute; repeat split; reflexivity|].
  split; [vm_compute; reflexivity|].
  split; [vm_compute; reflexivity|].
  split; [vm_compute; reflexivity|].
  split; [vm_compute; reflexivity|].
  split; [vm_compute; reflexivity|].
  vm_compute. discriminate.
Qed.
Print Assumptions c08_ready_transition_events_conclusion_weaker.

(* ================================================================================================
   2. Spec/C08_Sched_Spec.v, C08_sched_no_deadlock ("the producer is never blocked by a subscriber: inside
      its critical section its next step is always enabled"), C08_sched_isolation, C08_sched_hub_unaffected:
      the clause "terminated with an error and never delays ... delivery to the hub or to other subscribers".
      In Model/HubSched.v the termination of an overflowed subscription is the producer step PDrop -> PFan:
      a filter of g_subs, enabled iff subscribersLock is free; the subscription's shutter is "not modelled".
      The lemma below is the whole content of that step: no datum of the dropped subscriber (request, channel,
      what its consumer did) occurs in it — there is no subscriber code on the producer's path in the model.
      REAL code: processBlock calls sub.Shutdown(err) on the producer goroutine, under the Forkable's write
      lock; shutter.Shutdown runs the subscription's OnTerminating / OnTerminated callbacks synchronously, and
      those are code of the slow subscriber (bstream.Source exposes OnTerminating / OnTerminated).
      TestW1_C08_TerminationCallbackDelaysHubAndOthers: while the callback runs, ProcessBlock does not return,
      a later-registered healthy subscriber is not offered the event, SourceFromBlockNum and HeadInfo wait;
      TestW1_C08_TerminationCallbackUsingHubWedgesIt: a callback that calls hub.HeadInfo() deadlocks the hub for good.
      No Coq statement can exhibit that (the observable is outside the model); the lemma pins down what
      the conclusion of c08_sched_no_deadlock rests on. *)
Theorem c08_drop_step_has_no_subscriber_code_conclusion_weaker :
  forall first kept st e k todo evs,
    g_ppc st = PDrop e k todo evs -> g_mutex st = None ->
    cstep true first kept st TProd
    = set_subs (set_ppc st (PFan e todo evs)) (filter (fun j => negb (Nat.eqb j k)) (g_subs st)).
Proof.
  intros first kept st e k todo evs Hpc Hm. unfold cstep, prod_step, mutex_free. rewrite Hpc, Hm. reflexivity.
Qed.
Print Assumptions c08_drop_step_has_no_subscriber_code_conclusion_weaker.

(* ... and a whole run: one requester whose consumer never takes a step, a producer that processes 52 blocks
   alone: the subscription overflows, is dropped and unsubscribed, the producer finishes its script — the
   schedule contains no step of the dropped subscriber after its registration *)
Definition b_blk (n : N) : block := mkBlock n n (n - 1) (n - 2).
Definition b_h0 : hub :=
  let '(h, _, _) := hub_live 2 0 hub_init (PBlocks [b_blk 2; b_blk 3; b_blk 4]) (b_blk 5) in h.
Definition b_script : list block := map (fun k => b_blk (N.of_nat k)) (seq 6 52).
Definition b_sched : list tid := repeat (TReq 0) 8 ++ repeat TProd 2000.

Theorem c08_drop_run_without_subscriber_steps_conclusion_weaker :
  let st := crun true 2 0 (cinit b_h0 b_script [RNum 4]) b_sched in
  g_ppc st = PIdle /\ g_script st = [] /\ g_subs st = [] /\ g_order st = [0%nat] /\
  (exists c s, nth_error (g_reqs st) 0 = Some c /\ r_sub c = Some s /\ ms_dropped s = true /\
               r_got c = [] /\ N.of_nat (length (ms_queue s)) = ms_cap s) /\
  forallb (fun t => match t with TCons _ => false | _ => true end) b_sched = true.
Proof.
  cbv zeta. split; [vm_compute; reflexivity|]. split; [vm_compute; reflexivity|].
  split; [vm_compute; reflexivity|]. split; [vm_compute; reflexivity|].
  split; [eexists; eexists; vm_compute; repeat split; reflexivity|]. vm_compute; reflexivity.
Qed.
Print Assumptions c08_drop_run_without_subscriber_steps_conclusion_weaker.

(* ================================================================================================
   3. Check/C08_Check.v, c08_sub_ok / c08_prop (also used by Check/C08S_Check.v, c08s_prop, with mode 1):
      with-forks subscriptions (so_kind = 3).
      (a) the burst so_forks is not read by the acceptance condition at all;
      (b) in concurrent mode the later events only have to be SOME suffix of the hub's log, and the clause
          that ties the burst to that suffix (the consumer fold) is switched off for kind 3.
      So an observation in which a with-forks subscription lost every event between its snapshot and its
      registration is accepted.  Ready hub (head 5), log = tracker; the subscription is computed after
      block 6 (burst = blocks 4, 5, 6) and receives only the events of block 8: New 7 / Irr 5 are lost. *)
Definition c_tracker_burst : list event :=
  match request_burst b_h0 (RNum 3) with Some q => qitem_events q | None => [] end.
Definition c_log : list event := c_tracker_burst ++ push_events 2 0 b_h0 [b_blk 6; b_blk 7; b_blk 8].
Definition c_h6 : hub := hub_after 2 0 b_h0 [b_blk 6].
Definition c_forks : list block :=
  match request_burst c_h6 (RForks 4) with Some q => qitem_blocks q | None => [] end.
Definition c_ev7 : list event := push_events 2 0 c_h6 [b_blk 7].
Definition c_ev8 : list event := push_events 2 0 (hub_after 2 0 c_h6 [b_blk 7]) [b_blk 8].
Definition c_sub : sub_obs := mkSubObs 3 0 4 None true [c_ev8] c_forks (100 + N.of_nat (length c_forks)) false.

Theorem c08_checker_forks_join_conclusion_weaker :
  exists mode first kept log subs nsubs o e,
    (* accepted by the property checker (the clause of run.py: verdict code 2 is never raised) *)
    w_prop (mkC08 mode first kept [] [] [] log [] subs nsubs 3) = true /\
    subs = [o] /\ so_kind o = 3 /\ so_served o = true /\ so_dropped o = false /\
    (* although: e is an event of the hub's log for a block at or above the requested start that is NOT in
       the burst (so it was produced after the snapshot), and the subscription never received it *)
    In e log /\ estep e = SNew /\ bnum (eblk e) = 7 /\ so_start o <= bnum (eblk e) /\
    memN (bid (eblk e)) (map bid (so_forks o)) = false /\
    existsb (event_eqb e) (concat (so_chunks o)) = false.
Proof.
  exists 1, 2, 0, c_log, [c_sub], 1, c_sub. eexists.
  split; [vm_compute; reflexivity|].
  split; [reflexivity|]. split; [reflexivity|]. split; [reflexivity|]. split; [reflexivity|].
  split; [vm_compute; do 5 right; left; reflexivity|].
  split; [vm_compute; reflexivity|]. split; [vm_compute; reflexivity|].
  split; [vm_compute; discriminate|].
  split; vm_compute; reflexivity.
Qed.
Print Assumptions c08_checker_forks_join_conclusion_weaker.

(* (a) as a statement of its own: the acceptance condition is the same whatever the with-forks burst is
   (empty, duplicated, blocks below the requested number, ...) *)
Theorem c08_checker_ignores_forks_burst_conclusion_weaker :
  forall mode log log_at kind at_ st cur served chunks cap dropped forks1 forks2,
    w_sub_ok mode log log_at (mkSubObs kind at_ st cur served chunks forks1 cap dropped)
    = w_sub_ok mode log log_at (mkSubObs kind at_ st cur served chunks forks2 cap dropped).
Proof. intros. reflexivity. Qed.
Print Assumptions c08_checker_ignores_forks_burst_conclusion_weaker.

(* ================================================================================================
   4. Check/C08_Check.v, c08_sub_ok: "terminated with an error" is demanded of "a subscriber that falls behind
      by more than its buffer"; every other subscription "receives ... every event".  The acceptance condition
      for a subscription reported dropped is: sequential mode, what it received is a prefix; concurrent mode,
      [true].  A subscription terminated with an error right after its registration, holding only its burst
      (3 items, capacity 103), while the hub goes on producing events, is accepted.  (Check/C08S_Check.v has
      drop_justified for the cases of its own stage.) *)
Definition d_burst : list event :=
  match request_burst c_h6 (RNum 4) with Some q => qitem_events q | None => [] end.
Definition d_sub : sub_obs := mkSubObs 2 0 4 None true [d_burst] [] (100 + N.of_nat (length d_burst)) true.

Theorem c08_checker_spurious_drop_conclusion_weaker :
  exists mode first kept log o,
    w_prop (mkC08 mode first kept [] [] [] log [] [o] 0 3) = true /\
    so_served o = true /\ so_dropped o = true /\
    (* it never fell behind: 3 items were ever put into a channel of capacity 103 *)
    N.of_nat (length (concat (so_chunks o)) + length (so_forks o)) = 3 /\ so_cap o = 103 /\
    (* and the hub produced 4 more events after its burst (New 7, Irr 5, New 8, Irr 6) that it never received *)
    length log = (length c_tracker_burst + 2 + 4)%nat.
Proof.
  exists 1, 2, 0, c_log, d_sub.
  split; [vm_compute; reflexivity|]. split; [reflexivity|]. split; [reflexivity|].
  split; [vm_compute; reflexivity|]. split; vm_compute; reflexivity.
Qed.
Print Assumptions c08_checker_spurious_drop_conclusion_weaker.

(* ================================================================================================
   5. Not weaker — STRONGER than the code, recorded because the text's "terminated" has no counterpart in the
      models: a dropped subscription keeps its queue and its consumer goes on receiving (Model/HubSubs.v
      drain_nth, Model/HubSched.v cons_step; C08_sched_complete_delivery: a dropped subscriber HAS RECEIVED
      burst ++ evs1 once "finished").  Below: subscription 0 never reads, is dropped by the 51st push with 102
      items queued, and a drain AFTER the drop hands all 102 to its consumer.
      REAL code (TestW1_C08_DroppedConsumerLosesBufferedItems): Subscription.run leaves its loop as soon as
      the shutter is terminating: a consumer blocked in its first handler call has received 1 item, the
      other cap (or cap - 1) items stay in the channel for ever.  The text asks nothing for the buffered
      items of a terminated subscriber: harmless; the state [finished] of C08_sched_complete_delivery with a
      dropped subscription is simply not reachable by the real code (Check/C08S_Check.v: ss_skip). *)
Definition e_ops : list op :=
  [OSub (RNum 4)] ++ map (fun k => OPush (b_blk (N.of_nat k))) (seq 6 60) ++ [ODrain 0].

Theorem c08_dropped_consumer_drains_in_model_only :
  exists s got, hview (run 2 0 (start (mkSH b_h0 [])) e_ops) 0 = Some (s, got) /\
                ms_dropped s = true /\ ms_cap s = 102 /\ length got = 102%nat /\ ms_queue s = [].
Proof. eexists. eexists. vm_compute. repeat split; reflexivity. Qed.
Print Assumptions c08_dropped_consumer_drains_in_model_only.
