// package directory: hub — run: cd <repo> && GOFLAGS=-mod=mod GOPROXY=off GOSUMDB=off GOTOOLCHAIN=local timeout 600 go test -vet=off -count=1 -run 'TestW1_C18_' ./hub/
package hub

import (
	"fmt"
	"io"
	"testing"
	"time"

	"github.com/streamingfast/bstream"
	pbbstream "github.com/streamingfast/bstream/pb/sf/bstream/v1"
)

// W1-C18-1, consequence in the hub (the consumer of the lookups C18 speaks about): the bootstrap of the "vanilla" case of
// TestForkableHub_Bootstrap, with the only change that the first live block carries no timestamp. The block links, the
// forkable delivers it, and the readiness test `h.forkable.HeadInfo()` (hub.go, bootstrapperHandler) PANICS in the live
// source's handler call instead of making the hub ready.
func TestW1_C18_HubBootstrapPanicsOnBlockWithoutTimestamp(t *testing.T) {
	done := make(chan struct{})
	var recovered interface{}
	var ready bool
	go func() {
		defer close(done)
		lsf := bstream.NewTestSourceFactory()
		obsf := bstream.NewTestSourceFactory()
		fh := NewForkableHub(lsf.NewSource, bstream.SourceFromNumFactory(obsf.SourceFromBlockNum), 0)
		go fh.Run()
		ls := <-lsf.Created
		go func() {
			obs := <-obsf.Created
			for _, blk := range []*pbbstream.Block{
				bstream.TestBlockWithLIBNum("00000003", "00000002", 2),
				bstream.TestBlockWithLIBNum("00000004", "00000003", 2),
				bstream.TestBlockWithLIBNum("00000005", "00000004", 2),
				bstream.TestBlockWithLIBNum("00000008", "00000005", 3),
			} {
				_ = obs.Push(blk, nil)
			}
			obs.Shutdown(io.EOF)
		}()
		live := bstream.TestBlockWithLIBNum("00000009", "00000008", 3)
		live.Timestamp = nil
		func() {
			defer func() { recovered = recover() }()
			_ = ls.Push(live, nil)
		}()
		ready = fh.ready
	}()
	select {
	case <-done:
	case <-time.After(20 * time.Second):
		t.Fatal("watchdog: bootstrap did not return")
	}
	if recovered == nil {
		t.Fatalf("expected the live handler call to panic; ready=%v", ready)
	}
	if ready {
		t.Fatal("hub expected not to be ready")
	}
	t.Logf("live block 9 without timestamp: handler call panicked with %q; hub ready=%v", fmt.Sprint(recovered), ready)
}
