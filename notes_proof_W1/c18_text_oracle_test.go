// package directory: forkable — run: cd <repo> && GOFLAGS=-mod=mod GOPROXY=off GOSUMDB=off GOTOOLCHAIN=local timeout 600 go test -vet=off -count=1 -run 'TestW1_C18_' ./forkable/
package forkable

import (
	"fmt"
	"math/rand"
	"sort"
	"testing"
	"time"

	"github.com/streamingfast/bstream"
	pbbstream "github.com/streamingfast/bstream/pb/sf/bstream/v1"
	"google.golang.org/protobuf/types/known/timestamppb"
)

// W1 conclusion audit of C18: the property TEXT evaluated directly on the real Forkable, with an oracle that is
// independent of the Coq model and stronger than the boolean checker (Check/Fk_Props_Check.v: look_ok) in the places
// the audit lists:
//   - canonical lookup checked on the WHOLE retained part of the consumer's chain (LIB - kept and above), not only at
//     or above the LIB, and the returned block's id AND number are compared;
//   - the bound is checked after EVERY input block once a LIB move happened, not only on the moving step, and through
//     all three lookups (AllIDs, AllBlocksAt, GetBlockByHash), not only AllIDs;
//   - GetBlockByHash must return the block WITH THAT HASH (the harness projection is "non-nil"), AllBlocksAt must
//     return blocks OF THAT NUMBER;
//   - head information: id, number and LIB number of the last block delivered as New;
//   - retention values 0..5 as the generator, plus 50 and MaxInt (window larger than the chain).

type w1blk struct {
	id, parent string
	num, lib   uint64
}

type w1ev struct {
	step bstream.StepType
	id   string
}

type w1rec struct{ evs []w1ev }

func (r *w1rec) ProcessBlock(blk *pbbstream.Block, obj interface{}) error {
	r.evs = append(r.evs, w1ev{obj.(*ForkableObject).Step(), blk.Id})
	return nil
}

func w1c18Watch(t *testing.T, d time.Duration, f func()) {
	t.Helper()
	done := make(chan struct{})
	go func() { defer close(done); f() }()
	select {
	case <-done:
	case <-time.After(d):
		t.Fatalf("watchdog: no return after %s", d)
	}
}

// a random block tree above a root LIB block, LIB declarations in the class lib_ok (the height of the block itself or
// of an ancestor, never decreasing from parent to child), numbers may skip
func w1tree(r *rand.Rand, n int, rootNum uint64) (root w1blk, blocks []w1blk) {
	root = w1blk{id: fmt.Sprintf("%08xroot", rootNum), parent: fmt.Sprintf("%08xpre", rootNum-1), num: rootNum, lib: rootNum}
	type node struct {
		b    w1blk
		ancs []uint64 // heights of the ancestors and of the block itself, ascending, from the root on
	}
	nodes := []node{{root, []uint64{rootNum}}}
	for i := 0; i < n; i++ {
		var p node
		if r.Intn(100) < 70 {
			p = nodes[len(nodes)-1] // extend the newest block: long chains
		} else {
			p = nodes[r.Intn(len(nodes))]
		}
		num := p.b.num + 1
		if r.Intn(10) == 0 {
			num += uint64(1 + r.Intn(2))
		}
		ancs := append(append([]uint64{}, p.ancs...), num)
		// candidates: ancestor heights >= the parent's declared LIB
		var cand []uint64
		for _, h := range ancs {
			if h >= p.b.lib {
				cand = append(cand, h)
			}
		}
		lib := cand[0]
		switch r.Intn(4) {
		case 0:
			lib = cand[r.Intn(len(cand))]
		case 1:
			if len(cand) > 2 {
				lib = cand[len(cand)-3]
			}
		}
		b := w1blk{id: fmt.Sprintf("%08x%c%d", num, 'a'+rune(r.Intn(4)), i), parent: p.b.id, num: num, lib: lib}
		nodes = append(nodes, node{b, ancs})
		blocks = append(blocks, b)
	}
	return
}

func w1pb(b w1blk) *pbbstream.Block {
	return &pbbstream.Block{Id: b.id, Number: b.num, ParentId: b.parent, LibNum: b.lib, Timestamp: timestamppb.New(time.Unix(1600000000+int64(b.num), 0))}
}

type w1stats struct{ cases, steps, moves, canonBelowLIB, reorgs, purgedSeen int }

func w1run(t *testing.T, r *rand.Rand, mode string, kept int, st *w1stats) {
	rootNum := uint64(5 + r.Intn(5))
	root, blocks := w1tree(r, 6+r.Intn(30), rootNum)
	// arrival order: mostly creation order, some local shuffles, some duplicates
	hist := append([]w1blk{}, blocks...)
	for i := range hist {
		if r.Intn(6) == 0 {
			j := i + r.Intn(4)
			if j < len(hist) {
				hist[i], hist[j] = hist[j], hist[i]
			}
		}
	}
	if r.Intn(3) == 0 {
		hist = append(hist, hist[r.Intn(len(hist))])
	}
	switch mode {
	case "incl", "disc":
		hist = append([]w1blk{root}, hist...)
	}
	byID := map[string]w1blk{root.id: root}
	for _, b := range blocks {
		byID[b.id] = b
	}

	rec := &w1rec{}
	opts := []Option{WithFilters(bstream.StepNew | bstream.StepUndo | bstream.StepIrreversible | bstream.StepStalled), WithKeptFinalBlocks(kept)}
	switch mode {
	case "excl":
		opts = append(opts, WithExclusiveLIB(bstream.NewBlockRef(root.id, root.num)))
	case "incl":
		opts = append(opts, WithInclusiveLIB(bstream.NewBlockRef(root.id, root.num)))
	case "disc":
		opts = append(opts, HoldBlocksUntilLIB())
	}
	p := New(rec, opts...)

	var stack []string // consumer's chain, oldest first
	lastNew := ""
	libID, libNum := "", uint64(0)
	libKnown := false
	if mode != "disc" {
		libID, libNum, libKnown = root.id, root.num, true
	}
	moved := false
	announced := false
	seen := map[string]bool{}
	st.cases++

	for step, b := range hist {
		before := len(rec.evs)
		if err := p.ProcessBlock(w1pb(b), nil); err != nil {
			t.Fatalf("%s kept=%d step %d: ProcessBlock(%s): %v", mode, kept, step, b.id, err)
		}
		seen[b.id] = true
		st.steps++
		undone := false
		for _, e := range rec.evs[before:] {
			switch {
			case e.step == bstream.StepNew || e.step == bstream.StepNewIrreversible:
				stack = append(stack, e.id)
				lastNew = e.id
			case e.step == bstream.StepUndo:
				if len(stack) == 0 || stack[len(stack)-1] != e.id {
					t.Fatalf("undo of %s which is not the top", e.id)
				}
				stack = stack[:len(stack)-1]
				undone = true
			case e.step == bstream.StepIrreversible:
				nb := byID[e.id]
				if !libKnown {
					// discovery: the cursor LIB of the first event is the root; the first announcement establishes it
					libKnown = true
				} else if e.id != libID && !(mode == "disc" && !announced) {
					moved = true
					st.moves++
				}
				announced = true
				libID, libNum = nb.id, nb.num
			}
		}
		if undone {
			st.reorgs++
		}
		if mode == "disc" && !libKnown {
			// nothing delivered yet: every received block must be found
			for id := range seen {
				if g := p.GetBlockByHash(id); g == nil || g.Id != id {
					t.Fatalf("disc before LIB: %s not found by hash", id)
				}
			}
			continue
		}
		if mode == "disc" && !announced {
			continue // LIB known to the forkdb but not yet announced: the oracle has no LIB number
		}
		cutoff := uint64(0)
		if kept >= 0 && libNum > uint64(kept) {
			cutoff = libNum - uint64(kept)
		}
		ctx := fmt.Sprintf("%s kept=%d step %d (block %s) lib=%d cutoff=%d", mode, kept, step, b.id, libNum, cutoff)

		// head information = last block delivered as New
		hn, hid, _, hlib, herr := p.HeadInfo()
		if lastNew == "" {
			if herr == nil {
				t.Fatalf("%s: head info without a delivered block", ctx)
			}
		} else {
			lb := byID[lastNew]
			if herr != nil || hid != lb.id || hn != lb.num || hlib != lb.lib || p.HeadNum() != lb.num {
				t.Fatalf("%s: head info (%d,%s,lib %d, err %v) <> last New %+v", ctx, hn, hid, hlib, herr, lb)
			}
		}

		ids := p.AllIDs()
		held := map[string]bool{}
		for _, id := range ids {
			held[id] = true
		}

		// bound: once the LIB moved, at EVERY later observation nothing below LIB - kept, through all three lookups
		if moved {
			for _, id := range ids {
				if nb, ok := byID[id]; ok && nb.num < cutoff {
					t.Fatalf("%s: AllIDs holds %s below the cutoff", ctx, id)
				}
			}
			for id, nb := range byID {
				if nb.num < cutoff {
					st.purgedSeen++
					if p.GetBlockByHash(id) != nil {
						t.Fatalf("%s: GetBlockByHash returns %s below the cutoff", ctx, id)
					}
					if l := p.AllBlocksAt(nb.num); len(l) != 0 {
						t.Fatalf("%s: AllBlocksAt(%d) returns %d blocks below the cutoff", ctx, nb.num, len(l))
					}
				}
			}
		}

		// retained: every block received at or above the LIB (here: the whole kept window), by hash and by number, the block itself
		for id := range seen {
			nb := byID[id]
			inWindow := nb.num >= libNum
			if id == root.id && mode == "excl" {
				continue
			}
			if !inWindow {
				continue
			}
			g := p.GetBlockByHash(id)
			if g == nil || g.Id != id || g.Number != nb.num || g.ParentId != nb.parent {
				t.Fatalf("%s: GetBlockByHash(%s) = %v", ctx, id, g)
			}
			found := false
			for _, x := range p.AllBlocksAt(nb.num) {
				if x.Number != nb.num {
					t.Fatalf("%s: AllBlocksAt(%d) returned a block numbered %d", ctx, nb.num, x.Number)
				}
				if x.Id == id {
					found = true
				}
			}
			if !found {
				t.Fatalf("%s: AllBlocksAt(%d) misses %s", ctx, nb.num, id)
			}
		}

		// canonical: every height of the consumer's chain inside the kept window returns exactly that chain's block
		for _, id := range stack {
			nb := byID[id]
			if nb.num < cutoff {
				continue
			}
			if nb.num < libNum {
				st.canonBelowLIB++
			}
			c := p.CanonicalBlockAt(nb.num)
			if c == nil || c.Id != id || c.Number != nb.num {
				t.Fatalf("%s: CanonicalBlockAt(%d) = %v, consumer's chain has %s", ctx, nb.num, c, id)
			}
		}

		// lowest servable number: first block of the contiguous retained chain ending at the head
		want := uint64(0)
		if lastNew != "" {
			cur := byID[lastNew]
			for {
				pb, ok := byID[cur.parent]
				if !ok || !held[pb.id] {
					break
				}
				cur = pb
			}
			want = cur.num
		}
		if got := p.LowestBlockNum(); got != want {
			t.Fatalf("%s: LowestBlockNum = %d, first block of the retained chain of the head is %d", ctx, got, want)
		}
	}
}

func TestW1_C18_TextOracleOnRealForkable(t *testing.T) {
	w1c18Watch(t, 300*time.Second, func() {
		r := rand.New(rand.NewSource(18))
		st := &w1stats{}
		keptVals := []int{0, 0, 1, 2, 3, 5, 50, int(^uint(0) >> 1)}
		for i := 0; i < 6000; i++ {
			mode := []string{"excl", "incl", "disc"}[i%3]
			w1run(t, r, mode, keptVals[r.Intn(len(keptVals))], st)
		}
		if st.moves == 0 || st.canonBelowLIB == 0 || st.reorgs == 0 || st.purgedSeen == 0 {
			t.Fatalf("oracle not exercised: %+v", *st)
		}
		t.Logf("%d histories, %d steps, %d LIB moves, %d reorg steps, %d canonical lookups at kept heights BELOW the LIB, %d purged-block probes: the text-level oracle accepts everything",
			st.cases, st.steps, st.moves, st.reorgs, st.canonBelowLIB, st.purgedSeen)
	})
}

// retention values the generator never draws: negative (keep everything: uint64(keptBlocks) wraps, cutoff saturates at 0)
func TestW1_C18_NegativeRetentionKeepsEverything(t *testing.T) {
	w1c18Watch(t, 30*time.Second, func() {
		rec := &w1rec{}
		p := New(rec, WithExclusiveLIB(bstream.NewBlockRef("00000001a", 1)), WithKeptFinalBlocks(-1),
			WithFilters(bstream.StepNew|bstream.StepUndo|bstream.StepIrreversible))
		prev := "00000001a"
		for n := uint64(2); n <= 40; n++ {
			id := fmt.Sprintf("%08xa", n)
			lib := uint64(1)
			if n > 3 {
				lib = n - 2
			}
			if err := p.ProcessBlock(&pbbstream.Block{Id: id, Number: n, ParentId: prev, LibNum: lib, Timestamp: timestamppb.Now()}, nil); err != nil {
				t.Fatal(err)
			}
			prev = id
		}
		ids := p.AllIDs()
		sort.Strings(ids)
		if len(ids) != 39 || ids[0] != "00000002a" || p.LowestBlockNum() != 2 {
			t.Fatalf("expected all 39 blocks kept, got %d (lowest %d)", len(ids), p.LowestBlockNum())
		}
		t.Logf("WithKeptFinalBlocks(-1): LIB 38, all %d blocks 2..40 still held, LowestBlockNum=%d (negative = unlimited)", len(ids), p.LowestBlockNum())
	})
}

// W1-C18-1: a block that carries no timestamp (what protobuf decoding yields when the field is absent) or an invalid one
// streams through the Forkable like any other block (New, Irreversible delivered; every other lookup answers), but
// HeadInfo PANICS once such a block is the last one delivered as New (pbbstream.Block.Time panics on CheckValid).
// The harness of C01-C04/C18 always sets a timestamp (fkPB), so no generated case can see it.
func TestW1_C18_HeadInfoPanicsWithoutTimestamp(t *testing.T) {
	w1c18Watch(t, 30*time.Second, func() {
		for _, ts := range []*timestamppb.Timestamp{nil, {Seconds: 1 << 62}, {Seconds: 1, Nanos: -5}} {
			rec := &w1rec{}
			p := New(rec, WithExclusiveLIB(bstream.NewBlockRef("00000001a", 1)), WithKeptFinalBlocks(0),
				WithFilters(bstream.StepNew|bstream.StepUndo|bstream.StepIrreversible))
			feed := func(id, parent string, n, lib uint64, ts *timestamppb.Timestamp) {
				if err := p.ProcessBlock(&pbbstream.Block{Id: id, Number: n, ParentId: parent, LibNum: lib, Timestamp: ts}, nil); err != nil {
					t.Fatal(err)
				}
			}
			feed("00000002a", "00000001a", 2, 1, timestamppb.Now())
			if _, id, _, _, err := p.HeadInfo(); err != nil || id != "00000002a" {
				t.Fatalf("head info with timestamp: %v %s", err, id)
			}
			feed("00000003a", "00000002a", 3, 2, ts) // delivered as New, moves the LIB to 2
			if n := len(rec.evs); n != 3 || rec.evs[1] != (w1ev{bstream.StepNew, "00000003a"}) || rec.evs[2] != (w1ev{bstream.StepIrreversible, "00000002a"}) {
				t.Fatalf("events %v", rec.evs)
			}
			// every other lookup answers
			if p.HeadNum() != 3 || p.LowestBlockNum() != 2 || p.CanonicalBlockAt(3) == nil || p.GetBlockByHash("00000003a") == nil || len(p.AllBlocksAt(3)) != 1 {
				t.Fatal("other lookups expected to answer")
			}
			var recovered interface{}
			func() {
				defer func() { recovered = recover() }()
				p.HeadInfo()
			}()
			if recovered == nil {
				t.Fatalf("HeadInfo expected to panic for timestamp %v", ts)
			}
			t.Logf("timestamp %v: New 3a + Irreversible 2a delivered, HeadNum=3, LowestBlockNum=2, CanonicalBlockAt(3) ok; HeadInfo() panics: %v", ts, recovered)
			// the Forkable keeps working, and HeadInfo answers again as soon as a block with a timestamp is the head
			feed("00000004a", "00000003a", 4, 2, timestamppb.Now())
			if _, id, _, _, err := p.HeadInfo(); err != nil || id != "00000004a" {
				t.Fatalf("head info after recovery: %v %s", err, id)
			}
		}
	})
}
