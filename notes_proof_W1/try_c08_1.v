From BV Require Import Base.Prelude Model.Block Model.ForkDB Model.Forkable Model.ForkableLookups Model.Burst Model.Hub Model.HubSubs.
From BV Require Import Spec.Consumer Spec.C08_Spec.
Local Open Scope N_scope.

(* linear chain, ids 1000+k, block k declares LIB k-2; files 1..30, live 40: hole *)
Definition blk (n : N) : block := mkBlock (1000 + n) n (1000 + n - 1) (n - 2).
Definition files : list block := map (fun k => blk (N.of_nat k)) (seq 1 30).
Definition h1 : hub := let '(h, _, _) := hub_live 1 5 hub_init (PBlocks files) (blk 40) in h.
Compute (h_ready h1, head_info (h_f h1), lowest_block_num (h_f h1)).
Definition show (q : list qitem) := map (fun x => match x with QEv e => (estep e, bnum (eblk e)) | QBlk b => (SNew, bnum b) end) q.
Compute (option_map show (request_burst h1 (RNum 26))).
Compute (let '(h', evs) := hub_push 1 5 h1 (blk 31) in (h_ready h', map (fun e => (estep e, bnum (eblk e))) evs, head_info (h_f h'))).
Definition st := run 1 5 (start (mkSH h1 [])) [OSub (RNum 26); OPush (blk 31); OPush (blk 32); OPush (blk 33)].
Compute (match hview st 0 with Some (s, got) => Some (show (got ++ ms_queue s), ms_dropped s) | None => None end).
Compute (map (fun e => (estep e, bnum (eblk e))) (push_events 1 5 h1 [blk 31; blk 32; blk 33])).
