// package directory: blockstream -- run: go test -vet=off -count=1 -tags verif -run 'TestW1_C20_' ./blockstream/
//
//go:build verif

// W1 conclusion audit of C20.  seq_property (Check/C20_Check.v) compared the blocks received, the final
// queue and the final `closed` FIELD of a subscription, never what the consumer SEES on the channel
// (got / empty / closed).  These tests record what the real code shows to the consumer, i.e. the clause
// the new vis_check demands: the channel is seen closed exactly when the subscription overflowed and its
// queue has been drained, never otherwise (not after unsubscribe, not for a subscriber that keeps up),
// also through the public Server.Blocks.  They PASS and assert what they log.
package blockstream

import (
	"context"
	"fmt"
	"sync"
	"testing"
	"time"

	pbbstream "github.com/streamingfast/bstream/pb/sf/bstream/v1"
	"google.golang.org/grpc/metadata"
	"google.golang.org/protobuf/types/known/timestamppb"
)

func w1Blk(n uint64) *pbbstream.Block {
	return &pbbstream.Block{Id: fmt.Sprintf("%08d", n), Number: n, Timestamp: timestamppb.New(time.Unix(1600000000, 0))}
}

func w1Seen(v *VerifSub) string {
	blk, got, closed := v.TryRecv()
	switch {
	case got:
		return fmt.Sprintf("got %d", blk.Number)
	case closed:
		return "closed"
	default:
		return "empty"
	}
}

func TestW1_C20_ConsumerSeesCloseOnlyAfterOverflowAndDrain(t *testing.T) {
	s := NewUnmanagedServer(ServerOptionWithBuffer(3))
	slow := s.VerifAttach(2) // never reads during the pushes
	fast := s.VerifAttach(2) // reads after every push
	gone := s.VerifAttach(2) // unsubscribes after the first push
	var fastSeen, slowSeen, goneSeen []string
	for n := uint64(1); n <= 4; n++ {
		if err := s.PushBlock(w1Blk(n)); err != nil {
			t.Fatal(err)
		}
		fastSeen = append(fastSeen, w1Seen(fast), w1Seen(fast))
		if n == 1 {
			s.VerifUnsubscribe(gone)
		}
	}
	for i := 0; i < 4; i++ {
		slowSeen = append(slowSeen, w1Seen(slow))
		goneSeen = append(goneSeen, w1Seen(gone))
	}
	t.Logf("slow (cap 2, 4 pushes, reads afterwards): %v closedField=%v", slowSeen, slow.ClosedFlag())
	t.Logf("fast (reads twice after every push):      %v closedField=%v", fastSeen, fast.ClosedFlag())
	t.Logf("gone (unsubscribed after push 1):         %v closedField=%v", goneSeen, gone.ClosedFlag())
	if fmt.Sprint(slowSeen) != "[got 1 got 2 closed closed]" || !slow.ClosedFlag() {
		t.Fatalf("slow subscriber: %v", slowSeen)
	}
	if fmt.Sprint(fastSeen) != "[got 1 empty got 2 empty got 3 empty got 4 empty]" || fast.ClosedFlag() {
		t.Fatalf("fast subscriber: %v", fastSeen)
	}
	if fmt.Sprint(goneSeen) != "[got 1 empty empty empty]" || gone.ClosedFlag() {
		t.Fatalf("unsubscribed subscriber: %v", goneSeen)
	}
}

// the same through the public path: a Blocks call whose Send is slow overflows after 200 queued blocks; the
// stream then delivers exactly the 200 queued blocks, in order, and Blocks returns nil (a normal end of stream)
type w1Stream struct {
	ctx  context.Context
	mu   sync.Mutex
	got  []uint64
	gate chan struct{}
}

func (w *w1Stream) Send(b *pbbstream.Block) error {
	<-w.gate
	w.mu.Lock()
	w.got = append(w.got, b.Number)
	w.mu.Unlock()
	return nil
}
func (w *w1Stream) SetHeader(metadata.MD) error  { return nil }
func (w *w1Stream) SendHeader(metadata.MD) error { return nil }
func (w *w1Stream) SetTrailer(metadata.MD)       {}
func (w *w1Stream) Context() context.Context     { return w.ctx }
func (w *w1Stream) SendMsg(m interface{}) error  { return nil }
func (w *w1Stream) RecvMsg(m interface{}) error  { return nil }

func TestW1_C20_BlocksEndsNormallyAfterOverflow(t *testing.T) {
	s := NewUnmanagedServer(ServerOptionWithBuffer(3))
	st := &w1Stream{ctx: context.Background(), gate: make(chan struct{})}
	ret := make(chan error, 1)
	go func() { ret <- s.Blocks(&pbbstream.BlockRequest{Burst: 0, Requester: "w1"}, st) }()
	deadline := time.Now().Add(5 * time.Second)
	for s.VerifSubscriptionCount() != 1 {
		if time.Now().After(deadline) {
			t.Fatal("Blocks did not subscribe")
		}
		time.Sleep(time.Millisecond)
	}
	// the consumer takes block 1 out of the channel and is stuck in Send; 200 more fill the channel, #202 overflows
	worst := time.Duration(0)
	for n := uint64(1); n <= 300; n++ {
		t0 := time.Now()
		if err := s.PushBlock(w1Blk(n)); err != nil {
			t.Fatal(err)
		}
		if d := time.Since(t0); d > worst {
			worst = d
		}
		if n == 1 {
			for { // let Blocks take block 1 out of the channel (it then blocks in Send)
				s.lock.RLock()
				l := len(s.subscriptions[0].incomingBlock)
				s.lock.RUnlock()
				if l == 0 {
					break
				}
				if time.Now().After(deadline) {
					t.Fatal("Blocks did not receive block 1")
				}
				time.Sleep(time.Millisecond)
			}
		}
	}
	close(st.gate) // the consumer becomes fast again
	select {
	case err := <-ret:
		st.mu.Lock()
		n := len(st.got)
		first, last := st.got[0], st.got[n-1]
		contiguous := true
		for i := 1; i < n; i++ {
			contiguous = contiguous && st.got[i] == st.got[i-1]+1
		}
		st.mu.Unlock()
		t.Logf("300 pushes, worst PushBlock %v; Blocks returned err=%v after sending %d blocks %d..%d contiguous=%v; subscriptions left: %d",
			worst, err, n, first, last, contiguous, s.VerifSubscriptionCount())
		if err != nil || n != 201 || first != 1 || last != 201 || !contiguous || s.VerifSubscriptionCount() != 0 {
			t.Fatalf("unexpected outcome")
		}
	case <-time.After(5 * time.Second):
		t.Fatal("Blocks did not return after the overflow")
	}
}
