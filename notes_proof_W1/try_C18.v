From BV Require Import Base.Prelude Model.Block Model.ForkDB Model.Forkable Model.ForkableLookups.
From BV Require Import Spec.Consumer Spec.C18_Spec Spec.C18_Moving_Spec Check.Fk_Check Check.Fk_Props_Check.
Local Open Scope N_scope.
(* LIB 1 (id 1) exclusive, kept 2, chain 2..6 + fork 13 at height 3; block 5 declares LIB 3, block 6 declares LIB 4 *)
Definition cfg := mkCfg 1 false false 2 false (mkFilter true true true true) None.
Definition md := LExcl (mkR 1 1).
Definition h := [mkBlock 2 2 1 1; mkBlock 3 3 2 1; mkBlock 13 3 2 1; mkBlock 4 4 3 1; mkBlock 5 5 4 3; mkBlock 6 6 5 4; mkBlock 7 7 6 4].
Definition qh : list N := [1;2;3;4;5;6;7].
Definition qi : list N := [1;2;3;4;5;6;7;13].
Definition k0 := Eval vm_compute in model_case cfg md h qh qi.
Eval vm_compute in (c18_in_scope k0, fk_corresponds k0, c18_prop k0, c18_verdict k0).
Eval vm_compute in map (fun o => (map (fun e => (estep e, bid (eblk e))) (o_events o), o_look o)) (k_obs k0).
