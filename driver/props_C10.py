from props import reg

reg("C10",
    check_imports=["Model.FileSeq", "Check.C10_Check"],
    case_type="c10_case", verdicts="c10_verdicts",
    property_modules=["Properties.C10"],
    theorems=["c10_order", "c10_continuity", "c10_seq"],
    proof_files=["Base/Prelude.v", "Model/FileSeq.v", "Model/Pipeline.v", "Spec/C10_Spec.v",
                 "Proofs/FileSeqFacts.v", "Proofs/PipelineDefs.v", "Proofs/PipelineInv.v",
                 "Proofs/PipelineLive.v", "Proofs/C10_Proofs.v", "Properties/C10.v", "Check/C10_Check.v"],
    codes={1: "model-mismatch", 2: "property-checker-rejects-impl", 3: "mismatch+property",
           4: "run-did-not-return", 5: "handler-called-after-return-or-wrong-cursor"},
    n_quick=1000, n_thorough=12000, n_escalate=2500,
    rule="layouts: bundle size 1-20, 1-4 consecutive bundles, skipped numbers (0/15/40 %), empty bundles, legacy leading "
         "block below the bundle base, start anywhere in the first bundle (also on a missing number), stop block before the "
         "start / in any bundle / on a missing number / beyond the last bundle / absent, parent-link break at a random "
         "position (18 %); 0-8 preprocessor threads or no preprocessor; per-call delays of preprocess / OpenObject / "
         "FileExists / handler from the seed (profiles: none, random, first block of each file slowest, slow opens, slow "
         "handler, mixed heavy); outside Shutdown(nil) after the k-th delivery in 25 % of the runs; non-trivial = at least "
         "one delivery; distinct by input; 6 % of the layouts get one extra stored block whose number goes BACKWARDS (a "
         "malformed bundle, outside the quantifier: class suffix /backwards; exempt from the suffix clause c10_suffix_y1, "
         "compared by the correspondence and by c10_check)",
    trusted_base=["Go channels (FIFO, close, select), goroutine scheduling and shutter.Shutdown (treated as one atomic step) "
                  "are modelled in Model/Pipeline.v from their documented semantics, not verified; dstore / dbin / protobuf "
                  "decoding of undamaged bundles is exercised by every case, not modelled",
                  "the preprocessor is a function of the block (Section variable pre); the harness uses 3*id+num",
                  "harness watchdog: a source that is neither terminating nor calling the handler for 120 ms is taken to be "
                  "tailing and shut down; the model says when that is legitimate (expected outcome OTail)"],
    level_text="Unbounded theorems c10_order (safety for every schedule incl. an outside Shutdown; every schedule can be "
               "continued to quiescence (ranking function); at quiescence of an undisturbed run the deliveries are exactly the "
               "reference sequence and the run ended as the reference says), c10_continuity, c10_seq (Properties/C10.v, closed "
               "under the global context) about the interleaving model Model/Pipeline.v of filesource.go (launch reader, per "
               "file a reader and a drain goroutine, per block a preprocess goroutine, run(); fileStream cap 1, per-file blocks "
               "cap 0, preprocessed cap threadCount) and the sequential reference Model/FileSeq.v. Every run compares the real "
               "FileSource over in-memory bundles (written by the real dbin writer) with the reference under seed-derived "
               "delays and outside Shutdowns, and evaluates the property's boolean form on the observation.",
    assumptions=["model follows filesource.go with repo_patches/C11_fix_*.diff applied (fixed C)",
                 "bundle size > 0, thread count >= 0, no block index, or (12% of the cases) a provider whose index covers nothing, which the source drops on its first lookup and which must change nothing (finding C10-continuity-after-index-dropped); indexed delivery is C15; no gator",
                 "weak fairness for completeness: the schedule is continued by fair rounds"],
    )
