"""Per-property extra stages of ./check (called from run.py as stage_<id>(cfg, args, binp, workdir, known, known_hits)).
Each returns (violations, evidence) where violations = [(replay_path, suffix)] and evidence is merged into
coverage.  These stages SUPPORT the correspondence (they exercise what the Gallina models cannot exhibit: the Go
memory model); they never stand in for a theorem."""
import json
import os
import subprocess

import core


def _write(pid, name, obj):
    d = os.path.join(core.VERIF, "out", "replays", pid)
    os.makedirs(d, exist_ok=True)
    p = os.path.join(d, name)
    with open(p, "w") as f:
        json.dump(obj, f, indent=1)
    return p


def _race_build():
    """the correspondence harness built with the race detector (separate binary)"""
    binp = os.path.join(core.BUILD, "harness_race")
    try:
        rc, out = core.sh(["go", "build", "-race", "-tags", "verif", "-o", binp, "."], cwd=core.HARNESS, env=core.GOENV, timeout=1800)
    except subprocess.TimeoutExpired:
        return None, "go build -race timed out"
    if rc != 0:
        return None, out
    return binp, out


def _race_run(pid, a, workdir, n, seeds):
    """runs the race-built harness on generated cases of pid; returns (reports, cases_run, error)"""
    binp, out = _race_build()
    if binp is None:
        return None, 0, "race build failed:\n" + out[-2000:]
    reports, total = [], 0
    for sd in seeds:
        outp = os.path.join(workdir, "cases_race_%s_%d.jsonl" % (pid, sd))
        cmd = [binp, pid, "-seed", str(sd), "-n", str(n), "-tier", "thorough", "-out", outp]
        env = dict(core.GOENV, GORACE="halt_on_error=0 exitcode=0")
        try:
            rc, o = core.sh(cmd, cwd=workdir, env=env, timeout=1800)
        except subprocess.TimeoutExpired:
            return None, total, "race run timed out"
        if rc != 0:
            return None, total, "race-built harness exit %d:\n%s" % (rc, o[-3000:])
        try:
            total += sum(1 for _ in open(outp))
            os.remove(outp)
        except OSError:
            pass
        if "DATA RACE" in o:
            i = o.index("DATA RACE")
            reports.append({"seed": sd, "report": o[max(0, i - 200):i + 6000]})
    return reports, total, None


def _race_stage(pid, a, workdir, n, what):
    if a.tier != "thorough":
        return [], {}
    reports, total, err = _race_run(pid, a, workdir, n, [a.seed, a.seed + 101])
    if err:
        p = _write(pid, "%s_seed%d_race_unchecked.json" % (a.tier, a.seed),
                   {"property": pid, "no_longer_checks": "race-detector run of the correspondence harness", "detail": err})
        return [(p, " no-failing-input-found")], {"race_detector": "not run: " + err[:200]}
    ev = {"race_detector": "%s: harness built with -race, %d cases, %d report(s)" % (what, total, len(reports))}
    if reports:
        p = _write(pid, "%s_seed%d_data_race.json" % (a.tier, a.seed),
                   {"property": pid, "what": "the Go race detector reported a data race while the real code ran the generated cases",
                    "replay": "build harness with -race and run: harness_race %s -seed %d -n %d -tier thorough" % (pid, reports[0]["seed"], n),
                    "reports": reports[:3]})
        return [(p, "")], ev
    return [], ev


def stage_C08(cfg, a, binp, workdir, known, known_hits):
    return _race_stage("C08", a, workdir, 150, "concurrent subscriptions vs block processing")


def stage_C12(cfg, a, binp, workdir, known, known_hits):
    return _race_stage("C12", a, workdir, 200, "shutdown at schedule points")


def stage_C10(cfg, a, binp, workdir, known, known_hits):
    return _race_stage("C10", a, workdir, 200, "file source pipeline")


def stage_C07(cfg, a, binp, workdir, known, known_hits):
    return _race_stage("C07", a, workdir, 80, "file-to-live handoff against a growing hub")


def stage_C09(cfg, a, binp, workdir, known, known_hits):
    return _race_stage("C09", a, workdir, 120, "hub bootstrap and requests")


def stage_C11(cfg, a, binp, workdir, known, known_hits):
    return _race_stage("C11", a, workdir, 200, "fault injection on file/joining/stream sources")


def stage_C13(cfg, a, binp, workdir, known, known_hits):
    return _race_stage("C13", a, workdir, 80, "stream bounds against a growing hub")


def stage_C20(cfg, a, binp, workdir, known, known_hits):
    """single-producer protocol of the block server under the race detector (both tiers: it is cheap)"""
    try:
        rc, o = core.sh(["go", "test", "-race", "-tags", "verif", "-vet=off", "-count=1", "-run", "TestVerifFanOutRace", "./blockstream/"],
                        cwd=core.REPO, env=core.GOENV, timeout=900)
    except subprocess.TimeoutExpired:
        rc, o = 1, "go test -race timed out"
    ev = {"race_detector": "go test -race TestVerifFanOutRace ./blockstream/: %s" % ("ok" if rc == 0 else "FAILED")}
    if rc != 0:
        found = "DATA RACE" in o
        p = _write("C20", "%s_seed%d_race.json" % (a.tier, a.seed),
                   {"property": "C20", "what": "go test -race -tags verif -run TestVerifFanOutRace ./blockstream/ failed" + (" with a data race" if found else ""),
                    "replay": "cd /repo && go test -race -tags verif -count=1 -run TestVerifFanOutRace ./blockstream/", "output": o[-6000:]})
        return [(p, "" if found else " no-failing-input-found")], ev
    return [], ev


def coqchk_stage(cfg, a):
    """coqchk -silent -o on the property modules of cfg (thorough tier)"""
    import re
    pid = cfg["id"]
    mods = ["BV." + m for m in cfg["property_modules"]]
    try:
        rc, o = core.sh(["coqchk", "-silent", "-o", "-Q", core.COQ, "BV"] + mods, cwd=core.COQ, timeout=7200)
    except subprocess.TimeoutExpired:
        rc, o = 1, "coqchk timed out"
    m = re.search(r"\* Axioms:\s*(.*?)\n\s*\n", o, re.S)
    axioms = re.sub(r"\s+", " ", m.group(1)).strip() if m else "?"
    ev = {"coqchk": "coqchk -silent -o %s: exit %d, axioms: %s" % (" ".join(mods), rc, axioms)}
    if rc != 0 or axioms != "<none>":
        p = _write(pid, "%s_seed%d_coqchk.json" % (a.tier, a.seed),
                   {"property": pid, "no_longer_checks": "coqchk on the property modules (exit %d, axioms: %s)" % (rc, axioms), "output": o[-4000:]})
        return [(p, " no-failing-input-found")], ev
    return [], ev
