from props import reg

BR_FILES = ["Base/Prelude.v", "Model/Block.v", "Model/ForkDB.v", "Model/Forkable.v", "Model/ForkableLookups.v", "Model/Burst.v",
            "Spec/Consumer.v", "Spec/Universe.v", "Check/Fk_Check.v", "Check/Burst_Check.v"]

reg("C05",
    check_imports=["Model.Block", "Model.ForkDB", "Model.Forkable", "Model.Burst", "Check.Fk_Check", "Check.Burst_Check"],
    case_type="br_case", verdicts="c05_verdicts", scope="c05_in_scope",
    property_modules=[], theorems=[], proof_files=list(BR_FILES),
    n_quick=200, n_thorough=10000, n_escalate=2000,
    rule="generated histories (forests of 4-23 blocks in hub configuration: hold-until-LIB discovery, kept 0-8, first streamable 0-2; all arrival "
         "orders of the forkable generator) fed to a real Forkable; 6-13 requests per history: resume from the cursor of a random "
         "delivered New/Undo event (crash point k) at a random later instant m (biased to late reconnects), final cursors, "
         "through-cursor from start blocks between cursor LIB-1 and cursor block+1, a few from-num / with-forks snapshots; "
         "non-trivial = at least one request served; distinct by input",
    level_text="Resume bursts: the model of blocksFromCursor/blocksThroughCursor (Model/Burst.v) is compared with the real "
               "CallWithBlocksFromCursor/ThroughCursor answers, and the property's boolean form (consumer state at the cursor + burst = "
               "state of a consumer that never disconnected; final-only variant; serving obligation) is evaluated on the implementation's answers.",
    trusted_base=["bursts are requested through forkable.Forkable.CallWithBlocks* (what ForkableHub.SourceFrom* call under the lock); the hub's "
                  "subscription plumbing is covered by C08/C09", "serving obligation uses the implementation's own lookups (CanonicalBlockAt, GetBlockByHash) as oracle for 'retained'"],
    assumptions=["wf_b universe; lib_ok LIB declarations; cursors minted by the same history"],
    codes={1: "model-mismatch", 2: "property-checker-rejects-impl", 3: "mismatch+property", 4: "impl-panic",
           6: "through-cursor-refused-forked-below-hub-lib"})
