#!/bin/bash
# usage: neutraltest.sh <src dir with patch.diff+meta.json> <id> <check ids...>
# A behaviour-preserving refactoring is applied in a scratch worktree of /repo; the existing suite and the given checks
# (from a scratch copy of /verif, VERIF_REPO) must stay quiet. Result saved under /verif/neutral/<id>/.
SRC=$1; ID=$2; shift 2
export GOFLAGS=-mod=mod GOPROXY=off GOSUMDB=off GOTOOLCHAIN=local
T=/tmp/nv_$ID; rm -rf $T; mkdir -p $T
git -C /repo worktree add -q --detach $T/repo || exit 2
rsync -a --exclude .git --exclude out --exclude '.build/run' /verif/ $T/verif/
cd $T/repo
git apply $SRC/patch.diff || { echo "PATCH-FAILS"; cd /; git -C /repo worktree remove --force $T/repo; rm -rf $T; exit 2; }
suite=$(go test -vet=off -count=1 ./... 2>&1 | grep -v '^{"' | grep -c '^FAIL\|^--- FAIL\|^panic')
echo "suite_failures=$suite"
alarms=""
cd $T/verif
for c in "$@"; do
  out=$(VERIF_REPO=$T/repo ./check $c 2>&1); rc=$?
  v=$(echo "$out" | grep VIOLATION | head -1 | cut -c1-200)
  if [ -n "$v" ] || [ $rc -ne 0 ]; then alarms="$alarms $c"; echo "  $c: ALARM rc=$rc $v"; mkdir -p /verif/out/neutral_alarms/$ID; cp -r $T/verif/out/replays/$c /verif/out/neutral_alarms/$ID/ 2>/dev/null; else echo "  $c: quiet"; fi
done
cd /
git -C /repo worktree remove --force $T/repo; rm -rf $T
mkdir -p /verif/neutral/$ID
cp $SRC/patch.diff /verif/neutral/$ID/
python3 - "$SRC" "$ID" "$suite" "$alarms" "$*" <<'PY'
import json,sys
src,id_,suite,alarms,checks=sys.argv[1:6]
m=json.load(open(src+'/meta.json'))
m['existing_suite_failures']=int(suite); m['checks_run']=checks.split(); m['alarms']=alarms.split()
json.dump(m,open('/verif/neutral/%s/meta.json'%id_,'w'),indent=1)
print('saved /verif/neutral/%s alarms=%s'%(id_,alarms.split()))
PY
