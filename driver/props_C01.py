from props import reg

FK_MODEL = ["Base/Prelude.v", "Model/Block.v", "Model/ForkDB.v", "Model/Forkable.v", "Model/ForkableLookups.v",
            "Spec/Consumer.v", "Spec/Universe.v", "Spec/ForkChoice.v", "Check/Fk_Check.v", "Check/Fk_Props_Check.v"]

FK_RULE = ("generated block forests of 3-25 (thorough: up to 48) blocks hanging under the LIB (chains, forks at any height, several "
           "competing tips, skipped numbers, orphans, roots with empty parent id), LIB declarations = ancestor heights with per-branch lag, "
           "jumps and 8% 'wild' declarations (outside lib_ok: correspondence only); arrival orders: in order, local swaps, by height, "
           "parent-after-child, full shuffle, 60% with duplicates, LIB block itself fed; modes exclusive/inclusive LIB, hold-until-LIB "
           "discovery, no-LIB pass-through (correspondence only); kept 0-5; all-blocks-trigger 30%; step filters; first streamable 0-2; "
           "handler failing at a random call 18%; self-parent blocks 3%. non-trivial = at least one event delivered; distinct by input")

FK_TB = ["forkable.Forkable / ForkDB modelled by hand in Model/ForkDB.v, Model/Forkable.v (EnsureBlockFlows, "
         "unlinkable-block counters, logging not modelled; the lastLongestChain cache is modelled in Model/ForkableCache.v: fk_step_c, "
         "and BOTH step functions are compared with the implementation on every case; Properties/C01_Cache.v proves a cache hit "
         "equal to the recomputation); every run compares model and implementation event by event "
         "(step, block, cursor block/head/LIB, junction, StepIndex/StepCount, result, HeadInfo)",
         "W3: observed besides the Coq event fields and evaluated by the property bit: cursor step (projected onto the cursor block), "
         "identity of the delivered block / wrapped object / StepBlocks against what was fed (proto.Equal, pointer), errors.Is of the "
         "returned error; C03: the real code is run again with other kept values and without re-fed / below-LIB blocks",
         "Go map iteration order is abstracted (sorted on both sides)"]

TEXT = {
 "C01": "Undo/New discipline, re-feed and handler-error clauses. The boolean monitor of the property (Spec/Consumer.v: c01_discipline_b, "
        "c01_refeed_b, c01_error_b) is evaluated in Coq on every implementation trace; the Gallina model of ProcessBlock is compared "
        "with the implementation on the same histories; theorems about the model in Properties/C01.v.",
 "C02": "Finality chain / oldest-pending / never-revoked / stalled clauses as the monitor c02_b (Spec/Consumer.v) on implementation traces "
        "of lib_ok histories, plus model correspondence.",
 "C03": "The reference fork choice Spec/ForkChoice.v (received set, LIB, tip) is run alongside every implementation trace: consumer tip, "
        "HeadInfo and last final block must equal the reference after every block; a block the reference ignores delivers nothing; "
        "the real code's events do not change with the kept value nor when re-fed / below-LIB blocks are removed; plus model correspondence.",
 "C04": "Cursor fields of every event (block, head = incoming block, LIB = last announced final block, LIB monotone and <= block height, "
        "junction = block the stack rests on after the undo batch) as the monitor c04_b on implementation traces, cursor step = event step, "
        "LIB height monotone for every filter of the scope (cursor_lib_mono_b); plus model correspondence.",
 "C18": "Buffer bound after LIB moves, retention by hash and by number, canonical lookup on the consumer chain, head info, lowest "
        "servable number, no lookup crash: monitor c18_follow on the implementation's lookup results after every block; the lookup API "
        "is modelled (Model/ForkableLookups.v) and compared as well.",
}

# W3: the case of C01-C04 is fk_xcase = the family's case (projection x_k: the scope counters speak about it) + what the harness
# observes besides the Coq event fields (per-event identity flags, C03's independence bits); C18 keeps fk_case
for pid, v, sc in [("C01", "c01_xverdicts", "c01_in_scope"), ("C02", "c02_xverdicts", "c02_in_scope"),
                   ("C03", "c03_xverdicts", "c03_in_scope"), ("C04", "c04_xverdicts", "c04_in_scope"),
                   ("C18", "c18_verdicts", "c18_in_scope")]:
    reg(pid,
        check_imports=["Model.Block", "Model.ForkDB", "Model.Forkable", "Check.Fk_Check", "Check.Fk_Props_Check", "Check.Fk_Moving_Scope"],
        case_type="fk_case" if pid == "C18" else "fk_xcase", case_proj=None if pid == "C18" else "x_k", verdicts=v, scope=sc,
        property_modules=[], theorems=[],
        proof_files=list(FK_MODEL),
        n_quick=500 if pid != "C18" else 250, n_thorough=30000 if pid != "C18" else 8000, n_escalate=4000,
        also=([{"harness": "C05", "check_imports": ["Model.Block", "Model.Forkable", "Model.Burst", "Check.Fk_Check", "Check.Burst_Check", "Check.C06_Check", "Check.C04_More"],
                "case_type": "br_case", "verdicts": "c04_burst_verdicts", "scope": None, "n_quick": 150, "n_thorough": 5000},
               {"harness": "C06", "check_imports": ["Model.Block", "Model.Forkable", "Model.Burst", "Model.CursorResolver", "Check.Fk_Check", "Check.Burst_Check", "Check.C06_Check", "Check.C04_More"],
                "case_type": "c06_case", "verdicts": "c04_file_verdicts_w3", "scope": None, "n_quick": 200, "n_thorough": 5000}] if pid == "C04" else []),
        rule=FK_RULE, level_text=TEXT[pid], trusted_base=FK_TB,
        assumptions=["well-formed universe (wf_b): ids non-empty and unique, heights strictly increase from parent to child",
                     "C02-C04, C18: LIB declarations in the class lib_ok (Spec/Universe.v); other histories are compared with the model only"])
