from props import reg

FK_FILES = ["Base/Prelude.v", "Model/Block.v", "Model/ForkDB.v", "Model/Forkable.v", "Model/ForkableLookups.v", "Check/Fk_Check.v"]

for pid in ["C01", "C18"]:
    reg(pid,
        check_imports=["Model.Block", "Model.ForkDB", "Model.Forkable", "Check.Fk_Check"],
        case_type="fk_case", verdicts="fk_corr_verdicts",
        property_modules=[], theorems=[],
        proof_files=FK_FILES,
        n_quick=300, n_thorough=20000, n_escalate=3000,
        rule="TEMP", level_text="TEMP")
