import json,sys,subprocess
d=json.load(open(sys.argv[1]))
open('/tmp/dbg.v','w').write('''From BV Require Import Base.Prelude Model.Block Model.Forkable Model.Burst Model.Hub Model.CursorResolver Model.Joining Check.Burst_Check Check.C07_Check.
Local Open Scope N_scope.
Definition k := %s.
Eval vm_compute in (c07_corresponds k, c07_prop k, c13_prop k).
Eval vm_compute in match c07_model k with Some (evs, e) => (e, map (fun e => (estep e, bid (eblk e), bnum (eblk e))) evs) | None => (99, []) end.
''' % d['coq'])
print(subprocess.run(['coqc','-Q','/verif/coq','BV','/tmp/dbg.v'],capture_output=True,text=True).stdout[-2500:])
