"""C15 — block indexes find what was indexed; indexed file streaming loses no match."""
from props import reg

reg("C15",
    check_imports=["Model.BlockIndex", "Check.C15_Check"],
    case_type="c15_case", verdicts="c15_verdicts",
    property_modules=["Properties.C15"],
    theorems=[],
    proof_files=["Base/Prelude.v", "Model/BlockIndex.v", "Check/C15_Check.v"],
    rule="",
    n_quick=500, n_thorough=20000, n_escalate=4000,
    level_text="",
    )
