"""C15 — block indexes find what was indexed; indexed file streaming loses no match."""
from props import reg

reg("C15",
    check_imports=["Model.BlockIndex", "Check.C15_Check"],
    case_type="c15_case", verdicts="c15_verdicts",
    property_modules=["Properties.C15"],
    theorems=["c15_unfixed_upper_bound_refuted", "c15_indexer", "c15_provider", "c15_indexed_provider", "c15_generic_provider_ok",
              "c15_stream_complete", "c15_stream_tight", "c15_fallback", "c15_passes_filter_is_per_bundle"],
    proof_files=["Base/Prelude.v", "Model/BlockIndex.v", "Spec/C15_Spec.v",
                 "Proofs/PreludeFacts.v", "Proofs/C15_Sets.v", "Proofs/C15_Arith.v", "Proofs/C15_Provider.v",
                 "Proofs/C15_Indexer.v", "Proofs/C15_Lookup.v", "Proofs/C15_Stream.v", "Proofs/C15_Proofs.v",
                 "Properties/C15.v", "Check/C15_Check.v", "Proofs/C15_CheckSound.v"],
    rule="generated chains (8-47 blocks, first block 0/1/aligned/first-streamable, skipped numbers, occasionally a whole "
         "bundle missing) with 0-3 keys per block from a vocabulary with shared prefixes/suffixes and the empty key, or a key "
         "on every k-th block; bundle sizes 1,2,3,4,5,10; one or two indexers per store with index sizes that are multiples "
         "of the bundle size (x1,2,3,5,10), not multiples, or smaller, with or without a defined start block, fed the whole "
         "chain or a prefix (index ends early); possible-size lists permuted, with sizes missing, extra or 0; key filters of "
         "exact keys and prefix/suffix pairs. Provider cases: sequences of BlocksInRange calls (consecutive bundles, random "
         "order with repeats for the cache, other bundle sizes, unaligned bases). Stream cases: real FileSource over the "
         "chain cut into merged bundle files, every start, stop inside / at / beyond the chain end or absent, 0-3 "
         "whitelisted numbers (existing or skipped), progress timer huge or zero. Malformed stream (20%): index size 0, "
         "unaligned or too high defined start block, blocks below the first streamable block, feed out of order, bundle "
         "size 0 requests, start after stop. Corpus: the two design-time failing inputs and five streaming layouts. "
         "non-trivial = a non-empty provider answer / a run that delivers something and filters something out; distinct by input",
    trusted_base=["protobuf + roaring64 serialisation of index files enters c15_indexer / c15_indexed_provider as the Section "
                  "codec (enc, dec) with hypothesis codec_ok (round trip up to map order); exercised on every case: the files "
                  "written by the real indexer are decoded with the package's own reader and compared with the model's files",
                  "roaring64 Add / Or / ToArray are modelled as sorted-set insert / union / the list (Model/BlockIndex.v) and "
                  "compared with the implementation on every provider answer",
                  "dstore.MockStore (overwrite on) stands for the store: names are (low, size), a later write replaces an earlier one",
                  "FileSource: sequential model of launchReader / lookupBlockIndex / tweakRangeIndexResults / streamReader "
                  "filtering / PassesFilter; goroutines, channels, shutdown, gator, preprocessing and I/O errors are not modelled; "
                  "the progress timer is an oracle (always / never in the harness, arbitrary in the theorems); the harness detects "
                  "a waiting reader by the third FileExists miss on one name and lets announced files drain before it shuts down",
                  "hook: add-only verif_export.go files (build tag verif) set timeBetweenProgressBlocks and read index files back"],
    level_text="Unbounded theorems (Properties/C15.v, all closed under the global context): c15_indexer (ascending feed: one "
               "file per aligned range holding exactly the accepted (key, block) pairs of its range, every range left behind "
               "has its file), c15_provider (every store of exact files, key filter, list of possible sizes, request and "
               "cache state: BlocksInRange returns exactly the fed blocks with a matching key in [base, base+size), "
               "ascending; errors and the panic characterised), c15_indexed_provider (composition), "
               "c15_generic_provider_ok (the generic provider meets the provider hypothesis of the streaming theorems), "
               "c15_stream_complete / c15_stream_tight / c15_fallback (sequential model of the file source over any "
               "provider meeting that hypothesis, any progress oracle, whitelist, start, stop, bundle size, fuel) and "
               "c15_passes_filter_is_per_bundle. The model follows the code with two fix patches applied "
               "(BlocksInRange upper bound; index file must cover the requested range). On every run the model is "
               "compared with the real indexer -> store -> provider -> FileSource pipeline and the boolean form of the "
               "property is evaluated on the implementation's own outputs.",
    assumptions=["block numbers and sizes stay below 2^64 (no uint64 wrap-around)",
                 "the indexer is fed in ascending block order, nothing below the first streamable block, a defined start "
                 "block not above the first block fed (c15_indexer, c15_indexed_provider)",
                 "the index is built from the chain the bundle files hold, so matches are numbers of existing blocks "
                 "(completeness is claimed for existing blocks; c15_passes_filter_is_per_bundle states what happens otherwise)",
                 "c15_stream_tight: start <= stop or no stop block",
                 "streaming theorems speak about runs that end on the stop block or waiting for a bundle file (model fuel not exhausted)"],
    codes={1: "model-mismatch", 2: "property-checker-rejects-impl", 3: "mismatch+property", 4: "impl-panic-or-hang"},
    n_quick=3000, n_thorough=30000, n_escalate=6000,
    )
