import json,sys
d=json.load(open(sys.argv[1])); o=d['obs']; i=d['input']
S={1:'new',2:'undo',16:'irr',32:'stalled',17:'newirr'}
def b(x): return "%d@%d<-%d L%d"%(x['id'],x['num'],x['parent'],x['lib'])
print(d.get('class'), {k:i[k] for k in ('first','kept','bundle','a0','hub_start','merged','mode','start','stop','filter','custom','pauses','undo','forked')})
print('root',b(i['root']))
print('arrival',[ "%d:%s"%(k,b(x)) for k,x in enumerate(i['arrival'])])
print('canon',[x['id'] for x in o['canon']])
print('hub lowest',o['hub_lowest'],'head',o['hub_head'],'lib',o['hub_lib'],'cursor',o.get('cursor'))
print('err',o['err'],o.get('err_text'))
for k,e in enumerate(o['events']): print('   ',k,S[e['step']],b(e['blk']),'cur.head',e['head']['id'],'lib',e['lib']['id'],e['lib']['num'],'junc',e.get('junc'),'pushed',o['pushed'][k] if k<len(o['pushed']) else None)
