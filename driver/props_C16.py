"""C16 — block files (dbin framing + protobuf blocks) and one-block file names."""
from props import reg

reg("C16",
    check_imports=["Base.Decimal", "Model.CursorCodec", "Model.Dbin", "Model.OneBlockName", "Check.C16_Check"],
    case_type="c16_case", verdicts="c16_verdicts",
    property_modules=["Properties.C16"],
    theorems=["c16_roundtrip", "c16_truncation", "c16_prefix_intact", "c16_corruption_prefix_intact",
              "c16_header_corruption_partial", "c16_body_corruption_refuted", "c16_no_altered_block_refuted",
              "c16_header_length_corruption_refuted", "c16_truncation_refuted_before_fix",
              "c16_name_roundtrip", "c16_name_parse_sound", "c16_fetch", "c16_written_is_seq_ok", "c16_unfixed_writer_accepts_empty"],
    partial=[{"theorem": "c16_header_corruption_partial", "full": "C16_header_corruption_full (Spec/C16_Spec.v)",
              "gap": "header bytes that locate the start of the message stream (version byte set to 0, the two "
                     "content-type-length bytes): the format has no synchronisation marker, the reader parses frames from "
                     "the wrong offset; refuted for crafted payloads by c16_header_length_corruption_refuted "
                     "(known finding C16-stream-start-corruption-alters)"},
             {"theorem": "c16_fetch", "full": "C16_fetch + 'a stored block is found'",
              "gap": "soundness (that block or not-found) is proved for FetchBlockFromOneBlockStore whatever the store's "
                     "listing order; that a stored block IS found relies on dstore listing names in lexicographic order "
                     "and is checked on the implementation only; FetchBlockFromMergedBlocksStore (FileSource) is checked "
                     "on the implementation only"}],
    proof_files=["Base/Prelude.v", "Base/Decimal.v", "Model/CursorCodec.v", "Model/Dbin.v", "Model/OneBlockName.v",
                 "Spec/C16_Spec.v", "Proofs/PreludeFacts.v", "Proofs/DecimalFacts.v", "Proofs/CursorCodecFacts.v",
                 "Proofs/DbinFacts.v", "Proofs/C16_Proofs.v", "Proofs/OneBlockNameFacts.v", "Proofs/C16_CheckFacts.v", "Properties/C16.v",
                 "Check/C16_Check.v"],
    rule="generated block sequences (1-5 blocks; ids of 0..64 bytes incl. non-ASCII; boundary/random 64-bit heights, LIB and "
         "parent numbers; nil/zero/negative/ordinary timestamps; payload type URLs of 1..271 bytes; payloads empty, short, "
         "all-zero, up to 300 bytes; legacy blocks without payload of every protocol kind; unwritable sequences: empty, first "
         "block legacy, empty type URL, empty encoding, invalid UTF-8) written with the real writer and read back as blocks, "
         "as block metas and at the framing level; EVERY truncation point of generated files; single-byte corruptions: all "
         "255 values at sampled body offsets and at the last byte, sampled masks at all body offsets, all values at the 4 "
         "bytes of a sampled length prefix, all values at every magic / version / content-type-length byte, all values at a "
         "sampled content-type offset and sampled masks at all of them (length prefixes above 64 MiB are not handed to dbin); "
         "file names of generated blocks (ids with dashes before/inside the last 16 bytes, non-ASCII, empty; heights up to "
         "2^64-1) and mutated / random / truncated names; one-block stores with several blocks per height, neighbouring "
         "heights, repeated ids, a damaged file, fetched by (num, id), (num-1, id), (num+1, id), longer / truncated / foreign "
         "ids; merged bundles fetched by every stored number, the numbers next to it, 99, 100 and a number of the next "
         "bundle (not-found exactly when no block of the bundle has the number); non-trivial = at least one block / fault / byte; distinct by file bytes + "
         "fault selection, by name, by store content",
    trusted_base=["protobuf (google.golang.org/protobuf: proto.Marshal / Unmarshal of pbbstream.Block and BlockMeta, anypb, "
                  "timestamppb) enters the theorems as Section variables penc/pdec/pdec_meta with the hypotheses codec_ok: "
                  "pdec (penc b) = Some b and pdec_meta (penc b) = Some (meta_of b); both are exercised on every generated "
                  "block (the model's reader is run with the Marshal results observed in the same case)",
                  "the dependency github.com/streamingfast/dbin (header v0/v1, 4-byte big-endian length prefix, readBytes = "
                  "io.ReadFull into a zero-filled buffer) is MODELLED from its source (Model/Dbin.v) and compared with the "
                  "real code at the framing level on every fault through the verif-tagged hook VerifReadRawMessage",
                  "io.Reader semantics: the file is a byte sequence that is delivered and then ends (bytes.Reader); readers "
                  "that return other errors are outside the model",
                  "dstore.Store: Walk presents file names in some order (the soundness theorem holds for any order); the "
                  "harness uses dstore.MockStore (sorted names); OpenObject returns the stored bytes",
                  "Go fmt %010d / %d, strconv.ParseUint, strings.Split / Join / HasSuffix are modelled (Base/Decimal.v, "
                  "Model/CursorCodec.v, Model/OneBlockName.v) and compared with the implementation on every name case",
                  "the harness compares a block delivered from a damaged file with the clean read using proto.Equal and reports "
                  "'identical to clean block i' or 'altered'; the clean read itself is compared field by field in Coq",
                  "FetchBlockFromMergedBlocksStore runs through FileSource (goroutines, preprocessing): not modelled, only its "
                  "results are checked (a block of the requested height, found iff the bundle contains one)"],
    level_text="Unbounded theorems (Properties/C16.v, all closed under the global context) about a Gallina model of dbin's "
               "reader/writer and of bstream's DBinBlockWriter.Write, readMessage (after fix), Read, ReadAsBlockMeta, "
               "supportLegacy(Meta), BlockFileNameWithSuffix, TruncateBlockID, ParseFilename, listOneBlocks and "
               "FetchBlockFromOneBlockStore: c16_roundtrip (all block sequences incl. legacy blocks), c16_truncation (EVERY "
               "prefix of the file: a prefix of the blocks, EOF exactly on a block boundary, else an error), "
               "c16_prefix_intact / c16_corruption_prefix_intact (any damage at or after offset p leaves every block that ends "
               "before p unchanged and the read terminates), c16_header_corruption_partial, c16_name_roundtrip, "
               "c16_name_parse_sound, c16_fetch; the clauses that are false for this format are proved false "
               "(c16_body_corruption_refuted, c16_no_altered_block_refuted, c16_header_length_corruption_refuted; "
               "c16_truncation_refuted_before_fix for the reader as found). The model is compared with the real code on every "
               "run: writer bytes, clean reads, every truncation point and sampled exhaustive single-byte corruptions at the "
               "framing level, the legacy upgrade field by field, names, fetches; the boolean form of the property is "
               "evaluated on the implementation's own outputs (panic / hang = violation).",
    assumptions=["block sequences are non-empty, the first block has a payload type URL of 1..65535 bytes, every block marshals "
                 "to a non-empty message shorter than 4 GiB (seq_ok); the all-default block (empty encoding) is outside the "
                 "quantifier: dbin reports a zero-length message as an error",
                 "legacy blocks are read back after bstream's legacy upgrade (payload = type URL by protocol kind + "
                 "payload_buffer, parent_num = number-1); NEAR / Solana legacy blocks are refused by design: prefix + error",
                 "one-block names: the truncated id, the truncated parent id and the suffix contain no '-' (name_ok); no bound "
                 "on the number of digits",
                 "fetch: stored names satisfy name_ok; NormalizeBlockID is the identity (its default)"],
    codes={1: "model-mismatch", 2: "property-checker-rejects-impl", 3: "mismatch+property", 4: "impl-panic-or-hang",
           5: "damaged-before-fault-offset-or-non-prefix-on-truncation",
           6: "corrupt-length-prefix-allocates-the-claimed-size"},
    n_quick=240, n_thorough=6000, n_escalate=1500,
    )
