from props import reg

J_FILES = ["Base/Prelude.v", "Model/Block.v", "Model/ForkDB.v", "Model/Forkable.v", "Model/ForkableLookups.v", "Model/Burst.v", "Model/Hub.v",
           "Model/CursorResolver.v", "Model/Joining.v", "Spec/Consumer.v", "Check/Burst_Check.v", "Check/C07_Check.v"]
RULE = ("consensus-consistent histories: one canonical chain of 25-55 blocks (8% skipped numbers) with short-lived forks of 1-2 blocks arriving before the "
        "canonical continuation; a reference Forkable mints the cursors; canonical blocks below a bundle boundary are written into real merged bundles "
        "(size 5/10), forked blocks into one-block files; a real ForkableHub is bootstrapped from one-block passes (retention 0-40, window start 6-19 "
        "blocks below its head); real stream.New(...).Run from a block number (positive, negative, below first streamable), a cursor (New/Undo/forked/final) "
        "or a target cursor, default / final-only / custom filter, stop block anywhere between start and the end of the history; the hub grows by 1-4 blocks "
        "when the user handler has received chosen numbers of events (0-3 pauses) and one block at a time once the stream is live and idle; "
        "non-trivial = at least one event delivered")
for pid, v in [("C07", "c07_verdicts"), ("C13", "c13_verdicts")]:
    reg(pid,
        check_imports=["Model.Block", "Model.Forkable", "Model.Burst", "Model.Hub", "Model.CursorResolver", "Model.Joining", "Check.Burst_Check", "Check.C07_Check"],
        case_type="c07_case", verdicts=v, scope="c07_in_scope",
        codes={1: "model-mismatch", 2: "property-checker-rejects-impl", 3: "mismatch+property", 4: "impl-hang-or-panic",
               5: "delivered-block-is-not-the-stored-block", 6: "target-cursor-beyond-stop-block-S-not-delivered"},
        property_modules=[], theorems=[], proof_files=list(J_FILES),
        n_quick=96, n_thorough=4000, n_escalate=600, procs=12,
        rule=RULE,
        level_text="Model/Joining.v composes the hub, burst, cursor-resolver and file-delivery models with the joining logic and the stream's handler "
                   "chain; it is compared event by event and by final error class with the real stream.New(...).Run; the boolean form of the property is "
                   "evaluated on the implementation's output.",
        trusted_base=["hub growth is interleaved with the stream only at user-handler calls (pauses) and when the stream is live and idle; the idle detection "
                      "is time based (25 ms) but cannot change the delivered sequence once the stream is live",
                      "verif hook stream.VerifFileSourceOptions (small bundles) and hub.VerifSubscribers"],
        assumptions=["files and hub together cover the chain; consensus-consistent finality; cursors minted by the same history"])
