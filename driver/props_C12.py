"""C12 — Shutdown at any instant stops every source; handlers are never run concurrently."""
from props import reg

reg("C12",
    check_imports=["Model.Lifecycle", "Check.C12_Check"],
    case_type="c12_case", verdicts="c12_verdicts",
    property_modules=["Properties.C12"],
    theorems=["c12_returns", "c12_file_blocking_points", "c12_no_call_after", "c12_mutex", "c12_fail_stops_all", "c12_restart_point",
              "c12_eternal_unfixed_refuted", "c12_joining_unfixed_refuted", "c12_mux_unfixed_refuted"],
    proof_files=["Base/Prelude.v", "Model/Lifecycle.v", "Spec/C12_Spec.v",
                 "Proofs/C12_Sched.v", "Proofs/C12_Eternal.v", "Proofs/C12_Joining.v", "Proofs/C12_JoiningLive.v",
                 "Proofs/C12_Subscription.v", "Proofs/C12_MuxBase.v", "Proofs/C12_MuxMutex.v", "Proofs/C12_MuxShut.v",
                 "Proofs/C12_MuxLive.v", "Proofs/C12_FileSource.v", "Proofs/C12_FileLive.v", "Proofs/C12_Proofs.v",
                 "Properties/C12.v", "Check/C12_Check.v"],
    rule="corpus (always): a complete Shutdown injected at every verif schedule point of EternalSource (5 points x 1st/2nd "
         "passage x 3 inner-source scripts), JoiningSource (7 points x 7 configurations), MultiplexedSource (8 points incl. "
         "inside the handler, scripted scenarios with reconnects; one inner source parked inside the handler while another waits for "
         "handlerLock, then Shutdown from outside / by the handler failure / from inside the parked call / at the wrapper's schedule "
         "points, with Run returning before or after the parked call), inside every handler call, inside the caller-supplied "
         "factories, and when idle; hub.Subscription through a real ForkableHub and FileSource over a mock store with Shutdown "
         "inside the n-th handler call / when idle. Generated: random inner-source scripts (blocks, handler errors, failures of "
         "their own), random injection instants of the same kinds, random multiplexed command sequences (round / deliver / arm / "
         "shutdown / hold / release), uncontrolled random-delay Shutdowns, free-running multiplexed stress (1-4 slots, reconnecting sources, "
         "handler failure, external Shutdown, or Shutdown during a 2 ms handler call on which the other sources queue up; overlap "
         "detector, no handler call after Run returned and Terminated). non-trivial = every case (each runs a real source to completion); "
         "distinct by input",
    n_quick=1500, n_thorough=20000, n_escalate=6000,
    codes={1: "model-log-differs", 2: "property-rejects-observation", 3: "mismatch+property", 4: "hang-or-panic"},
    trusted_base=[
        "github.com/streamingfast/shutter v1.5.0 is modelled from its source (once, terminating channel, callbacks, terminated "
        "channel, LockedInit); its main-lock critical sections contain no blocking operation and are single atomic steps of the model",
        "Go runtime: sync.Mutex, channel close/select semantics, goroutine scheduling (weak fairness is a hypothesis of the liveness "
        "clause, stated as fair_rounds); wall-clock delays (restart delay, reconnect delay, retry timer) are steps that always complete",
        "handler calls, factory calls, OpenObject and the dbin header read are assumed to return; inner sources of eternal / joining / "
        "multiplexed sources are abstract threads obeying the Source contract (harness: scripted sources that do)",
        "directed schedules are realised by the harness through the verif hooks (repo_patches/C12_hooks.diff): the callback runs a "
        "complete Shutdown on the paused goroutine, or, under sourcesLock, until the terminating channel is closed",
    ],
    assumptions=["model follows the code WITH repo_patches/C12_fix_*.diff applied; the unfixed variants are kept in the model "
                 "(Et.step false / Jn cfg fixed:=false / Mx.step false) and refuted by c12_eternal_unfixed_refuted / "
                 "c12_joining_unfixed_refuted / c12_mux_unfixed_refuted",
                 "a handler call begins at the last synchronisation operation before it: the wrapper of the multiplexed source tests "
                 "the terminating channel and calls the handler under handlerLock with no lock/channel operation and no schedule point "
                 "in between, which is ONE atomic step of the model (as for hub.Subscription and FileSource); in real time another "
                 "goroutine's Shutdown can complete between the test and the first instruction of the handler",
                 "blockstream.Source (gRPC) is not modelled; EternalSource is modelled without startBackAt (delegating variant)"],
    level_text="Unbounded theorems over ALL schedules (lists of thread ids; blocked threads stutter) about hand-written Gallina "
               "models of the shutter protocol and of EternalSource, JoiningSource, MultiplexedSource, hub.Subscription and FileSource: "
               "c12_returns (closing + deadlock freedom + termination under weak fairness from a ranking function, for all five "
               "source types), c12_no_call_after (for the multiplexed source without any hypothesis on its inner sources: no call begins "
               "once the terminating channel is closed, in every state), c12_mutex, c12_fail_stops_all, "
               "c12_restart_point, all closed under the global context; plus machine-checked witnesses that the code before the "
               "fix: patches hangs (eternal, joining) or calls the handler after Run returned and Terminated (multiplexed). The models are tied to the real code on every run: the event log (schedule points passed, factory "
               "calls, handler begin/end, inner-source shutdowns, return of Run) of the model run on the schedule a directed injection "
               "denotes must equal the log observed on the real source, and the boolean form of the property is evaluated on the "
               "observation alone (hang within a 2 s watchdog / panic = violation; no handler call begins after Run returned [ERet in the log] "
               "for all five kinds, and in multiplexed scenarios none begins while IsTerminating()).",
    )
