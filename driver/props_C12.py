"""C12 — Shutdown at any instant stops every source; handlers are never run concurrently."""
from props import reg

reg("C12",
    check_imports=["Model.Lifecycle", "Check.C12_Check"],
    case_type="c12_case", verdicts="c12_verdicts",
    property_modules=["Properties.C12"],
    theorems=[],
    proof_files=["Base/Prelude.v", "Model/Lifecycle.v", "Check/C12_Check.v"],
    rule="placeholder",
    n_quick=700, n_thorough=6000, n_escalate=2500,
    codes={1: "model-log-differs", 2: "property-rejects-observation", 3: "mismatch+property", 4: "hang-or-panic"},
    )
