from props import reg

reg("C20",
    check_imports=["Model.BlockServer", "Spec.C20_Spec", "Check.C20_Check"],
    case_type="c20_case", verdicts="c20_verdicts",
    property_modules=["Properties.C20"],
    theorems=["c20_window", "c20_window_unbuffered", "c20_total", "c20_delivery", "c20_ref_meaning",
              "c20_nonblocking", "c20_sched_safe", "c20_sched_delivery", "c20_sched_producer_enabled",
              "c20_sched_ready_stable", "c20_seq_check_sound", "c20_sub_check_sound", "c20_conc_check_sound",
              "c20_orig_negative_burst_panics", "c20_orig_size0_panics", "c20_orig_window_shrinks",
              "c20_orig_ready_flips"],
    proof_files=["Base/Prelude.v", "Model/BlockServer.v", "Model/BlockServerSched.v",
                 "Spec/C20_Spec.v", "Spec/C20_SchedSpec.v",
                 "Proofs/PreludeFacts.v", "Proofs/C20_Window.v", "Proofs/C20_Seq.v", "Proofs/C20_Proofs.v",
                 "Proofs/C20_Sched.v", "Proofs/C20_SchedSteps.v", "Proofs/C20_SchedProofs.v", "Proofs/C20_CheckSound.v",
                 "Properties/C20.v", "Check/C20_Check.v"],
    rule="sequential operation sequences on the real blockstream.Server (PushBlock / subscribe / hook attach / "
         "unsubscribe / non-blocking receive): buffered or not, buffer sizes 0-8 plus negative and huge, bursts over the "
         "whole int64 range (boundaries 0, +-1, 199-201, 2^31, 2^32+-1, 2^62, MinInt64, MaxInt64, random), repeated ids "
         "(small alphabets, re-pushes of recent ids), channel capacities 0-6 and the real 200+burst, consumers of four "
         "speeds, overflow next to a reader that keeps up, invalid and repeated unsubscribes; every operation's observation "
         "(window, Ready, handle, cap, len, received id / empty / closed, subscription count) and the final queues are "
         "compared with the model; plus concurrent stress runs (producer, 1-6 subscribers subscribing at random instants, "
         "consuming at three speeds, unsubscribing) checked by the boolean property only; non-trivial = at least one "
         "operation; distinct by input",
    trusted_base=["Go sync.RWMutex / sync.Once / buffered channel semantics (FIFO, len/cap, close, receive on a closed "
                  "channel) are modelled in Model/BlockServer.v (chan_send blocks when full and panics when closed, "
                  "chan_close panics when closed) and Model/BlockServerSched.v (lock = enabledness of a step); exercised "
                  "by every case, not proved",
                  "the Go memory model: data-race freedom of the single-producer protocol is checked with go test -race "
                  "on blockstream/verif_race_test.go (hooks patch), not proved",
                  "container/list + map of bstream.Buffer are modelled as a list plus a key list (buf_ok invariant proved)",
                  "single producer: PushBlock is called from one goroutine (concurrent PushBlock calls share only the read "
                  "lock and are outside the property)"],
    level_text="Unbounded theorems about the Gallina model of blockstream.Server/subscription/bstream.Buffer (as fixed by "
               "repo_patches/C20_fix_*): over ALL operation sequences c20_window (window = most recent distinct blocks, "
               "Ready monotone), c20_total (no panic, no blocking send, every burst in Z gives a subscription), "
               "c20_delivery + c20_ref_meaning (burst = last min(burst, buffered) blocks, then every later push in order "
               "until the subscriber's own queue is full; closed once, only then), c20_nonblocking (producer-visible state "
               "and every other subscriber unchanged whether or not subscriber j consumes); over ALL schedules of the "
               "interleaving model (producer, subscribing/unsubscribing clients, consumers; RWMutex as in the code) "
               "c20_sched_safe, c20_sched_delivery, c20_sched_producer_enabled, c20_sched_ready_stable. The model is compared "
               "with the real server on every generated sequence and the boolean property is evaluated on the "
               "implementation's own observations, including concurrent stress runs.",
    assumptions=["one producer goroutine calls PushBlock",
                 "consumers only receive from their subscription channel (Server.Blocks)"],
    codes={1: "model-mismatch", 2: "property-checker-rejects-impl", 3: "mismatch+property", 4: "impl-panic-block-or-hang"},
    n_quick=320, n_thorough=8000, n_escalate=2400,
    )
