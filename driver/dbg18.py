import json,sys,subprocess
d=json.load(open(sys.argv[1]))
open('/tmp/dbg.v','w').write('''From BV Require Import Base.Prelude Model.Block Model.ForkDB Model.Forkable Model.ForkableLookups Spec.Consumer Spec.Universe Spec.ForkChoice Check.Fk_Check Check.Fk_Props_Check.
Local Open Scope N_scope.
Definition k := %s.
Definition root := root_ref (k_mode k) (obs_trace k).
Definition look_dbg (kept : N) (U seen : list block) (qh qi : list N) (mon : fin_mon) (moved : bool) (l : look) :=
  let libn := rn (fm_last mon) in
  ((negb moved || forallb (fun id => match lookup id U with Some b => (libn - kept) <=? bnum b | None => true end) (l_ids l)) ,
  forallb (fun b =>
     negb (libn <=? bnum b) ||
     (match index_of (bid b) qi with Some i => match nth_opt (l_byhash l) i with Some v => v | None => false end | None => false end &&
      match index_of (bnum b) qh with
      | Some i => match nth_opt (l_allat l) i with Some (Some ids) => memN (bid b) ids | _ => false end
      | None => false end)) seen ,
  forallb (fun c =>
     negb (libn <=? bnum c) ||
     match index_of (bnum c) qh with
     | Some i => match nth_opt (l_canon l) i with Some id => id =? bid c | None => false end
     | None => false end) (fm_stack mon) ,
  match fm_stack mon with
  | top :: _ => match l_lowest l with
                | Some n => n =? lowest_from (length U) U (l_ids l) top
                | None => false end
  | [] => match l_lowest l with Some n => n =? 0 | None => false end
  end ).
Fixpoint dbg (kept lib : N) (root : ref) (U : list block) (qh qi : list N) (mon : fin_mon) (seen h : list block) (os : list obs) (i : N) :=
  match h, os with
  | b :: h', o :: os' =>
      match fin_events lib root b mon (o_events o) with
      | None => [(i, None)]
      | Some mon' =>
          let seen' := b :: seen in
          let moved := existsb (fun e => match estep e with SIrr => true | _ => false end) (o_events o) in
          (i, (match o_look o with
           | Some l => Some (look_dbg kept U seen' qh qi mon' moved l)
           | None => None end)) :: dbg kept lib root U qh qi mon' seen' h' os' (i+1)
      end
  | _, _ => []
  end.
Eval vm_compute in dbg (c_kept (k_cfg k)) (ri root) root (k_hist k) (k_qh k) (k_qi k) (mkFM [] 0 root false [] []) [] (k_hist k) (k_obs k) 0.
''' % d['coq'])
print(subprocess.run(['coqc','-Q','/verif/coq','BV','/tmp/dbg.v'],capture_output=True,text=True).stdout[-1500:])
