import json,sys,subprocess
d=json.load(open(sys.argv[1]))
fn=sys.argv[2] if len(sys.argv)>2 else 'c05_answer_ok'
open('/tmp/dbg.v','w').write('''From BV Require Import Base.Prelude Model.Block Model.ForkDB Model.Forkable Model.Burst Spec.Consumer Spec.Universe Check.Fk_Check Check.Burst_Check.
Local Open Scope N_scope.
Definition k := %s.
Eval vm_compute in (wf_b (r_hist k), lib_ok_b LNone (r_hist k), map (%s k) (r_ans k)).
''' % (d['coq'],fn))
print(subprocess.run(['coqc','-Q','/verif/coq','BV','/tmp/dbg.v'],capture_output=True,text=True).stdout[-800:])
i=d['input']; print({k:v for k,v in i.items() if k not in('history','reqs')})
S={1:'new',2:'undo',16:'irr',32:'stalled',17:'newirr'}
def b(x): return "%d@%d<-%d L%d"%(x['id'],x['num'],x['parent'],x['lib'])
n=0
for k,(blk,st) in enumerate(zip(i['history'],d['obs']['steps'])):
    print('m=%d'%(k+1),'IN',b(blk),'->',st['result'])
    for e in st['events']:
        print('      k=%d'%n,S[e['step']],b(e['blk']),'cur.head',e['head']['id'],'cur.lib',e['lib']['id'],e['lib']['num'],'junc',e.get('junc')); n+=1
for j,a in enumerate(d['obs']['answers']):
    print('ANS',j,a['kind'],'m',a['m'],'k',a['k'],'cur',S.get(a['cursor']['step']),a['cursor']['blk'],'lib',a['cursor']['lib'],'start',a['start'],'served',a['served'],'libon',a['lib_on_chain'],'ret',a['blk_retained'],'lowest',a['lowest'])
    for e in a['events']: print('        ',S[e['step']],b(e['blk']),'lib',e['lib'],'junc',e.get('junc'))
    if a['forks']: print('        forks',[b(x) for x in a['forks']])
