import argparse
import collections
import json
import os
import sys
import time

import core
from core import log
from props import PROPS

try:
    import extra  # per-property extra stages (race runs, exhaustive enumerations, ...)
except ImportError:  # pragma: no cover
    extra = None


def clause_name(cfg, code):
    return cfg["codes"].get(code, "code-%d" % code)


def is_property_failure(cfg, code):
    """code 1 = pure model/implementation mismatch; everything else rejects the property on an
    implementation observation (or the implementation crashed / hung)."""
    return code != 1


def write_replay(cfg, case, code, tier, seed, note=""):
    d = os.path.join(core.OUT, "replays", cfg["id"])
    os.makedirs(d, exist_ok=True)
    name = "%s_seed%s_case%d_code%d.json" % (tier, seed, case["i"], code)
    path = os.path.join(d, name)
    with open(path, "w") as f:
        json.dump({"property": cfg["id"], "tier": tier, "seed": seed, "code": code,
                   "clause": clause_name(cfg, code), "class": case.get("class"),
                   "input": case.get("input"), "obs": case.get("obs"), "coq": case.get("coq"),
                   "note": note,
                   "replay_cmd": "./check %s --replay %s" % (cfg["id"], path)}, f, indent=1)
    return path


def write_broken_replay(cfg, what, detail, tier, seed, case=None):
    d = os.path.join(core.OUT, "replays", cfg["id"])
    os.makedirs(d, exist_ok=True)
    path = os.path.join(d, "%s_seed%s_unchecked.json" % (tier, seed))
    with open(path, "w") as f:
        json.dump({"property": cfg["id"], "tier": tier, "seed": seed,
                   "no_longer_checks": what, "detail": detail,
                   "mismatching_case": case,
                   "note": "no failing input was found by the search; the property is no longer shown to hold "
                           "because the named theorem / correspondence does not check against the current tree"},
                  f, indent=1)
    return path


def summarize_case(c, limit=600):
    s = {"class": c.get("class"), "input": c.get("input"), "obs": c.get("obs")}
    t = json.dumps(s)
    if len(t) > limit:
        s = {"class": c.get("class"), "input_prefix": json.dumps(c.get("input"))[:limit // 2],
             "obs_prefix": json.dumps(c.get("obs"))[:limit // 2]}
    return s


def main(argv):
    ap = argparse.ArgumentParser()
    ap.add_argument("pid")
    ap.add_argument("--tier", default=os.environ.get("VERIF_TIER", "quick"))
    ap.add_argument("--seed", type=int, default=int(os.environ.get("VERIF_SEED", "1") or 1))
    ap.add_argument("--n", type=int, default=0)
    ap.add_argument("--replay", default=None)
    a = ap.parse_args(argv)
    if a.tier not in ("quick", "thorough"):
        a.tier = "quick"
    pid = a.pid
    if pid not in PROPS:
        print("unknown property", pid)
        return 2
    cfg = PROPS[pid]
    t0 = time.time()
    workdir = os.path.join(core.BUILD, "run", "%s-%s-%d" % (pid, a.tier, os.getpid()))
    os.makedirs(workdir, exist_ok=True)
    os.makedirs(core.EVID, exist_ok=True)
    known = core.load_known()
    violations = []   # (replay_path, suffix)
    known_hits = collections.Counter()
    notes = []

    # ---- 1. proofs
    ok, out, failing = core.coq_build()
    proof_broken = []
    check_broken = False
    if not ok:
        rel = set(cfg["proof_files"])
        hit = [f for f in failing if f in rel]
        if hit or "<timeout>" in failing:
            proof_broken = hit or failing
            check_mods = [m.replace(".", "/") + ".v" for m in cfg["check_imports"]]
            for m in check_mods:
                vo = os.path.join(core.COQ, m[:-2] + ".vo")
                if not os.path.exists(vo):
                    check_broken = True
            log("coq build failed in", proof_broken)
        else:
            notes.append("coq build failed in files not serving this property: %s" % failing)
    stmts, qeds, bad, files = core.count_obligations(cfg)
    if bad and not proof_broken:
        proof_broken = bad

    # ---- 2. harness
    binp, hout = core.harness_build()
    if binp is None:
        p = write_broken_replay(cfg, "correspondence harness no longer builds against /repo", hout[-3000:], a.tier, a.seed)
        print("VIOLATION property=%s replay=%s no-failing-input-found" % (pid, p))
        write_evidence(cfg, a, t0, [], {}, 1, stmts, qeds, files, {}, notes + ["harness build failed"], known_hits)
        return 1

    if check_broken:
        p = write_broken_replay(cfg, "Coq model/checker modules do not compile: %s" % proof_broken, out[-3000:], a.tier, a.seed)
        print("VIOLATION property=%s replay=%s no-failing-input-found" % (pid, p))
        write_evidence(cfg, a, t0, [], {}, 1, stmts, qeds, files, {}, notes, known_hits)
        return 1

    # ---- 3. cases
    n = a.n or (cfg["n_quick"] if a.tier == "quick" else cfg["n_thorough"])
    cases, hlog = core.run_harness(binp, pid, workdir, a.seed, n, a.tier, replay=a.replay, procs=cfg.get("procs", 1))
    if cases is None:
        # the harness process itself died (OOM guard, fatal runtime error, global watchdog): the
        # implementation could not be run to completion on generated inputs
        p = write_broken_replay(cfg, "implementation run aborted (crash/hang/resource guard outside per-case recovery)", hlog, a.tier, a.seed)
        print("VIOLATION property=%s replay=%s" % (pid, p))
        write_evidence(cfg, a, t0, [], {}, 1, stmts, qeds, files, {}, notes + [hlog[-500:]], known_hits)
        return 1
    results, errors = core.coq_eval(cfg, cases, workdir)
    in_scope = results.pop("scope", None)
    in_thm_scope = results.pop("thm_scope", None)
    if errors:
        p = write_broken_replay(cfg, "Coq evaluation of the cases failed", "\n".join(errors)[-3000:], a.tier, a.seed)
        print("VIOLATION property=%s replay=%s no-failing-input-found" % (pid, p))
        write_evidence(cfg, a, t0, cases, results, 1, stmts, qeds, files, {}, notes + errors, known_hits)
        return 1

    extra_cov = {}
    if in_scope is not None:
        extra_cov["cases_in_property_scope"] = in_scope
    if in_thm_scope is not None:
        extra_cov["cases_meeting_theorem_hypotheses"] = in_thm_scope
    mismatches = []
    seen_sig = set()

    def classify(cs_list, res, seed_used):
        for idx in sorted(res):
            code = res[idx]
            case = cs_list[idx]
            cls = case.get("class", "")
            if is_property_failure(cfg, code):
                k = core.match_known(known, pid, code, cls)
                if k is not None:
                    known_hits[k["id"]] += 1
                    continue
                sig = (code, cls)
                if len(violations) >= 5 or (sig in seen_sig and len(violations) >= 2):
                    continue
                seen_sig.add(sig)
                p = write_replay(cfg, case, code, a.tier, seed_used)
                violations.append((p, ""))
            else:
                mismatches.append((case, seed_used))

    classify(cases, results, a.seed)

    # ---- 3b. the property also speaks about other components: run their harness through this property's checker
    for extra_stage in ([] if a.replay else cfg.get("also", [])):
        sub = dict(cfg)
        sub["thm_scope"] = None  # the theorem-scope counter speaks about the main case type only
        sub.update(extra_stage)
        nn = extra_stage.get("n_quick", 150) if a.tier == "quick" else extra_stage.get("n_thorough", 3000)
        wd2 = os.path.join(workdir, "also_" + extra_stage["harness"])
        cases_b, hlog_b = core.run_harness(binp, extra_stage["harness"], wd2, a.seed, nn, a.tier, procs=extra_stage.get("procs", 1))
        if cases_b is None:
            p = write_broken_replay(cfg, "implementation run aborted in stage %s" % extra_stage["harness"], hlog_b, a.tier, a.seed)
            violations.append((p, ""))
            continue
        res_b, err_b = core.coq_eval(sub, cases_b, wd2)
        res_b.pop("scope", None); res_b.pop("thm_scope", None)
        if err_b:
            p = write_broken_replay(cfg, "Coq evaluation failed in stage %s" % extra_stage["harness"], "\n".join(err_b)[-2000:], a.tier, a.seed)
            violations.append((p, " no-failing-input-found"))
            continue
        for c in cases_b:
            c["class"] = extra_stage["harness"] + ":" + c.get("class", "")
        extra_cov["also_%s_cases" % extra_stage["harness"]] = len(cases_b)
        classify(cases_b, res_b, a.seed)

    # ---- 4. per-property extra stages (schedules, -race, exhaustive small scopes)
    if extra is not None and not a.replay:
        fn = getattr(extra, "stage_" + pid, None)
        if fn is not None:
            ev, evi = fn(cfg, a, binp, workdir, known, known_hits)
            extra_cov.update(evi or {})
            for (p, suf) in ev:
                violations.append((p, suf))

    # ---- 4b. thorough tier: the independent checker coqchk re-checks the compiled property modules and everything
    # they depend on, and reports the axioms they rely on
    if extra is not None and not a.replay and a.tier == "thorough" and cfg.get("property_modules"):
        ev, evi = extra.coqchk_stage(cfg, a)
        extra_cov.update(evi or {})
        for (p, suf) in ev:
            violations.append((p, suf))

    # ---- 5. escalation: correspondence or proof broken, but no failing input yet
    if (mismatches or proof_broken) and not violations and not a.replay:
        log("escalating search: %d mismatches, proof_broken=%s" % (len(mismatches), proof_broken))
        n2 = cfg["n_escalate"]
        seed2 = a.seed * 7919 + 13
        cases2, hlog2 = core.run_harness(binp, pid, workdir, seed2, n2, "thorough", tag="esc", procs=cfg.get("procs", 1))
        if cases2 is not None:
            res2, err2 = core.coq_eval(cfg, cases2, workdir, tag="esc")
            res2.pop("scope", None); res2.pop("thm_scope", None)
            if not err2:
                before = len(mismatches)
                classify(cases2, res2, seed2)
                extra_cov["escalation_cases"] = len(cases2)
    if (mismatches or proof_broken) and not violations:
        if proof_broken:
            what = "proof obligations no longer check: %s" % proof_broken
        else:
            what = "correspondence between Coq model and implementation (code=1 model-mismatch) on %d case(s)" % len(mismatches)
        mc = mismatches[0][0] if mismatches else None
        p = write_broken_replay(cfg, what, out[-2000:] if proof_broken else "", a.tier, a.seed,
                                case={"input": mc.get("input"), "obs": mc.get("obs"), "class": mc.get("class"), "coq": mc.get("coq")} if mc else None)
        violations.append((p, " no-failing-input-found"))

    # ---- 6. report
    for k in known:
        if k.get("status") == "known" and k.get("property") == pid:
            print("KNOWN-FINDING: property=%s %s (id=%s, reproduced %d time(s) in this run)" % (pid, k["what"], k["id"], known_hits.get(k["id"], 0)))
    for p, suf in violations:
        print("VIOLATION property=%s replay=%s%s" % (pid, p, suf))
    assum = core.print_assumptions(cfg, workdir) if not proof_broken else {}
    write_evidence(cfg, a, t0, cases, results, len(violations), stmts, qeds, files, assum, notes, known_hits, extra_cov)
    if a.replay and not violations:
        print("replay: no violation on the current tree (verdict codes: %s)" % (sorted(set(results.values())) or [0]))
    # scratch of this run (generated cases, Coq case files): the replay files under out/replays are self-contained
    if not os.environ.get("VERIF_KEEP_RUN"):
        import shutil
        shutil.rmtree(workdir, ignore_errors=True)
    return 1 if violations else 0


def write_evidence(cfg, a, t0, cases, results, nviol, stmts, qeds, files, assum, notes, known_hits, extra_cov=None):
    classes = collections.Counter(c.get("class", "") for c in cases)
    keys = set()
    for c in cases:
        if c.get("nontrivial"):
            keys.add(c.get("key") or json.dumps(c.get("input"), sort_keys=True))
    samples = []
    seen_cls = set()
    for c in cases:
        cl = c.get("class", "").split("/")[0]
        if cl in seen_cls:
            continue
        seen_cls.add(cl)
        samples.append(summarize_case(c))
        if len(samples) >= 6:
            break
    if not samples:
        samples = [{"note": "no case was executed in this run"}]
    cov = {
        "obligations": stmts,
        "discharged": qeds,
        "checker_cmd": "make -C /verif/coq (coqc 8.16.1, full .vo build) + coqc on generated cases_%s_*.v (vm_compute of %s)" % (cfg["id"], cfg["verdicts"]),
        "trusted_base": cfg["trusted_base"] + __import__("props").TB_COMMON,
        "proof_files": files,
        "property_theorems": cfg.get("theorems", []),
        "partial_theorems": cfg.get("partial", []),
        "print_assumptions": assum,
        "evaluations": len(cases),
        "distinct_nontrivial": len(keys),
        "rule": cfg.get("rule", ""),
        "samples": samples,
        "traces_validated_against_impl": len(cases),
        "model_mismatches": sum(1 for v in results.values() if v == 1),
        "checker_rejections": sum(1 for v in results.values() if v != 1),
        "class_distribution": dict(classes.most_common(60)),
        "known_finding_hits": dict(known_hits),
        "repo_tree": core.repo_tree_hash(),
        "notes": notes,
    }
    if extra_cov:
        cov.update(extra_cov)
    ev = {
        "property_id": cfg["id"],
        "tier": a.tier,
        "seed": a.seed,
        "level": "proof",
        "coverage": cov,
        "assumptions": cfg.get("assumptions", []),
        "wall_s": round(time.time() - t0, 2),
        "violations": nviol,
    }
    with open(os.path.join(core.EVID, cfg["id"] + ".json"), "w") as f:
        json.dump(ev, f, indent=1)
