"""C19 — block range algebra (range.go)."""
from props import reg

reg("C19",
    check_imports=["Base.Decimal", "Model.Range", "Check.C19_Check"],
    case_type="c19_case", verdicts="c19_verdicts",
    property_modules=["Properties.C19"],
    theorems=["c19_split_partial", "c19_split_exact", "c19_split_full_refuted", "c19_contains", "c19_reached", "c19_size", "c19_next",
              "c19_previous", "c19_isnext", "c19_parse_total", "c19_constructors",
              "c19_split_unfixed_refuted", "c19_parse_unfixed_refuted"],
    partial=["c19_split_partial proves C19_split_partial, not C19_split_full: the union clause (chunks together contain exactly the numbers "
             "of the range) is exact for 3 of the 4 flag combinations; for a both-exclusive range the chunks lose exactly the "
             "inner boundaries (c19_split_full_refuted, known finding C19-split-both-exclusive-inner-boundaries)"],
    proof_files=["Base/Prelude.v", "Base/Decimal.v", "Model/Range.v", "Spec/C19_Spec.v",
                 "Proofs/PreludeFacts.v", "Proofs/DecimalFacts.v", "Proofs/RangeFacts.v", "Proofs/RangeSplitFacts.v",
                 "Proofs/RangeParseFacts.v", "Proofs/C19_Proofs.v", "Proofs/C19_CheckFacts.v",
                 "Properties/C19.v", "Check/C19_Check.v"],
    codes={1: "model-mismatch", 2: "property-checker-rejects-impl", 3: "mismatch+property", 4: "impl-panic",
           5: "impl-hang", 6: "split-union-loses-inner-boundaries", 7: "next-previous-wrap-around"},
    rule="four input families, 30/30/30/10 %: (meth) a range (constructed: boundary/random 64-bit bounds, 4 flag combinations, "
         "open-ended; some raw ranges with end <= start) x a number at/around its bounds x a size (0, small, own width, the edge "
         "of 2^64 and one past it) x an IsNext candidate (the exact next range as a fresh value, or a neighbour: flag flipped, "
         "bound +-1, open/bounded swapped, unrelated); (split) chunk sizes 1..2^64-1 (small, 2^31, 2^32, 2^62, 2^63+-1, 2^64-1, "
         "random), 0..600 full chunks + remainder, starts anywhere / on / next to a multiple / placed so that the range ends within "
         "one chunk of 2^64-1 (wrap zone), open-ended, chunk 0, raw; each Split runs in a watched child process; (parse) decimal "
         "a-b / a:b, decorated bounds (commas, spaces, zeros, +, _, #, invalid UTF-8, non-ASCII digits), fewer than two bounds, empty "
         "or non-numeric bounds, three bounds, values >= 2^63, random bytes, with the 4 option combinations; (ctor) the four "
         "constructors on boundary/random values. non-trivial = non-empty text / bounded range with positive chunk / any "
         "method or constructor case; distinct by input",
    trusted_base=["Go strings.FieldsFunc / strings.ReplaceAll / regexp [^a-zA-Z0-9 ]+ / strconv.ParseInt are modelled at byte level "
                  "(Model/Range.v, Base/Decimal.v) and compared with the implementation on every parse case, incl. invalid UTF-8",
                  "the Split watchdog (child process of the harness, 1 s / 768 MiB per call) decides the outcome 'hang'",
                  "verif-tagged hooks VerifC19NewRange / VerifC19Fields (verif_export_c19.go) build and read Range values"],
    level_text="Unbounded theorems (Properties/C19.v, closed under the global context) about the Gallina model of range.go with "
               "explicit mod-2^64 arithmetic: c19_split_partial (all constructed ranges, all chunk sizes 1..2^64-1, no wrap guard needed "
               "after the fix; fuel proved sufficient), c19_contains, c19_reached, c19_size, c19_next, c19_previous, c19_isnext "
               "(no-wrap guards stated), c19_parse_total (never the out-of-range index, for every byte string), c19_constructors; "
               "c19_split_full_refuted records that the union clause fails for both-exclusive ranges. The model is compared with the "
               "real bstream.Range code on generated cases on every run and the boolean form of the property (proved sound, "
               "Proofs/C19_CheckFacts.v) is evaluated on the implementation's own outputs (panic / hang = violation).",
    assumptions=["ranges as the constructors build them: bounds < 2^64 and start < end when bounded (range_ok)",
                 "chunk size 1..2^64-1 (chunk size 0 is outside the property: Split divides by it and panics)",
                 "Next: end (or start, when open-ended) + size < 2^64; Previous: size <= start",
                 "ParseRange well-formed clause: decimal bounds < 2^63 (the code parses them as int64)"],
    n_quick=900, n_thorough=30000, n_escalate=6000,
    )
