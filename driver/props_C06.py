from props import reg

reg("C06",
    check_imports=["Model.Block", "Model.Forkable", "Model.Burst", "Model.CursorResolver", "Check.Fk_Check", "Check.Burst_Check", "Check.C06_Check"],
    case_type="c06_case", verdicts="c06_verdicts", scope="c06_in_scope",
    property_modules=[], theorems=[],
    proof_files=["Base/Prelude.v", "Model/Block.v", "Model/Forkable.v", "Model/Burst.v", "Model/CursorResolver.v",
                 "Spec/Consumer.v", "Check/Burst_Check.v", "Check/C06_Check.v"],
    n_quick=300, n_thorough=15000, n_escalate=3000,
    rule="a generated live history (forest of 4-21 blocks, every arrival order of the forkable generator, exclusive starting LIB) through a real Forkable "
         "mints the cursors; the winning tip is extended by 1-5 blocks and the consumer chain becomes the canonical chain written with the real "
         "DBinBlockWriter into merged bundles of 5-10 blocks (real dbin), every other block becomes a one-block file in the forked-blocks store "
         "(25% of the cases with 1-3 of them missing); a real NewFileSourceFromCursor (45% New cursor, 20% Undo cursor, 13% final cursor) or "
         "NewFileSourceThroughCursor (22%, start between cursor LIB-2 and cursor block) runs to the stop block; non-trivial = events delivered "
         "or resolution error; distinct by input",
    level_text="Model/CursorResolver.v (cursor resolver over the sequential file delivery) is compared event by event (step, block, cursor, junction, "
               "final error class) with the real file source, and the boolean form of the property (undo pending forked blocks newest first naming the "
               "junction, then Irreversible for held canonical blocks above the cursor LIB, then every later canonical block once as new+irreversible; "
               "resolution error exactly when a needed one-block file is absent, with nothing delivered) is evaluated on the implementation's output.",
    trusted_base=["ids unique in their last 16 characters (TruncateBlockID / HasSuffix matching = id equality)",
                  "dstore.MockStore as store; listing order of WalkFrom is lexicographic; heights < 10^10",
                  "the file source's concurrent pipeline is covered by C10; here only its delivered sequence matters"],
    assumptions=["cursors minted by the same history; canonical chain consistent with the finality announced to the consumer"])
