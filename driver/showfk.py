#!/usr/bin/env python3
import json,sys
d=json.load(open(sys.argv[1]))
i=d['input']; print({k:v for k,v in i.items() if k!='history'})
S={1:'new',2:'undo',16:'irr',32:'stalled',17:'newirr'}
def b(x): return "%d@%d<-%d L%d"%(x['id'],x['num'],x['parent'],x['lib'])
for k,(blk,st) in enumerate(zip(i['history'],d['obs']['steps'])):
    print(k,'IN',b(blk),'->',st['result'],'head',st['head'] if st['head_ok'] else None)
    for e in st['events']:
        print('      ',S[e['step']],b(e['blk']),'cur.head',e['head'],'cur.lib',e['lib'],'junc',e.get('junc'),e['idx'],e['count'])
    if st.get('look') and len(sys.argv)>2: print('      look',st['look'])
if len(i['history'])>len(d['obs']['steps']): print('... stopped')
if 'qh' in d['obs'] and len(sys.argv)>2: print('qh',d['obs'].get('qh'),'qi',d['obs'].get('qi'))
