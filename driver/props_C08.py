from props import reg

reg("C08",
    check_imports=["Model.Block", "Model.Forkable", "Model.Burst", "Model.Hub", "Model.HubSubs", "Model.HubAll", "Check.Burst_Check", "Check.C08_Check"],
    case_type="c08x_case", verdicts="c08x_verdicts", scope="c08x_in_scope",
    property_modules=[], theorems=[],
    proof_files=["Base/Prelude.v", "Model/Block.v", "Model/ForkDB.v", "Model/Forkable.v", "Model/Burst.v", "Model/Hub.v", "Model/HubSubs.v", "Model/HubAll.v",
                 "Spec/Consumer.v", "Check/Burst_Check.v", "Check/C08_Check.v", "Model/HubSched.v", "Check/C08S_Check.v"],
    n_quick=300, n_thorough=12000, n_escalate=3000,
    # schedule-level model (Model/HubSched.v) against the real code at lock granularity: harness/c08sched.go, Check/C08S_Check.v
    also=[{"harness": "C08S",
           "check_imports": ["Model.Block", "Model.Forkable", "Model.Burst", "Model.Hub", "Model.HubSubs", "Model.HubSched",
                             "Check.Burst_Check", "Check.C08_Check", "Check.C08S_Check"],
           "case_type": "c08s_case", "verdicts": "c08s_verdicts", "scope": None, "n_quick": 60, "n_thorough": 1500}],
    rule="a real ready ForkableHub over a consensus-consistent history with short forks; 2/3 sequential operation sequences of 10-110 ops "
         "(push live block / subscribe by number, with forks, from cursor, through cursor / drain a subscription; 25% with a consumer that never "
         "reads, so its queue of 100+burst overflows) compared with the model; 1/3 concurrent: 2-16 goroutines subscribe together, released by a "
         "rendez-vous at the schedule point between burst and registration (all inside the shared read lock), while a feeder pushes 3-22 blocks; "
         "observation = what each subscription's queue contained, the hub's full event log (a tracking subscription), registered subscribers; "
         "non-trivial = at least one subscription served. Stage C08S (also-stage, 60 / 1500 cases): the real hub run under an explicit goroutine "
         "schedule (producer, 2-6 requesters by number / with forks / from cursor / through cursor, their consumers running Subscription.Run; "
         "150-2500 entries: random segments producer-, requester-, consumer-heavy, requesters in lock step, readers inside while the writer "
         "announces; 65% with a tracking subscription registered first; 1/15 with a subscriber that never reads or reads too late; 50% with "
         "requesters really waiting inside RLock()/Lock()), every goroutine released one atomic step at a time at the schedule points of "
         "repo_patches/S6_hooks_hub_sched.diff, then completed round-robin; observation per schedule entry = step made or not, schedule point "
         "reached, RWMutex.Lock() returned or not, channel length of every subscription; at the end every delivery, capacity, drop, h.subscribers order",
    level_text="Model/HubSubs.v (registration, fan-out with capacity drop, drain) is compared with the real hub on sequential operation sequences; "
               "the property (burst followed by every later event exactly once and in order, slow subscribers dropped alone, nothing lost under concurrent "
               "registration) is evaluated on sequential and concurrent observations; thorough tier adds a -race build. "
               "Schedule level: Model/HubSched.v (the model of the c08_sched_* theorems) is run by Check/C08S_Check.v on the same schedule as the real "
               "hub and compared entry by entry at lock granularity (enabledness of every step, program counter = schedule point, writer announcement "
               "and admission, effect on every channel), and at the end on deliveries, drops and the order of h.subscribers; the property "
               "(exactly-once from the burst on against the tracking subscription, drops only of full channels, registered = served and not dropped) is "
               "evaluated on the same observations.",
    trusted_base=["atomicity of a subscription with respect to block processing rests on sync.RWMutex (Forkable) and the subscribers mutex; the Go "
                  "scheduler and memory model are trusted, data races are searched with the race detector in the thorough tier",
                  "verif hooks: Subscription.VerifDrain/VerifCap, ForkableHub.VerifSubscribers, schedule point hub.VerifPoint before the registration",
                  "C08S hooks (build tag verif): forkable/verif_hooks_sched.go shadows the promoted Lock/Unlock/RLock/RUnlock of Forkable's embedded "
                  "sync.RWMutex with versions that pass through forkable.VerifPoint before and after the lock operation (forkable.go unchanged); "
                  "verifPoint calls in hub.subscribe (locked, appended, unlocked), hub.processBlock (enter, snapshot, before-push, push-failed, "
                  "after-push), Subscription.run (receive); Subscription.VerifLen, ForkableHub.VerifSubscriberList, VerifSubscribersLockFree (TryLock)",
                  "C08S: steps that would wait for a lock are not attempted unless the case says so; their enabledness is read off the real lock "
                  "(RWMutex.TryRLock, Mutex.TryLock); goroutines are identified by their runtime goroutine id; the statement "
                  "h.subscribers = append(h.subscribers, sub) is one step of the code and two of the model (read, write); sync.RWMutex / sync.Mutex "
                  "serve a waiting goroutine at the unlock, before later arrivals: the model (retry) allows more schedules than the code"],
    assumptions=["total events per subscription below the queue capacity unless the case is a slow-consumer case",
                 "the hub is READY when a subscription is requested (every generated case; Model/Hub.hub_live returns no events for blocks "
                 "processed before readiness, including the block that makes the hub ready, whereas the real hub fans those events out to "
                 "a subscription obtained earlier: on that class the c08 theorems describe the model, not the code - witness "
                 "c08_ready_transition_events_conclusion_weaker in Properties/Cxx_Audit2.v, replay TestW1_C08_SubscribedBeforeReadyReceivesEverything: "
                 "the code itself conforms to the property there)",
                 "subscriptions register no OnTerminating callbacks: Subscription.Shutdown of an overflowing subscriber runs on the producer "
                 "goroutine under the Forkable's write lock, so a user callback registered on that subscription delays the hub for as long as it "
                 "runs and wedges it if it calls back into the hub (observation W1-C08-1: no consumer inside the library registers one; the "
                 "model's drop step contains no subscriber code)"])
