from props import reg

reg("C08",
    check_imports=["Model.Block", "Model.Forkable", "Model.Burst", "Model.Hub", "Model.HubSubs", "Model.HubAll", "Check.Burst_Check", "Check.C08_Check"],
    case_type="c08x_case", verdicts="c08x_verdicts", scope="c08x_in_scope",
    property_modules=[], theorems=[],
    proof_files=["Base/Prelude.v", "Model/Block.v", "Model/ForkDB.v", "Model/Forkable.v", "Model/Burst.v", "Model/Hub.v", "Model/HubSubs.v", "Model/HubAll.v",
                 "Spec/Consumer.v", "Check/Burst_Check.v", "Check/C08_Check.v", "Model/HubSched.v", "Check/C08S_Check.v"],
    n_quick=300, n_thorough=12000, n_escalate=3000,
    # schedule-level model (Model/HubSched.v) against the real code at lock granularity: harness/c08sched.go, Check/C08S_Check.v
    also=[{"harness": "C08S",
           "check_imports": ["Model.Block", "Model.Forkable", "Model.Burst", "Model.Hub", "Model.HubSubs", "Model.HubSched",
                             "Check.Burst_Check", "Check.C08_Check", "Check.C08S_Check"],
           "case_type": "c08s_case", "verdicts": "c08s_verdicts", "scope": None, "n_quick": 60, "n_thorough": 1500}],
    rule="a real ForkableHub over a consensus-consistent history with short forks, ready after the boot in about 70% of the cases; in the others (classes *not-ready*) the first live block leaves a hole behind the one-block files, 1-3 subscriptions are requested from the hub that is not ready (class suffix served-before-ready when one is served), and the hub becomes ready during the case: the missing blocks arrive live (the first linkable one makes it ready, possibly after up to two more unlinkable ones) or, classes *feed*, the next live block finds the one-block store caught up and the bootstrap pass plays the missing files through the Forkable; 2/3 sequential operation sequences of 10-110 ops "
         "(push live block / subscribe by number, with forks, from cursor, through cursor / drain a subscription; 25% with a consumer that never "
         "reads, so its queue of 100+burst overflows) compared with the model; 1/3 concurrent: 2-16 goroutines subscribe together, released by a "
         "rendez-vous at the schedule point between burst and registration (all inside the shared read lock), while a feeder pushes 3-22 blocks; "
         "observation = what each subscription's queue contained, the hub's full event log (a tracking subscription), registered subscribers; "
         "non-trivial = at least one subscription served. Stage C08S (also-stage, 60 / 1500 cases): the real hub run under an explicit goroutine "
         "schedule (producer, 2-6 requesters by number / with forks / from cursor / through cursor, their consumers running Subscription.Run; "
         "150-2500 entries: random segments producer-, requester-, consumer-heavy, requesters in lock step, readers inside while the writer "
         "announces; 65% with a tracking subscription registered first; 1/15 with a subscriber that never reads or reads too late; 50% with "
         "requesters really waiting inside RLock()/Lock()), every goroutine released one atomic step at a time at the schedule points of "
         "repo_patches/S6_hooks_hub_sched.diff, then completed round-robin; observation per schedule entry = step made or not, schedule point "
         "reached, RWMutex.Lock() returned or not, channel length of every subscription; at the end every delivery, capacity, drop, h.subscribers order",
    level_text="Model/HubSubs.v (registration, fan-out with capacity drop, drain) is compared with the real hub on sequential operation sequences; "
               "the model pushes with Model/HubAll.v hub_live_all (every event the hub's Forkable hands to processBlock: bootstrap feed and live blocks processed before readiness included; for a ready hub = Model/Hub.v hub_live); "
               "the property (burst followed by every later event exactly once and in order, slow subscribers dropped alone, nothing lost under concurrent "
               "registration) is evaluated on sequential and concurrent observations; thorough tier adds a -race build. "
               "Schedule level: Model/HubSched.v (the model of the c08_sched_* theorems) is run by Check/C08S_Check.v on the same schedule as the real "
               "hub and compared entry by entry at lock granularity (enabledness of every step, program counter = schedule point, writer announcement "
               "and admission, effect on every channel), and at the end on deliveries, drops and the order of h.subscribers; the property "
               "(exactly-once from the burst on against the tracking subscription, drops only of full channels, registered = served and not dropped) is "
               "evaluated on the same observations.",
    trusted_base=["atomicity of a subscription with respect to block processing rests on sync.RWMutex (Forkable) and the subscribers mutex; the Go "
                  "scheduler and memory model are trusted, data races are searched with the race detector in the thorough tier",
                  "verif hooks: Subscription.VerifDrain/VerifCap, ForkableHub.VerifSubscribers, schedule point hub.VerifPoint before the registration",
                  "C08S hooks (build tag verif): forkable/verif_hooks_sched.go shadows the promoted Lock/Unlock/RLock/RUnlock of Forkable's embedded "
                  "sync.RWMutex with versions that pass through forkable.VerifPoint before and after the lock operation (forkable.go unchanged); "
                  "verifPoint calls in hub.subscribe (locked, appended, unlocked), hub.processBlock (enter, snapshot, before-push, push-failed, "
                  "after-push), Subscription.run (receive); Subscription.VerifLen, ForkableHub.VerifSubscriberList, VerifSubscribersLockFree (TryLock)",
                  "C08S: steps that would wait for a lock are not attempted unless the case says so; their enabledness is read off the real lock "
                  "(RWMutex.TryRLock, Mutex.TryLock); goroutines are identified by their runtime goroutine id; the statement "
                  "h.subscribers = append(h.subscribers, sub) is one step of the code and two of the model (read, write); sync.RWMutex / sync.Mutex "
                  "serve a waiting goroutine at the unlock, before later arrivals: the model (retry) allows more schedules than the code"],
    assumptions=["total events per subscription below the queue capacity unless the case is a slow-consumer case",
                 "subscriptions requested from a hub that is not ready yet are in scope (V2): the correspondence runs Model/HubAll.v hub_live_all, the sequence-level theorems c08_*_all hold for every start state and every content of the one-block store; the theorems c08_exactly_once ... / c08_sched_* built on Model/Hub.hub_live describe the real hub for a READY start state only (c08_all_ready_same, c08_sched_all_ready_same: there they coincide with the faithful ones)",
                 "schedule level, hub not ready: the producer step of Model/HubSchedG.v is ONE Forkable.ProcessBlock critical section, which is the code when the bootstrap pass plays no one-block file (c08_sched_*_all are stated for that case); a bootstrap pass that plays files is several critical sections on the producer goroutine, a request can be served between two of them: not modelled at lock granularity (the sequential not-ready/feed cases cover the fan-out of those events); stage C08S still builds ready hubs only",
                 "subscriptions register no OnTerminating callbacks: Subscription.Shutdown of an overflowing subscriber runs on the producer "
                 "goroutine under the Forkable's write lock, so a user callback registered on that subscription delays the hub for as long as it "
                 "runs and wedges it if it calls back into the hub (observation W1-C08-1: no consumer inside the library registers one; the "
                 "model's drop step contains no subscriber code)"])
