from props import reg

reg("C08",
    check_imports=["Model.Block", "Model.Forkable", "Model.Burst", "Model.Hub", "Model.HubSubs", "Check.Burst_Check", "Check.C08_Check"],
    case_type="c08_case", verdicts="c08_verdicts", scope="c08_in_scope",
    property_modules=[], theorems=[],
    proof_files=["Base/Prelude.v", "Model/Block.v", "Model/ForkDB.v", "Model/Forkable.v", "Model/Burst.v", "Model/Hub.v", "Model/HubSubs.v",
                 "Spec/Consumer.v", "Check/Burst_Check.v", "Check/C08_Check.v", "Model/HubSched.v", "Check/C08S_Check.v"],
    n_quick=300, n_thorough=12000, n_escalate=3000,
    # schedule-level model (Model/HubSched.v) against the real code at lock granularity: harness/c08sched.go, Check/C08S_Check.v
    also=[{"harness": "C08S",
           "check_imports": ["Model.Block", "Model.Forkable", "Model.Burst", "Model.Hub", "Model.HubSubs", "Model.HubSched",
                             "Check.Burst_Check", "Check.C08_Check", "Check.C08S_Check"],
           "case_type": "c08s_case", "verdicts": "c08s_verdicts", "scope": None, "n_quick": 60, "n_thorough": 1500}],
    rule="a real ready ForkableHub over a consensus-consistent history with short forks; 2/3 sequential operation sequences of 10-110 ops "
         "(push live block / subscribe by number, with forks, from cursor, through cursor / drain a subscription; 25% with a consumer that never "
         "reads, so its queue of 100+burst overflows) compared with the model; 1/3 concurrent: 2-16 goroutines subscribe together, released by a "
         "rendez-vous at the schedule point between burst and registration (all inside the shared read lock), while a feeder pushes 3-22 blocks; "
         "observation = what each subscription's queue contained, the hub's full event log (a tracking subscription), registered subscribers; "
         "non-trivial = at least one subscription served",
    level_text="Model/HubSubs.v (registration, fan-out with capacity drop, drain) is compared with the real hub on sequential operation sequences; "
               "the property (burst followed by every later event exactly once and in order, slow subscribers dropped alone, nothing lost under concurrent "
               "registration) is evaluated on sequential and concurrent observations; thorough tier adds a -race build.",
    trusted_base=["atomicity of a subscription with respect to block processing rests on sync.RWMutex (Forkable) and the subscribers mutex; the Go "
                  "scheduler and memory model are trusted, data races are searched with the race detector in the thorough tier",
                  "verif hooks: Subscription.VerifDrain/VerifCap, ForkableHub.VerifSubscribers, schedule point hub.VerifPoint before the registration"],
    assumptions=["total events per subscription below the queue capacity unless the case is a slow-consumer case"])
