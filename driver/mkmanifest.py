#!/usr/bin/env python3
"""Regenerates /verif/MANIFEST.json from driver/props.py (kept valid at all times)."""
import json, os, sys
sys.path.insert(0, os.path.dirname(os.path.abspath(__file__)))
from props import PROPS, TB_COMMON
VERIF = os.path.dirname(os.path.dirname(os.path.abspath(__file__)))
ALL = ["C%02d" % i for i in range(1, 21)]
checks = []
for pid in ALL:
    if pid not in PROPS:
        continue
    c = PROPS[pid]
    checks.append({
        "property_id": pid,
        "quick_cmd": "./check %s --tier quick" % pid,
        "thorough_cmd": "./check %s --tier thorough" % pid,
        "evidence_file": "/verif/evidence/%s.json" % pid,
        "replay_cmd_template": "./check %s --replay {path}" % pid,
        "engine": "coq-model+correspondence",
        "level_claimed": {"category": "proof", "text": c.get("level_text", ""), "design_ref": c.get("design_ref", "DESIGN.md section 4, " + pid)},
        "level_note": c.get("level_note", "; ".join(c.get("trusted_base", []) + TB_COMMON)),
        "technique": c.get("technique", "machine-checked proof in Coq 8.16.1 about a hand-written executable Gallina model, tied to /repo by a differential correspondence check (vm_compute inside coqc) on every run"),
    })
na = []
for pid in ALL:
    if pid not in PROPS:
        na.append({"property_id": pid, "reason": "check not built yet in this round (planned, see DESIGN.md section 7); not a claim that the technique cannot apply"})
m = {
    "version": 1,
    "setup_cmd": "./setup.sh",
    "hooks": {"guard": "verif", "enable": "go build -tags verif (the harness module /verif/harness replaces github.com/streamingfast/bstream by /repo)",
              "baseline_off_cmd": "cd /repo && go test -vet=off -count=1 -timeout 25m ./...",
              "source_commits": json.load(open(os.path.join(VERIF, "hooks.json")))["source_commits"] if os.path.exists(os.path.join(VERIF, "hooks.json")) else [],
              "add_only": True},
    "engines": [{"name": "coq-model+correspondence", "path": "/verif/coq, /verif/harness, /verif/driver",
                 "serves_properties": [c["property_id"] for c in checks],
                 "kind_free_text": "Coq 8.16.1 development (models, specs, proofs, property theorems, checkers) + Go harness running the real code + Python driver"}],
    "checks": checks,
    "notes": "See DESIGN.md. Known findings: known_findings.json. Seeded mutants: seeded/.",
    "not_applicable": na,
}
json.dump(m, open(os.path.join(VERIF, "MANIFEST.json"), "w"), indent=1)
print("MANIFEST.json: %d checks, %d not claimed" % (len(checks), len(na)))
