"""C17 — gates forward a suffix of the stream."""
from props import reg

reg("C17",
    check_imports=["Model.Gates", "Spec.C17_Spec", "Check.C17_Check"],
    case_type="c17_case", verdicts="c17_verdicts",
    property_modules=["Properties.C17"],
    theorems=["c17_suffix", "c17_first", "c17_irr_only", "c17_holdoff", "c17_filter", "c17_tripper",
              "c17_checker_sound", "c17_irr_id_unfixed_refuted", "c17_irr_num_unfixed_refuted"],
    proof_files=["Base/Prelude.v", "Model/Gates.v", "Spec/C17_Spec.v", "Proofs/C17_Lists.v",
                 "Proofs/C17_Gates.v", "Proofs/C17_Proofs.v", "Proofs/C17_CheckSound.v",
                 "Properties/C17.v", "Check/C17_Check.v"],
    rule="one gate object per case (BlockNumGate, BlockIDGate, IrreversibleBlockNumGate, IrreversibleBlockIDGate, "
         "RealtimeGate, RealtimeTripper, TimeThresholdGator, BlockNumberGator incl./excl., MinimalBlockNumFilter) fed a "
         "forkable-looking event sequence of 0..~70 events (New with forks, undos, holes, steps back, each followed by the "
         "Irreversible event of an earlier block; block ages catching up to real time, stale-after-live, exact boundary "
         "with the tripper's clock hook) x target present / absent / repeated / below first streamable / empty and "
         "all-zero id x inclusive / exclusive x MaxHoldOff in {default 15000, 0, 1, 2, 3, 5, 10, -1, -7, 1000} x "
         "GetProtocolFirstStreamableBlock in {0,1,2,3,5,100,2^32} x heights near 0, 2^32, 2^63, 2^64 x handler failing on "
         "chosen calls (every failure a distinct error value, compared by identity per call); a malformed stream "
         "(colliding / empty ids, arbitrary steps); ids close to the target (letter case, 0x prefix, one character more "
         "or less, spaces); obj nil / not a ForkableObject and blocks without timestamp where the gate does not read "
         "them; every block carries a payload and the deprecated fields, every ForkableObject its multi-block step "
         "fields, and 'unchanged' is the whole message / struct compared with a snapshot at the handler call, after "
         "the call and after the run; the tripper's tripFunc must run before the handler call; "
         "one case in ten runs the two gators as package blockstream wires them: blockstream.NewSource with WithNumGator / "
         "WithTimeThresholdGator, Source.Run against a gRPC BlockStream server on a loopback port that sends the blocks "
         "of the case (public API only; observation = which sent blocks reached the handler, proto.Equal); "
         "corpus: 300 held blocks against limits 5 and 200; the New-before-Irreversible "
         "witness, 15001 held blocks against the default limit, gators without logger; non-trivial = non-empty sequence; "
         "distinct by input",
    trusted_base=["real time enters as one boolean per call (delta < timeToRealtime); RealtimeGate and TimeThresholdGator "
                  "read the wall clock (time.Since): each block is stamped now - age immediately before its call, "
                  "ages at or above the threshold (exact: never real time) or at least 10 s below it (real time "
                  "unless the process stalls 10 s between two statements); RealtimeTripper is driven through its "
                  "nowFunc hook including the exact boundary",
                  "the wrapped handler is an arbitrary state machine in the theorems (Section variable hproc) and a "
                  "recording handler failing on chosen calls in the harness; zap logging is not modelled",
                  "obj passed to the irreversible gates is a *forkable.ForkableObject (another dynamic type panics by "
                  "the type assertion: outside the quantifier of the property)"],
    level_text="Unbounded theorems (induction over the input sequence, closed under the global context) about the Gallina "
               "state machines of all five gates, the tripper, both gators and MinimalBlockNumFilter: c17_suffix (handler "
               "input = skipn from the first position satisfying the trigger predicate, trigger included iff inclusive), "
               "c17_first, c17_irr_only, c17_holdoff (incl. handler results returned unchanged), c17_filter, c17_tripper; "
               "the model follows the code after the three fix commits (c17_irr_id_unfixed_refuted: the shipped "
               "IrreversibleBlockIDGate opens on a New event; c17_irr_num_unfixed_refuted: the shipped "
               "IrreversibleBlockNumGate knows the constants 0, 1, 2 instead of the first streamable block). On every run the model and a declarative boolean "
               "checker (proved sound: c17_checker_sound) are compared call by call with the real gates.",
    assumptions=["MaxHoldOff counter modelled as an unbounded integer (Go int overflow needs 2^63 held blocks)",
                 "block timestamps are valid protobuf timestamps (RealtimeGate panics on a nil timestamp)"],
    codes={1: "model-mismatch", 2: "property-checker-rejects-impl", 3: "mismatch+property", 4: "impl-panic",
           5: "default-holdoff-limit-differs"},
    n_quick=1500, n_thorough=30000, n_escalate=6000,
    )
