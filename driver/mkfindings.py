#!/usr/bin/env python3
"""Builds /verif/known_findings.json from the per-property fragments findings_C*.json
(committed; never written by a check at run time). Fixed entries get the /repo commit hash whose
subject equals the first line of the patch's .msg file."""
import glob, json, os, subprocess
VERIF = os.path.dirname(os.path.dirname(os.path.abspath(__file__)))
log = subprocess.run(["git", "-C", "/repo", "log", "--format=%H\t%s"], capture_output=True, text=True).stdout
subj = {}
for line in log.splitlines():
    h, s = line.split("\t", 1)
    subj[s.strip()] = h
out = []
for f in sorted(glob.glob(os.path.join(VERIF, "findings_C*.json"))):
    for e in json.load(open(f)):
        if e.get("status") == "fixed":
            msgf = None
            if e.get("patch"):
                msgf = os.path.join(VERIF, e["patch"][:-5] + ".msg")
            if msgf and os.path.exists(msgf):
                first = open(msgf).read().strip().splitlines()[0].strip()
                e["commit"] = subj.get(first, e.get("commit", "unknown"))
            e["line"] = "fixed: property=%s %s %s" % (e["property"], e.get("commit", "unknown")[:12], e["what"][:200])
        out.append(e)
json.dump({"findings": out}, open(os.path.join(VERIF, "known_findings.json"), "w"), indent=1)
print("known_findings.json: %d entries (%d known, %d fixed)" % (len(out), sum(e["status"] == "known" for e in out), sum(e["status"] == "fixed" for e in out)))
