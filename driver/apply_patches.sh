#!/bin/bash
# usage: apply_patches.sh Cxx  — applies repo_patches/Cxx_fix_*.diff (one commit each) and Cxx_hooks.diff to /repo
set -e
P=$1; cd /repo
export GOFLAGS=-mod=mod GOPROXY=off GOSUMDB=off GOTOOLCHAIN=local
for d in /verif/repo_patches/${P}_fix_*.diff; do
  [ -e "$d" ] || continue
  m="${d%.diff}.msg"
  git apply --3way "$d" 2>/dev/null || git apply "$d" || patch -p1 < "$d"
  git add -A; git commit -qm "$(cat $m)"; echo "committed: $(head -1 $m | cut -c1-90)"
done
if [ -e /verif/repo_patches/${P}_hooks.diff ]; then
  git apply /verif/repo_patches/${P}_hooks.diff
  lc=$(echo $P | tr A-Z a-z)
  for f in $(git status --short | grep '^??' | awk '{print $2}' | grep 'verif_export.go$'); do mv $f ${f%.go}_${lc}.go; done
  git add -A; git commit -qm "verif hooks (build tag verif): $P harness access"; echo "hooks committed"
fi
go build ./... && go build -tags verif ./... && go test -vet=off -count=1 ./... 2>&1 | grep -v '^{"' | grep -v "no test files"
