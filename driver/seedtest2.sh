#!/bin/bash
# usage: seedtest2.sh <src dir> <seed id> <check ids...>
# Like seedtest.sh but fully isolated: the mutant is applied in a scratch worktree of /repo and the checks run
# from a scratch copy of /verif against it (VERIF_REPO), so /repo and /verif stay untouched while other work goes on.
# (The registered way — apply to /repo, run ./check, undo — is what seedtest.sh does.)
SRC=$1; ID=$2; shift 2
export GOFLAGS=-mod=mod GOPROXY=off GOSUMDB=off GOTOOLCHAIN=local
T=/tmp/sv_$ID; rm -rf $T; mkdir -p $T
git -C /repo worktree add -q --detach $T/repo || exit 2
rsync -a --exclude .git --exclude out --exclude '.build/run' /verif/ $T/verif/
pkg=$(grep -m1 '^package ' $SRC/demo_test.go | awk '{print $2}')
case "$pkg" in
  forkable|forkable_test) dir=forkable;; hub|hub_test) dir=hub;; stream|stream_test) dir=stream;;
  blockstream|blockstream_test) dir=blockstream;; transform|transform_test) dir=transform;; *) dir=.;;
esac
run=$(grep -o 'func Test[A-Za-z0-9_]*' $SRC/demo_test.go | head -1 | sed 's/func //' | sed 's/_.*/_/')
tags=""; grep -q '//go:build verif' $SRC/demo_test.go && tags="-tags verif"
cd $T/repo
git apply $SRC/patch.diff || { echo "PATCH-FAILS"; cd /; git -C /repo worktree remove --force $T/repo; rm -rf $T; exit 2; }
suite=$(go test -vet=off -count=1 ./... 2>&1 | grep -v '^{"' | grep -c '^FAIL\|^--- FAIL\|^panic')
cp $SRC/demo_test.go $dir/zz_seed_demo_test.go
with=$(go test $tags -vet=off -count=1 -run "$run" ./$dir/ 2>&1 | grep -v '^{"' | tail -1 | awk '{print $1}')
git apply -R $SRC/patch.diff
without=$(go test $tags -vet=off -count=1 -run "$run" ./$dir/ 2>&1 | grep -v '^{"' | tail -1 | awk '{print $1}')
rm -f $dir/zz_seed_demo_test.go
git apply $SRC/patch.diff
echo "confirm: suite_failures=$suite demo_with_mutant=$with demo_without=$without (pkg dir $dir, run $run)"
caught=""
cd $T/verif
for c in "$@"; do
  out=$(VERIF_REPO=$T/repo ./check $c 2>&1 | grep VIOLATION | head -2)
  if [ -n "$out" ]; then caught="$caught $c"; echo "  $c: $(echo "$out" | head -1 | cut -c1-170)"; else echo "  $c: no alarm"; fi
done
cd /
git -C /repo worktree remove --force $T/repo; rm -rf $T
mkdir -p /verif/seeded/$ID
cp $SRC/patch.diff $SRC/demo_test.go /verif/seeded/$ID/
python3 - "$SRC" "$ID" "$suite" "$with" "$without" "$caught" "$*" <<'PY'
import json,sys
src,id_,suite,with_,without,caught,checks=sys.argv[1:8]
m=json.load(open(src+'/meta.json'))
m['confirmed_by_main']={'existing_suite_failures':int(suite),'demo_with_mutant':with_,'demo_without_mutant':without}
m['checks_run']=checks.split()
m['caught_by']=caught.split()
json.dump(m,open('/verif/seeded/%s/meta.json'%id_,'w'),indent=1)
print('saved /verif/seeded/%s caught_by=%s'%(id_,caught.split()))
PY
