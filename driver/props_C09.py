from props import reg

reg("C09",
    check_imports=["Model.Block", "Model.ForkDB", "Model.Forkable", "Model.Burst", "Model.Hub", "Check.Fk_Check", "Check.Burst_Check", "Check.Hub_Check"],
    case_type="hub_case", verdicts="c09_verdicts", scope="c09_scope",
    property_modules=[], theorems=[],
    proof_files=["Base/Prelude.v", "Model/Block.v", "Model/ForkDB.v", "Model/Forkable.v", "Model/ForkableLookups.v", "Model/Burst.v", "Model/Hub.v",
                 "Spec/Consumer.v", "Spec/Universe.v", "Spec/ForkChoice.v", "Check/Fk_Check.v", "Check/Burst_Check.v", "Check/Hub_Check.v"],
    n_quick=200, n_thorough=8000, n_escalate=2000,
    rule="generated histories split between one-block-file passes and live blocks of a real ForkableHub: the first part of the history is in one-block "
         "files at start, every live block is offered a pass with all blocks arrived so far (30%: files lag by 0-3 blocks, i.e. holes between files and live; "
         "12%: the factory answers 'no source yet'), heights optionally shifted around multiples of 100 (start-block rounding), kept 0-120, first streamable 0-2; "
         "after every live block: IsReady, LowestBlockNum, HeadInfo, SourceFromBlockNum at lowest-1, lowest, head, head+1 and a random height, "
         "SourceFromBlockNumWithForks at a random height, and the events drained from a subscription created at the first ready instant; "
         "non-trivial = at least one request served",
    level_text="Hub snapshots, readiness latch and servable window: Model/Hub.v (bootstrap, ready, lowest, head) + Model/Burst.v are compared with the real "
               "ForkableHub after every live block; the boolean form of the property (canonical chain from n with steps and cursors, nil exactly when n is not a "
               "retained canonical height, lowest servable / lowest-1 not, ready only when the live block links to its declared LIB height, with-forks "
               "snapshot = retained blocks >= n once each in non-decreasing height) is evaluated on the implementation's answers against a never-disconnected subscription.",
    trusted_base=["test source factories stand for the live source and the one-block source (a pass delivers its blocks >= the requested start block in height order, then terminates)",
                  "hub reconnection timer not modelled", "subscription queues are read through the verif hook Subscription.VerifDrain"],
    assumptions=["wf_b universe, lib_ok LIB declarations (consensus-consistent finality is a special case)"])
