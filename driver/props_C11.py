from props import reg

reg("C11",
    check_imports=["Model.FileSeq", "Model.Pipeline", "Spec.C11_Spec", "Check.C10_Check", "Check.C11_Check"],
    case_type="c11_case", verdicts="c11_verdicts",
    property_modules=["Properties.C11"],
    theorems=["c11_returns", "c11_error", "c11_prefix", "c11_bound", "c11_silence",
              "c11_returns_refuted_unfixed", "c11_error_refuted_unfixed"],
    proof_files=["Base/Prelude.v", "Model/FileSeq.v", "Model/Pipeline.v", "Spec/C10_Spec.v", "Spec/C11_Spec.v",
                 "Proofs/FileSeqFacts.v", "Proofs/PipelineDefs.v", "Proofs/PipelineInv.v",
                 "Proofs/PipelineLive.v", "Proofs/C10_Proofs.v", "Proofs/PipelineBound.v", "Proofs/C11_Proofs.v",
                 "Properties/C11.v", "Check/C10_Check.v", "Check/C11_Check.v"],
    codes={1: "model-mismatch", 2: "property-checker-rejects-impl", 3: "mismatch+property",
           4: "run-did-not-return", 5: "handler-called-after-return-or-wrong-cursor"},
    n_quick=1300, n_thorough=9600, n_escalate=2000,
    rule="one fault site per run over generated layouts (bundle size 1-12, 1-3 bundles, skipped numbers, legacy leading "
         "block, start mid-file, any stop block): FileExists failing 1/4 (masked) or 5/7 (persistent) times, OpenObject, "
         "header (bad magic / unsupported version / truncated), each Read incl. the EOF read (storage error at / inside the "
         "message, zero length prefix, oversized length prefix (capped at 1 MiB), truncated message, undecodable bytes; 40 % "
         "with a slow reader.Close()), each preprocessor call, each handler call, failing one-block download / failing listing / damaged one-block file of the forked-blocks store "
         "during cursor resolution (file source from a cursor, directly and through the joining source); sources: file (60 %), joining with a live factory that never yields a source (25 %), stream.New with an "
         "absent hub and real 100-block bundles (7 %), file source from a cursor (8 %); quick tier samples sites with equal "
         "weight per fault type, thorough tier walks every site of every layout; non-trivial = a fault is injected",
    trusted_base=["Go channels (FIFO, close, select), goroutine scheduling and shutter.Shutdown (one atomic step) are modelled "
                  "in Model/Pipeline.v from their documented semantics, not verified",
                  "handler, preprocessor and store calls return (no fault site blocks for ever)",
                  "the position of a damaged-bytes fault (which Read fails) is established by running the real dbin block "
                  "reader alone over the damaged bytes; decoding itself is C16's subject",
                  "joining source and stream wrap the file source sequentially (Spec/C11_Spec.v joining_result / stream_result); "
                  "their own concurrency (live join, Shutdown during the factory call) is C12/C07's subject",
                  "the sharper expectations of Check/C11_Check.v [site_limit] (a site on every run's path always reports its own "
                  "class; deliveries stay before the site) are correspondence expectations derived from the model, not theorems"],
    level_text="Unbounded theorems for every single fault site, with or without an outside Shutdown, and EVERY schedule of the "
               "interleaving model of filesource.go with the two C11 fix patches: c11_returns (deadlock-freedom: a quiescent "
               "state has Run returned unless nothing shut the source down and it legitimately tails; ranking function: every "
               "schedule reaches quiescence under fair continuation), c11_error (Err() is the fault's class, nil of the outside "
               "Shutdown, or the regular end of a complete run), c11_prefix (deliveries are a gap-free prefix of the reference "
               "sequence with the right objects), c11_silence (no handler call after Run returned); c11_*_refuted_unfixed show "
               "that the unfixed code (model flags off) violates c11_returns and c11_error, replayed on the real code by the "
               "corpus. Every run injects faults into the real FileSource / JoiningSource / stream.Stream over in-memory stores.",
    assumptions=["model follows filesource.go with repo_patches/C11_fix_*.diff applied (fixed C)",
                 "single fault site per run; handler / preprocessor / store calls return",
                 "weak fairness: the schedule is continued by fair rounds; shutter.Shutdown atomic"],
    )
