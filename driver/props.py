"""Per-property configuration of the driver."""

TB_COMMON = [
    "Coq 8.16.1 kernel (coqc), vm_compute for evaluating the model and checker; no native_compute",
    "correspondence machinery: Go harness /verif/harness (generators, projection of observables), Python driver /verif/driver",
]

CODES_DEFAULT = {1: "model-mismatch", 2: "property-checker-rejects-impl", 3: "mismatch+property", 4: "impl-panic"}

PROPS = {}


def reg(pid, **kw):
    kw["id"] = pid
    kw.setdefault("codes", CODES_DEFAULT)
    kw.setdefault("n_quick", 600)
    kw.setdefault("n_thorough", 20000)
    kw.setdefault("n_escalate", 6000)
    kw.setdefault("assumptions", [])
    kw.setdefault("trusted_base", [])
    kw.setdefault("partial", [])
    PROPS[pid] = kw


reg("C14",
    check_imports=["Base.Decimal", "Model.CursorCodec", "Check.C14_Check"],
    case_type="c14_case", verdicts="c14_verdicts",
    property_modules=["Properties.C14"],
    theorems=["c14_roundtrip", "c14_layout", "c14_decode_total"],
    proof_files=["Base/Prelude.v", "Base/Decimal.v", "Model/CursorCodec.v", "Spec/C14_Spec.v",
                 "Proofs/PreludeFacts.v", "Proofs/DecimalFacts.v", "Proofs/CursorCodecFacts.v",
                 "Proofs/C14_Proofs.v", "Properties/C14.v", "Check/C14_Check.v"],
    rule="generated cursors (4 steps x 6 aliasing patterns x boundary/random 64-bit heights x id shapes), "
         "mutated cursor texts (segment dropped/added, signs, leading zeros, 2^64, bad prefix, byte flips, truncation), "
         "random bytes, mutated/truncated/random opaque texts; non-trivial = non-empty input; distinct by text",
    trusted_base=["opaque layer (NaCl secretbox + base64, dependency streamingfast/opaque) enters the theorem as Section "
                  "variables oenc/odec with hypothesis odec (oenc s) = Some s; exercised on every generated cursor",
                  "Go fmt %d / strconv.ParseUint / ParseInt / strings.Split are modelled (Base/Decimal.v, Model/CursorCodec.v) "
                  "and compared with the implementation on every case"],
    level_text="Unbounded theorems c14_roundtrip, c14_layout, c14_decode_total (Properties/C14.v, closed under the global "
               "context) about the Gallina model of Cursor.String/FromString incl. decimal print/parse; the model is compared with "
               "the real bstream.Cursor code on generated cursors, mutated texts and foreign opaque strings on every run, and the "
               "boolean form of the property is evaluated on the implementation's own outputs (panic = violation).",
    assumptions=["ids free of ':' and heights < 2^64 (cursor_ok), equal ids imply equal heights (alias_ok) for the unchanged round trip"],
    )


# per-property configuration modules driver/props_Cxx.py register themselves through reg()
import glob as _glob, importlib as _importlib, os as _os
for _f in sorted(_glob.glob(_os.path.join(_os.path.dirname(_os.path.abspath(__file__)), "props_C*.py"))):
    _importlib.import_module(_os.path.basename(_f)[:-3])


# theorem packages: driver/thm_Cxx.json = {"property_modules": [...], "theorems": [...], "proof_files": [...], "partial": [...],
# "level_text_add": "..."} extend the configuration of property Cxx (written by the proof work, merged here)
import json as _json
for _f in sorted(_glob.glob(_os.path.join(_os.path.dirname(_os.path.abspath(__file__)), "thm_C*.json"))):
    _pid = _os.path.basename(_f)[4:-5]
    if _pid not in PROPS:
        continue
    _t = _json.load(open(_f))
    _c = PROPS[_pid]
    _c["property_modules"] = list(_c.get("property_modules", [])) + [m for m in _t.get("property_modules", []) if m not in _c.get("property_modules", [])]
    _c["theorems"] = list(_c.get("theorems", [])) + [m for m in _t.get("theorems", []) if m not in _c.get("theorems", [])]
    _c["proof_files"] = list(_c.get("proof_files", [])) + [m for m in _t.get("proof_files", []) if m not in _c.get("proof_files", [])]
    _c["partial"] = list(_c.get("partial", [])) + _t.get("partial", [])
    if _t.get("thm_scope"):
        _c["thm_scope"] = _t["thm_scope"]
    if _t.get("level_text_add"):
        _c["level_text"] = _c.get("level_text", "") + " " + _t["level_text_add"]
