"""Driver core: build, run the implementation harness, evaluate model + checker inside Coq,
decide the verdict (DESIGN.md 2.4), write evidence and replay files."""
import fnmatch
import hashlib
import json
import os
import re
import shutil
import subprocess
import sys
import time
from concurrent.futures import ThreadPoolExecutor

VERIF = os.path.dirname(os.path.dirname(os.path.abspath(__file__)))
COQ = os.path.join(VERIF, "coq")
HARNESS = os.path.join(VERIF, "harness")
BUILD = os.path.join(VERIF, ".build")
OUT = os.path.join(VERIF, "out")
EVID = os.path.join(VERIF, "evidence")
REPO = os.environ.get("VERIF_REPO", "/repo")

GOENV = dict(os.environ, GOFLAGS="-mod=mod", GOPROXY="off", GOSUMDB="off", GOTOOLCHAIN="local")

SHARD = 400  # cases per coqc invocation


def log(*a):
    print(*a, file=sys.stderr, flush=True)


def sh(cmd, cwd=None, env=None, timeout=None, inp=None):
    p = subprocess.run(cmd, cwd=cwd, env=env, timeout=timeout, input=inp,
                       stdout=subprocess.PIPE, stderr=subprocess.STDOUT, text=True)
    return p.returncode, p.stdout


# ---------------------------------------------------------------- builds

def gen_coqproject():
    """_CoqProject lists every .v file under coq/ (generated; dependency order comes from coqdep)."""
    vs = []
    for d, _, fs in os.walk(COQ):
        for f in fs:
            if f.endswith(".v") and not f.startswith("."):
                vs.append(os.path.relpath(os.path.join(d, f), COQ))
    body = "-Q . BV\n" + "\n".join(sorted(vs)) + "\n"
    p = os.path.join(COQ, "_CoqProject")
    old = open(p).read() if os.path.exists(p) else ""
    if old != body or not os.path.exists(os.path.join(COQ, "Makefile")):
        with open(p, "w") as f:
            f.write(body)
        sh(["coq_makefile", "-f", "_CoqProject", "-o", "Makefile"], cwd=COQ, timeout=120)


def coq_build():
    """Full .vo build of the development (no -vos). Returns (ok, log, failing_file)."""
    gen_coqproject()
    try:
        rc, out = sh(["make", "-j16", "-k"], cwd=COQ, timeout=3000)
    except subprocess.TimeoutExpired:
        return False, "coq build timed out", ["<timeout>"]
    failing = re.findall(r'File "\./([^"]+)", line', out) if rc != 0 else []
    return rc == 0, out, sorted(set(failing))


def harness_build():
    # two checks started at the same time in the same tree must not write go.sum / go.mod / the binary under each other
    # (seen once: four checks in parallel, 'malformed go.sum' reported as a build failure): one build at a time
    os.makedirs(BUILD, exist_ok=True)
    import fcntl
    with open(os.path.join(BUILD, ".harness_build.lock"), "w") as lk:
        fcntl.flock(lk, fcntl.LOCK_EX)
        return _harness_build()


def _harness_build():
    # go.sum must match /repo's (offline: no sum database)
    try:
        src = open(os.path.join(REPO, "go.sum"), "rb").read()
        dst = os.path.join(HARNESS, "go.sum")
        if not os.path.exists(dst) or open(dst, "rb").read() != src:
            tmp = dst + ".tmp%d" % os.getpid()
            open(tmp, "wb").write(src)
            os.replace(tmp, dst)
    except OSError:
        pass
    binp = os.path.join(BUILD, "harness")
    gm = os.path.join(HARNESS, "go.mod")
    txt = open(gm).read()
    new = re.sub(r"replace github.com/streamingfast/bstream => \S+", "replace github.com/streamingfast/bstream => " + REPO, txt)
    if new != txt:
        open(gm, "w").write(new)
    try:
        rc, out = sh(["go", "build", "-tags", "verif", "-o", binp, "."], cwd=HARNESS, env=GOENV, timeout=1200)
    except subprocess.TimeoutExpired:
        return None, "go build timed out"
    if rc != 0:
        return None, out
    return binp, out


def repo_tree_hash():
    rc, out = sh(["git", "-C", REPO, "rev-parse", "HEAD"])
    head = out.strip()
    rc, diff = sh(["git", "-C", REPO, "diff", "HEAD"])
    return head[:12] + ("+dirty:" + hashlib.sha1(diff.encode()).hexdigest()[:10] if diff.strip() else "")


# ---------------------------------------------------------------- harness runs

def run_harness(binp, pid, workdir, seed, n, tier, replay=None, timeout=1800, tag="gen", procs=1):
    """procs > 1: the generated cases are produced by several harness processes in parallel (for
    properties whose cases take wall-clock time); every process derives its cases from seed*1000+i."""
    os.makedirs(workdir, exist_ok=True)
    if procs > 1 and not replay:
        per = (n + procs - 1) // procs
        def one(i):
            return run_harness(binp, pid, workdir, seed * 1000 + i, per, tier, None, timeout, "%s_p%d" % (tag, i), 1)
        allc, logs = [], []
        with ThreadPoolExecutor(max_workers=procs) as ex:
            for cs, o in ex.map(one, range(procs)):
                if cs is None:
                    return None, o
                allc.extend(cs)
                logs.append(o)
        # corpus cases are repeated by every process: keep the first copy
        seen, out = set(), []
        for c in allc:
            if "corpus" in (c.get("tags") or []):
                k = json.dumps(c.get("input"), sort_keys=True)
                if k in seen:
                    continue
                seen.add(k)
            out.append(c)
        for j, c in enumerate(out):
            c["i"] = j
        return out, "\n".join(logs)
    out = os.path.join(workdir, "cases_%s.jsonl" % tag)
    cmd = [binp, pid, "-seed", str(seed), "-n", str(n), "-tier", tier, "-out", out]
    if replay:
        cmd += ["-replay", replay]
    env = dict(GOENV, GOMEMLIMIT="6GiB")
    pre = "ulimit -v 16000000; exec " + " ".join("'%s'" % c for c in cmd)
    try:
        rc, o = sh(["bash", "-c", pre], cwd=workdir, env=env, timeout=timeout)
    except subprocess.TimeoutExpired:
        return None, "harness timed out after %ds" % timeout
    if rc != 0:
        return None, "harness exit %d:\n%s" % (rc, o[-4000:])
    cases = []
    with open(out) as f:
        for line in f:
            cases.append(json.loads(line))
    return cases, o


# ---------------------------------------------------------------- Coq evaluation

def coq_eval(cfg, cases, workdir, tag="gen"):
    """Evaluate verdicts of all cases with vm_compute inside coqc. Returns {index: code}."""
    # shards bounded by case count and by term size (coqc parses ~1 MB/s)
    shards, offsets, cur, size = [], [], [], 0
    for i, c in enumerate(cases):
        if cur and (len(cur) >= SHARD or size + len(c["coq"]) > 1200000):
            shards.append(cur)
            cur, size = [], 0
        if not cur:
            offsets.append(i)
        cur.append(c)
        size += len(c["coq"])
    if cur:
        shards.append(cur)
    results = {}
    errors = []

    def one(k):
        shard = shards[k]
        name = "cases_%s_%s_%d" % (cfg["id"], tag, k)
        path = os.path.join(workdir, name + ".v")
        with open(path, "w") as f:
            f.write("From BV Require Import Base.Prelude %s.\n" % " ".join(cfg["check_imports"]))
            f.write("Local Open Scope N_scope.\n")
            f.write("Definition cases : list %s := [\n" % cfg["case_type"])
            f.write(";\n".join("  (" + c["coq"] + ")" for c in shard))
            f.write("\n].\n")
            f.write("Definition M := Eval vm_compute in %s cases.\nPrint M.\n" % cfg["verdicts"])
            # case_proj: the case type wraps the type the scope predicates speak about (e.g. fk_xcase / x_k)
            proj = cfg.get("case_proj")
            wrap = (lambda sc: "(fun x_ => (%s) (%s x_))" % (sc, proj)) if proj else (lambda sc: sc)
            if cfg.get("scope"):
                f.write("Definition SC := Eval vm_compute in N.of_nat (length (filter %s cases)).\nPrint SC.\n" % wrap(cfg["scope"]))
            if cfg.get("thm_scope"):
                f.write("Definition TSC := Eval vm_compute in N.of_nat (length (filter %s cases)).\nPrint TSC.\n" % wrap(cfg["thm_scope"]))
        try:
            rc, out = sh(["coqc", "-Q", COQ, "BV", path], cwd=workdir, timeout=1800)
        except subprocess.TimeoutExpired:
            return k, None, "coqc timeout on " + path
        if rc != 0:
            return k, None, "coqc failed on %s:\n%s" % (path, out[-3000:])
        m = re.search(r"M\s*=\s*(.*?)\n\s*:\s*list", out, re.S)
        if not m:
            return k, None, "cannot parse coqc output for %s:\n%s" % (path, out[-2000:])
        body = re.sub(r"\s+", "", m.group(1))
        res = {}
        for a, b in re.findall(r"\((\d+),(\d+)\)", body):
            res[int(a)] = int(b)
        ms = re.search(r"(?<![A-Z])SC\s*=\s*(\d+)", out)
        if ms:
            res["scope"] = int(ms.group(1))
        ms = re.search(r"TSC\s*=\s*(\d+)", out)
        if ms:
            res["thm_scope"] = int(ms.group(1))
        for ext in (".vo", ".vok", ".vos", ".glob"):
            try:
                os.remove(os.path.join(workdir, name + ext))
            except OSError:
                pass
        try:
            os.remove(os.path.join(workdir, "." + name + ".aux"))
        except OSError:
            pass
        return k, res, None

    with ThreadPoolExecutor(max_workers=12) as ex:
        for k, res, err in ex.map(one, range(len(shards))):
            if err:
                errors.append(err)
                continue
            for local, code in res.items():
                if local in ("scope", "thm_scope"):
                    results[local] = results.get(local, 0) + code
                else:
                    results[offsets[k] + local] = code
    return results, errors


def print_assumptions(cfg, workdir):
    """Re-runs Print Assumptions for every property theorem of cfg; returns {thm: text}."""
    if not cfg.get("theorems"):
        return {}
    path = os.path.join(workdir, "assum_%s.v" % cfg["id"])
    with open(path, "w") as f:
        f.write("From BV Require Import %s.\n" % " ".join(cfg["property_modules"]))
        for t in cfg["theorems"]:
            f.write('Print Assumptions %s.\n' % t)
    rc, out = sh(["coqc", "-Q", COQ, "BV", path], cwd=workdir, timeout=600)
    if rc != 0:
        return {"<error>": out[-2000:]}
    # split per theorem: outputs come in order
    chunks = re.split(r"(?=Closed under the global context|Axioms:)", out)
    chunks = [c.strip() for c in chunks if c.strip()]
    res = {}
    for t, c in zip(cfg["theorems"], chunks):
        res[t] = c
    return res


def count_obligations(cfg):
    """Counts statements and closed proofs in the .v files serving this property."""
    stmts = 0
    qeds = 0
    bad = []
    files = []
    for rel in cfg["proof_files"]:
        p = os.path.join(COQ, rel)
        if not os.path.exists(p):
            bad.append(rel + " (missing)")
            continue
        vo = p[:-2] + ".vo"
        if not os.path.exists(vo) or os.path.getmtime(vo) < os.path.getmtime(p):
            bad.append(rel + " (not compiled)")
        src = open(p).read()
        src_nc = re.sub(r"\(\*.*?\*\)", "", src, flags=re.S)
        s = len(re.findall(r"^\s*(?:Local\s+|Global\s+)?(Theorem|Lemma|Corollary|Example|Fact|Proposition|Remark|Property)\b", src_nc, re.M))
        # section-local statements proved interactively: `Let H : T.` followed by a proof script
        s += len([m for m in re.finditer(r"^\s*Let\s+\w+\b.*?\.(?=\s)", src_nc, re.M | re.S) if ":=" not in m.group(0)])
        q = len(re.findall(r"\b(Qed|Defined)\.", src_nc))
        if re.search(r"\b(Admitted|admit|Axiom|Parameter|Conjecture)\b|Unset Guard|bypass_check|type-in-type", src_nc):
            bad.append(rel + " (forbidden keyword)")
        stmts += s
        qeds += q
        files.append({"file": rel, "statements": s, "closed": q})
    return stmts, qeds, bad, files


# ---------------------------------------------------------------- known findings

def load_known():
    p = os.path.join(VERIF, "known_findings.json")
    if not os.path.exists(p):
        return []
    return json.load(open(p)).get("findings", [])


def match_known(known, pid, code, cls):
    for k in known:
        if k.get("status") != "known" or k.get("property") != pid:
            continue
        m = k.get("match", {})
        if "codes" in m and code not in m["codes"]:
            continue
        if "class" in m and not fnmatch.fnmatch(cls, m["class"]):
            continue
        return k
    return None
