#!/bin/bash
# usage: seedtest.sh <src dir with patch.diff demo_test.go meta.json> <seed id> <check ids...>
# Confirms a seeded mutant in a scratch worktree (suite passes, demo fails with it and passes without),
# then applies it to /repo, runs the given checks, and restores /repo.
SRC=$1; ID=$2; shift 2
export GOFLAGS=-mod=mod GOPROXY=off GOSUMDB=off GOTOOLCHAIN=local
W=/tmp/sv/repo
rm -rf /tmp/sv; mkdir -p /tmp/sv
git -C /repo worktree add -q --detach $W || exit 2
pkg=$(grep -m1 '^package ' $SRC/demo_test.go | awk '{print $2}')
case "$pkg" in
  forkable|forkable_test) dir=forkable;; hub|hub_test) dir=hub;; stream|stream_test) dir=stream;;
  blockstream|blockstream_test) dir=blockstream;; transform|transform_test) dir=transform;; *) dir=.;;
esac
run=$(grep -o 'func Test[A-Za-z0-9_]*' $SRC/demo_test.go | head -1 | sed 's/func //' | sed 's/_.*/_/')
cd $W
git apply $SRC/patch.diff || { echo "PATCH-FAILS"; git -C /repo worktree remove --force $W; exit 2; }
suite=$(go test -vet=off -count=1 ./... 2>&1 | grep -v '^{"' | grep -c '^FAIL\|^---\|panic')
cp $SRC/demo_test.go $dir/zz_seed_demo_test.go
with=$(go test -vet=off -count=1 -run "$run" ./$dir/ 2>&1 | grep -v '^{"' | tail -1 | awk '{print $1}')
git checkout -q -- .
without=$(go test -vet=off -count=1 -run "$run" ./$dir/ 2>&1 | grep -v '^{"' | tail -1 | awk '{print $1}')
cd /verif
git -C /repo worktree remove --force $W; rm -rf /tmp/sv
echo "confirm: suite_failures=$suite demo_with_mutant=$with demo_without=$without (pkg dir $dir, run $run)"
caught=""
git -C /repo apply $SRC/patch.diff || { echo "cannot apply to /repo"; exit 2; }
for c in "$@"; do
  out=$(./check $c 2>&1 | grep VIOLATION | head -2)
  if [ -n "$out" ]; then caught="$caught $c"; echo "  $c: $(echo "$out" | head -1 | cut -c1-160)"; else echo "  $c: no alarm"; fi
done
git -C /repo checkout -- .
mkdir -p /verif/seeded/$ID
cp $SRC/patch.diff $SRC/demo_test.go /verif/seeded/$ID/
python3 - "$SRC" "$ID" "$suite" "$with" "$without" "$caught" "$*" <<'PY'
import json,sys
src,id_,suite,with_,without,caught,checks=sys.argv[1:8]
m=json.load(open(src+'/meta.json'))
m['confirmed_by_main']={'existing_suite_failures':int(suite),'demo_with_mutant':with_,'demo_without_mutant':without}
m['checks_run']=checks.split()
m['caught_by']=caught.split()
json.dump(m,open('/verif/seeded/%s/meta.json'%id_,'w'),indent=1)
print('saved /verif/seeded/%s caught_by=%s'%(id_,caught.split()))
PY
