#!/bin/bash
# usage: try.sh <diff-file> [suite|nosuite] <prop> [<prop>...]   (extra args via CHECKARGS env)
export GOFLAGS=-mod=mod GOPROXY=off GOSUMDB=off GOTOOLCHAIN=local
V=${V:-/tmp/ag/W3/sub/B/verif}; R=${R:-/tmp/ag/W3/sub/B/repo}
d=$1; shift; s=$1; shift
git -C $R checkout -- . && git -C $R clean -fdq
git -C $R apply $d || { echo APPLY-FAILED; exit 9; }
if [ "$s" = suite ]; then
  (cd $R && go test -vet=off -count=1 -timeout 20m ./... 2>&1 | grep -v '^{"' | grep -E "^(FAIL|ok|---)" | grep -v "^ok" | head -8; echo "   suite done")
fi
for p in "$@"; do
  (cd $V && VERIF_REPO=$R timeout 1500 ./check $p $CHECKARGS 2>&1 | grep -v '^{"' | grep -E "VIOLATION|KNOWN|error|Error|failed" | head -8; echo "== $p exit=${PIPESTATUS[0]}")
  python3 - <<PY
import json
try:
    d=json.load(open("$V/evidence/$p.json"))
    print("   codes:", d.get("verdict_codes") or d.get("codes") or {k:v for k,v in d.items() if 'code' in k or 'violat' in k})
except Exception as e: print("   (no evidence)", e)
PY
done
git -C $R checkout -- . && git -C $R clean -fdq
