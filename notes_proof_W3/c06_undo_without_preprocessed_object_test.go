// package directory: . (repository root)   run: go test -vet=off -count=1 -run TestW3_C06_UndoWithoutPreprocessedObject -v .
package bstream

// W3 / C06 (observation, low): a file source started from a cursor on a forked block is configured with a preprocess
// function (FileSourceWithConcurrentPreprocess).  Every block that comes out of the merged files reaches the handler with
// the preprocessed object behind WrappedObject(); the Undo events, whose blocks are read from one-block files by the
// cursor resolver, reach it with WrappedObject() == nil: the preprocess function is never applied to them.  stream.New
// compensates with a bstream.Preprocessor placed behind the joining source; a direct user of NewFileSourceFromCursor /
// FileSourceFactory.SourceFromCursor does not get that.  The C06 text says nothing about the handler object, the check
// (harness/c06.go, W3) accepts nil for Undo events only.  The test PASSES on the unmodified library.

import (
	"bytes"
	"fmt"
	"testing"
	"time"

	pbbstream "github.com/streamingfast/bstream/pb/sf/bstream/v1"
	"github.com/streamingfast/dstore"
	"go.uber.org/zap"
	"google.golang.org/protobuf/types/known/anypb"
	"google.golang.org/protobuf/types/known/timestamppb"
)

func w3c06blk(id string, num uint64, parent string, lib uint64) *pbbstream.Block {
	return &pbbstream.Block{Id: id, Number: num, ParentId: parent, LibNum: lib, Timestamp: timestamppb.New(time.Unix(1600000000+int64(num), 0)),
		Payload: &anypb.Any{TypeUrl: "type.googleapis.com/sf.bstream.v1.verif", Value: []byte(id)}}
}

func w3c06bytes(t *testing.T, blocks ...*pbbstream.Block) []byte {
	buf := &bytes.Buffer{}
	w, err := NewDBinBlockWriter(buf)
	if err != nil {
		t.Fatal(err)
	}
	for _, b := range blocks {
		if err := w.Write(b); err != nil {
			t.Fatal(err)
		}
	}
	return buf.Bytes()
}

func TestW3_C06_UndoWithoutPreprocessedObject(t *testing.T) {
	saved := GetProtocolFirstStreamableBlock
	GetProtocolFirstStreamableBlock = 1
	defer func() { GetProtocolFirstStreamableBlock = saved }()

	id := func(s string) string { return "00000000000000" + s } // 16 characters: survives TruncateBlockID
	canon := []*pbbstream.Block{
		w3c06blk(id("1a"), 1, id("0a"), 0), w3c06blk(id("2a"), 2, id("1a"), 1), w3c06blk(id("3a"), 3, id("2a"), 1),
		w3c06blk(id("4a"), 4, id("3a"), 2), w3c06blk(id("5a"), 5, id("4a"), 3),
	}
	forked := w3c06blk(id("3b"), 3, id("2a"), 1)
	merged := dstore.NewMockStore(nil)
	merged.SetFile("0000000000", w3c06bytes(t, canon...))
	forkedStore := dstore.NewMockStore(nil)
	forkedStore.SetFile(BlockFileName(forked), w3c06bytes(t, forked))

	cursor := &Cursor{Step: StepNew, Block: forked.AsRef(), HeadBlock: forked.AsRef(), LIB: canon[0].AsRef()}
	var got []string
	h := HandlerFunc(func(blk *pbbstream.Block, obj interface{}) error {
		so := obj.(interface {
			Step() StepType
			WrappedObject() interface{}
		})
		got = append(got, fmt.Sprintf("%s %s obj=%v", so.Step(), blk.Id[14:], so.WrappedObject()))
		return nil
	})
	pre := func(blk *pbbstream.Block) (interface{}, error) { return "pp:" + blk.Id[14:], nil }
	src := NewFileSourceFromCursor(merged, forkedStore, cursor, h, zap.NewNop(),
		FileSourceWithBundleSize(10), FileSourceWithStopBlock(5), FileSourceWithConcurrentPreprocess(pre, 2))
	done := make(chan struct{})
	go func() { src.Run(); close(done) }()
	select {
	case <-done:
	case <-time.After(5 * time.Second):
		t.Fatal("hang")
	}
	t.Logf("final error: %v", src.Err())
	for _, g := range got {
		t.Log(g)
	}
	want := []string{"undo 3b obj=<nil>", "irreversible 2a obj=pp:2a", "new,irreversible 3a obj=pp:3a", "new,irreversible 4a obj=pp:4a", "new,irreversible 5a obj=pp:5a"}
	if fmt.Sprint(got) != fmt.Sprint(want) {
		t.Fatalf("delivery changed:\n got  %v\n want %v", got, want)
	}
	t.Log("OBSERVED: the Undo event carries no preprocessed object; every event out of the merged files carries one")
}
