// package directory: forkable/   run: go test -vet=off -count=1 -run TestW3_C05_ThroughIrreversibleBelowStart -v ./forkable
package forkable

// W3 / C05 (low): the through-cursor burst of a forked cursor announces as Irreversible a block BELOW the start block,
// i.e. a block this consumer was never given (it started at `start`).  The C05 check tolerates exactly this
// (Check/Burst_Check.v c05_answer_ok kind 1: "finality announcements for blocks below the start block ... are ignored";
// DESIGN 8.4 lists it as a corrected false alarm).  The property text says the burst "follows the undo/new and finality
// discipline"; C02's discipline announces finality only for blocks the consumer holds.  The test PASSES on the unmodified
// library and asserts the observed burst.

import (
	"fmt"
	"strings"
	"testing"
	"time"

	"github.com/streamingfast/bstream"
	pbbstream "github.com/streamingfast/bstream/pb/sf/bstream/v1"
	"google.golang.org/protobuf/types/known/timestamppb"
)

func w3blk(id string, num uint64, parent string, lib uint64) *pbbstream.Block {
	return &pbbstream.Block{Id: id, Number: num, ParentId: parent, LibNum: lib, Timestamp: timestamppb.New(time.Unix(1600000000+int64(num), 0))}
}

func TestW3_C05_ThroughIrreversibleBelowStart(t *testing.T) {
	saved := bstream.GetProtocolFirstStreamableBlock
	bstream.GetProtocolFirstStreamableBlock = 1
	defer func() { bstream.GetProtocolFirstStreamableBlock = saved }()

	var live []string
	var cursors = map[string]*bstream.Cursor{}
	h := bstream.HandlerFunc(func(blk *pbbstream.Block, obj interface{}) error {
		fo := obj.(*ForkableObject)
		k := fmt.Sprintf("%s %s", fo.Step(), blk.Id)
		live = append(live, k)
		cursors[k] = fo.Cursor()
		return nil
	})
	p := New(h, HoldBlocksUntilLIB(), WithKeptFinalBlocks(5))
	for _, b := range []*pbbstream.Block{
		w3blk("1a", 1, "0a", 0), w3blk("2a", 2, "1a", 1), w3blk("3a", 3, "2a", 1),
		w3blk("4b", 4, "3a", 1), w3blk("4a", 4, "3a", 1), w3blk("5a", 5, "4a", 2),
	} {
		if err := p.ProcessBlock(b, nil); err != nil {
			t.Fatal(err)
		}
	}
	t.Logf("live stream: %v", live)
	cur := cursors["new 4b"]
	if cur == nil {
		t.Fatalf("no cursor for new 4b in %v", live)
	}
	t.Logf("crash-point cursor: %s", cur)
	if cur.LIB.ID() != "1a" {
		t.Fatalf("cursor LIB %s", cur.LIB)
	}

	// the consumer reconnects with the target cursor {new 4b, LIB 1a} from start block 3 (= the junction 3a; hub LIB = 2a)
	var burst []string
	var irrBelow []string
	err := p.CallWithBlocksThroughCursor(3, cur, func(blocks []*bstream.PreprocessedBlock) {
		for _, pb := range blocks {
			fo := pb.Obj.(*ForkableObject)
			burst = append(burst, fmt.Sprintf("%s %s", fo.Step(), pb.Block.Id))
			if fo.Step() == bstream.StepIrreversible && pb.Block.Number < 3 {
				irrBelow = append(irrBelow, pb.Block.Id)
			}
		}
	})
	if err != nil {
		t.Fatalf("refused: %v", err)
	}
	t.Logf("through-cursor burst from start 3: %v", burst)
	want := "new 3a, new 4b, undo 4b, irreversible 2a, new 4a, new 5a"
	if got := strings.Join(burst, ", "); got != want {
		t.Fatalf("burst changed:\n got  %s\n want %s", got, want)
	}
	if len(irrBelow) != 1 || irrBelow[0] != "2a" {
		t.Fatalf("expected the Irreversible notification of 2a (below start block 3, never delivered to this consumer), got %v", irrBelow)
	}
	t.Logf("OBSERVED: Irreversible announced for %v, a block below the start block that this consumer never received as New", irrBelow)
}
