// package directory: . (repository root, package bstream); run: go test -vet=off -count=1 -run 'TestW3_C17_' .
//
// W3 conclusion / projection audit of C17.  No candidate defect was found: these tests PASS on the unmodified
// library and assert the behaviours the strengthened harness (harness/c17.go) now observes and that ten
// hand-made breaking changes (notes_proof_W3/c17_break_*.diff) violated without being noticed before.
package bstream

import (
	"errors"
	"fmt"
	"strings"
	"testing"
	"time"

	pbbstream "github.com/streamingfast/bstream/pb/sf/bstream/v1"
	"github.com/stretchr/testify/assert"
	"github.com/stretchr/testify/require"
	"google.golang.org/protobuf/proto"
	"google.golang.org/protobuf/types/known/anypb"
	"google.golang.org/protobuf/types/known/timestamppb"
)

func w3Block(id string, num uint64, t time.Time) *pbbstream.Block {
	return &pbbstream.Block{Id: id, Number: num, ParentId: "p" + id, LibNum: 1, Timestamp: timestamppb.New(t),
		PayloadKind: pbbstream.Protocol_ETH, PayloadVersion: 3, PayloadBuffer: []byte("buf-" + id), HeadNum: num + 2, ParentNum: num - 1,
		Payload: &anypb.Any{TypeUrl: "type.googleapis.com/w3.c17", Value: []byte("payload-" + id)}}
}

// "every block after it unchanged": the whole message (payload, deprecated fields, timestamp), the same
// pointer, the same obj (nil and a foreign type included); the handler's error of THIS call is returned.
func TestW3_C17_ForwardedUnchangedAndErrorIdentity(t *testing.T) {
	type rec struct {
		blk *pbbstream.Block
		obj interface{}
	}
	for _, kind := range []string{"num", "id", "realtime", "tripper", "minfilter"} {
		var got []rec
		var errs []error
		h := HandlerFunc(func(b *pbbstream.Block, o interface{}) error {
			got = append(got, rec{b, o})
			e := fmt.Errorf("handler failure %d", len(got))
			errs = append(errs, e)
			return e
		})
		var process func(*pbbstream.Block, interface{}) error
		switch kind {
		case "num":
			process = NewBlockNumGate(3, GateInclusive, h).ProcessBlock
		case "id":
			process = NewBlockIDGate("3a", GateInclusive, h).ProcessBlock
		case "realtime":
			process = NewRealtimeGate(time.Hour, h).ProcessBlock
		case "tripper":
			process = NewRealtimeTripper(time.Hour, func() {}, h).ProcessBlock
		case "minfilter":
			process = NewMinimalBlockNumFilter(3, h).ProcessBlock
		}
		now := time.Now()
		in := []*pbbstream.Block{w3Block("3a", 3, now), w3Block("4a", 4, now), w3Block("5a", 5, now)}
		objs := []interface{}{nil, "not a forkable object", &struct{ X int }{7}}
		for i, b := range in {
			snap := proto.Clone(b)
			err := process(b, objs[i])
			require.Len(t, got, i+1, kind)
			assert.True(t, got[i].blk == b, "%s: same block pointer", kind)
			assert.True(t, got[i].obj == objs[i], "%s: same obj", kind)
			assert.True(t, proto.Equal(b, snap), "%s: block message unchanged", kind)
			assert.True(t, err == errs[i], "%s: the error of this very handler call is returned, got %v", kind, err)
		}
	}
	// gators do not touch the block either
	b := w3Block("3a", 3, time.Now())
	snap := proto.Clone(b)
	assert.True(t, NewTimeThresholdGator(time.Hour).Pass(b))
	assert.True(t, NewBlockNumberGator(3).Pass(b))
	assert.True(t, proto.Equal(b, snap))
}

// an id gate matches the id byte for byte: other letter case, 0x prefix, one character more or less, spaces
// are other blocks (held back, counted against the hold-off limit)
func TestW3_C17_IDGateExactMatch(t *testing.T) {
	var got []string
	h := HandlerFunc(func(b *pbbstream.Block, _ interface{}) error { got = append(got, b.Id); return nil })
	g := NewBlockIDGate("00000004a", GateInclusive, h)
	now := time.Now()
	for _, id := range []string{"00000004A", "0x00000004a", "00000004a ", " 00000004a", "00000004a0", "0000004a", "00000004"} {
		require.NoError(t, g.ProcessBlock(w3Block(id, 4, now), nil))
	}
	assert.Empty(t, got)
	require.NoError(t, g.ProcessBlock(w3Block("00000004a", 4, now), nil))
	require.NoError(t, g.ProcessBlock(w3Block("00000004A", 4, now), nil))
	assert.Equal(t, []string{"00000004a", "00000004A"}, got)
}

// the trip function runs BEFORE the first real-time block is handed on, exactly once
func TestW3_C17_TripperTripsBeforeHandler(t *testing.T) {
	var log []string
	trip := NewRealtimeTripper(time.Second, func() { log = append(log, "trip") },
		HandlerFunc(func(b *pbbstream.Block, _ interface{}) error {
			log = append(log, "handle "+b.Id)
			return errors.New("boom")
		}))
	now := time.Date(2019, time.January, 1, 0, 0, 3, 0, time.UTC)
	trip.nowFunc = func() time.Time { return now }
	trip.ProcessBlock(w3Block("old", 2, now.Add(-time.Second)), nil) // age == tolerance: not real time
	trip.ProcessBlock(w3Block("live", 3, now.Add(-999*time.Millisecond)), nil)
	trip.ProcessBlock(w3Block("next", 4, now), nil)
	assert.Equal(t, "handle old,trip,handle live,handle next", strings.Join(log, ","))
}

// the hold-off failure goes on for as long as the gate is closed (no counter that wraps at 128 or 256),
// and the gate still opens afterwards
func TestW3_C17_HoldOffKeepsFailing(t *testing.T) {
	for _, kind := range []string{"num", "id"} {
		forwarded := 0
		h := HandlerFunc(func(*pbbstream.Block, interface{}) error { forwarded++; return nil })
		var process func(*pbbstream.Block, interface{}) error
		if kind == "num" {
			g := NewBlockNumGate(1_000_000, GateInclusive, h)
			g.MaxHoldOff = 5
			process = g.ProcessBlock
		} else {
			g := NewBlockIDGate("big", GateInclusive, h)
			g.MaxHoldOff = 5
			process = g.ProcessBlock
		}
		now := time.Now()
		for i := 1; i <= 300; i++ {
			err := process(w3Block(fmt.Sprintf("%xa", i), uint64(i), now), nil)
			if i <= 5 {
				assert.NoError(t, err, "%s: held block %d", kind, i)
			} else {
				assert.Error(t, err, "%s: held block %d", kind, i)
			}
		}
		assert.NoError(t, process(w3Block("big", 1_000_000, now), nil))
		assert.Equal(t, 1, forwarded, kind)
	}
}

// the wall-clock gates at the threshold: a block exactly `tolerance` old (or 1 ms older) is not real time,
// a block 10 s younger than the tolerance is
func TestW3_C17_WallClockThreshold(t *testing.T) {
	n := 0
	g := NewRealtimeGate(time.Hour, HandlerFunc(func(*pbbstream.Block, interface{}) error { n++; return nil }))
	gt := NewTimeThresholdGator(time.Hour)
	for _, age := range []time.Duration{time.Hour + 59*time.Second, time.Hour + time.Millisecond, time.Hour} {
		b := w3Block("x", 1, time.Now().Add(-age))
		require.NoError(t, g.ProcessBlock(b, nil))
		assert.False(t, gt.Pass(w3Block("x", 1, time.Now().Add(-age))))
	}
	assert.Equal(t, 0, n)
	require.NoError(t, g.ProcessBlock(w3Block("y", 2, time.Now().Add(-(time.Hour-10*time.Second))), nil))
	assert.Equal(t, 1, n)
	assert.True(t, gt.Pass(w3Block("y", 2, time.Now().Add(-(time.Hour-10*time.Second)))))
}
