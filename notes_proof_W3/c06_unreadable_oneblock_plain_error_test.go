// package directory: . (repository root)   run: go test -vet=off -count=1 -run TestW3_C06_UnreadableOneBlockFile -v .
package bstream

// W3 / C06 (low, borderline outside the quantifier "presence or absence of each needed one-block file"): the needed one-block
// file of the forked cursor block is LISTED in the forked-blocks store but cannot be decoded (0 bytes: e.g. an upload that
// was cut).  The forked block "is not available", the text asks for "the cursor-resolution error"; the file source ends with a
// plain error that does not wrap ErrResolveCursor (stream.Stream.Run then does not turn it into ErrInvalidArg).  Nothing is
// delivered (the safety half holds).  The C06 check only generates absent files.  PASSES on the unmodified library.

import (
	"bytes"
	"errors"
	"testing"
	"time"

	pbbstream "github.com/streamingfast/bstream/pb/sf/bstream/v1"
	"github.com/streamingfast/dstore"
	"go.uber.org/zap"
	"google.golang.org/protobuf/types/known/anypb"
	"google.golang.org/protobuf/types/known/timestamppb"
)

func TestW3_C06_UnreadableOneBlockFile(t *testing.T) {
	id := func(s string) string { return "00000000000000" + s }
	mk := func(i string, num uint64, parent string, lib uint64) *pbbstream.Block {
		return &pbbstream.Block{Id: id(i), Number: num, ParentId: id(parent), LibNum: lib, Timestamp: timestamppb.New(time.Unix(1600000000+int64(num), 0)),
			Payload: &anypb.Any{TypeUrl: "type.googleapis.com/sf.bstream.v1.verif", Value: []byte(i)}}
	}
	canon := []*pbbstream.Block{mk("1a", 1, "0a", 0), mk("2a", 2, "1a", 1), mk("3a", 3, "2a", 1), mk("4a", 4, "3a", 2), mk("5a", 5, "4a", 3)}
	forked := mk("3b", 3, "2a", 1)
	buf := &bytes.Buffer{}
	w, err := NewDBinBlockWriter(buf)
	if err != nil {
		t.Fatal(err)
	}
	for _, b := range canon {
		if err := w.Write(b); err != nil {
			t.Fatal(err)
		}
	}
	merged := dstore.NewMockStore(nil)
	merged.SetFile("0000000000", buf.Bytes())
	forkedStore := dstore.NewMockStore(nil)
	forkedStore.SetFile(BlockFileName(forked), []byte{})

	cursor := &Cursor{Step: StepNew, Block: forked.AsRef(), HeadBlock: forked.AsRef(), LIB: canon[0].AsRef()}
	n := 0
	h := HandlerFunc(func(blk *pbbstream.Block, obj interface{}) error { n++; return nil })
	src := NewFileSourceFromCursor(merged, forkedStore, cursor, h, zap.NewNop(), FileSourceWithBundleSize(10), FileSourceWithStopBlock(5))
	done := make(chan struct{})
	go func() { src.Run(); close(done) }()
	select {
	case <-done:
	case <-time.After(5 * time.Second):
		t.Fatal("hang")
	}
	t.Logf("events delivered: %d; final error: %v; errors.Is(ErrResolveCursor) = %v", n, src.Err(), errors.Is(src.Err(), ErrResolveCursor))
	if n != 0 {
		t.Fatalf("%d events delivered", n)
	}
	if src.Err() == nil || errors.Is(src.Err(), ErrResolveCursor) || errors.Is(src.Err(), ErrStopBlockReached) {
		t.Fatalf("behaviour changed: %v", src.Err())
	}
	t.Log("OBSERVED: a needed forked block that cannot be read ends the source with a plain error, not the cursor-resolution error")
}
