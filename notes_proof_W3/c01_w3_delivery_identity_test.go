// package directory: forkable/ ; run: go test -vet=off -count=1 -run 'TestW3_' ./forkable/
// W3 (C01/C03/C04 audit): behaviours of the unmodified Forkable that the strengthened quick checks now demand and that the
// library's own suite does not pin down (the breaking changes c04_break_cursor_step_of_undo, c01_break_handler_error_not_wrapped,
// c01_break_new_delivers_header_only_copy pass `go test ./...`). Not a defect report: every assertion holds on the unmodified code.
package forkable

import (
	"errors"
	"fmt"
	"testing"

	"github.com/streamingfast/bstream"
	pbbstream "github.com/streamingfast/bstream/pb/sf/bstream/v1"
	"google.golang.org/protobuf/types/known/anypb"
)

type w3Tok struct{ id string }
type w3Ev struct {
	step  bstream.StepType
	id    string
	lib   string
	count int
}

var errW3 = errors.New("w3 handler failure")

func w3Blk(id string, num uint64, parent string, lib uint64) *pbbstream.Block {
	return &pbbstream.Block{Id: id, Number: num, ParentId: parent, LibNum: lib, Payload: &anypb.Any{TypeUrl: "w3", Value: []byte(id)}}
}

// LIB 100#4; a5 b6 c7 d8 on one branch (LIB moves to a5, then b6), then x7 (child of b6), y9: undo d8, c7; new x7, y9
func w3History() []*pbbstream.Block {
	return []*pbbstream.Block{w3Blk("a", 5, "lib", 4), w3Blk("b", 6, "a", 5), w3Blk("c", 7, "b", 5), w3Blk("d", 8, "c", 6),
		w3Blk("x", 7, "b", 5), w3Blk("y", 9, "x", 6), w3Blk("z", 10, "y", 7)}
}

func w3Run(t *testing.T, kept int, filter bstream.StepType, failAt int) ([]w3Ev, error) {
	fed := map[string]*pbbstream.Block{}
	toks := map[string]*w3Tok{}
	var evs []w3Ev
	calls := 0
	h := bstream.HandlerFunc(func(blk *pbbstream.Block, obj interface{}) error {
		fo := obj.(*ForkableObject)
		c := fo.Cursor()
		if c.Step != fo.Step() {
			t.Errorf("cursor step %s, event step %s (block %s)", c.Step, fo.Step(), blk.Id)
		}
		if blk != fed[blk.Id] {
			t.Errorf("delivered block %s is not the object that was fed", blk.Id)
		}
		if fo.Obj != interface{}(toks[blk.Id]) || fo.WrappedObject() != fo.Obj {
			t.Errorf("event of block %s carries another wrapped object", blk.Id)
		}
		if fo.FinalBlockHeight() != c.LIB.Num() {
			t.Errorf("FinalBlockHeight %d, cursor LIB %s", fo.FinalBlockHeight(), c.LIB)
		}
		if fo.StepCount > 0 && (len(fo.StepBlocks) != fo.StepCount || fo.StepBlocks[fo.StepIndex].Block != blk) {
			t.Errorf("StepBlocks of %s: %d entries, count %d, index %d", blk.Id, len(fo.StepBlocks), fo.StepCount, fo.StepIndex)
		}
		evs = append(evs, w3Ev{fo.Step(), blk.Id, c.LIB.ID(), fo.StepCount})
		calls++
		if calls-1 == failAt {
			return errW3
		}
		return nil
	})
	p := New(h, WithExclusiveLIB(bstream.NewBlockRef("lib", 4)), WithFilters(filter), WithKeptFinalBlocks(kept))
	for _, b := range w3History() {
		fed[b.Id] = b
		toks[b.Id] = &w3Tok{b.Id}
		if err := p.ProcessBlock(b, toks[b.Id]); err != nil {
			return evs, err
		}
	}
	return evs, nil
}

func TestW3_DeliveryIdentityAndIndependence(t *testing.T) {
	base, err := w3Run(t, 0, bstream.StepsAll, -1)
	if err != nil {
		t.Fatal(err)
	}
	t.Logf("events: %v", base)
	for _, kept := range []int{1, 4, 9} {
		other, _ := w3Run(t, kept, bstream.StepsAll, -1)
		if fmt.Sprint(other) != fmt.Sprint(base) {
			t.Errorf("kept %d delivers %v, kept 0 delivers %v", kept, other, base)
		}
	}
	// a consumer that filters Irreversible out: the cursor LIB still follows the stream and never goes down
	evs, _ := w3Run(t, 1, bstream.StepNew|bstream.StepUndo, -1)
	t.Logf("filter new|undo: %v", evs)
	// (New z is delivered BEFORE z's own declaration moves the LIB to x: its cursor names b, the LIB that y9 had established)
	if last := evs[len(evs)-1]; last.id != "z" || last.lib != "b" {
		t.Errorf("last event %v, want New z with cursor LIB b", last)
	}
	for i := 1; i < len(evs); i++ {
		if evs[i].lib == "lib" && evs[i-1].lib != "lib" {
			t.Errorf("cursor LIB falls back to the starting LIB at event %d", i)
		}
	}
	// the handler's error VALUE reaches the source from every kind of call (fresh New, undo batch, Irreversible batch)
	for failAt := 0; failAt < len(base); failAt++ {
		got, err := w3Run(t, 1, bstream.StepsAll, failAt)
		if !errors.Is(err, errW3) {
			t.Errorf("handler failing at call %d: returned %v", failAt, err)
		}
		if len(got) != failAt+1 {
			t.Errorf("handler failing at call %d: %d calls made", failAt, len(got))
		}
	}
}
