// package directory: stream ; run: go test -vet=off -count=1 -tags verif -run 'TestW3_C13_' ./stream/
//
// W3 conclusion audit of C07 / C13: what the REAL stream.New(...).Run does at two places where the acceptance condition of the
// check follows the code rather than the sentence of the property.  Both tests PASS on the unmodified library and assert
// what they log; they are candidate observations, not repairs.
//
//  1. C13 "A stream with stop block S ... delivers block S itself when it exists, and then ends": with the default filter the
//     stream ends on the FIRST event of height S.  When the live hub sits on a short-lived fork at that height the consumer is
//     left holding the forked block S' - the canonical block S (which exists, arrives next, and would have come with "undo S'")
//     is never delivered.  (c13_prop accepts any event of height S; the model does the same.)
//  2. C13 "A negative start block resolves to head minus that distance": against a hub that is not ready yet HeadNum() is 0, so
//     start -3 resolves to the first streamable block and the consumer is streamed the whole chain from the first merged file
//     (the C07/C13 generator avoids this combination on purpose: harness/c07.go, "a negative start is resolved against the
//     head of a hub that is not ready (0)").
package stream

import (
	"bytes"
	"context"
	"errors"
	"fmt"
	"sync"
	"testing"
	"time"

	"github.com/streamingfast/bstream"
	"github.com/streamingfast/bstream/hub"
	pbbstream "github.com/streamingfast/bstream/pb/sf/bstream/v1"
	"github.com/streamingfast/dstore"
	"github.com/streamingfast/shutter"
	"github.com/stretchr/testify/require"
	"google.golang.org/protobuf/types/known/anypb"
	"google.golang.org/protobuf/types/known/timestamppb"
)

func w3c13Blk(id string, num uint64, parent string, lib uint64) *pbbstream.Block {
	return &pbbstream.Block{Id: id, Number: num, ParentId: parent, LibNum: lib,
		Timestamp: timestamppb.New(time.Unix(1600000000+int64(num), 0)),
		Payload:   &anypb.Any{TypeUrl: "type.googleapis.com/sf.bstream.v1.verif", Value: []byte(id)}}
}

// canonical block n: id "000000000000000000na", parent n-1, declares n-3 final
func w3c13ID(n uint64, fork string) string { return fmt.Sprintf("%019d%s", n, fork) }
func w3c13Canon(n uint64) *pbbstream.Block {
	lib := uint64(2)
	if n >= 5 {
		lib = n - 3
	}
	return w3c13Blk(w3c13ID(n, "a"), n, w3c13ID(n-1, "a"), lib)
}

type w3c13Pass struct {
	*shutter.Shutter
	blocks []*pbbstream.Block
	h      bstream.Handler
}

func (s *w3c13Pass) Run() {
	for _, b := range s.blocks {
		if err := s.h.ProcessBlock(b, nil); err != nil {
			s.Shutdown(err)
			return
		}
	}
	s.Shutdown(nil)
}

type w3c13Idle struct{ *shutter.Shutter }

func (s *w3c13Idle) Run() { <-s.Terminating() }

// a real ForkableHub whose live handler is handed back to the test; `pass` are the one-block files it bootstraps from
func w3c13Hub(t *testing.T, pass []*pbbstream.Block) (*hub.ForkableHub, bstream.Handler) {
	handlerCh := make(chan bstream.Handler, 1)
	lsf := func(h bstream.Handler) bstream.Source {
		select {
		case handlerCh <- h:
		default:
		}
		return &w3c13Idle{shutter.New()}
	}
	obsf := bstream.SourceFromNumFactory(func(start uint64, h bstream.Handler) bstream.Source {
		var bl []*pbbstream.Block
		for _, b := range pass {
			if b.Number >= start {
				bl = append(bl, b)
			}
		}
		return &w3c13Pass{Shutter: shutter.New(), blocks: bl, h: h}
	})
	fh := hub.NewForkableHub(lsf, obsf, 5)
	go fh.Run()
	select {
	case h := <-handlerCh:
		return fh, h
	case <-time.After(5 * time.Second):
		t.Fatal("hub did not start")
		return nil, nil
	}
}

func w3c13Merged(t *testing.T, bundle uint64, blocks ...*pbbstream.Block) *dstore.MockStore {
	st := dstore.NewMockStore(nil)
	by := map[uint64][]*pbbstream.Block{}
	for _, b := range blocks {
		base := b.Number / bundle * bundle
		by[base] = append(by[base], b)
	}
	for base, bl := range by {
		buf := &bytes.Buffer{}
		w, err := bstream.NewDBinBlockWriter(buf)
		require.NoError(t, err)
		for _, b := range bl {
			require.NoError(t, w.Write(b))
		}
		st.SetFile(fmt.Sprintf("%010d", base), buf.Bytes())
	}
	return st
}

type w3c13Ev struct {
	step bstream.StepType
	id   string
	num  uint64
}

func w3c13Run(t *testing.T, st *Stream, d time.Duration, evs *[]w3c13Ev, mu *sync.Mutex) error {
	ctx, cancel := context.WithTimeout(context.Background(), d)
	defer cancel()
	done := make(chan error, 1)
	go func() { done <- st.Run(ctx) }()
	select {
	case err := <-done:
		return err
	case <-time.After(d + 5*time.Second):
		t.Fatal("Run did not return")
		return nil
	}
}

func TestW3_C13_StopBlockReachedOnAForkBlock(t *testing.T) {
	saved, savedOpts := bstream.GetProtocolFirstStreamableBlock, VerifFileSourceOptions
	bstream.GetProtocolFirstStreamableBlock = 2
	VerifFileSourceOptions = []bstream.FileSourceOption{bstream.FileSourceWithBundleSize(4)}
	defer func() { bstream.GetProtocolFirstStreamableBlock, VerifFileSourceOptions = saved, savedOpts }()

	var pass []*pbbstream.Block
	for n := uint64(2); n <= 7; n++ {
		pass = append(pass, w3c13Canon(n))
	}
	fh, live := w3c13Hub(t, pass)
	defer fh.Shutdown(nil)
	require.NoError(t, live.ProcessBlock(w3c13Canon(8), nil))
	// a short-lived fork block of height 9 arrives BEFORE the canonical block 9
	fork9 := w3c13Blk(w3c13ID(9, "b"), 9, w3c13ID(8, "a"), 6)
	require.NoError(t, live.ProcessBlock(fork9, nil))
	require.True(t, fh.IsReady())

	var mu sync.Mutex
	var evs []w3c13Ev
	h := bstream.HandlerFunc(func(blk *pbbstream.Block, obj interface{}) error {
		mu.Lock()
		evs = append(evs, w3c13Ev{obj.(bstream.Stepable).Step(), blk.Id, blk.Number})
		mu.Unlock()
		return nil
	})
	merged := w3c13Merged(t, 4, w3c13Canon(2), w3c13Canon(3))
	st := New(dstore.NewMockStore(nil), merged, fh, 6, h, WithStopBlock(9))
	done := make(chan error, 1)
	go func() { done <- st.Run(context.Background()) }()

	var err error
	select {
	case err = <-done:
	case <-time.After(5 * time.Second):
		t.Fatal("stream did not end")
	}
	// the canonical blocks 9 and 10 arrive afterwards: the hub undoes 9b, but the stream has ended
	require.NoError(t, live.ProcessBlock(w3c13Canon(9), nil))
	require.NoError(t, live.ProcessBlock(w3c13Canon(10), nil))
	time.Sleep(100 * time.Millisecond)

	mu.Lock()
	defer mu.Unlock()
	t.Logf("delivered: %v, Run error: %v", evs, err)
	require.True(t, errors.Is(err, ErrStopBlockReached))
	require.Equal(t, 4, len(evs))
	last := evs[len(evs)-1]
	require.Equal(t, uint64(9), last.num)
	require.Equal(t, w3c13ID(9, "b"), last.id, "the stream ended on the FORKED block of height 9")
	for _, e := range evs {
		require.NotEqual(t, w3c13ID(9, "a"), e.id, "the canonical block 9 was never delivered")
	}
	// the hub's canonical block of height 9 is 9a now
	require.Equal(t, uint64(10), fh.HeadNum())
}

func TestW3_C13_NegativeStartAgainstAHubThatIsNotReady(t *testing.T) {
	saved, savedOpts := bstream.GetProtocolFirstStreamableBlock, VerifFileSourceOptions
	bstream.GetProtocolFirstStreamableBlock = 2
	VerifFileSourceOptions = []bstream.FileSourceOption{bstream.FileSourceWithBundleSize(4)}
	defer func() { bstream.GetProtocolFirstStreamableBlock, VerifFileSourceOptions = saved, savedOpts }()

	fh, _ := w3c13Hub(t, nil) // running, no live block yet: not ready
	defer fh.Shutdown(nil)
	require.False(t, fh.IsReady())
	require.Equal(t, uint64(0), fh.HeadNum())

	var mergedBlocks []*pbbstream.Block
	for n := uint64(2); n <= 19; n++ {
		mergedBlocks = append(mergedBlocks, w3c13Canon(n))
	}
	merged := w3c13Merged(t, 4, mergedBlocks...)

	var mu sync.Mutex
	var evs []w3c13Ev
	h := bstream.HandlerFunc(func(blk *pbbstream.Block, obj interface{}) error {
		mu.Lock()
		evs = append(evs, w3c13Ev{obj.(bstream.Stepable).Step(), blk.Id, blk.Number})
		mu.Unlock()
		return nil
	})
	// "the last 3 blocks": the chain in the files reaches block 19
	st := New(dstore.NewMockStore(nil), merged, fh, -3, h)
	err := w3c13Run(t, st, 1500*time.Millisecond, &evs, &mu)
	mu.Lock()
	defer mu.Unlock()
	t.Logf("delivered %d events, first %v, last %v, Run error: %v", len(evs), evs[0], evs[len(evs)-1], err)
	require.Equal(t, uint64(2), evs[0].num, "start -3 against a hub without head = the first streamable block")
	require.Equal(t, 18, len(evs), "the whole chain 2..19 was streamed")
}
