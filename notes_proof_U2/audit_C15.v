(* U2 hypothesis audit of C15: necessity witnesses.  Every theorem exhibits a concrete input that
   violates exactly one hypothesis H of a property theorem of Properties/C15.v, keeps the other
   hypotheses, and for which the conclusion of that theorem fails (evaluated on the executable model
   Model/BlockIndex.v). *)
From Coq Require Import Sorted.
From BV Require Import Base.Prelude Model.BlockIndex Spec.C15_Spec Proofs.C15_Proofs.
Local Open Scope N_scope.

Definition c15_ka : str := [97].
Definition c15_ma : str -> bool := key_matches [FExact c15_ka].
Definition c15_enc (kv : kvmap) : kvmap := kv.
Definition c15_dec (kv : kvmap) : option kvmap := Some kv.

Lemma c15_codec_id : codec_ok kvmap c15_enc c15_dec.
Proof. exact codec_id_ok. Qed.

Lemma c15_fed_intro (fd : feed) k n keys : In (keys, n) fd -> In k keys -> fed fd k n.
Proof. intros H1 H2. exists keys. split; assumption. Qed.

(* ------------------------------------------------------------------------------------------ *)
(* c15_indexed_provider, hypothesis feed_ascending: the feed 0, 10, 5, 20 (index size 10).  Block 5
   lands in the file [10,20); the provider asked for [0,10) does not return it. *)
Definition c15_fd_unordered : feed := [([c15_ka], 0); ([c15_ka], 10); ([c15_ka], 5); ([c15_ka], 20)].

Theorem c15_feed_ascending_needed :
  exists ix0 ix' p' r,
    codec_ok kvmap c15_enc c15_dec /\
    ~ feed_ascending c15_fd_unordered /\
    (forall d n, @None N = Some d -> In n (map snd c15_fd_unordered) -> d <= n) /\
    new_indexer [] 10 None = Ok ix0 /\
    indexer_run c15_enc 0 ix0 c15_fd_unordered = Ok ix' /\
    blocks_in_range c15_dec 0 (ix_store ix') [10] c15_ma prov0 0 10 = Ok (p', Some r) /\
    accepted 0 10 None c15_fd_unordered = c15_fd_unordered /\
    (* the conclusion of C15_indexed_provider fails: 5 is in range, fed with a matching key, not returned *)
    ~ (forall n, In n r <->
                 (N.max 0 0 <= n < 0 + 10 /\
                  exists k, c15_ma k = true /\ fed (accepted 0 10 None c15_fd_unordered) k n)).
Proof.
  eexists. eexists. eexists. eexists.
  split; [exact c15_codec_id|].
  split.
  { unfold feed_ascending, asc. cbn. intro H.
    inversion H as [|? ? H1 _]; subst. inversion H1 as [|? ? _ H2]; subst.
    inversion H2 as [|? ? Hlt _]; subst. lia. }
  split; [intros d n Hd; discriminate|].
  split; [reflexivity|].
  split; [vm_compute; reflexivity|].
  split; [vm_compute; reflexivity|].
  split; [reflexivity|].
  intro H. specialize (H 5). destruct H as [_ H].
  assert (Hin : In 5 [0]).
  { apply H. split; [lia|]. exists c15_ka. split; [reflexivity|].
    apply c15_fed_intro with (keys := [c15_ka]); cbn; auto. }
  cbn in Hin. destruct Hin as [Hin|[]]. lia.
Qed.
Print Assumptions c15_feed_ascending_needed.

(* ------------------------------------------------------------------------------------------ *)
(* c15_indexer, hypothesis "a defined start block is not above the blocks fed": defined start 10,
   feed 5, 10, 12, 20.  Block 5 is stored in the file [10,20), which is therefore not exact; no file
   [0,10) is written. *)
Definition c15_fd_below_start : feed := [([c15_ka], 5); ([c15_ka], 10); ([c15_ka], 12); ([c15_ka], 20)].

Theorem c15_defined_start_le_needed :
  exists ix0 ix' f,
    codec_ok kvmap c15_enc c15_dec /\
    feed_ascending c15_fd_below_start /\
    ~ (forall d n, Some 10 = Some d -> In n (map snd c15_fd_below_start) -> d <= n) /\
    new_indexer [] 10 (Some 10) = Ok ix0 /\
    indexer_run c15_enc 0 ix0 c15_fd_below_start = Ok ix' /\
    ix_store ix' = [f] /\
    ~ file_exact kvmap c15_dec (accepted 0 10 (Some 10) c15_fd_below_start) f.
Proof.
  eexists. eexists. eexists.
  split; [exact c15_codec_id|].
  split.
  { unfold feed_ascending, asc. cbn.
    repeat (constructor; [| repeat (constructor; try lia)]). constructor. }
  split.
  { intro H. specialize (H 10 5 eq_refl). cbn in H. assert (10 <= 5) by (apply H; auto). lia. }
  split; [reflexivity|].
  split; [vm_compute; reflexivity|].
  split; [reflexivity|].
  intros [kv [Hdec [_ [_ Hiff]]]]. cbn in Hdec. injection Hdec as <-.
  destruct (Hiff c15_ka 5) as [H _].
  assert (Hr : fed (accepted 0 10 (Some 10) c15_fd_below_start) c15_ka 5 /\ 10 <= 5 < 10 + 10).
  { apply H. exists [5; 10; 12]. split; [reflexivity | cbn; auto]. }
  lia.
Qed.
Print Assumptions c15_defined_start_le_needed.

(* ------------------------------------------------------------------------------------------ *)
(* c15_indexer, hypothesis codec_ok (Section variables enc/dec): a serialisation that loses the
   content. *)
Definition c15_enc_lossy (kv : kvmap) : kvmap := [].
Definition c15_fd_two : feed := [([c15_ka], 0); ([], 10)].

Theorem c15_codec_ok_needed :
  exists ix0 ix' f,
    ~ codec_ok kvmap c15_enc_lossy c15_dec /\
    feed_ascending c15_fd_two /\
    new_indexer [] 10 None = Ok ix0 /\
    indexer_run c15_enc_lossy 0 ix0 c15_fd_two = Ok ix' /\
    ix_store ix' = [f] /\
    ~ file_exact kvmap c15_dec (accepted 0 10 None c15_fd_two) f.
Proof.
  eexists. eexists. eexists.
  split.
  { intro H. destruct (H [(c15_ka, [0])]) as [kv' [Hd [_ Hg]]].
    - cbn. constructor; [intros []| constructor].
    - cbn in Hd. injection Hd as <-. specialize (Hg c15_ka). cbn in Hg. discriminate. }
  split.
  { unfold feed_ascending, asc. cbn. repeat (constructor; try lia). }
  split; [reflexivity|].
  split; [vm_compute; reflexivity|].
  split; [reflexivity|].
  intros [kv [Hdec [_ [_ Hiff]]]]. cbn in Hdec. injection Hdec as <-.
  destruct (Hiff c15_ka 0) as [_ H].
  destruct H as [s [Hs _]].
  { split; [|cbn; lia]. apply c15_fed_intro with (keys := [c15_ka]); cbn; auto. }
  cbn in Hs. discriminate.
Qed.
Print Assumptions c15_codec_ok_needed.

(* ------------------------------------------------------------------------------------------ *)
(* c15_provider, hypothesis store_exact: a store written by two indexers.  The first (size 10) was fed
   the whole chain; the second (size 20, defined start block 0) was fed from block 7 on, so its file
   [0,20) lacks blocks 0 and 3.  With the possible sizes [20; 10] the provider answers from it. *)
Definition c15_chain2 : feed :=
  [([c15_ka], 0); ([c15_ka], 3); ([c15_ka], 7); ([c15_ka], 10); ([c15_ka], 15); ([c15_ka], 20);
   ([c15_ka], 25); ([c15_ka], 30); ([c15_ka], 40)].
Definition c15_store2 : store kvmap :=
  [ mkIdx 20 20 [(c15_ka, [20; 25; 30])]; mkIdx 0 20 [(c15_ka, [7; 10; 15])];
    mkIdx 30 10 [(c15_ka, [30])]; mkIdx 20 10 [(c15_ka, [20; 25])];
    mkIdx 10 10 [(c15_ka, [10; 15])]; mkIdx 0 10 [(c15_ka, [0; 3; 7])] ].

Definition c15_storeof (r : res (indexer kvmap)) : store kvmap :=
  match r with Ok ix => ix_store ix | Panic => [] end.

Theorem c15_store_exact_needed :
  (* the store is what the two indexers write *)
  (exists ixa, new_indexer [] 10 None = Ok ixa /\
     exists ixb, new_indexer (c15_storeof (indexer_run c15_enc 0 ixa c15_chain2)) 20 (Some 0) = Ok ixb /\
       c15_storeof (indexer_run c15_enc 0 ixb (skipn 2 c15_chain2)) = c15_store2) /\
  ~ store_exact kvmap c15_dec c15_chain2 c15_store2 /\
  prov_inv kvmap c15_dec c15_store2 c15_ma prov0 /\
  exists p', blocks_in_range c15_dec 0 c15_store2 [20; 10] c15_ma prov0 0 5 = Ok (p', Some []) /\
  (* the conclusion of C15_provider fails: block 0 was fed with a matching key *)
  ~ (forall n, In n (@nil N) <->
               (N.max 0 0 <= n < 0 + 5 /\ exists k, c15_ma k = true /\ fed c15_chain2 k n)).
Proof.
  split.
  { eexists. split; [reflexivity|]. eexists. split; [vm_compute; reflexivity|]. vm_compute. reflexivity. }
  split.
  { intro H. specialize (H (mkIdx 0 20 [(c15_ka, [7; 10; 15])])).
    destruct H as [kv [Hdec [_ [_ Hiff]]]]; [cbn; auto|].
    cbn in Hdec. injection Hdec as <-.
    destruct (Hiff c15_ka 0) as [_ H]. destruct H as [s [Hs Hin]].
    { split; [|cbn; lia]. apply c15_fed_intro with (keys := [c15_ka]); cbn; auto. }
    cbn in Hs. injection Hs as <-. cbn in Hin. intuition lia. }
  split; [left; split; reflexivity|].
  eexists. split; [vm_compute; reflexivity|].
  intro H. destruct (H 0) as [_ H0]. apply H0. split; [lia|].
  exists c15_ka. split; [reflexivity|]. apply c15_fed_intro with (keys := [c15_ka]); cbn; auto.
Qed.
Print Assumptions c15_store_exact_needed.

(* ------------------------------------------------------------------------------------------ *)
(* c15_provider, hypothesis prov_inv: a cache that does not come from the store. *)
Theorem c15_prov_inv_needed :
  let p := mkProv 0 10 [3] in
  store_exact kvmap c15_dec [] [] /\
  ~ prov_inv kvmap c15_dec [] c15_ma p /\
  blocks_in_range c15_dec 0 [] [10] c15_ma p 0 5 = Ok (p, Some [3]) /\
  ~ (forall n, In n [3] <-> (N.max 0 0 <= n < 0 + 5 /\ exists k, c15_ma k = true /\ fed [] k n)).
Proof.
  cbn zeta. split; [intros f []|].
  split.
  { intros [[_ H]|[f [kv [[] _]]]]. cbn in H. discriminate. }
  split; [vm_compute; reflexivity|].
  intro H. destruct (H 3) as [H3 _]. destruct H3 as [_ [k [_ [keys [[] _]]]]]. cbn. auto.
Qed.
Print Assumptions c15_prov_inv_needed.

(* ------------------------------------------------------------------------------------------ *)
(* The file source.  Chains are lists of numbers cut into bundle files of size 5. *)
Definition c15_blocks_of (chain : list N) (b : N) : list N :=
  filter (fun n => (b <=? n) && (n <? b + 5)) chain.
Definition c15_exists_of (chain : list N) (b : N) : bool :=
  match c15_blocks_of chain b with [] => false | _ => true end.
Definition c15_inb (M : list N) (base : N) : list N :=
  filter (fun n => (base <=? n) && (n <? base + 5)) M.
(* a provider that covers the bundles below lim and answers with the elements of M *)
Definition c15_q (M : list N) (lim : N) (ps : unit) (base : N) : unit * option (list N) :=
  (tt, if base <? lim then Some (c15_inb M base) else None).

Lemma c15_asc_filter (f : N -> bool) l : asc l -> asc (filter f l).
Proof.
  unfold asc. induction 1 as [|a l Hs IH Hf]; cbn; [constructor|].
  destruct (f a); [|exact IH]. constructor; [exact IH|].
  rewrite Forall_forall in *. intros x Hx. apply filter_In in Hx as [Hx _]. auto.
Qed.

Lemma c15_q_provider_ok M lim : asc M ->
  provider_ok unit (c15_q M lim) 5 (fun _ => True) (fun n => In n M).
Proof.
  intros HM ps base _ _. split; [exact I|]. unfold c15_q. cbn [snd].
  destruct (base <? lim); [|exact I]. split; [apply c15_asc_filter; exact HM|].
  intro n. unfold c15_inb. rewrite filter_In, andb_true_iff, N.leb_le, N.ltb_lt. tauto.
Qed.

Lemma c15_chain_ok chain : asc chain -> chain_ok 5 (c15_blocks_of chain).
Proof.
  intros Hc b _. split; [apply c15_asc_filter; exact Hc|].
  intros n Hn. apply filter_In in Hn as [_ Hn]. rewrite andb_true_iff, N.leb_le, N.ltb_lt in Hn. exact Hn.
Qed.

Ltac c15_asc := unfold asc; repeat (constructor; try lia).

(* hypothesis "matches are numbers of existing blocks" (on_chain m in C15_stream_complete): the index
   holds the number 9, the chain skips 9, the next existing block 10 lies in the next bundle file.
   Neither 9 nor 10 is delivered (PassesFilter works per bundle file), whereas with the skipped
   number 7 the next existing block 8 of the same bundle is delivered. *)
Definition c15_chain_skip9 : list N := [0; 1; 2; 3; 4; 5; 6; 7; 8; 10; 11; 12; 13; 14; 15; 16].
Definition c15_chain_skip7 : list N := [0; 1; 2; 3; 4; 5; 6; 8; 9; 10; 11; 12; 13; 14; 15; 16].

Theorem c15_match_on_chain_needed :
  5 <> 0 /\
  provider_ok unit (c15_q [9] 100) 5 (fun _ => True) (fun n => In n [9]) /\
  chain_ok 5 (c15_blocks_of c15_chain_skip9) /\
  file_source_run unit (c15_q [9] 100) 0 16 5 (fun _ => false)
    (c15_exists_of c15_chain_skip9) (c15_blocks_of c15_chain_skip9) 20 20 (Some tt) [] = ([0; 16], EStop) /\
  (* 9 is a match between start and stop that the run got to, it is not on the chain, the next
     existing block is 10, and 10 is not delivered *)
  In 9 [9] /\ 0 <= 9 <= 16 /\ reached 16 5 EStop 9 /\
  ~ on_chain 5 (c15_blocks_of c15_chain_skip9) 9 /\
  on_chain 5 (c15_blocks_of c15_chain_skip9) 10 /\ ~ In 10 [0; 16] /\
  (* the same with the next existing block in the same bundle: delivered *)
  file_source_run unit (c15_q [7] 100) 0 16 5 (fun _ => false)
    (c15_exists_of c15_chain_skip7) (c15_blocks_of c15_chain_skip7) 20 20 (Some tt) [] = ([0; 8; 16], EStop).
Proof.
  split; [lia|].
  split; [apply c15_q_provider_ok; c15_asc|].
  split; [apply c15_chain_ok; c15_asc|].
  split; [vm_compute; reflexivity|].
  split; [cbn; auto|]. split; [lia|].
  split; [unfold reached; vm_compute; discriminate|].
  split; [unfold on_chain; vm_compute; intuition discriminate|].
  split; [unfold on_chain; vm_compute; auto 10|].
  split; [cbn; intuition lia|].
  vm_compute; reflexivity.
Qed.
Print Assumptions c15_match_on_chain_needed.

(* hypothesis "the provider's answer is ascending" (asc r in provider_ok): a provider answering [8; 6]
   for the bundle [5,10): the match 6 is lost. *)
Definition c15_chain_0_20 : list N := [0; 1; 2; 3; 4; 5; 6; 7; 8; 9; 10; 11; 12; 13; 14; 15; 16; 17; 18; 19; 20].
Definition c15_q_unsorted (ps : unit) (base : N) : unit * option (list N) :=
  (tt, if base =? 5 then Some [8; 6] else Some []).

Theorem c15_provider_ascending_needed :
  (* the answers are the matches of the bundle, but not in ascending order *)
  (forall ps base, base mod 5 = 0 ->
     match snd (c15_q_unsorted ps base) with
     | None => True
     | Some r => forall n, In n r <-> (In n [6; 8] /\ base <= n < base + 5)
     end) /\
  ~ provider_ok unit c15_q_unsorted 5 (fun _ => True) (fun n => In n [6; 8]) /\
  chain_ok 5 (c15_blocks_of c15_chain_0_20) /\
  file_source_run unit c15_q_unsorted 0 19 5 (fun _ => false)
    (c15_exists_of c15_chain_0_20) (c15_blocks_of c15_chain_0_20) 20 20 (Some tt) [] = ([0; 8; 19], EStop) /\
  (* the conclusion of C15_stream_complete fails for the match 6 *)
  In 6 [6; 8] /\ on_chain 5 (c15_blocks_of c15_chain_0_20) 6 /\ 0 <= 6 <= 19 /\ reached 19 5 EStop 6 /\
  ~ In 6 [0; 8; 19].
Proof.
  split.
  { intros ps base Hb. unfold c15_q_unsorted. cbn [snd]. destruct (base =? 5) eqn:E.
    - apply N.eqb_eq in E. subst. intro n. cbn. intuition lia.
    - apply N.eqb_neq in E. intro n. cbn. split; [tauto|]. intros [[H|[H|[]]] Hr]; subst.
      + assert (base = 5) by (apply N.mod_divides in Hb; [destruct Hb as [c Hc]; lia | lia]). contradiction.
      + assert (base = 5) by (apply N.mod_divides in Hb; [destruct Hb as [c Hc]; lia | lia]). contradiction. }
  split.
  { intro H. destruct (H tt 5 I eq_refl) as [_ H5]. cbn in H5. destruct H5 as [Hasc _].
    unfold asc in Hasc. inversion Hasc as [|? ? _ Hf]; subst. inversion Hf; subst. lia. }
  split; [apply c15_chain_ok; c15_asc|].
  split; [vm_compute; reflexivity|].
  split; [cbn; auto|].
  split; [unfold on_chain; vm_compute; auto 10|].
  split; [lia|].
  split; [unfold reached; vm_compute; discriminate|].
  cbn; intuition lia.
Qed.
Print Assumptions c15_provider_ascending_needed.

(* hypothesis chain_ok: a bundle file whose blocks are not in ascending order (no index at all) *)
Theorem c15_chain_ok_needed :
  let blocks := fun b : N => if b =? 0 then [1; 3; 2] else [] in
  let ex := fun b : N => b =? 0 in
  provider_ok unit (c15_q [] 0) 5 (fun _ => True) (fun n => In n []) /\
  ~ chain_ok 5 blocks /\
  file_source_run unit (c15_q [] 0) 0 4 5 (fun _ => false) ex blocks 5 5 (Some tt) [] = ([1; 3; 2], EStop) /\
  ~ asc [1; 3; 2].
Proof.
  cbn zeta. split; [apply c15_q_provider_ok; c15_asc|].
  split.
  { intro H. destruct (H 0 eq_refl) as [Ha _]. cbn in Ha. unfold asc in Ha.
    inversion Ha as [|? ? H1 _]; subst. inversion H1 as [|? ? _ Hf]; subst. inversion Hf; subst. lia. }
  split; [vm_compute; reflexivity|].
  unfold asc. intro Ha. inversion Ha as [|? ? H1 _]; subst. inversion H1 as [|? ? _ Hf]; subst.
  inversion Hf; subst. lia.
Qed.
Print Assumptions c15_chain_ok_needed.

(* C15_stream_tight, hypothesis "stop = 0 or start <= stop": start 12, stop 3, the index covers every
   bundle.  The provider is dropped at once and the start bundle is read entirely: 13 is delivered
   and is not the next existing block of any wanted number. *)
Definition c15_wanted_for (blocks : N -> list N) (start stop : N) (M wl : list N) (prog : N -> bool) (x : N) : Prop :=
  exists w, next_existing start 5 blocks w x /\
            (In w M \/ w = start \/ (stop <> 0 /\ w = stop) \/ In w wl \/
             (w = low_boundary x 5 /\ prog w = true)).

Theorem c15_start_le_stop_needed :
  provider_ok unit (c15_q [2] 100) 5 (fun _ => True) (fun n => In n [2]) /\
  chain_ok 5 (c15_blocks_of c15_chain_0_20) /\
  ~ (3 = 0 \/ 12 <= 3) /\
  file_source_run unit (c15_q [2] 100) 12 3 5 (fun _ => false)
    (c15_exists_of c15_chain_0_20) (c15_blocks_of c15_chain_0_20) 20 20 (Some tt) [] = ([12; 13; 14], EStop) /\
  (* every bundle up to the one after 13's is covered *)
  (forall b', b' mod 5 = 0 -> b' <= 15 -> covered unit (c15_q [2] 100) (fun _ => True) b') /\
  ~ c15_wanted_for (c15_blocks_of c15_chain_0_20) 12 3 [2] [] (fun _ => false) 13.
Proof.
  split; [apply c15_q_provider_ok; c15_asc|].
  split; [apply c15_chain_ok; c15_asc|].
  split; [lia|].
  split; [vm_compute; reflexivity|].
  split.
  { intros b' _ Hb ps _. unfold c15_q. cbn [snd]. destruct (b' <? 100) eqn:E; [discriminate|].
    apply N.ltb_ge in E. lia. }
  intros [w [[[_ Hwx] Hmin] Hw]].
  assert (H12 : w <= 12 -> 13 <= 12).
  { intro Hle. apply Hmin; [vm_compute; auto 10 | lia | exact Hle]. }
  destruct Hw as [Hw|[Hw|[[_ Hw]|[[]|[_ Hw]]]]]; try discriminate.
  - cbn in Hw. destruct Hw as [Hw|[]]. lia.
  - lia.
  - lia.
Qed.
Print Assumptions c15_start_le_stop_needed.

(* C15_stream_tight, hypothesis "the bundle after x's is covered": the index covers [0,30), the merged
   files end at block 29.  The bundle [25,30) holds no match, is covered, and is the last available
   one: it is read entirely. *)
Definition c15_chain_0_29 : list N :=
  [0; 1; 2; 3; 4; 5; 6; 7; 8; 9; 10; 11; 12; 13; 14; 15; 16; 17; 18; 19; 20; 21; 22; 23; 24; 25; 26; 27; 28; 29].

Theorem c15_next_bundle_covered_needed :
  provider_ok unit (c15_q [2; 22] 30) 5 (fun _ => True) (fun n => In n [2; 22]) /\
  chain_ok 5 (c15_blocks_of c15_chain_0_29) /\
  file_source_run unit (c15_q [2; 22] 30) 0 0 5 (fun _ => false)
    (c15_exists_of c15_chain_0_29) (c15_blocks_of c15_chain_0_29) 20 20 (Some tt) []
    = ([0; 2; 22; 25; 26; 27; 28; 29], EWait 30) /\
  (* every bundle from the start to 26's own bundle is covered, the next one is not *)
  (forall b', b' mod 5 = 0 -> b' <= 25 -> covered unit (c15_q [2; 22] 30) (fun _ => True) b') /\
  uncovered unit (c15_q [2; 22] 30) (fun _ => True) 30 /\
  ~ c15_wanted_for (c15_blocks_of c15_chain_0_29) 0 0 [2; 22] [] (fun _ => false) 26.
Proof.
  split; [apply c15_q_provider_ok; c15_asc|].
  split; [apply c15_chain_ok; c15_asc|].
  split; [vm_compute; reflexivity|].
  split.
  { intros b' Hm Hb ps _. unfold c15_q. cbn [snd]. destruct (b' <? 30) eqn:E; [discriminate|].
    apply N.ltb_ge in E. lia. }
  split; [intros ps _; reflexivity|].
  intros [w [[[Hlow Hwx] Hmin] Hw]].
  assert (Hlb : low_boundary 26 5 = 25) by reflexivity. rewrite Hlb in *.
  assert (H25 : w <= 25 -> 26 <= 25).
  { intro Hle. apply Hmin; [vm_compute; auto 10 | lia | exact Hle]. }
  destruct Hw as [Hw|[Hw|[[Hw _]|[[]|[_ Hw]]]]]; try discriminate; try lia.
  cbn in Hw. destruct Hw as [Hw|[Hw|[]]]; lia.
Qed.
Print Assumptions c15_next_bundle_covered_needed.

(* C15_stream_tight, hypothesis "every bundle from the start bundle on is covered": an index with a hole
   at [5,10).  The provider is dropped for good at the hole; the bundle [10,15), which the index covers
   (as it does the following one), is delivered entirely. *)
Definition c15_q_hole (M : list N) (ps : unit) (base : N) : unit * option (list N) :=
  (tt, if base =? 5 then None else Some (c15_inb M base)).

Theorem c15_covered_from_start_needed :
  provider_ok unit (c15_q_hole [2; 12]) 5 (fun _ => True) (fun n => In n [2; 12]) /\
  chain_ok 5 (c15_blocks_of c15_chain_0_20) /\
  file_source_run unit (c15_q_hole [2; 12]) 0 19 5 (fun _ => false)
    (c15_exists_of c15_chain_0_20) (c15_blocks_of c15_chain_0_20) 20 20 (Some tt) []
    = ([0; 2; 5; 6; 7; 8; 9; 10; 11; 12; 13; 14; 15; 16; 17; 18; 19], EStop) /\
  uncovered unit (c15_q_hole [2; 12]) (fun _ => True) 5 /\
  covered unit (c15_q_hole [2; 12]) (fun _ => True) 10 /\
  covered unit (c15_q_hole [2; 12]) (fun _ => True) 15 /\
  ~ c15_wanted_for (c15_blocks_of c15_chain_0_20) 0 19 [2; 12] [] (fun _ => false) 13.
Proof.
  split.
  { intros ps base _ _. split; [exact I|]. unfold c15_q_hole. cbn [snd].
    destruct (base =? 5); [exact I|]. split; [apply c15_asc_filter; c15_asc|].
    intro n. unfold c15_inb. rewrite filter_In, andb_true_iff, N.leb_le, N.ltb_lt. tauto. }
  split; [apply c15_chain_ok; c15_asc|].
  split; [vm_compute; reflexivity|].
  split; [intros ps _; reflexivity|].
  split; [intros ps _; discriminate|].
  split; [intros ps _; discriminate|].
  intros [w [[[Hlow Hwx] Hmin] Hw]].
  assert (Hlb : low_boundary 13 5 = 10) by reflexivity. rewrite Hlb in *.
  assert (H12 : w <= 12 -> 13 <= 12).
  { intro Hle. apply Hmin; [vm_compute; auto 10 | lia | exact Hle]. }
  destruct Hw as [Hw|[Hw|[[_ Hw]|[[]|[_ Hw]]]]]; try discriminate; try lia.
  cbn in Hw. destruct Hw as [Hw|[Hw|[]]]; lia.
Qed.
Print Assumptions c15_covered_from_start_needed.
