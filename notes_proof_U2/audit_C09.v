(* U2 hypothesis audit of C09: necessity witnesses for the hypotheses of the C09 property theorems
   (Spec/C09_Spec.v, Spec/C09_History_Spec.v).  Every theorem is closed (vm_compute on concrete inputs plus a few
   lines of destructuring); none of the violating inputs lies inside C09's quantifier except the last section, which is
   not a necessity witness but a concrete run showing what the readiness clause does NOT say. *)
From Coq Require Import Sorted Permutation.
From BV Require Import Base.Prelude Model.Block Model.ForkDB Model.Forkable Model.ForkableLookups
  Model.Burst Model.Hub Spec.Consumer Spec.Universe Check.Fk_Check Check.Burst_Check Spec.C09_Spec Spec.C09_History_Spec Proofs.C09_Store.
Local Open Scope N_scope.

(* ------------------------------------------------------------------ helpers *)

Definition c09_E (i n p : N) : entry := mkEntry (mkBlock i n p 0) true.
Definition c09_st (l : list entry) (ex : option ref) (lib : ref) (hd : option block) : fstate :=
  mkFS (mkDB l ex lib) hd lib 0.

Lemma c09_split_In : forall (sg pre suf : list seg) (x : seg), sg = pre ++ x :: suf -> In x sg.
Proof. intros sg pre suf x ->. apply in_or_app. right. left. reflexivity. Qed.

(* ------------------------------------------------------------------ wf_universe (c09_wf_reachable, c09_hub_snapshots) *)

(* wu_parent: block 13 carries the same number as its parent 12 *)
Definition c09_e1 := mkBlock 11 1 10 0.
Definition c09_e2 := mkBlock 12 2 11 1.
Definition c09_e3 := mkBlock 13 2 12 1.
Definition c09_e4 := mkBlock 14 3 13 2.
Definition c09_e5 := mkBlock 15 4 14 2.
Definition c09_Ue := [c09_e1; c09_e2; c09_e3; c09_e4; c09_e5].
Definition c09_le := [(c09_e4, PBlocks [c09_e1; c09_e2; c09_e3]); (c09_e5, PNil)].
Definition c09_he := hub_run 1 5 hub_init c09_le.

(* every clause of wf_universe except wu_parent holds for c09_Ue; the hub is ready; the reached state is not well
   formed and the request at 2 is answered with TWO blocks numbered 2 (12 and 13): from_num_spec fails *)
Theorem c09_wu_parent_needed :
  (forall a b, In a c09_Ue -> In b c09_Ue -> bid a = bid b -> a = b) /\
  (forall b, In b c09_Ue -> bid b <> 0) /\
  (forall b p, In (b, p) c09_le -> In b c09_Ue /\ pass_in c09_Ue p) /\
  h_ready c09_he = true /\
  ~ wf_state (h_f c09_he) /\
  ~ from_num_spec (h_f c09_he) 2.
Proof.
  split; [|split; [|split; [|split; [|split]]]].
  - intros a b Ha Hb H. cbn in Ha, Hb.
    destruct Ha as [<-|[<-|[<-|[<-|[<-|[]]]]]]; destruct Hb as [<-|[<-|[<-|[<-|[<-|[]]]]]];
      try reflexivity; vm_compute in H; discriminate H.
  - intros b Hb. cbn in Hb. destruct Hb as [<-|[<-|[<-|[<-|[<-|[]]]]]]; vm_compute; discriminate.
  - intros b p H. cbn in H. destruct H as [H|[H|[]]]; inversion H; subst; split; cbn; try tauto.
    all: intros b' Hb'; cbn in Hb'; tauto.
  - vm_compute. reflexivity.
  - intros [[[_ _ Hp] _] _].
    specialize (Hp (nth 2 (store (db (h_f c09_he))) (c09_E 0 0 0)) (nth 1 (store (db (h_f c09_he))) (c09_E 0 0 0))).
    vm_compute in Hp.
    assert (H : (2 ?= 2) = Lt) by (apply Hp; [right; right; left; reflexivity | right; left; reflexivity | reflexivity]).
    discriminate H.
  - unfold from_num_spec.
    destruct (blocks_from_num (h_f c09_he) 2) eqn:Hb; try (vm_compute in Hb; discriminate Hb).
    intros (hd & sg & pre & x & suf & (_ & Hls & Hcs & Hsg & Hn & Hpre & Hsuf) & _ & _).
    vm_compute in Hls. injection Hls as <-.
    vm_compute in Hcs. injection Hcs as <-.
    (* the first element numbered 2 is 12, so 13 (also numbered 2) is in suf *)
    destruct pre as [|p0 [|p1 pre]]; cbn in Hsg.
    + injection Hsg as <- _. vm_compute in Hn. discriminate Hn.
    + injection Hsg as <- <- Hs. subst suf.
      specialize (Hsuf _ (or_introl eq_refl)). vm_compute in Hsuf. discriminate Hsuf.
    + injection Hsg as <- <- _.
      specialize (Hpre _ (or_intror (or_introl eq_refl))). vm_compute in Hpre. discriminate Hpre.
Qed.
Print Assumptions c09_wu_parent_needed.

(* ------------------------------------------------------------------ wf_state (c09_from_num, c09_head_segment, c09_fuel_sufficient) *)

(* wfs_parent: a parent cycle 11 <-> 12; CompleteSegment runs out of fuel, the answer is BFuel *)
Definition c09_s_cyc := c09_st [c09_E 11 1 12; c09_E 12 2 11] None (mkR 11 1) (Some (mkBlock 12 2 11 0)).

Theorem c09_wfs_parent_needed :
  NoDup (map key (store (db c09_s_cyc))) /\ (forall e, In e (store (db c09_s_cyc)) -> key e <> 0) /\ extra_ok (db c09_s_cyc) /\
  (forall hd e, last_sent c09_s_cyc = Some hd -> find (bid hd) (store (db c09_s_cyc)) = Some e -> bnum (eb e) = bnum hd) /\
  complete_segment (db c09_s_cyc) (mkR 12 2) = None /\        (* c09_fuel_sufficient, c09_segment_chain part 3 *)
  ~ from_num_spec c09_s_cyc 1.                                 (* c09_from_num *)
Proof.
  split; [|split; [|split; [|split; [|split]]]].
  - apply nodup_b_sound. vm_compute. reflexivity.
  - intros e He. cbn in He. destruct He as [<-|[<-|[]]]; vm_compute; discriminate.
  - intros r Hr. vm_compute in Hr. discriminate Hr.
  - intros hd e Hls Hf. vm_compute in Hls. injection Hls as <-. vm_compute in Hf. injection Hf as <-. reflexivity.
  - vm_compute. reflexivity.
  - intro H. vm_compute in H. exact H.
Qed.
Print Assumptions c09_wfs_parent_needed.

(* wst_head: the head (lastBlockSent) carries number 7 while its stored entry carries 2: the request at 7 is served
   with a block numbered 2 *)
Definition c09_s_hd := c09_st [c09_E 11 1 10; c09_E 12 2 11] None (mkR 11 1) (Some (mkBlock 12 7 11 0)).

Theorem c09_wst_head_needed :
  wf_db (db c09_s_hd) /\ ~ from_num_spec c09_s_hd 7.
Proof.
  split.
  - split; [apply wf_store_b_sound; vm_compute; reflexivity | intros r Hr; vm_compute in Hr; discriminate Hr].
  - unfold from_num_spec.
    destruct (blocks_from_num c09_s_hd 7) eqn:Hb; try (vm_compute in Hb; discriminate Hb).
    intros (hd & sg & pre & x & suf & (_ & Hls & Hcs & Hsg & Hn & _ & _) & _ & _).
    vm_compute in Hls. injection Hls as <-.
    vm_compute in Hcs. injection Hcs as <-.
    apply c09_split_In in Hsg. cbn in Hsg. destruct Hsg as [<-|[<-|[]]]; vm_compute in Hn; discriminate Hn.
Qed.
Print Assumptions c09_wst_head_needed.

(* extra_ok (c09_linkable, c09_fuel_sufficient): the number InitLIB registers under the EMPTY id; the walk of
   BlockInCurrentChain spins on id 0 (the Go loop would not terminate) *)
Definition c09_s_ex := c09_st [c09_E 11 3 0; c09_E 12 4 11] (Some (mkR 0 5)) (mkR 11 1) (Some (mkBlock 12 4 11 0)).

Theorem c09_extra_ok_needed :
  wf_store (store (db c09_s_ex)) /\
  block_in_chain (db c09_s_ex) (mkR 12 4) 1 = None /\
  ~ (linkable c09_s_ex (mkBlock 12 4 11 1) = Some true \/ linkable c09_s_ex (mkBlock 12 4 11 1) = Some false).
Proof.
  split; [apply wf_store_b_sound; vm_compute; reflexivity|].
  split; [vm_compute; reflexivity|].
  intros [H|H]; vm_compute in H; discriminate H.
Qed.
Print Assumptions c09_extra_ok_needed.

(* wfs_nodup (last clause of c09_with_forks): two entries under id 12 *)
Definition c09_s_dup := c09_st [c09_E 12 2 11; c09_E 11 1 10; c09_E 12 5 11] None (mkR 11 1) (Some (mkBlock 12 2 11 0)).

Theorem c09_wfs_nodup_needed :
  has_lib (db c09_s_dup) = true /\
  exists l, blocks_from_num_with_forks c09_s_dup 0 = Some l /\ ~ NoDup (map bid l).
Proof.
  split; [vm_compute; reflexivity|].
  eexists. split; [vm_compute; reflexivity|].
  intro H. cbn in H. inversion H as [|? ? _ H1]; subst. inversion H1 as [|? ? Hn _]; subst.
  apply Hn. left. reflexivity.
Qed.
Print Assumptions c09_wfs_nodup_needed.

(* fits (c09_wf_preserved): adding block 11 numbered 5 under its stored child 12 numbered 2 *)
Definition c09_d_fit := mkDB [c09_E 12 2 11] None (mkR 0 0).

Theorem c09_fits_needed :
  wf_store (store c09_d_fit) /\ ~ wf_store (store (fst (add_link c09_d_fit (mkBlock 11 5 10 0)))).
Proof.
  split; [apply wf_store_b_sound; vm_compute; reflexivity|].
  intros [_ _ Hp].
  specialize (Hp (c09_E 12 2 11) (mkEntry (mkBlock 11 5 10 0) false)).
  vm_compute in Hp.
  assert (H : (5 ?= 2) = Lt) by (apply Hp; [left; reflexivity | right; left; reflexivity | reflexivity]).
  discriminate H.
Qed.
Print Assumptions c09_fits_needed.

(* ------------------------------------------------------------------ c09_lowest: h_ready, has_lib *)

(* has_lib: a Forkable WITHOUT HoldBlocksUntilLIB (not the hub's configuration) sends blocks before any LIB is known;
   the chain's bottom parent id is empty = the id of the unset LIB, so the segment "reaches the LIB":
   LowestBlockNum reports 1, SourceFromBlockNum(1) refuses *)
Definition c09_n1 := mkBlock 11 1 0 0.
Definition c09_n2 := mkBlock 12 2 11 0.
Definition c09_cfg_nohold := mkCfg 5 false false 2 false (mkFilter true true true true) None.
Definition c09_s_nolib :=
  let '(s, _, _) := fk_step c09_cfg_nohold (fs_init LNone) c09_n1 in
  let '(s', _, _) := fk_step c09_cfg_nohold s c09_n2 in s'.
Definition c09_h_nolib := mkHub c09_s_nolib true.

Theorem c09_has_lib_needed :
  wf_state (h_f c09_h_nolib) /\ h_ready c09_h_nolib = true /\ has_lib (db (h_f c09_h_nolib)) = false /\
  last_sent (h_f c09_h_nolib) = Some c09_n2 /\
  (exists x0 sg, complete_segment (db (h_f c09_h_nolib)) (bref c09_n2) = Some (x0 :: sg, true) /\
                 hub_lowest c09_h_nolib = bnum (seg_blk x0)) /\
  blocks_from_num (h_f c09_h_nolib) (hub_lowest c09_h_nolib) = BErr.
Proof.
  split; [apply wf_state_b_sound; vm_compute; reflexivity|].
  repeat split; try (vm_compute; reflexivity).
  eexists. eexists. split; vm_compute; reflexivity.
Qed.
Print Assumptions c09_has_lib_needed.

(* h_ready: before readiness LowestBlockNum is 0 whatever the Forkable holds (and SourceFromBlockNum, which does not
   look at the flag, serves): files 11, 12, 13 then live 15 whose parent 14 is missing *)
Definition c09_r1 := mkBlock 11 1 10 0.
Definition c09_r2 := mkBlock 12 2 11 1.
Definition c09_r3 := mkBlock 13 3 12 1.
Definition c09_r5 := mkBlock 15 5 14 3.
Definition c09_h_nr := hub_run 1 5 hub_init [(c09_r5, PBlocks [c09_r1; c09_r2; c09_r3])].

Theorem c09_ready_needed :
  h_ready c09_h_nr = false /\ wf_state (h_f c09_h_nr) /\ has_lib (db (h_f c09_h_nr)) = true /\
  last_sent (h_f c09_h_nr) = Some c09_r3 /\
  (exists x0 sg, complete_segment (db (h_f c09_h_nr)) (bref c09_r3) = Some (x0 :: sg, true) /\
                 bnum (seg_blk x0) = 1 /\ hub_lowest c09_h_nr = 0) /\
  (exists evs, blocks_from_num (h_f c09_h_nr) 1 = BOk evs /\ map (fun e => bid (eblk e)) evs = [11; 12; 13]).
Proof.
  split; [vm_compute; reflexivity|].
  split; [apply wf_state_b_sound; vm_compute; reflexivity|].
  repeat split; try (vm_compute; reflexivity).
  - eexists. eexists. repeat split; vm_compute; reflexivity.
  - eexists. split; vm_compute; reflexivity.
Qed.
Print Assumptions c09_ready_needed.

(* ------------------------------------------------------------------ lib_ok_b (c09_chain_is_consumer_chain) *)

(* block 15 (number 5) declares LIB 9, above itself: BlockInCurrentChain gives the "hole" answer (15, 9), the LIB moves to
   it and PurgeBeforeLIB empties the store; the hub stays ready with head 15@5, lowest 0, nothing servable *)
Definition c09_a1 := mkBlock 11 1 10 0.
Definition c09_a2 := mkBlock 12 2 11 1.
Definition c09_a3 := mkBlock 13 3 12 1.
Definition c09_a4 := mkBlock 14 4 13 2.
Definition c09_a5 := mkBlock 15 5 14 9.
Definition c09_Ua := [c09_a1; c09_a2; c09_a3; c09_a4; c09_a5].
Definition c09_la := [(c09_a4, PBlocks [c09_a1; c09_a2; c09_a3]); (c09_a5, PNil)].
Definition c09_ha := hub_run 1 2 hub_init c09_la.

Theorem c09_lib_ok_needed :
  wf_b c09_Ua = true /\ lib_ok_b LNone c09_Ua = false /\
  (forall b p, In (b, p) c09_la -> In b c09_Ua /\ pass_in c09_Ua p) /\
  h_ready c09_ha = true /\
  store (db (h_f c09_ha)) = [] /\ hub_lowest c09_ha = 0 /\ blocks_from_num (h_f c09_ha) 0 = BErr /\
  blocks_from_num (h_f c09_ha) 5 = BErr /\
  (* the conclusion of C09_chain_is_consumer_chain fails: the head's segment is empty *)
  ~ (exists hist c hd lo xL hi,
       hub_fed c09_Ua 1 2 c09_ha hist /\
       cons_fold cons0 (all_events (fk_run (hub_config 1 2) (fs_init LNone) hist)) = Some c /\
       last_sent (h_f c09_ha) = Some hd /\ hd_error (cs_stack c) = Some hd /\
       complete_segment (db (h_f c09_ha)) (bref hd) = Some (lo ++ xL :: hi, true)).
Proof.
  split; [vm_compute; reflexivity|]. split; [vm_compute; reflexivity|].
  split.
  { intros b p H. cbn in H. destruct H as [H|[H|[]]]; inversion H; subst; split; cbn; try tauto.
    all: intros b' Hb'; cbn in Hb'; tauto. }
  repeat (split; [vm_compute; reflexivity|]).
  intros (hist & c & hd & lo & xL & hi & _ & _ & Hls & _ & Hcs).
  vm_compute in Hls. injection Hls as <-.
  vm_compute in Hcs. injection Hcs as Hcs. destruct lo; discriminate Hcs.
Qed.
Print Assumptions c09_lib_ok_needed.

(* ------------------------------------------------------------------ wf_b (c09_chain_is_consumer_chain) *)

(* the universe c09_Ue above (13 numbered like its parent 12) is in the class lib_ok_b; the LIB block is 13@2 and the
   retained block 12, below it on the segment, is NOT numbered below the LIB *)
Theorem c09_wf_b_needed :
  wf_b c09_Ue = false /\ lib_ok_b LNone c09_Ue = true /\ h_ready c09_he = true /\
  ~ (exists hd lo xL hi,
       last_sent (h_f c09_he) = Some hd /\
       complete_segment (db (h_f c09_he)) (bref hd) = Some (lo ++ xL :: hi, true) /\
       sid xL = ri (libref (db (h_f c09_he))) /\
       (forall x, In x lo -> snum x < rn (libref (db (h_f c09_he))))).
Proof.
  split; [vm_compute; reflexivity|]. split; [vm_compute; reflexivity|]. split; [vm_compute; reflexivity|].
  intros (hd & lo & xL & hi & Hls & Hcs & Hid & Hlo).
  vm_compute in Hls. injection Hls as <-.
  vm_compute in Hcs. injection Hcs as Hcs.
  destruct lo as [|l0 [|l1 [|l2 [|l3 [|l4 lo]]]]]; cbn in Hcs.
  - injection Hcs as <- _. vm_compute in Hid. discriminate Hid.
  - injection Hcs as _ <- _. vm_compute in Hid. discriminate Hid.
  - injection Hcs as _ <- _ _. specialize (Hlo _ (or_intror (or_introl eq_refl))). vm_compute in Hlo. discriminate Hlo.
  - injection Hcs as _ <- _ _. specialize (Hlo _ (or_intror (or_introl eq_refl))). vm_compute in Hlo. discriminate Hlo.
  - injection Hcs as _ <- _ _. specialize (Hlo _ (or_intror (or_introl eq_refl))). vm_compute in Hlo. discriminate Hlo.
  - injection Hcs as _ _ _ _ _ Hcs. destruct lo; discriminate Hcs.
Qed.
Print Assumptions c09_wf_b_needed.

(* ------------------------------------------------------------------ what the readiness clause does NOT say (inside the quantifier) *)

(* c09_ready_latch: ready is set when the live block links to the LIB height IT DECLARES.  Nothing relates the live
   block to the hub's head.  Linear chain 1..40, every block declares the LIB two below itself (wf_b, lib_ok_b);
   one-block files lag: pass 1..24 for live 31, pass 1..26 for live 32; live 33 links 33 <- 32 <- 31 through the two
   stored live blocks, so no third pass is made: the hub is READY with head 26, the live blocks 31.. are orphans above a
   hole 27..30, and since a ready hub never bootstraps again, live blocks 34..40 (even with complete files on offer)
   leave head, LIB and lowest unchanged. *)
Definition c09_k (i : N) : block := mkBlock (100 + i) i (100 + i - 1) (i - 2).
Definition c09_upto (n : nat) : list block := map (fun i => c09_k (N.of_nat i)) (seq 1 n).
Definition c09_Uk := c09_upto 40.
Definition c09_lk1 := [(c09_k 31, PBlocks (c09_upto 24)); (c09_k 32, PBlocks (c09_upto 26)); (c09_k 33, PBlocks (c09_upto 32))].
Definition c09_lk2 := c09_lk1 ++ map (fun i => (c09_k (N.of_nat i), PBlocks (c09_upto (i - 1)))) (seq 34 7).
Definition c09_hk1 := hub_run 1 5 hub_init c09_lk1.
Definition c09_hk2 := hub_run 1 5 hub_init c09_lk2.

Theorem c09_ready_head_disconnected :
  wf_b c09_Uk = true /\ lib_ok_b LNone c09_Uk = true /\
  h_ready (hub_run 1 5 hub_init (firstn 2 c09_lk1)) = false /\
  h_ready c09_hk1 = true /\
  hub_head c09_hk1 = Some (bref (c09_k 26), 24) /\ hub_lowest c09_hk1 = 19 /\
  linkable (h_f c09_hk1) (c09_k 33) = Some true /\
  (* the live blocks are stored but not on the served chain *)
  blocks_from_num (h_f c09_hk1) 31 = BErr /\
  option_map (map bid) (blocks_from_num_with_forks (h_f c09_hk1) 27) = Some [131; 132; 133] /\
  (* seven more live blocks, complete files on offer: nothing moves *)
  h_ready c09_hk2 = true /\ hub_head c09_hk2 = hub_head c09_hk1 /\ hub_lowest c09_hk2 = 19 /\
  libref (db (h_f c09_hk2)) = libref (db (h_f c09_hk1)) /\
  option_map (map bid) (blocks_from_num_with_forks (h_f c09_hk2) 27) = Some [131; 132; 133; 134; 135; 136; 137; 138; 139; 140].
Proof. vm_compute. repeat split. Qed.
Print Assumptions c09_ready_head_disconnected.
