From BV Require Import Base.Prelude Base.Decimal Model.Range Spec.C19_Spec.
Local Open Scope N_scope.
(* reached, clause 1, on raw ranges (range_ok violated): does the arithmetic form still hold? *)
Definition chk (r : range) (n : N) : bool :=
  Bool.eqb (reached r n) (match rend r with Some e => e <=? n + b2n (rexe r) | None => false end).
Definition m := 18446744073709551615.
Definition rs := [mkRange 10 (Some 5) false true; mkRange 10 (Some 10) true true; mkRange 10 (Some 0) false true;
                  mkRange m (Some 0) true true; mkRange m (Some m) false true; mkRange 0 (Some 0) false true; mkRange 7 (Some 0) false false].
Definition ns := [0; 1; 4; 5; 6; 9; 10; 11; m - 1; m].
Eval vm_compute in forallb (fun r => forallb (chk r) ns) rs.
(* contains on raw: theorem has no hypothesis *)
