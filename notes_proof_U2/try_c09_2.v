From Coq Require Import Sorted Permutation.
From BV Require Import Base.Prelude Model.Block Model.ForkDB Model.Forkable Model.ForkableLookups
  Model.Burst Model.Hub Spec.Universe Spec.C09_Spec.
Local Open Scope N_scope.

Definition sh (h : hub) := (h_ready h, hub_lowest h, hub_head h, map (fun e => (bid (eb e), bnum (eb e))) (store (db (h_f h))), libref (db (h_f h)),
  wf_state_b (h_f h), match last_sent (h_f h) with Some hd => option_map (fun p => (map sid (fst p), snd p)) (complete_segment (db (h_f h)) (bref hd)) | None => None end).
Definition ans (h : hub) (n : N) := match blocks_from_num (h_f h) n with BOk evs => Some (map (fun e => (bid (eblk e), estep e, rn (elib e))) evs) | BErr => None | _ => Some [] end.

(* LIB above self *)
Definition a1 := mkBlock 11 1 10 0.
Definition a2 := mkBlock 12 2 11 1.
Definition a3 := mkBlock 13 3 12 1.
Definition a4 := mkBlock 14 4 13 2.
Definition a5 := mkBlock 15 5 14 9.   (* declares LIB 9 > 5 *)
Definition a6 := mkBlock 16 6 15 9.
Definition U1 := [a1;a2;a3;a4;a5;a6].
Definition h1 := hub_run 1 0 hub_init [(a4, PBlocks [a1;a2;a3]); (a5, PNil)].
Definition h1b := hub_run 1 0 hub_init [(a4, PBlocks [a1;a2;a3]); (a5, PNil); (a6, PNil)].
Eval vm_compute in (wf_b U1, lib_ok_b LNone U1, sh h1, ans h1 0, ans h1 5, sh h1b, ans h1b 6).
Definition h1k := hub_run 1 2 hub_init [(a4, PBlocks [a1;a2;a3]); (a5, PNil)].
Eval vm_compute in (sh h1k, ans h1k 0, ans h1k 5, ans h1k 4).

(* LIB backwards: child declares lower LIB than parent *)
Definition g1 := mkBlock 11 1 10 0.
Definition g2 := mkBlock 12 2 11 1.
Definition g3 := mkBlock 13 3 12 2.
Definition g4 := mkBlock 14 4 13 3.
Definition g5 := mkBlock 15 5 14 1.  (* backwards *)
Definition g6 := mkBlock 16 6 15 4.
Definition U2 := [g1;g2;g3;g4;g5;g6].
Definition h2 := hub_run 1 0 hub_init [(g4, PBlocks [g1;g2;g3]); (g5, PNil)].
Definition h2b := hub_run 1 0 hub_init [(g4, PBlocks [g1;g2;g3]); (g5, PNil); (g6,PNil)].
Eval vm_compute in (wf_b U2, lib_ok_b LNone U2, sh h2, ans h2 3, ans h2 1, sh h2b, ans h2b 4).
(* live block with backwards LIB as the first live block: readiness *)
Definition h2c := hub_run 1 0 hub_init [(g5, PBlocks [g3;g4])].
Eval vm_compute in (sh h2c, linkable (h_f h2c) g5).

(* LIB not the number of an ancestor (skipped number) *)
Definition k1 := mkBlock 11 1 10 0.
Definition k2 := mkBlock 12 2 11 1.
Definition k4 := mkBlock 14 4 12 2.
Definition k5 := mkBlock 15 5 14 3.  (* 3 is not a height on its chain *)
Definition k6 := mkBlock 16 6 15 3.
Definition U3 := [k1;k2;k4;k5;k6].
Definition h3 := hub_run 1 0 hub_init [(k5, PBlocks [k1;k2;k4]); (k6, PNil)].
Eval vm_compute in (wf_b U3, lib_ok_b LNone U3, sh h3, ans h3 3, ans h3 4, ans h3 2).
