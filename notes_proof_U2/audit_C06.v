(* U2 hypothesis audit, C06 (resuming from a cursor out of merged files): necessity witnesses.
   Every theorem is closed (vm_compute on concrete inputs).  See notes_proof_U2/notes_C06.md. *)
From BV Require Import Base.Prelude Model.Block Model.Burst Model.CursorResolver Check.Burst_Check Spec.C06_Spec.
Local Open Scope N_scope.

Definition c06_show (r : list event * rres) : list (step * N) * rres :=
  (map (fun e => (estep e, bid (eblk e))) (fst r), snd r).

(* the canonical chain 1..8: ids 11..18, parent-linked *)
Definition c06_mk (n : N) : block := mkBlock (10 + n) n (if n =? 1 then 0 else 10 + n - 1) 0.
Definition c06_chain : list block := map c06_mk [1; 2; 3; 4; 5; 6; 7; 8].

(* ------------------------------------------------------------------ c06_through_on_chain / c06_through_final_cursor:
   hypothesis `In B D` (the target cursor's block is in the file source's delivery, i.e. start <= cursor block
   number).  CANDIDATE DEFECT, inside the quantifier ("pass-through (target cursor) mode from every start block").

   Target cursor {New, block 15@5, LIB 13@3}, canonical and final.  From start 5 everything is delivered; from
   start 6 or 7 the first block is above the cursor number, is not the cursor block, and the resolver ends with the
   "cannot resolve 'old cursor' from files in passthrough mode -- not implemented" error with nothing delivered -
   c06_through_forked's answer for a FORKED cursor, given here for a cursor that is on the chain.  The same for a
   final target cursor on block 13@3 from start 5.  (The hub's SourceThroughCursor ignores a cursor whose block is
   below the start block: C05_hub_through.)  Replayed on the real code: TestU2_C06_ThroughStartAboveCursor. *)
Definition c06_cur := mkCursor SNew (mkR 15 5) (mkR 15 5) (mkR 13 3).
Definition c06_cur_final := mkCursor SIrr (mkR 13 3) (mkR 15 5) (mkR 13 3).

Theorem c06_through_start_needed :
  chain_ok c06_chain /\
  (* the cursor block is on the stored canonical chain *)
  In (c06_mk 5) c06_chain /\ bref (c06_mk 5) = cu_blk c06_cur /\ rn (cu_lib c06_cur) < rn (cu_blk c06_cur) /\
  (* start 5: served, as c06_through_on_chain says *)
  c06_show (through_cursor_run c06_chain [] 5 c06_cur 8 100) = ([(SNewIrr, 15); (SNewIrr, 16); (SNewIrr, 17); (SNewIrr, 18)], RsOk) /\
  (* start 6, 7: the hypothesis fails ... *)
  ~ In (c06_mk 5) (file_delivery c06_chain 6 8 100) /\ ~ In (c06_mk 5) (file_delivery c06_chain 7 8 100) /\
  (* ... and so does the conclusion: nothing delivered, "not implemented" *)
  through_cursor_run c06_chain [] 6 c06_cur 8 100 = ([], RsNotImplemented) /\
  through_cursor_run c06_chain [] 7 c06_cur 8 100 = ([], RsNotImplemented) /\
  map (file_event SNewIrr) (file_delivery c06_chain 7 8 100) <> [] /\
  (* final target cursor on 13@3, start 5 *)
  In (c06_mk 3) c06_chain /\ bref (c06_mk 3) = cu_blk c06_cur_final /\ rn (cu_blk c06_cur_final) <= rn (cu_lib c06_cur_final) /\
  through_cursor_run c06_chain [] 5 c06_cur_final 8 100 = ([], RsNotImplemented).
Proof.
  split.
  { split; [vm_compute; repeat split; reflexivity|].
    vm_compute. repeat constructor; intro H; repeat (destruct H as [H|H]; [discriminate H|]); exact H. }
  split; [vm_compute; tauto|]. split; [reflexivity|]. split; [vm_compute; reflexivity|].
  split; [vm_compute; reflexivity|].
  split; [vm_compute; intro H; repeat (destruct H as [H|H]; [discriminate H|]); exact H|].
  split; [vm_compute; intro H; repeat (destruct H as [H|H]; [discriminate H|]); exact H|].
  split; [vm_compute; reflexivity|]. split; [vm_compute; reflexivity|].
  split; [vm_compute; discriminate|].
  split; [vm_compute; tauto|]. split; [reflexivity|]. split; [vm_compute; discriminate|].
  vm_compute. reflexivity.
Qed.
Print Assumptions c06_through_start_needed.

(* ------------------------------------------------------------------ c06_resume_forked / c06_missing: `reached`
   (a delivered block numbered at or above the cursor block exists).  Forked cursor on 99@9 (child of the canonical
   head 18@8), merged files end at 8: nothing is delivered and the run ends Ok (with the stop block 8 the real file
   source ends with "stop block reached": TestU2_C06_NotReachedStop); the pending forked block is never undone.
   Inside the quantifier only when a forked block can be higher than the stored canonical head (all-blocks-trigger
   mode, or merged files that end below the live head); the model's answer "the source waits" is what c06_not_reached
   states. *)
Definition c06_f9 := mkBlock 99 9 18 0.
Definition c06_cur_f9 := mkCursor SNew (mkR 99 9) (mkR 99 9) (mkR 13 3).
Theorem c06_reached_needed :
  ~ reached (file_delivery c06_chain 3 8 100) c06_cur_f9 /\
  file_of [c06_f9] c06_cur_f9 99 = Some c06_f9 /\
  from_cursor_run c06_chain [c06_f9] c06_cur_f9 8 100 = ([], RsOk).
Proof.
  split.
  - intros [b [H Hle]]. vm_compute in H.
    repeat (destruct H as [H|H]; [subst b; vm_compute in Hle; apply Hle; reflexivity|]). exact H.
  - vm_compute. split; reflexivity.
Qed.
Print Assumptions c06_reached_needed.

(* ------------------------------------------------------------------ c06_resume_forked: `file_of forked c (bid w) = Some w`
   "the store answers an id of the branch with that block".  A store that answers the id of the forked block 23 with a
   DIFFERENT block (same id, parent on the chain two blocks lower): the junction is wrong, the consumer's real parent
   block 12 is announced as new.  Outside the quantifier as far as the model goes (ids are whole); on the real code the
   walk compares 16-character id SUFFIXES with strings.HasSuffix, so the hypothesis also hides an encoding assumption:
   TestU2_C06_IdSuffixJunction. *)
Definition c06_c2 : list block := [mkBlock 11 1 0 0; mkBlock 12 2 11 0; mkBlock 13 3 12 0; mkBlock 14 4 13 0].
Definition c06_f23 := mkBlock 23 3 12 0.
Definition c06_f23_wrong := mkBlock 23 3 11 0.
Definition c06_cur23 := mkCursor SNew (mkR 23 3) (mkR 23 3) (mkR 11 1).
Theorem c06_file_agreement_needed :
  file_of [c06_f23_wrong] c06_cur23 23 = Some c06_f23_wrong /\ c06_f23_wrong <> c06_f23 /\
  (match from_cursor_run c06_c2 [c06_f23] c06_cur23 4 100 with
   | (evs, r) => map (fun e => (estep e, bid (eblk e), ejunc e)) evs =
       [(SUndo, 23, Some (mkR 12 2)); (SIrr, 12, None); (SNewIrr, 13, None); (SNewIrr, 14, None)] /\ r = RsOk end) /\
  (match from_cursor_run c06_c2 [c06_f23_wrong] c06_cur23 4 100 with
   | (evs, r) => map (fun e => (estep e, bid (eblk e), ejunc e)) evs =
       [(SUndo, 23, Some (mkR 11 1)); (SNewIrr, 12, None); (SNewIrr, 13, None); (SNewIrr, 14, None)] /\ r = RsOk end) /\
  (* the consumer holding 11 <- 12 <- 23 rejects the second answer (12 delivered as new a second time) *)
  cons_fold (consumer [mkBlock 11 1 0 0] [mkBlock 12 2 11 0; c06_f23])
            (fst (from_cursor_run c06_c2 [c06_f23_wrong] c06_cur23 4 100)) = None.
Proof. vm_compute. repeat split; try reflexivity. discriminate. Qed.
Print Assumptions c06_file_agreement_needed.
