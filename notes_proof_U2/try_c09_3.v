From Coq Require Import Sorted Permutation.
From BV Require Import Base.Prelude Model.Block Model.ForkDB Model.Forkable Model.ForkableLookups
  Model.Burst Model.Hub Spec.Universe Spec.C09_Spec.
Local Open Scope N_scope.

Fixpoint span_lt (n : N) (l : list seg) : list seg * list seg :=
  match l with [] => ([], []) | y :: t => if bnum (seg_blk y) <? n then let '(a, b) := span_lt n t in (y :: a, b) else ([], l) end.
Fixpoint evs_eqb (a b : list event) : bool :=
  match a, b with [], [] => true | x :: a', y :: b' => event_eqb x y && evs_eqb a' b' | _, _ => false end.
Definition from_num_ok_b (s : fstate) (n : N) : bool :=
  let cs := match last_sent s with Some hd => match complete_segment (db s) (bref hd) with Some (sg, true) => if has_lib (db s) then Some (hd, sg) else None | _ => None end | None => None end in
  match blocks_from_num s n with
  | BOk evs => match cs with
               | Some (hd, sg) => match snd (span_lt n sg) with
                                  | x :: suf => (bnum (seg_blk x) =? n) && forallb (fun y => n <? bnum (seg_blk y)) suf &&
                                                evs_eqb evs (map (snap_event s hd) (x :: suf)) && nodup_b (map bid (map eblk evs))
                                  | [] => false end
               | None => false end
  | BErr => match cs with Some (hd, sg) => forallb (fun x => negb (bnum (seg_blk x) =? n)) sg | None => true end
  | _ => false
  end.
Definition chk (s : fstate) := map (fun n => from_num_ok_b s n) [0;1;2;3;4;5;6;7;8].
Definition E (i n p : N) := mkEntry (mkBlock i n p 0) true.
Definition st (l : list entry) (ex : option ref) (lib : ref) (hd : option block) := mkFS (mkDB l ex lib) hd lib 0.

(* duplicate keys *)
Definition s_dup := st [E 12 2 11; E 11 1 10; E 12 5 11] None (mkR 11 1) (Some (mkBlock 12 2 11 0)).
Eval vm_compute in (wf_state_b s_dup, chk s_dup, blocks_from_num_with_forks s_dup 0).
Definition s_dup2 := st [E 12 5 11; E 11 1 10; E 12 2 11] None (mkR 11 1) (Some (mkBlock 12 2 11 0)).
Eval vm_compute in (wf_state_b s_dup2, chk s_dup2).
(* key 0 *)
Definition s_z := st [E 0 1 9; E 12 2 0] None (mkR 0 1) (Some (mkBlock 12 2 0 0)).
Eval vm_compute in (wf_state_b s_z, chk s_z, has_lib (db s_z), complete_segment (db s_z) (mkR 12 2)).
Definition s_z2 := st [E 11 1 0; E 0 2 11; E 13 3 0] None (mkR 11 1) (Some (mkBlock 13 3 0 0)).
Eval vm_compute in (wf_state_b s_z2, chk s_z2).
(* parent not lower: cycle, equal *)
Definition s_cyc := st [E 11 1 12; E 12 2 11] None (mkR 11 1) (Some (mkBlock 12 2 11 0)).
Eval vm_compute in (wf_state_b s_cyc, chk s_cyc, blocks_from_num s_cyc 1).
(* head under another number *)
Definition s_hd := st [E 11 1 10; E 12 2 11] None (mkR 11 1) (Some (mkBlock 12 7 11 0)).
Eval vm_compute in (wf_state_b s_hd, chk s_hd, blocks_from_num s_hd 7).
(* extra with empty id *)
Definition s_ex := st [E 11 1 10; E 12 2 11] (Some (mkR 0 5)) (mkR 11 1) (Some (mkBlock 12 2 11 0)).
Eval vm_compute in (wf_state_b s_ex, chk s_ex, linkable s_ex (mkBlock 13 3 12 0), block_in_chain (db s_ex) (mkR 12 2) 0).
Definition s_ex2 := st [E 11 3 0; E 12 4 11] (Some (mkR 0 5)) (mkR 11 1) (Some (mkBlock 12 4 11 0)).
Eval vm_compute in (wf_state_b s_ex2, chk s_ex2, linkable s_ex2 (mkBlock 12 4 11 1), block_in_chain (db s_ex2) (mkR 12 4) 1).

(* c09_lowest: no LIB (has_lib false): forkable without hold, bottom parent id 0 *)
Definition n1 := mkBlock 11 1 0 0.
Definition n2 := mkBlock 12 2 11 0.
Definition cfg_nohold := mkCfg 5 false false 2 false (mkFilter true true true true) None.
Definition s_nolib := let '(s, _, _) := fk_step cfg_nohold (fs_init LNone) n1 in let '(s', _, _) := fk_step cfg_nohold s n2 in s'.
Eval vm_compute in (wf_state_b s_nolib, has_lib (db s_nolib), last_sent s_nolib, hub_lowest (mkHub s_nolib true), blocks_from_num s_nolib 1,
  complete_segment (db s_nolib) (mkR 12 2)).
