(* U2 hypothesis audit, C20 (block-stream server fan-out): necessity witnesses.
   Every theorem is closed (vm_compute on concrete inputs).  See notes_proof_U2/notes_C20.md. *)
From BV Require Import Base.Prelude Model.BlockServer Model.BlockServerSched Spec.C20_Spec Spec.C20_SchedSpec.
Local Open Scope Z_scope.

(* ------------------------------------------------------------------ C20_window, clause 4: NoDup P

   Without `NoDup P` the window is NOT the last `size` pushes, and not even the `size` most
   recently pushed distinct ids: size 3, pushes 1,2,3,1,4.  The re-push of the still buffered id 1
   does not refresh its position, so the push of 4 evicts 1 although 1 was pushed after 2 and 3.
   (Input inside the quantifier: "repeated block ids".  Replayed on the real code:
   TestU2_C20_RepushDoesNotRefresh.) *)
Definition c20_dup_ops : list op := [OPush 1; OPush 2; OPush 3; OPush 1; OPush 4]%N.

Theorem c20_nodup_needed :
  let P := pushes_of c20_dup_ops in
  let w := window (final true 3 c20_dup_ops) in
  ~ NoDup P /\
  w = [2; 3; 4]%N /\ lastz 3 P = [3; 1; 4]%N /\ w <> lastz 3 P /\
  (* 1 is among the three most recently pushed distinct ids, 2 is not; the window holds 2, not 1 *)
  In 1%N (lastz 3 P) /\ ~ In 2%N (lastz 3 P) /\ ~ In 1%N w /\ In 2%N w.
Proof.
  cbv zeta. split.
  - intro H. inversion H as [|x l Hn _]; subst. apply Hn. vm_compute. tauto.
  - vm_compute. repeat split; try tauto; try discriminate;
      intro H; repeat (destruct H as [H|H]; [discriminate H|]); exact H.
Qed.
Print Assumptions c20_nodup_needed.

(* ------------------------------------------------------------------ C20_window, clause 5: size > 0

   For size <= 0 the newest pushed block is not buffered (the window stays empty; Ready() is true).
   Inside the quantifier ("every buffer size"), and what the property text asks ("up to its
   size"): no defect. *)
Theorem c20_size_pos_needed :
  window (final true 0 [OPush 1%N]) = [] /\ window (final true (-1) [OPush 1%N]) = [] /\
  ~ In 1%N (window (final true 0 [OPush 1%N])) /\
  ready (final true 0 []) = true.
Proof. vm_compute. repeat split. tauto. Qed.
Print Assumptions c20_size_pos_needed.

(* ------------------------------------------------------------------ C20_ref_meaning: |B| <= cap

   The reference automaton started with a burst longer than the capacity violates its own queue
   bound.  Never met: `creation` gives cap = 200 + |B| (subscribe) or B = [] (attach). *)
Theorem c20_ref_cap_needed :
  let v := ref_sub 0 (mkView [] [1%N] false) [] in
  ~ (N.of_nat (length [1%N]) <= 0)%N /\ ~ (N.of_nat (length (v_q v)) <= 0)%N.
Proof. vm_compute. split; intro H; apply H; reflexivity. Qed.
Print Assumptions c20_ref_cap_needed.

(* ------------------------------------------------------------------ C20_sched_ready_stable: g_ppc = PIdle

   Inside PushBlock, between AppendHead and the eviction, the buffer holds size+1 blocks (the fix
   C20_fix_3 appends before evicting so that Ready() never flips back).  subscribe cannot see it
   (write lock); Ready() only compares Len() >= size.  Observable on the real code only through
   the hook VerifWindow (TestU2_C20_TransientOversize). *)
Definition c20_mid_push : cstate :=
  crun (cinit true 1 [1; 2]%N []) [TProd; TProd; TProd; TProd; TProd; TProd].

Theorem c20_idle_needed :
  g_ppc c20_mid_push = PAppended 2%N /\ g_bad c20_mid_push = false /\
  cwindow c20_mid_push = [1; 2]%N /\ spec_window 1 (g_pushed c20_mid_push) = [2]%N /\
  cwindow c20_mid_push <> spec_window 1 (g_pushed c20_mid_push) /\
  zlen (cwindow c20_mid_push) > 1 /\ cready c20_mid_push = true.
Proof. vm_compute. repeat split; discriminate. Qed.
Print Assumptions c20_idle_needed.

(* ------------------------------------------------------------------ C20_sched_producer_enabled, clause 2: g_wlock = None

   Between two PushBlock calls the producer DOES wait while a client is inside subscribe /
   unsubscribe (write lock): the time of the burst loop.  Bounded (clause 3), but not zero
   (TestU2_C20_SubscribeDelaysProducer measures it on the real code). *)
Definition c20_client_in_subscribe : cstate := crun (cinit true 1 [1]%N [0]) [TClient 0].

Theorem c20_wlock_free_needed :
  g_ppc c20_client_in_subscribe = PIdle /\ g_script c20_client_in_subscribe <> [] /\
  g_wlock c20_client_in_subscribe = Some 0%nat /\
  prod_enabled c20_client_in_subscribe = false /\
  cstep c20_client_in_subscribe TProd = c20_client_in_subscribe.
Proof. vm_compute. repeat split. discriminate. Qed.
Print Assumptions c20_wlock_free_needed.

(* ------------------------------------------------------------------ single producer (environment; both models have ONE producer thread)

   subscription.Push is "test len == cap / closed, then act"; the model's sub_push is that pair
   executed atomically, which is right for one producer (only consumers touch the channel in
   between, and they only make room).  c20_push_split shows the decomposition is faithful; the
   witness interleaves the two halves of two producers A and B (both hold the READ lock, which
   does not exclude them) on a subscription of capacity 1 that nobody reads:
     A tests (room), B tests (room), B sends, A sends -> A's send BLOCKS (producer blocked for ever);
     or: A tests (room), B tests, B sends, B's next push finds the queue full and closes the
     channel, A sends -> PANIC (send on closed channel).
   Same for the buffer: Len() > size / Tail() / Delete() are three calls; two producers that read
   the same Tail() delete one block for two appended ones and the window stays above its size. *)
Inductive c20_decision := C20_DClose | C20_DSkip | C20_DSend.

Definition c20_push_test (s : sub) : c20_decision :=
  if N.eqb (qlen s) (s_cap s) then C20_DClose else if s_closed s then C20_DSkip else C20_DSend.

Definition c20_push_act (d : c20_decision) (s : sub) (x : N) : sres :=
  match d with
  | C20_DClose => if s_once s then SOk s else chan_close (set_closed (set_once s))
  | C20_DSkip => SOk s
  | C20_DSend => chan_send s x
  end.

Lemma c20_push_split : forall s x, sub_push s x = c20_push_act (c20_push_test s) s x.
Proof.
  intros s x. unfold sub_push, c20_push_test, c20_push_act.
  destruct (N.eqb (qlen s) (s_cap s)); [reflexivity|]. destruct (s_closed s); reflexivity.
Qed.
Print Assumptions c20_push_split.

Theorem c20_single_producer_needed :
  let s0 := new_sub 1 in
  (* both producers pass the test on the same state *)
  c20_push_test s0 = C20_DSend /\
  exists s1, c20_push_act C20_DSend s0 2%N = SOk s1 /\            (* B sends *)
    c20_push_act C20_DSend s1 1%N = SBlock /\                      (* A's send blocks *)
    exists s2, sub_push s1 3%N = SOk s2 /\ s_chclosed s2 = true /\ (* B's next push closes *)
      c20_push_act C20_DSend s2 1%N = SPanic.                      (* A sends on a closed channel *)
Proof. vm_compute. split; [reflexivity|]. eexists. split; [reflexivity|]. split; [reflexivity|].
  eexists. repeat split. Qed.
Print Assumptions c20_single_producer_needed.

Theorem c20_single_producer_needed_buffer :
  (* size 1, window [1]; A appends 2, B appends 3; both see Len() = 3 > 1 and both read Tail() = 1 *)
  let b := buf_append_head 3 (buf_append_head 2 (buf_append_head 1 buf_new)) in
  buf_len b >? 1 = true /\ buf_tail b = Some 1%N /\
  exists b1 b2, buf_delete (Some 1%N) b = Some b1 /\ buf_delete (Some 1%N) b1 = Some b2 /\
    buf_all b2 = [2; 3]%N /\ buf_len b2 > 1.
Proof. vm_compute. repeat split. do 2 eexists. repeat split. Qed.
Print Assumptions c20_single_producer_needed_buffer.
