// package directory: . ; run: go test -vet=off -count=1 -run 'TestU2_C10_' ./
//
// U2 audit of C10: probes of the real FileSource at the points excluded by hypotheses of c10_continuity
// (`b_id (last d) <> 0`, `d <> []`) and by the model's configuration hypotheses (blockIndexProvider = nil,
// bundle size > 0, thread count >= 0).  All tests PASS and assert the observed behaviour.
package bstream

import (
	"errors"
	"fmt"
	"os"
	"os/exec"
	"strings"
	"testing"
	"time"

	pbbstream "github.com/streamingfast/bstream/pb/sf/bstream/v1"
	"github.com/streamingfast/dstore"
	"github.com/stretchr/testify/require"
)

func u2c10Run(t *testing.T, fs *FileSource) {
	done := make(chan struct{})
	go func() { fs.Run(); close(done) }()
	select {
	case <-done:
	case <-time.After(3 * time.Second):
		fs.Shutdown(errors.New("u2 watchdog: Run did not return"))
		<-done
	}
}

func u2c10Collect(out *[]string) Handler {
	return HandlerFunc(func(blk *pbbstream.Block, obj interface{}) error {
		*out = append(*out, fmt.Sprintf("%d:%q<-%q", blk.Number, blk.Id, blk.ParentId))
		return nil
	})
}

// hypothesis `b_id (last d) <> 0` of c10_continuity: a stored block with an EMPTY id switches the parent
// test off for its successor (`lastBlockID != ""`).  Observed: block 3 names "zz" as parent, its stored
// predecessor has the empty id: block 3 and everything after it is delivered, the run ends with
// stop-block-reached, no non-sequential error.  (Same as the model.  A block without id is malformed input.)
func TestU2_C10_EmptyIDDisablesContinuityCheck(t *testing.T) {
	bs := dstore.NewMockStore(nil)
	bs.SetFile(base(0), testBlocks(
		TestBlockWithNumbers("1a", "", 1, 0),
		TestBlockWithNumbers("", "1a", 2, 1),
		TestBlockWithNumbers("3a", "zz", 3, 2),
		TestBlockWithNumbers("4a", "3a", 4, 3),
	))
	var got []string
	fs := NewFileSource(bs, 1, u2c10Collect(&got), zlog, FileSourceWithStopBlock(4))
	u2c10Run(t, fs)
	t.Logf("empty id at block 2, block 3 names parent zz: delivered=%v Err=%v", got, fs.Err())
	require.Equal(t, 4, len(got))
	require.True(t, errors.Is(fs.Err(), ErrStopBlockReached))
}

// hypothesis `d <> []`: the first delivered block is never compared with its stored predecessor (start block
// in the middle of a file; legacy leading block in front of the first kept block).  Observed: start 3, the
// stored predecessor of block 3 is 2a but block 3 names "zz": delivered without error.  By design (nothing
// was delivered before); the same input with start 2 stops with the non-sequential error after block 2.
func TestU2_C10_FirstDeliveredBlockIsNotChecked(t *testing.T) {
	for _, start := range []uint64{3, 2} {
		bs := dstore.NewMockStore(nil)
		bs.SetFile(base(0), testBlocks(
			TestBlockWithNumbers("1a", "", 1, 0),
			TestBlockWithNumbers("2a", "1a", 2, 1),
			TestBlockWithNumbers("3a", "zz", 3, 2),
			TestBlockWithNumbers("4a", "3a", 4, 3),
		))
		var got []string
		fs := NewFileSource(bs, start, u2c10Collect(&got), zlog, FileSourceWithStopBlock(4))
		u2c10Run(t, fs)
		t.Logf("start %d: delivered=%v Err=%v", start, got, fs.Err())
		if start == 3 {
			require.Equal(t, 2, len(got))
			require.True(t, errors.Is(fs.Err(), ErrStopBlockReached))
		} else {
			require.Equal(t, 1, len(got))
			require.Contains(t, fs.Err().Error(), "non-sequential")
		}
	}
}

// configuration hypothesis "blockIndexProvider = nil" of the C10 model.  With a block index provider whose
// index does not cover the range (BlocksInRange returns an error at once: the usual case "no index files
// yet"), launchReader sets s.blockIndexProvider = nil.  run() has decided `validateBlockOrder :=
// s.blockIndexProvider == nil` = false before that, and every streamReader decides
// `validateBlockOrder := s.blockIndexProvider != nil` = false after that: NOBODY checks the parent links.
// Observed: the out-of-sequence block 3 (parent "zz") and its successors are delivered, stop-block-reached,
// no error; without the provider the same files stop with the non-sequential error after block 2.
// (Which of the two reads of the unsynchronised field comes first is a race: logged, both outcomes accepted
// for the provider case, the count of runs without any check is reported.)
func TestU2_C10_DeactivatedIndexProviderDisablesContinuityCheck(t *testing.T) {
	mk := func() *dstore.MockStore {
		bs := dstore.NewMockStore(nil)
		bs.SetFile(base(0), testBlocks(
			TestBlockWithNumbers("1a", "", 1, 0),
			TestBlockWithNumbers("2a", "1a", 2, 1),
			TestBlockWithNumbers("3a", "zz", 3, 2),
			TestBlockWithNumbers("4a", "3a", 4, 3),
		))
		bs.SetFile(base(100), testBlocks(
			TestBlockWithNumbers("100a", "yy", 100, 4),
			TestBlockWithNumbers("101a", "xx", 101, 100),
		))
		return bs
	}
	var got []string
	fs := NewFileSource(mk(), 1, u2c10Collect(&got), zlog, FileSourceWithStopBlock(101))
	u2c10Run(t, fs)
	t.Logf("no index provider: delivered=%v Err=%v", got, fs.Err())
	require.Equal(t, 2, len(got))
	require.Contains(t, fs.Err().Error(), "non-sequential")

	unchecked := 0
	const N = 50
	for i := 0; i < N; i++ {
		var got []string
		prov := &TestBlockIndexProvider{ThrowError: errors.New("no index here")}
		fs := NewFileSource(mk(), 1, u2c10Collect(&got), zlog, FileSourceWithStopBlock(101), FileSourceWithBlockIndexProvider(prov))
		u2c10Run(t, fs)
		if i == 0 {
			t.Logf("index provider without any index: delivered=%v Err=%v", got, fs.Err())
		}
		if len(got) == 6 && errors.Is(fs.Err(), ErrStopBlockReached) {
			unchecked++
		} else {
			require.Contains(t, fs.Err().Error(), "non-sequential")
		}
	}
	t.Logf("index provider without any index: %d of %d runs delivered all 6 blocks (3 broken parent links) and ended with stop-block-reached", unchecked, N)
	require.True(t, unchecked > 0, "observed: continuity is not checked at all")
}

// "any bundle size" / "every preprocessor thread count", degenerate values the model is total on
// (Coq's `mod 0`, `nat`): bundle size 0 -> integer divide by zero in the launch-reader goroutine; thread
// count -1 -> `make(chan, -1)` in the reader goroutine.  Both panics are in goroutines of the library and
// kill the whole process (run in a child process here).  Outside the quantifier as we read it (noted).
func TestU2_C10_DegenerateConfigurationCrashesProcess(t *testing.T) {
	if v := os.Getenv("U2_C10_CRASH"); v != "" {
		bs := dstore.NewMockStore(nil)
		bs.SetFile(base(0), testBlocks(TestBlockWithNumbers("1a", "", 1, 0)))
		var got []string
		var fs *FileSource
		if v == "bundle0" {
			fs = NewFileSource(bs, 1, u2c10Collect(&got), zlog, FileSourceWithBundleSize(0), FileSourceWithStopBlock(4))
		} else {
			fs = NewFileSource(bs, 1, u2c10Collect(&got), zlog, FileSourceWithStopBlock(4),
				FileSourceWithConcurrentPreprocess(func(*pbbstream.Block) (interface{}, error) { return nil, nil }, -1))
		}
		u2c10Run(t, fs)
		fmt.Printf("CHILD SURVIVED delivered=%v err=%v\n", got, fs.Err())
		return
	}
	for _, v := range []string{"bundle0", "threads-1"} {
		cmd := exec.Command(os.Args[0], "-test.run=TestU2_C10_DegenerateConfigurationCrashesProcess$")
		cmd.Env = append(os.Environ(), "U2_C10_CRASH="+v)
		out, err := cmd.CombinedOutput()
		var line string
		for _, l := range strings.Split(string(out), "\n") {
			if strings.HasPrefix(l, "panic:") || strings.HasPrefix(l, "CHILD SURVIVED") {
				line = l
				break
			}
		}
		t.Logf("%s: child exit=%v: %s", v, err, line)
		require.Error(t, err)
		require.True(t, strings.HasPrefix(line, "panic:"))
	}
}
