(* U2 hypothesis audit of C10 (Spec/C10_Spec.v, Properties/C10.v): necessity witnesses.
   Every theorem exhibits a concrete input that violates ONE hypothesis of a C10 statement and on
   which the conclusion of that statement is false for the model (Model/Pipeline.v, FileSeq.v).
   All proofs by vm_compute; closed under the global context. *)
From BV Require Import Base.Prelude Model.FileSeq Model.Pipeline Spec.C10_Spec.
Local Open Scope N_scope.

Definition c10_pre (b : blk) : N := 3 * b_id b + b_num b.
Definition c10_f := false.

(* "nobody can move": case analysis over the thread ids of a layout with at most two files of at
   most three blocks; every remaining case is closed by computation *)
Ltac c10_quiet :=
  let t := fresh "t" in let c := fresh "c" in
  intros [t c];
  destruct t as [|i|i|i k| |]; destruct c;
  try (vm_compute; reflexivity);
  try (destruct i as [|[|i]]; vm_compute; reflexivity);
  try (destruct i as [|[|i]]; [destruct k as [|[|[|k]]]|destruct k as [|[|[|k]]]|];
       vm_compute; reflexivity).

(* ---------------------------------------------------------------------------------------------
   H = [fixed C] (here: c_fix2, the code with repo_patches/C11_fix_read_error_misreported.diff)
   in C10_order_safety (and C11_prefix, same statement).
   Two bundles; the 2nd Read of bundle 0 fails; the unfixed reader closes `preprocessed` before it
   reports the error; run() drains bundle 0, moves on to bundle 1 whose first block names block 1
   as parent: it is DELIVERED right after block 1 although block 2 is missing: the deliveries
   [1; 3] are not a prefix of the reference sequence [1; 2].  Inside the quantifier (a read fault
   is C11's subject); corresponds to the KNOWN, FIXED finding "read error misreported"
   (known_findings.json, C11) — here in its silent-gap form. *)
Definition c10_b1 := mkBlk 1 1 0.
Definition c10_b2 := mkBlk 2 2 1.
Definition c10_b3 := mkBlk 3 5 1.
Definition c10_layA : layout := mkLayout [[c10_b1; c10_b2]; [c10_b3]] 1 5 0.
Definition c10_cfgA : cfg := mkCfg c10_layA 1 (FRead 0 1) false true false.
Definition c10_schedA : list (tid * bool) :=
  map (fun t => (t, c10_f))
  [TL; TL; TR 0; TR 0; TR 0; TR 0; TP 0 0; TM; TD 0; TD 0; TD 0;
   TM; TM; TD 0; TM; TL; TL; TR 1; TR 1; TR 1; TP 1 0; TM; TD 1; TD 1; TD 1; TM; TM].

Theorem c10_fixed_needed :
  exists pre C sched,
    c_fix1 C = true /\ c_fix2 C = false /\
    expected_blocks (c_lay C) = [c10_b1; c10_b2] /\
    s_calls (run pre C sched (init C)) = pairs pre [c10_b1; c10_b3] /\
    ~ prefix (s_calls (run pre C sched (init C))) (pairs pre (expected_blocks (c_lay C))).
Proof.
  exists c10_pre, c10_cfgA, c10_schedA.
  split; [reflexivity|]. split; [reflexivity|]. split; [vm_compute; reflexivity|].
  split; [vm_compute; reflexivity|].
  intros [r H]. vm_compute in H. discriminate H.
Qed.
Print Assumptions c10_fixed_needed.

(* ---------------------------------------------------------------------------------------------
   H = [c_fault C = FNone] in C10_order_complete: with a fault the run does not deliver the whole
   reference sequence.  One bundle [1;2], stop 3, OpenObject fails: quiescent, Run returned with
   EOpen, nothing delivered.  Outside C10's quantifier (faults are C11's subject). *)
Definition c10_layB : layout := mkLayout [[c10_b1; c10_b2]] 1 5 3.
Definition c10_cfgB (fl : fault) (ext : bool) : cfg := mkCfg c10_layB 1 fl ext true true.

Theorem c10_complete_nofault_needed :
  exists pre C sched, fixed C /\ c_fault C <> FNone /\ c_ext C = false /\
    let s := run pre C sched (init C) in
    quiescent pre C s /\ expected_outcome (c_lay C) = OStop /\
    s_calls s <> pairs pre (expected_blocks (c_lay C)) /\ s_err s = Some EOpen.
Proof.
  exists c10_pre, (c10_cfgB (FOpen 0) false), (rounds (c10_cfgB (FOpen 0) false) 10).
  split; [split; reflexivity|]. split; [discriminate|]. split; [reflexivity|].
  set (s := run _ _ _ _). vm_compute in s.
  split; [c10_quiet|]. split; [vm_compute; reflexivity|]. split; [vm_compute; discriminate|reflexivity].
Qed.
Print Assumptions c10_complete_nofault_needed.

(* H = [c_ext C = false] in C10_order_complete: an outside Shutdown(nil) before anything was
   delivered.  Outside the quantifier (no outside Shutdown in the property text). *)
Theorem c10_complete_noext_needed :
  exists pre C sched, fixed C /\ c_fault C = FNone /\ c_ext C = true /\
    let s := run pre C sched (init C) in
    quiescent pre C s /\ returned s = true /\ s_err s = Some ENil /\ s_calls s = [] /\
    expected_blocks (c_lay C) <> [].
Proof.
  exists c10_pre, (c10_cfgB FNone true), ((TX, c10_f) :: rounds (c10_cfgB FNone true) 10).
  split; [split; reflexivity|]. split; [reflexivity|]. split; [reflexivity|].
  set (s := run _ _ _ _). vm_compute in s.
  split; [c10_quiet|]. repeat split; vm_compute; try reflexivity; discriminate.
Qed.
Print Assumptions c10_complete_noext_needed.

(* ---------------------------------------------------------------------------------------------
   H = [quiescent pre C s] in C10_order_complete, i.e. FAIRNESS / "the preprocessor returns":
   a schedule that runs every thread except the preprocess goroutines.  After 10 such rounds the
   state is a fixpoint of a further such round: nothing was delivered, Run has not returned, no
   error is set — and this stays so for ever unless TP 0 0 (the PreprocessFunc call of block 1) is
   scheduled.  Inside the quantifier only for FINITE delays ("every assignment of delays"); a
   preprocessor that never returns is outside.  Real code: TestU2_C11_Env_PreprocessorNeverReturns
   (same picture: delivered [1] resp. nothing, Run blocked, no error; Shutdown / a fault still
   ends the run). *)
Definition c10_noTP :=
  filter (fun tc : tid * bool => match fst tc with TP _ _ => false | _ => true end).

Theorem c10_complete_fairness_needed :
  exists pre C sched, fixed C /\ c_fault C = FNone /\ c_ext C = false /\
    let s := run pre C sched (init C) in
    run pre C (c10_noTP (all_moves C)) s = s /\           (* stuck without the preprocessor *)
    ~ quiescent pre C s /\
    s_calls s = [] /\ returned s = false /\ s_err s = None /\
    expected_blocks (c_lay C) = [c10_b1; c10_b2].
Proof.
  exists c10_pre, (c10_cfgB FNone false), (c10_noTP (rounds (c10_cfgB FNone false) 10)).
  split; [split; reflexivity|]. split; [reflexivity|]. split; [reflexivity|].
  set (s := run _ _ _ _). vm_compute in s.
  split; [vm_compute; reflexivity|].
  split; [intro Q; specialize (Q (TP 0 0, false));
          apply (f_equal (fun st => f_cell (s_file st 0) 0)) in Q; vm_compute in Q; discriminate Q|].
  repeat split; vm_compute; reflexivity.
Qed.
Print Assumptions c10_complete_fairness_needed.

(* ---------------------------------------------------------------------------------------------
   H = [b_id (last d blk0) <> 0] in C10_continuity (it also implies [d <> []], which is therefore
   redundant): a stored block with the EMPTY id (0) switches the parent test off for its successor,
   exactly as `lastBlockID != ""` does.  d = [block 1 with id ""], b = block 2 naming 7 as parent:
   b is delivered, the run ends with stop-block-reached.  A block without id is malformed input:
   outside the quantifier as we read it.  Real code: TestU2_C10_EmptyIDDisablesContinuityCheck (same). *)
Definition c10_e1 := mkBlk 0 1 0.
Definition c10_e2 := mkBlk 3 2 7.
Definition c10_layC : layout := mkLayout [[c10_e1; c10_e2]] 1 5 3.
Definition c10_cfgC : cfg := mkCfg c10_layC 1 FNone false true true.

Theorem c10_cont_lastid_needed :
  exists pre C sched d b r, fixed C /\
    candidates (c_lay C) = d ++ b :: r /\ linked_from 0 d /\ d <> [] /\
    b_id (last d blk0) = 0 /\ b_par b <> b_id (last d blk0) /\
    let s := run pre C sched (init C) in
    ~ prefix (s_calls s) (pairs pre d) /\
    c_fault C = FNone /\ c_ext C = false /\ quiescent pre C s /\
    s_err s = Some EStop /\ s_calls s = pairs pre (d ++ [b]).
Proof.
  exists c10_pre, c10_cfgC, (rounds c10_cfgC 12), [c10_e1], c10_e2, [].
  split; [split; reflexivity|]. split; [vm_compute; reflexivity|].
  split; [simpl; auto|]. split; [discriminate|]. split; [reflexivity|]. split; [vm_compute; discriminate|].
  set (s := run _ _ _ _). vm_compute in s.
  split; [intros [x H]; vm_compute in H; discriminate H|].
  split; [reflexivity|]. split; [reflexivity|]. split; [c10_quiet|]. split; vm_compute; reflexivity.
Qed.
Print Assumptions c10_cont_lastid_needed.

(* H = [linked_from 0 d] in C10_continuity (second half): when d itself has a break the run stops
   earlier, after the linked prefix of d.  Structural (d is meant to be the linked prefix). *)
Definition c10_layD : layout := mkLayout [[mkBlk 1 1 0; mkBlk 2 2 9; mkBlk 3 3 8]] 1 5 3.
Definition c10_cfgD : cfg := mkCfg c10_layD 1 FNone false true true.

Theorem c10_cont_linked_needed :
  exists pre C sched d b r, fixed C /\
    candidates (c_lay C) = d ++ b :: r /\ ~ linked_from 0 d /\ d <> [] /\
    b_id (last d blk0) <> 0 /\ b_par b <> b_id (last d blk0) /\
    let s := run pre C sched (init C) in
    c_fault C = FNone /\ c_ext C = false /\ quiescent pre C s /\
    s_err s = Some ENonSeq /\ s_calls s <> pairs pre d.
Proof.
  exists c10_pre, c10_cfgD, (rounds c10_cfgD 12), [mkBlk 1 1 0; mkBlk 2 2 9], (mkBlk 3 3 8), [].
  split; [split; reflexivity|]. split; [vm_compute; reflexivity|].
  split; [simpl; intros [_ [[H|H] _]]; discriminate H|].
  split; [discriminate|]. split; [vm_compute; discriminate|]. split; [vm_compute; discriminate|].
  set (s := run _ _ _ _). vm_compute in s.
  split; [reflexivity|]. split; [reflexivity|]. split; [c10_quiet|].
  split; [reflexivity|vm_compute; discriminate].
Qed.
Print Assumptions c10_cont_linked_needed.
