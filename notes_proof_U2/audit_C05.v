(* U2 hypothesis audit, C05 (resuming from a cursor on the live hub): necessity witnesses.
   Every theorem is closed (vm_compute on concrete inputs).  See notes_proof_U2/notes_C05.md. *)
From BV Require Import Base.Prelude Model.Block Model.ForkDB Model.Forkable Model.ForkableLookups
  Model.Burst Model.Hub Spec.Consumer Spec.Universe Check.Fk_Check Check.Burst_Check Spec.C09_Spec Spec.C05_Spec
  Spec.C05_Through_Spec Spec.C01_Spec Spec.C01_Moving_Spec Spec.C05_History_Spec
  Proofs.C09_Store Properties.C09 Properties.C05 Properties.C05_Through.
Local Open Scope N_scope.

Definition c05_show (b : burst) : option (list (step * N * N * option ref)) :=
  match b with BOk evs => Some (map (fun e => (estep e, bid (eblk e), rn (elib e), ejunc e)) evs) | _ => None end.

(* ------------------------------------------------------------------ c05_through_forked_burst / _consumer:
   hypothesis `complete_segment (db s) (cu_blk c) = Some (csg, true)` (the cursor block's own branch reaches the
   hub LIB).  CANDIDATE DEFECT, inside the quantifier.

   History (wf_b, lib_ok_b; hub configuration first streamable 1, retention 2):
     11@1 <- 12@2 <- 23@3, then 13@3 (child of 12), 14@4 (declares LIB 2), 15@5 (declares LIB 3).
   Event 3 of the stream is "New 23" with cursor {New, 23@3, head 23@3, LIB 11@1}.  After block 14 the hub LIB is
   12 = the junction and the through-cursor burst from start 2 is served.  After block 15 the hub LIB is 13, above
   the junction; cursor LIB 11 is still on the retained chain with its number, block 23 is still retained,
   blocks_from_cursor serves the cursor - but blocks_through_cursor / hub_through_cursor answer "no source" for every
   start block at or below the junction.  Replayed on the real Forkable: TestU2_C05_ThroughForkedBelowHubLIB. *)
Definition c05_b1 := mkBlock 11 1 10 0.
Definition c05_b2 := mkBlock 12 2 11 1.
Definition c05_b3' := mkBlock 23 3 12 1.
Definition c05_b3 := mkBlock 13 3 12 1.
Definition c05_b4 := mkBlock 14 4 13 2.
Definition c05_b5 := mkBlock 15 5 14 3.
Definition c05_h := [c05_b1; c05_b2; c05_b3'; c05_b3; c05_b4; c05_b5].
Definition c05_cfg := hub_config 1 2.
Definition c05_events := concat (map fst (fk_run c05_cfg (fs_init LNone) c05_h)).
Definition c05_ek := nth 3 c05_events (mkEv SNew c05_b1 ref_empty ref_empty ref_empty None 0 0).
Definition c05_cur := ev_cursor c05_ek.
Definition c05_s5 := state_after c05_cfg (fs_init LNone) c05_h 5.
Definition c05_s6 := state_after c05_cfg (fs_init LNone) c05_h 6.
Definition c05_sg6 : list seg :=
  match complete_segment (db c05_s6) (bref c05_b5) with Some (sg, _) => sg | None => [] end.

Theorem c05_through_reach_needed :
  wf_b c05_h = true /\ lib_ok_b LNone c05_h = true /\
  (* the cursor is minted by the stream: event 3 is New 23 *)
  nth_error c05_events 3 = Some c05_ek /\ estep c05_ek = SNew /\
  c05_cur = mkCursor SNew (mkR 23 3) (mkR 23 3) (mkR 11 1) /\
  (* after block 14 (hub LIB 12 = the junction) the through-cursor burst from start 2 is served *)
  libref (db c05_s5) = mkR 12 2 /\
  c05_show (blocks_through_cursor c05_s5 2 c05_cur) =
    Some [(SNew, 12, 1, None); (SNew, 23, 1, None); (SUndo, 23, 1, Some (mkR 12 2));
          (SIrr, 12, 2, None); (SNew, 13, 2, None); (SNew, 14, 2, None)] /\
  (* after block 15: hub LIB 13, head 15, retained chain 11..15; every other hypothesis of
     c05_through_forked_burst / c05_serves holds ... *)
  wf_state c05_s6 /\ head_chain c05_s6 c05_b5 c05_sg6 /\ map sid c05_sg6 = [11; 12; 13; 14; 15] /\
  libref (db c05_s6) = mkR 13 3 /\
  starts_within c05_sg6 2 /\ block_in (ri (cu_blk c05_cur)) c05_sg6 = false /\
  cursor_numbered (db c05_s6) c05_cur /\
  (exists x, In x c05_sg6 /\ sid x = ri (cu_lib c05_cur) /\ snum x = rn (cu_lib c05_cur)) /\   (* cursor LIB retained, canonical *)
  find 23 (store (db c05_s6)) <> None /\                                                       (* cursor block retained *)
  branch_to (db c05_s6) c05_sg6 23 [mkSeg 23 3 (mkEntry c05_b3' true)] 12 /\                    (* junction 12@2 *)
  (* ... the plain cursor request is served ... *)
  c05_show (blocks_from_cursor c05_s6 c05_cur) =
    Some [(SUndo, 23, 1, Some (mkR 12 2)); (SIrr, 12, 2, None); (SNewIrr, 13, 3, None); (SNew, 14, 3, None); (SNew, 15, 3, None)] /\
  (* ... but the branch of 23 does not reach the hub LIB and the target-cursor request gets no source, from every
     start block at or below the junction *)
  (exists csg, complete_segment (db c05_s6) (cu_blk c05_cur) = Some (csg, false) /\ map sid csg = [11; 12; 23]) /\
  blocks_through_cursor c05_s6 1 c05_cur = BErr /\ blocks_through_cursor c05_s6 2 c05_cur = BErr /\
  hub_through_cursor c05_s6 1 c05_cur = BErr /\ hub_through_cursor c05_s6 2 c05_cur = BErr.
Proof.
  split; [vm_compute; reflexivity|]. split; [vm_compute; reflexivity|].
  split; [vm_compute; reflexivity|]. split; [vm_compute; reflexivity|].
  split; [vm_compute; reflexivity|]. split; [vm_compute; reflexivity|].
  split; [vm_compute; reflexivity|].
  split; [apply wf_state_b_sound; vm_compute; reflexivity|].
  split; [repeat split; vm_compute; reflexivity|].
  split; [vm_compute; reflexivity|]. split; [vm_compute; reflexivity|].
  split; [vm_compute; discriminate|]. split; [vm_compute; reflexivity|].
  split; [intros e H; vm_compute in H; injection H as <-; reflexivity|].
  split; [exists (nth 0 c05_sg6 (mkSeg 0 0 (mkEntry c05_b1 false))); vm_compute; auto|].
  split; [vm_compute; discriminate|].
  split; [apply (bt_last (db c05_s6) c05_sg6 23 (mkEntry c05_b3' true)); vm_compute; reflexivity|].
  split; [vm_compute; reflexivity|].
  split; [eexists; split; vm_compute; reflexivity|].
  vm_compute. repeat split.
Qed.
Print Assumptions c05_through_reach_needed.

(* ------------------------------------------------------------------ c05_through_forked*: cursor_numbered
   A cursor naming the retained fork block 23 under number 2 instead of 3 (state ex_s1 of Properties/C05_Through.v:
   chain 11..14, fork 23 on 12, hub LIB 12): through_branch matches by NUMBER and stops at block 12, so "New 23" is
   missing from the burst while "Undo 23" is sent: the consumer that holds nothing is asked to undo a block it never
   received.  Outside the quantifier: the stream mints cursors with the block's own number (c05_cursor_meets_hypotheses). *)
Definition c05_c_misnumbered := mkCursor SNew (mkR 23 2) (mkR 23 3) (mkR 12 2).
Theorem c05_cursor_numbered_needed :
  ~ cursor_numbered (db ex_s1) c05_c_misnumbered /\
  c05_show (blocks_through_cursor ex_s1 2 c05_c_misnumbered) =
    Some [(SNewIrr, 12, 2, None); (SUndo, 23, 2, Some (mkR 12 2)); (SNew, 13, 2, None); (SNew, 14, 2, None)] /\
  (* with the right number: *)
  c05_show (blocks_through_cursor ex_s1 2 ex_cf) =
    Some [(SNewIrr, 12, 2, None); (SNew, 23, 2, None); (SUndo, 23, 2, Some (mkR 12 2)); (SNew, 13, 2, None); (SNew, 14, 2, None)] /\
  (match blocks_through_cursor ex_s1 2 c05_c_misnumbered with
   | BOk evs => cons_fold cons0 (tolerate 2 evs) = None | _ => False end).
Proof.
  split.
  - intro H. specialize (H (mkEntry ex_b3' false) eq_refl). vm_compute in H. discriminate H.
  - vm_compute. repeat split.
Qed.
Print Assumptions c05_cursor_numbered_needed.

(* ------------------------------------------------------------------ c05_through_forked_consumer:
   "the cursor LIB is not above the junction" (rn (cu_lib c) <= bnum (eb je)).
   Cursor on the fork block 23 (junction 12@2) whose LIB is 13@3, a canonical block that is NOT an ancestor of 23:
   the fork block is announced New+Irreversible, then undone, and the canonical block 13 is never delivered; the
   consumer rejects the burst.  Outside the quantifier: a stream cursor's LIB is an ancestor of its block, and final
   blocks stay canonical (lib_ok); proved for stream cursors in c05_cursor_meets_hypotheses. *)
Definition c05_c_lib_above := mkCursor SNew (mkR 23 3) (mkR 23 3) (mkR 13 3).
Theorem c05_lib_not_above_junction_needed :
  (exists x, In x ex_sg1 /\ sid x = ri (cu_lib c05_c_lib_above) /\ snum x = rn (cu_lib c05_c_lib_above)) /\
  cursor_numbered (db ex_s1) c05_c_lib_above /\
  ~ (rn (cu_lib c05_c_lib_above) <= bnum ex_b2) /\
  c05_show (blocks_through_cursor ex_s1 2 c05_c_lib_above) =
    Some [(SNewIrr, 12, 2, None); (SNewIrr, 23, 3, None); (SUndo, 23, 3, Some (mkR 12 2)); (SNew, 14, 2, None)] /\
  (match blocks_through_cursor ex_s1 2 c05_c_lib_above with
   | BOk evs => cons_fold cons0 (tolerate 2 evs) = None | _ => False end) /\
  (* the plain cursor burst loses block 13 as well *)
  c05_show (blocks_from_cursor ex_s1 c05_c_lib_above) = Some [(SUndo, 23, 3, Some (mkR 12 2)); (SNew, 14, 2, None)].
Proof.
  split; [exists (nth 2 ex_sg1 (mkSeg 0 0 (mkEntry ex_b1 false))); vm_compute; auto|].
  split; [apply ex_numbered|].
  split; [vm_compute; intro H; apply H; reflexivity|].
  vm_compute. repeat split.
Qed.
Print Assumptions c05_lib_not_above_junction_needed.

(* ------------------------------------------------------------------ c05_serves: the cursor LIB is on the chain
   "with its number" (snum x = rn (cu_lib c)).  Cursor LIB id 12 under number 0: refused by the test
   `cursor LIB number < first number of the segment`.  Outside the quantifier (malformed cursor). *)
Theorem c05_lib_number_needed :
  block_in 12 ex_sg = true /\
  blocks_from_cursor ex_s (mkCursor SNew (mkR 13 3) (mkR 13 3) (mkR 12 0)) = BErr /\
  c05_show (blocks_from_cursor ex_s (mkCursor SNew (mkR 13 3) (mkR 13 3) (mkR 12 2))) =
    Some [(SIrr, 13, 3, None); (SNew, 14, 3, None); (SNew, 15, 3, None)].
Proof. vm_compute. repeat split. Qed.
Print Assumptions c05_lib_number_needed.

(* ------------------------------------------------------------------ c05_total: last_sent s <> None
   With a LIB and without a head the MODEL takes the nil-dereference branch (BPanic).  Needed for the model only:
   the real code answers with an error in that state (Block.AsRef of package pbbstream is nil-safe; replayed:
   TestU2_C05_ConfiguredLIBNoHead, TestU2_C05_WildLIBNoHead) - a model infidelity in a state no theorem's hypotheses
   allow and the correspondence check never produces. *)
Definition c05_s_nohead : fstate := mkFS (db ex_s) None (last_lib_seen ex_s) (ncalls ex_s).
Theorem c05_last_sent_needed :
  has_lib (db c05_s_nohead) = true /\ last_sent c05_s_nohead = None /\
  blocks_from_cursor c05_s_nohead ex_c_new = BPanic /\ blocks_through_cursor c05_s_nohead 2 ex_c_new = BPanic /\
  ~ served_or_not (blocks_from_cursor c05_s_nohead ex_c_new).
Proof.
  split; [vm_compute; reflexivity|]. split; [reflexivity|].
  split; [vm_compute; reflexivity|]. split; [vm_compute; reflexivity|].
  intros [[evs H]|H]; vm_compute in H; discriminate H.
Qed.
Print Assumptions c05_last_sent_needed.
