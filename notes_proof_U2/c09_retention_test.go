// package directory: hub; run: go test -vet=off -count=1 -v -run TestU2_C09_Retention ./hub/ (place next to u2_c09_helpers_test.go; file name in the repo: u2_c09_retention_test.go)
package hub

import (
	"fmt"
	"testing"
)

// "every retention value": the model takes kept : N. The Go parameter is an int: 0, 1, huge and NEGATIVE values are replayed.
// Linear chain 1..40, LIB two behind, first streamable block 1; files hold 1..30 when the first live block 31 arrives.
// After every live block the servable-window clause is evaluated on the real answers.
func TestU2_C09_Retention(t *testing.T) {
	for _, kept := range []int{0, 1, 5, 1 << 40, -1, -1 << 62} {
		t.Run(fmt.Sprintf("kept=%d", kept), func(t *testing.T) {
			h := u2c09New(t, 1, kept)
			ch := u2c09Chain(1, 40, 2, 0)
			files := ch[:30]
			for i := 30; i < 40; i++ {
				r := h.live(ch[i], &u2c09Pass{blocks: files})
				if r != "ok" {
					t.Fatalf("live %d: %s", ch[i].num, r)
				}
				if !h.fh.IsReady() {
					t.Fatalf("not ready after live %d: %s", ch[i].num, h.state())
				}
				desc, ok := h.window()
				if i == 30 || i == 39 {
					t.Logf("after live %d: %s | starts=%v | %s | forks(0)=%s", ch[i].num, h.state(), h.starts, desc, h.forks(0))
				}
				if !ok {
					t.Errorf("servable window violated after live %d: %s | %s", ch[i].num, h.state(), desc)
				}
			}
			// expected lowest after live 40: LIB = 38, cutoff = 38 - kept (0 when kept is larger or negative)
			low := h.fh.LowestBlockNum()
			var want uint64 = 1
			if kept >= 0 && kept < 38 {
				want = 38 - uint64(kept)
			}
			if low != want {
				t.Errorf("kept=%d: lowest=%d, want %d", kept, low, want)
			}
		})
	}
}
