// package directory: . (repo root, package bstream); run: go test -vet=off -count=1 -run 'TestU2_C06' .
// U2 hypothesis audit, C06: inputs that violate a hypothesis of a C06 theorem, replayed on the real
// NewFileSourceFromCursor / NewFileSourceThroughCursor.  Every test PASSES and asserts the observed behaviour.
package bstream

import (
	"errors"
	"fmt"
	"strings"
	"testing"
	"time"

	pbbstream "github.com/streamingfast/bstream/pb/sf/bstream/v1"
	"github.com/streamingfast/dstore"
	"github.com/stretchr/testify/require"
)

type u2c06Res struct {
	events   []string
	err      error
	panicked interface{}
	hung     bool
}

// u2c06Chain builds the canonical chain n=lo..hi with ids "<n>aaaaaaaaaaaaaaa"-style fixed width (suffix given)
func u2c06ID(n uint64, suffix string) string { return fmt.Sprintf("%015d%s", n, suffix) }

func u2c06Run(t *testing.T, merged []*pbbstream.Block, forked dstore.Store, cursor *Cursor, through bool, start, stop uint64) *u2c06Res {
	mstore := dstore.NewMockStore(nil)
	mstore.SetFile(base(0), testBlocks(merged...))
	res := &u2c06Res{}
	h := HandlerFunc(func(blk *pbbstream.Block, obj interface{}) error {
		s := obj.(Stepable)
		line := fmt.Sprintf("%s %s", s.Step().String(), blk.AsRef().String())
		if j := s.ReorgJunctionBlock(); j != nil {
			line += " junction=" + j.String()
		}
		res.events = append(res.events, line)
		return nil
	})
	var fs *FileSource
	if through {
		fs = NewFileSourceThroughCursor(mstore, forked, start, cursor, h, zlog, FileSourceWithStopBlock(stop))
	} else {
		fs = NewFileSourceFromCursor(mstore, forked, cursor, h, zlog, FileSourceWithStopBlock(stop))
	}
	done := make(chan struct{})
	go func() {
		defer close(done)
		defer func() {
			if r := recover(); r != nil {
				res.panicked = r
			}
		}()
		fs.Run()
	}()
	select {
	case <-done:
	case <-time.After(3 * time.Second):
		res.hung = true
		fs.Shutdown(errors.New("watchdog"))
	}
	res.err = fs.Err()
	t.Logf("events=%v err=%v panicked=%v hung=%v", res.events, res.err, res.panicked, res.hung)
	return res
}

func u2c06Canon(lo, hi uint64) (out []*pbbstream.Block) {
	for n := lo; n <= hi; n++ {
		parent := ""
		if n > lo {
			parent = u2c06ID(n-1, "a")
		}
		out = append(out, TestBlockWithNumbers(u2c06ID(n, "a"), parent, n, 0))
	}
	return
}

// (A) hypothesis `In B D` of c06_through_on_chain / c06_through_final_cursor: the target cursor's block is
// delivered by the file source, i.e. start <= cursor block number.  Start block ABOVE an on-chain target cursor.
func TestU2_C06_ThroughStartAboveCursor(t *testing.T) {
	canon := u2c06Canon(1, 8)
	cur := &Cursor{Step: StepNew, Block: NewBlockRef(u2c06ID(5, "a"), 5), HeadBlock: NewBlockRef(u2c06ID(5, "a"), 5), LIB: NewBlockRef(u2c06ID(3, "a"), 3)}
	// control: start 5 (= cursor block) is served
	r := u2c06Run(t, canon, dstore.NewMockStore(nil), cur, true, 5, 8)
	require.Equal(t, 4, len(r.events))
	require.True(t, errors.Is(r.err, ErrStopBlockReached))
	// start 6 and 7: nothing delivered, "not implemented" error although the cursor block is canonical and final
	for _, start := range []uint64{6, 7} {
		r = u2c06Run(t, canon, dstore.NewMockStore(nil), cur, true, start, 8)
		require.Empty(t, r.events)
		require.Error(t, r.err)
		require.True(t, strings.Contains(r.err.Error(), "not implemented"), r.err.Error())
		require.False(t, errors.Is(r.err, ErrResolveCursor))
	}
	// final target cursor on block 3, start 5
	fin := &Cursor{Step: StepIrreversible, Block: NewBlockRef(u2c06ID(3, "a"), 3), HeadBlock: NewBlockRef(u2c06ID(5, "a"), 5), LIB: NewBlockRef(u2c06ID(3, "a"), 3)}
	r = u2c06Run(t, canon, dstore.NewMockStore(nil), fin, true, 5, 8)
	require.Empty(t, r.events)
	require.True(t, r.err != nil && strings.Contains(r.err.Error(), "not implemented"))
}

// (B) hypothesis "the forked-blocks store answers" (file_of ... = Some w / None): a nil forked-blocks store.
func TestU2_C06_NilForkedStore(t *testing.T) {
	canon := u2c06Canon(1, 8)
	cur := &Cursor{Step: StepNew, Block: NewBlockRef(u2c06ID(5, "b"), 5), HeadBlock: NewBlockRef(u2c06ID(5, "b"), 5), LIB: NewBlockRef(u2c06ID(3, "a"), 3)}
	r := u2c06Run(t, canon, nil, cur, false, 0, 8)
	t.Logf("nil forked store: panicked=%v err=%v", r.panicked, r.err)
}

// (D) hypothesis `reached`: the merged files end below the number of a forked cursor block, with a stop block.
func TestU2_C06_NotReachedStop(t *testing.T) {
	canon := u2c06Canon(1, 8)
	forked := dstore.NewMockStore(nil)
	f9 := TestBlockWithNumbers(u2c06ID(9, "b"), u2c06ID(8, "a"), 9, 0)
	forked.SetFile(BlockFileName(f9), testBlocks(f9))
	cur := &Cursor{Step: StepNew, Block: f9.AsRef(), HeadBlock: f9.AsRef(), LIB: NewBlockRef(u2c06ID(3, "a"), 3)}
	r := u2c06Run(t, canon, forked, cur, false, 0, 8)
	require.Empty(t, r.events)
	require.True(t, errors.Is(r.err, ErrStopBlockReached))
}

// (C) trusted-base hypothesis of Model/CursorResolver.v: "block ids are compared whole" -- the real resolver matches
// the walk's parent id against the buffered final blocks with strings.HasSuffix on the 16-character truncation.
// Ids of different lengths where a forked id is a proper suffix of a canonical id (the library's own tests use
// 2-character ids such as "1a", "2a").
func TestU2_C06_IdSuffixJunction(t *testing.T) {
	canon := []*pbbstream.Block{
		TestBlockWithNumbers("1a", "", 1, 0),
		TestBlockWithNumbers("12b", "1a", 2, 0), // canonical block 2; its id ends with "2b"
		TestBlockWithNumbers("3a", "12b", 3, 0),
		TestBlockWithNumbers("4a", "3a", 4, 0),
	}
	f2 := TestBlockWithNumbers("2b", "1a", 2, 0)
	f3 := TestBlockWithNumbers("3b", "2b", 3, 0)
	forked := dstore.NewMockStore(nil)
	forked.SetFile(BlockFileName(f2), testBlocks(f2))
	forked.SetFile(BlockFileName(f3), testBlocks(f3))
	cur := &Cursor{Step: StepNew, Block: f3.AsRef(), HeadBlock: f3.AsRef(), LIB: NewBlockRef("1a", 1)}
	r := u2c06Run(t, canon, forked, cur, false, 0, 4)
	// the consumer holds 1a <- 2b <- 3b; a correct answer: undo 3b, undo 2b (junction 1a), new+irr 12b, 3a, 4a.
	// observed: only 3b is undone, with the canonical block 12b named as junction, and 12b is announced
	// Irreversible although the consumer never received it (it holds 2b at that height).
	require.Equal(t, []string{
		"undo #3 (3b) junction=#2 (12b)",
		"irreversible #2 (12b)",
		"new,irreversible #3 (3a)",
		"new,irreversible #4 (4a)",
	}, r.events)
}

// (A') the same request through the JoiningSource (what stream.Stream builds): start block 7, target cursor on the
// canonical block 5, live side not serving yet (hub lowest block above the files): the whole source fails.
func TestU2_C06_ThroughStartAboveCursor_Joining(t *testing.T) {
	mstore := dstore.NewMockStore(nil)
	mstore.SetFile(base(0), testBlocks(u2c06Canon(1, 8)...))
	files := NewFileSourceFactory(mstore, dstore.NewMockStore(nil), zlog, FileSourceWithStopBlock(8))
	live := NewTestSourceFactory()
	live.LowestBlkNum = 1000
	live.ThroughCursorFunc = func(uint64, *Cursor, Handler) Source { return nil }
	cur := &Cursor{Step: StepNew, Block: NewBlockRef(u2c06ID(5, "a"), 5), HeadBlock: NewBlockRef(u2c06ID(5, "a"), 5), LIB: NewBlockRef(u2c06ID(3, "a"), 3)}
	var got []string
	h := HandlerFunc(func(blk *pbbstream.Block, obj interface{}) error {
		got = append(got, blk.AsRef().String())
		return nil
	})
	js := NewJoiningSource(files, live, h, 7, cur, true, zlog)
	done := make(chan struct{})
	go func() { defer close(done); js.Run() }()
	select {
	case <-done:
	case <-time.After(3 * time.Second):
		t.Fatal("joining source hangs")
	}
	t.Logf("joining source: delivered=%v err=%v", got, js.Err())
	require.Empty(t, got)
	require.Error(t, js.Err())
	require.True(t, strings.Contains(js.Err().Error(), "not implemented"))
}
