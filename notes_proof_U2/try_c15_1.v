From Coq Require Import Sorted.
From BV Require Import Base.Prelude Model.BlockIndex Spec.C15_Spec Check.C15_Check.
Local Open Scope N_scope.

Definition ka : str := [97].
Definition kb : str := [98].
Definition ma : str -> bool := key_matches [FExact ka].

Definition storeof (r : res (indexer kvmap)) : store kvmap := match r with Ok ix => ix_store ix | Panic => [] end.
Definition run_ix fsb size start fd : store kvmap :=
  match new_indexer [] size start with Ok ix0 => storeof (indexer_run enc0 fsb ix0 fd) | Panic => [] end.

(* 1. feed out of order across ranges *)
Definition fd1 : feed := [([ka],0); ([ka],10); ([ka],5); ([ka],20)].
Eval vm_compute in run_ix 0 10 None fd1.
Eval vm_compute in blocks_in_range dec0 0 (run_ix 0 10 None fd1) [10] ma prov0 0 10.
Eval vm_compute in blocks_in_range dec0 0 (run_ix 0 10 None fd1) [10] ma prov0 10 10.

(* 1b. duplicates: same block fed twice with different keys *)
Definition fd1b : feed := [([ka],0); ([kb],0); ([ka],3); ([ka],3); ([ka],10)].
Eval vm_compute in run_ix 0 10 None fd1b.

(* 2. defined start above first block *)
Definition fd2 : feed := [([ka],5); ([ka],10); ([ka],12); ([ka],20)].
Eval vm_compute in run_ix 0 10 (Some 10) fd2.
Eval vm_compute in blocks_in_range dec0 0 (run_ix 0 10 (Some 10) fd2) [10] ma prov0 0 10.
Eval vm_compute in blocks_in_range dec0 0 (run_ix 0 10 (Some 10) fd2) [10] ma prov0 10 10.
(* defined start far above *)
Eval vm_compute in run_ix 0 10 (Some 30) fd2.

(* 4. store_exact: two indexers, the bigger file partial *)
Definition chainA : feed := [([ka],0); ([ka],3); ([ka],7); ([ka],10); ([ka],15); ([ka],20); ([ka],25); ([ka], 30); ([ka], 40)].
Definition stA := fst (build_store 0 chainA [(10, None, 9)]).
Definition stB := match new_indexer stA 20 (Some 0) with Ok ix0 => storeof (indexer_run enc0 0 ix0 (skipn 2 chainA)) | Panic => [] end.
Eval vm_compute in stB.
Eval vm_compute in blocks_in_range dec0 0 stB [20;10] ma prov0 0 5.
Eval vm_compute in blocks_in_range dec0 0 stB [10;20] ma prov0 0 5.

(* streaming *)
Definition blocks_of (chain : list N) (bundle b : N) : list N := filter (fun n => (b <=? n) && (n <? b + bundle)) chain.
Definition exists_of (chain : list N) (bundle b : N) : bool := match blocks_of chain bundle b with [] => false | _ => true end.

(* d. match on a non-existing number, next existing block in the next bundle *)
Definition chainD : list N := [0;1;2;3;4;5;6;7;8;10;11;12;13;14;15;16].
(* abstract provider: M = {9} *)
Definition qM (M : list N) (bundle lim : N) (ps : unit) (base : N) : unit * option (list N) :=
  (tt, if base <? lim then Some (filter (fun n => (base <=? n) && (n <? base + bundle)) M) else None).
Eval vm_compute in file_source_run unit (qM [9] 5 100) 0 16 5 (fun _ => false) (exists_of chainD 5) (blocks_of chainD 5) 20 20 (Some tt) [].
(* same bundle: skipped number 7, next existing 8 in same bundle *)
Definition chainD2 : list N := [0;1;2;3;4;5;6;8;9;10;11;12;13;14;15;16].
Eval vm_compute in file_source_run unit (qM [7] 5 100) 0 16 5 (fun _ => false) (exists_of chainD2 5) (blocks_of chainD2 5) 20 20 (Some tt) [].
(* whitelist 9 skipped over bundle boundary *)
Eval vm_compute in file_source_run unit (qM [] 5 100) 0 16 5 (fun _ => false) (exists_of chainD 5) (blocks_of chainD 5) 20 20 (Some tt) [8;9].

(* f. start > stop *)
Definition chainF : list N := [0;1;2;3;4;5;6;7;8;9;10;11;12;13;14;15;16;17;18;19;20].
Eval vm_compute in file_source_run unit (qM [2] 5 100) 12 3 5 (fun _ => false) (exists_of chainF 5) (blocks_of chainF 5) 20 20 (Some tt) [].
(* start > stop same bundle *)
Eval vm_compute in file_source_run unit (qM [2] 5 100) 13 11 5 (fun _ => false) (exists_of chainF 5) (blocks_of chainF 5) 20 20 (Some tt) [].

(* g. last available bundle read entirely *)
Eval vm_compute in file_source_run unit (qM [2] 5 100) 0 0 5 (fun _ => false) (exists_of chainF 5) (blocks_of chainF 5) 20 20 (Some tt) [].
(* g2. next bundle uncovered but exists: index ends at 10 *)
Eval vm_compute in file_source_run unit (qM [2] 5 10) 0 0 5 (fun _ => false) (exists_of chainF 5) (blocks_of chainF 5) 20 20 (Some tt) [].
Eval vm_compute in file_source_run unit (qM [2;7] 5 10) 0 0 5 (fun _ => false) (exists_of chainF 5) (blocks_of chainF 5) 20 20 (Some tt) [].
(* g3. index with a gap: covers [0,5) and [10,..) but not [5,10) *)
Definition qGap (M : list N) (bundle : N) (ps : unit) (base : N) : unit * option (list N) :=
  (tt, if base =? 5 then None else Some (filter (fun n => (base <=? n) && (n <? base + bundle)) M)).
Eval vm_compute in file_source_run unit (qGap [2;12] 5) 0 19 5 (fun _ => false) (exists_of chainF 5) (blocks_of chainF 5) 20 20 (Some tt) [].

(* b. provider returning unsorted *)
Definition qUns (ps : unit) (base : N) : unit * option (list N) := (tt, if base =? 5 then Some [8;6] else Some []).
Eval vm_compute in file_source_run unit qUns 0 19 5 (fun _ => false) (exists_of chainF 5) (blocks_of chainF 5) 20 20 (Some tt) [].
(* b2. unsorted in the start bundle: sorted by tweak *)
Eval vm_compute in file_source_run unit qUns 5 19 5 (fun _ => false) (exists_of chainF 5) (blocks_of chainF 5) 20 20 (Some tt) [].
