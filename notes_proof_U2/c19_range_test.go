// package directory: . (repo root, package bstream); run: go test -vet=off -count=1 -run 'TestU2_C19_' ./
package bstream

// U2 hypothesis audit, property C19: replays of the model-level necessity witnesses
// (notes_proof_U2/audit_C19.v) on the real Range code.  Every test PASSES and asserts the observed
// behaviour it logs (documentation of what the real code does at the point a hypothesis excludes).

import (
	"fmt"
	"math"
	"math/rand"
	"os"
	"strings"
	"testing"
	"time"
)

const u2c19Max = uint64(math.MaxUint64)

func u2c19Panic(f func()) (msg string) {
	defer func() {
		if r := recover(); r != nil {
			msg = fmt.Sprint(r)
		}
	}()
	f()
	return ""
}

// c19_next / c19_isnext guard "end + size < 2^64" (start + size when open-ended), c19_previous guard
// "size <= start".  Property: "Size, Next, Previous and IsNext agree with the interval arithmetic implied by
// the bounds", quantifier "values near the numeric limits".
// Observed: no error, no panic: the additions / subtractions wrap silently and the result is an inverted
// range (start > end) that contains no number, or — open-ended — a range that jumps to the other end of
// the number line.
func TestU2_C19_NextPreviousWrap(t *testing.T) {
	r := NewInclusiveRange(u2c19Max-9, u2c19Max-4)
	n := r.Next(10)
	sz, err := n.Size()
	t.Logf("%s.Next(10) = %s; Contains(start)=%v Contains(0)=%v Contains(5)=%v Contains(max)=%v; Size=%d err=%v",
		r, n, n.Contains(n.StartBlock()), n.Contains(0), n.Contains(5), n.Contains(u2c19Max), sz, err)
	if n.StartBlock() != u2c19Max-4 || *n.EndBlock() != 5 || n.Contains(n.StartBlock()) || n.Contains(0) || n.Contains(5) || n.Contains(u2c19Max) || sz != 10 {
		t.Fatalf("observation changed")
	}
	// IsNext follows the wrapped arithmetic
	wrapped := &Range{startBlock: u2c19Max - 4, endBlock: ptr(5)}
	t.Logf("IsNext(wrapped range %s, 10) = %v", wrapped, r.IsNext(wrapped, 10))
	if !r.IsNext(wrapped, 10) {
		t.Fatalf("observation changed")
	}

	o := NewOpenRange(u2c19Max - 4)
	on := o.Next(10)
	t.Logf("%s.Next(10) = %s; Contains(7): before=%v after=%v", o, on, o.Contains(7), on.Contains(7))
	if on.StartBlock() != 5 || on.EndBlock() != nil || o.Contains(7) || !on.Contains(7) {
		t.Fatalf("observation changed")
	}

	p := NewInclusiveRange(5, 10).Previous(10)
	psz, _ := p.Size()
	t.Logf("[5, 10].Previous(10) = %s; Contains(3)=%v Size=%d", p, p.Contains(3), psz)
	if p.StartBlock() != u2c19Max-4 || *p.EndBlock() != 5 || p.Contains(3) || psz != 10 {
		t.Fatalf("observation changed")
	}
	op := NewOpenRange(5).Previous(10)
	t.Logf("[5, nil].Previous(10) = %s; Contains(7)=%v", op, op.Contains(7))
	if op.StartBlock() != u2c19Max-4 || op.Contains(7) {
		t.Fatalf("observation changed")
	}
}

// c19_size / c19_split hypothesis range_ok, violated through the public API only (Next(0), Next with wrap).
func TestU2_C19_SplitAndSizeOfNonConstructedRanges(t *testing.T) {
	z := NewInclusiveRange(10, 15).Next(0) // [15,15]
	zs, _ := z.Size()
	chunks, err := z.Split(5)
	t.Logf("[10, 15].Next(0) = %s (newRange would reject it); Size=%d; Split(5) = %v err=%v; Contains(15)=%v", z, zs, chunks, err, z.Contains(15))
	if len(chunks) != 1 || chunks[0] != z || zs != 0 || !z.Contains(15) {
		t.Fatalf("observation changed")
	}

	inv := NewInclusiveRange(u2c19Max-14, u2c19Max-4).Next(105) // [2^64-5, 100]
	isz, _ := inv.Size()
	done := make(chan []*Range, 1)
	go func() { c, _ := inv.Split(10); done <- c }()
	select {
	case chunks = <-done:
	case <-time.After(2 * time.Second):
		fmt.Println("U2 watchdog: Split did not return")
		os.Exit(3)
	}
	anyIn := false
	for n := uint64(0); n <= 100; n++ {
		if inv.Contains(n) {
			anyIn = true
		}
	}
	in50 := false
	for _, c := range chunks {
		if c.Contains(50) {
			in50 = true
		}
	}
	t.Logf("%s (from Next(105)): Size=%d, contains any of 0..100: %v, contains its own start: %v; Split(10) = %d chunks %v; some chunk contains 50: %v",
		inv, isz, anyIn, inv.Contains(inv.StartBlock()), len(chunks), chunks, in50)
	if len(chunks) != 11 || anyIn || !in50 || isz != 105 {
		t.Fatalf("observation changed")
	}
}

// c19_split hypothesis 0 < chunk: property statement says "positive chunk size" (quantifier text: "all chunk sizes").
func TestU2_C19_SplitChunkZero(t *testing.T) {
	msg := u2c19Panic(func() { _, _ = NewInclusiveRange(10, 20).Split(0) })
	t.Logf("[10, 20].Split(0): panic=%q", msg)
	if !strings.Contains(msg, "divide by zero") {
		t.Fatalf("observation changed")
	}
	_, err := NewOpenRange(10).Split(0)
	t.Logf("[10, nil].Split(0): err=%v", err)
	if err != ErrOpenEndedRange {
		t.Fatalf("observation changed")
	}
}

// c19_split_partial claims NO wrap guard is needed after the fix: replay at the numeric limits, under a watchdog.
func TestU2_C19_SplitAtNumericLimits(t *testing.T) {
	type tc struct {
		s, e, chunk uint64
		exs, exe    bool
	}
	cases := []tc{
		{0, u2c19Max, 1 << 63, false, false},
		{0, u2c19Max, u2c19Max, false, false},
		{0, u2c19Max, u2c19Max - 1, false, true},
		{1, u2c19Max, u2c19Max - 2, true, false},
		{u2c19Max - 11, u2c19Max - 1, 4, false, true},
		{u2c19Max - 11, u2c19Max, 4, false, false},
		{u2c19Max - 1, u2c19Max, 1, false, false},
		{u2c19Max - 100, u2c19Max, 7, true, false},
		{5, u2c19Max, 1<<63 + 1, false, false},
		{1<<63 - 1, u2c19Max, 1 << 62, false, true},
		{0, 1, 1, true, true},
		{0, 2, 1, true, true},
	}
	for _, c := range cases {
		r := &Range{startBlock: c.s, endBlock: ptr(c.e), exclusiveStartBlock: c.exs, exclusiveEndBlock: c.exe}
		done := make(chan []*Range, 1)
		go func() { l, _ := r.Split(c.chunk); done <- l }()
		var l []*Range
		select {
		case l = <-done:
		case <-time.After(2 * time.Second):
			fmt.Printf("U2 watchdog: %s.Split(%d) did not return\n", r, c.chunk)
			os.Exit(3)
		}
		ok := len(l) > 0 && l[0].startBlock == c.s && *l[len(l)-1].endBlock == c.e
		for i, ch := range l {
			ok = ok && ch.startBlock < *ch.endBlock && *ch.endBlock-ch.startBlock <= c.chunk && ch.exclusiveStartBlock == c.exs && ch.exclusiveEndBlock == c.exe
			if i+1 < len(l) {
				ok = ok && *ch.endBlock == l[i+1].startBlock && *ch.endBlock%c.chunk == 0
			}
		}
		t.Logf("%s.Split(%d) -> %d chunks, shape ok=%v: %v", r, c.chunk, len(l), ok, l)
		if !ok {
			t.Fatalf("shape violated")
		}
	}
}

// c19_reached clause 2, hypothesis "the range contains a number": (5,6) is accepted by ParseRange and is empty.
func TestU2_C19_ReachedEndBlock_EmptyRange(t *testing.T) {
	r, err := ParseRange("5-6", WithExclusiveStart(), WithExclusiveEnd())
	if err != nil {
		t.Fatal(err)
	}
	var in []uint64
	for n := uint64(0); n < 10; n++ {
		if r.Contains(n) {
			in = append(in, n)
		}
	}
	t.Logf("ParseRange(\"5-6\", exclusive start+end) = %s; numbers contained: %v; ReachedEndBlock(3)=%v (4)=%v (5)=%v (6)=%v",
		r, in, r.ReachedEndBlock(3), r.ReachedEndBlock(4), r.ReachedEndBlock(5), r.ReachedEndBlock(6))
	if len(in) != 0 || r.ReachedEndBlock(4) || !r.ReachedEndBlock(5) {
		t.Fatalf("observation changed")
	}
}

// c19_parse_total clause 3, hypothesis a, b < 2^63: heights from 2^63 on cannot be parsed (error, not a crash).
func TestU2_C19_ParseRange_HeightsFrom2p63(t *testing.T) {
	r, err := ParseRange("5-9223372036854775808")
	t.Logf("ParseRange(\"5-9223372036854775808\") = %v, err=%v; NewInclusiveRange(5, 2^63) = %s", r, err, NewInclusiveRange(5, 1<<63))
	if r != nil || err == nil {
		t.Fatalf("observation changed")
	}
	r, err = ParseRange("5-9223372036854775807")
	if err != nil || *r.EndBlock() != 1<<63-1 {
		t.Fatalf("2^63-1 must parse: %v %v", r, err)
	}
}

// c19_constructors: guards of the public constructors.
func TestU2_C19_ConstructorsPanic(t *testing.T) {
	m1 := u2c19Panic(func() { _, _ = NewRangeContaining(u2c19Max, 2) })
	m2 := u2c19Panic(func() { NewInclusiveRange(5, 5) })
	m3 := u2c19Panic(func() { NewRangeExcludingEnd(6, 5) })
	t.Logf("NewRangeContaining(2^64-1, 2): panic=%q", m1)
	t.Logf("NewInclusiveRange(5,5): panic=%q; NewRangeExcludingEnd(6,5): panic=%q", m2, m3)
	if m1 == "" || m2 == "" || m3 == "" {
		t.Fatalf("observation changed")
	}
	r, err := NewRangeContaining(10, 5)
	r2, _ := NewRangeContaining(15, 5)
	t.Logf("NewRangeContaining(10,5) = %s err=%v, NewRangeContaining(15,5) = %s: both contain 15: %v", r, err, r2, r.Contains(15) && r2.Contains(15))
}

// outside the model: nil *Range arguments / receivers, options that return nil.
func TestU2_C19_NilRangeAndOptions(t *testing.T) {
	r := NewInclusiveRange(10, 15)
	m1 := u2c19Panic(func() { r.IsNext(nil, 5) })
	m2 := u2c19Panic(func() { r.Equals(nil) })
	var nilr *Range
	m3 := u2c19Panic(func() { nilr.Contains(3) })
	t.Logf("IsNext(nil,5): panic=%q; Equals(nil): panic=%q; (*Range)(nil).Contains(3): panic=%q; (*Range)(nil).String()=%q", m1, m2, m3, nilr.String())
	if m1 == "" || m2 == "" || m3 == "" {
		t.Fatalf("observation changed")
	}
	got, err := ParseRange("1-2", func(p *Range) *Range { return nil })
	t.Logf("ParseRange(\"1-2\", option returning nil) = (%v, %v): neither a range nor an error", got, err)
	if got != nil || err != nil {
		t.Fatalf("observation changed")
	}
}

// ParseRange: a range or an error for every string — random and hand-made hostile strings, no panic;
// an accepted range is bounded with start < end.
func TestU2_C19_ParseRange_Hostile(t *testing.T) {
	hand := []string{"", "-", ":", "--", "5", "5-", "-5", "5--10", "-5-10", "5:-10", "+5-+10", " 5 - 10 ", "5 -\t10", "5-10-15",
		"0x10-0x20", "1e3-2e3", "1_000-2_000", "1,000-9,000", "٥-١٠", "５-１０", "5−10", "5–10", "\x00-\x00", "\xff-\xfe", "5-\xf0\x9f",
		"9223372036854775807-9223372036854775808", "18446744073709551615-18446744073709551616", "0-0", "00-01", "-0-+1",
		strings.Repeat("9", 5000) + "-" + strings.Repeat("9", 5001), strings.Repeat("-", 100000), strings.Repeat("1-", 50000), "a-b", "1 2-3 4", "12-1 3"}
	rng := rand.New(rand.NewSource(19))
	alphabet := []byte("0123456789-: +,_x\x00\xff\xc3\xa9a")
	check := func(s string) {
		var r *Range
		var err error
		if msg := u2c19Panic(func() { r, err = ParseRange(s) }); msg != "" {
			t.Fatalf("ParseRange(%q) panicked: %s", s, msg)
		}
		if (r == nil) == (err == nil) {
			t.Fatalf("ParseRange(%q) = (%v, %v)", s, r, err)
		}
		if r != nil && (r.endBlock == nil || r.startBlock >= *r.endBlock) {
			t.Fatalf("ParseRange(%q) = %s not a constructed range", s, r)
		}
	}
	for _, s := range hand {
		check(s)
		if len(s) < 60 {
			r, err := ParseRange(s)
			t.Logf("ParseRange(%q) = %v, %v", s, r, err)
		}
	}
	for i := 0; i < 200000; i++ {
		n := rng.Intn(12)
		b := make([]byte, n)
		for j := range b {
			b[j] = alphabet[rng.Intn(len(alphabet))]
		}
		check(string(b))
	}
	t.Logf("200000 random strings + %d hand-made: a range or an error every time, no panic", len(hand))
}

// remark (not a hypothesis): Size ignores the inclusivity flags — it is the distance end-start for all four
// flag combinations, while the number of contained heights differs.
func TestU2_C19_SizeIgnoresFlags(t *testing.T) {
	for _, f := range [][2]bool{{false, false}, {false, true}, {true, false}, {true, true}} {
		r := &Range{startBlock: 10, endBlock: ptr(15), exclusiveStartBlock: f[0], exclusiveEndBlock: f[1]}
		sz, _ := r.Size()
		cnt := 0
		for n := uint64(0); n < 30; n++ {
			if r.Contains(n) {
				cnt++
			}
		}
		t.Logf("%s: Size()=%d, heights contained=%d", r, sz, cnt)
		if sz != 5 {
			t.Fatalf("observation changed")
		}
	}
}
