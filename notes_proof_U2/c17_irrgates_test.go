// package directory: forkable; run: go test -vet=off -count=1 -run 'TestU2_C17_' ./forkable/
package forkable

// U2 hypothesis audit, property C17: replays of the model-level necessity witnesses
// (notes_proof_U2/audit_C17.v) on the real irreversible gates.  Every test PASSES and asserts the
// observed behaviour it logs.

import (
	"fmt"
	"testing"
	"time"

	"github.com/streamingfast/bstream"
	pbbstream "github.com/streamingfast/bstream/pb/sf/bstream/v1"
	"google.golang.org/protobuf/types/known/timestamppb"
)

func u2c17Block(num uint64) *pbbstream.Block {
	return &pbbstream.Block{Id: fmt.Sprintf("%da", num), Number: num, Timestamp: timestamppb.New(time.Now().Add(-time.Hour))}
}

type u2c17Recorder struct{ got []string }

func (r *u2c17Recorder) ProcessBlock(blk *pbbstream.Block, obj interface{}) error {
	r.got = append(r.got, fmt.Sprintf("%s@%d", obj.(*ForkableObject).step, blk.Number))
	return nil
}

func u2c17SetFirstStreamable(t *testing.T, v uint64) {
	old := bstream.GetProtocolFirstStreamableBlock
	bstream.GetProtocolFirstStreamableBlock = v
	t.Cleanup(func() { bstream.GetProtocolFirstStreamableBlock = old })
}

// (b) c17_first conj 3: IrreversibleBlockNumGate hard-codes target in {0,1} / block 2 instead of
// GetProtocolFirstStreamableBlock.  Property: "A number gate set below the first streamable block opens
// inclusively at that block", quantifier "every first-streamable-block setting".
// first=1 (the ETH example in the comment of gates.go), target 0, exclusive, events Irr 1, Irr 2, Irr 3.
// Observed: handler receives Irr 2, Irr 3 — the irreversible event of block 1 (the first streamable block) is dropped.
func TestU2_C17_IrrNumGate_FirstStreamableNot2(t *testing.T) {
	u2c17SetFirstStreamable(t, 1)
	rec := &u2c17Recorder{}
	g := NewIrreversibleBlockNumGate(0, bstream.GateExclusive, rec)
	for _, n := range []uint64{1, 2, 3} {
		if err := g.ProcessBlock(u2c17Block(n), &ForkableObject{step: bstream.StepIrreversible}); err != nil {
			t.Fatal(err)
		}
	}
	// the plain number gate in the same setting
	var plain []uint64
	pg := bstream.NewBlockNumGate(0, bstream.GateExclusive, bstream.HandlerFunc(func(blk *pbbstream.Block, obj interface{}) error {
		plain = append(plain, blk.Number)
		return nil
	}))
	for _, n := range []uint64{1, 2, 3} {
		_ = pg.ProcessBlock(u2c17Block(n), nil)
	}
	t.Logf("first=1 target=0 exclusive: IrreversibleBlockNumGate forwarded %v; BlockNumGate forwarded %v", rec.got, plain)
	if fmt.Sprint(rec.got) != "[irreversible@2 irreversible@3]" || fmt.Sprint(plain) != "[1 2 3]" {
		t.Fatalf("observation changed")
	}

	// first=5, target 3: same
	bstream.GetProtocolFirstStreamableBlock = 5
	rec = &u2c17Recorder{}
	g = NewIrreversibleBlockNumGate(3, bstream.GateExclusive, rec)
	for _, n := range []uint64{5, 6} {
		_ = g.ProcessBlock(u2c17Block(n), &ForkableObject{step: bstream.StepIrreversible})
	}
	t.Logf("first=5 target=3 exclusive: IrreversibleBlockNumGate forwarded %v", rec.got)
	if fmt.Sprint(rec.got) != "[irreversible@6]" {
		t.Fatalf("observation changed")
	}

	// and with first=0 (default), target 1, exclusive, a stream attached at block 2: the constant rule
	// opens INCLUSIVELY at 2 although 2 is not the first streamable block
	bstream.GetProtocolFirstStreamableBlock = 0
	rec = &u2c17Recorder{}
	g = NewIrreversibleBlockNumGate(1, bstream.GateExclusive, rec)
	for _, n := range []uint64{1, 2, 3} {
		_ = g.ProcessBlock(u2c17Block(n), &ForkableObject{step: bstream.StepIrreversible})
	}
	t.Logf("first=0 target=1 exclusive, Irr 1,2,3: forwarded %v (1 is the trigger and is dropped: regular exclusive behaviour)", rec.got)
	if fmt.Sprint(rec.got) != "[irreversible@2 irreversible@3]" {
		t.Fatalf("observation changed")
	}
}

// the same gate behind a REAL Forkable: first streamable block 1, chain 1..5, LIB moving.
func TestU2_C17_IrrNumGate_BehindForkable_First1(t *testing.T) {
	u2c17SetFirstStreamable(t, 1)
	run := func(h bstream.Handler) {
		fk := New(h, WithExclusiveLIB(bstream.NewBlockRef("00000000a", 0)))
		prev := "00000000a"
		for i := uint64(1); i <= 5; i++ {
			id := fmt.Sprintf("%08xa", i)
			lib := uint64(0)
			if i >= 2 {
				lib = i - 1
			}
			blk := bstream.TestBlockWithLIBNum(id, prev, lib)
			if err := fk.ProcessBlock(blk, nil); err != nil {
				t.Fatal(err)
			}
			prev = id
		}
	}
	all := &u2c17Recorder{}
	run(all)
	gated := &u2c17Recorder{}
	run(NewIrreversibleBlockNumGate(0, bstream.GateExclusive, gated))
	t.Logf("forkable output:        %v", all.got)
	t.Logf("behind irr gate(0,excl): %v", gated.got)
	if len(gated.got) == 0 || gated.got[0] == "irreversible@1" {
		t.Fatalf("observation changed: %v", gated.got)
	}
	for _, e := range gated.got {
		if e == "irreversible@1" {
			t.Fatalf("observation changed: irreversible@1 was forwarded")
		}
	}
}

// (c) "irreversible event" = step EXACTLY StepIrreversible (16).  StepNewIrreversible (= New|Irreversible,
// "first time we're seeing this block, but we already know that it is irreversible", the step hubs and cursor
// resolution emit) is ignored: the gate never opens and never fails (ignored events are not counted).
func TestU2_C17_IrrGates_NewIrreversibleIgnored(t *testing.T) {
	for _, kind := range []string{"num", "id"} {
		rec := &u2c17Recorder{}
		var h bstream.Handler
		if kind == "num" {
			g := NewIrreversibleBlockNumGate(5, bstream.GateInclusive, rec)
			g.MaxHoldOff = 1
			h = g
		} else {
			g := NewIrreversibleBlockIDGate("5a", bstream.GateInclusive, rec)
			g.MaxHoldOff = 1
			h = g
		}
		errs := 0
		for n := uint64(5); n < 20005; n++ {
			if err := h.ProcessBlock(u2c17Block(n), &ForkableObject{step: bstream.StepNewIrreversible}); err != nil {
				errs++
			}
		}
		t.Logf("irreversible %s gate at block 5, MaxHoldOff=1, 20000 events with step %q (Matches(StepIrreversible)=%v) from block 5 on: forwarded=%d errors=%d",
			kind, bstream.StepNewIrreversible, bstream.StepNewIrreversible.Matches(bstream.StepIrreversible), len(rec.got), errs)
		if len(rec.got) != 0 || errs != 0 {
			t.Fatalf("observation changed")
		}
	}
}

// (e) the hold-off counter of the irreversible gates counts only StepIrreversible events: 20000 New events
// (no irreversible event ever arrives) with MaxHoldOff=1 -> no error, nothing forwarded: waits forever.
func TestU2_C17_IrrGates_HoldOffCountsOnlyIrreversible(t *testing.T) {
	rec := &u2c17Recorder{}
	g := NewIrreversibleBlockNumGate(5, bstream.GateInclusive, rec)
	g.MaxHoldOff = 1
	errs := 0
	for n := uint64(1); n <= 20000; n++ {
		if err := g.ProcessBlock(u2c17Block(n), &ForkableObject{step: bstream.StepNew}); err != nil {
			errs++
		}
	}
	t.Logf("irreversible num gate, MaxHoldOff=1, 20000 New events: forwarded=%d errors=%d", len(rec.got), errs)
	if len(rec.got) != 0 || errs != 0 {
		t.Fatalf("observation changed")
	}
	// two irreversible events below the target then trip the limit
	e1 := g.ProcessBlock(u2c17Block(1), &ForkableObject{step: bstream.StepIrreversible})
	e2 := g.ProcessBlock(u2c17Block(2), &ForkableObject{step: bstream.StepIrreversible})
	t.Logf("then Irr 1 -> %v, Irr 2 -> %v", e1, e2)
	if e1 != nil || e2 == nil {
		t.Fatalf("observation changed")
	}
}

// trusted-base assumption "obj is a *ForkableObject": anything else panics while the gate is closed
// (outside the property's quantifier; an OPEN gate does not look at obj).
func TestU2_C17_IrrGates_ObjNotForkableObjectPanics(t *testing.T) {
	msg := ""
	func() {
		defer func() {
			if r := recover(); r != nil {
				msg = fmt.Sprint(r)
			}
		}()
		_ = NewIrreversibleBlockNumGate(5, bstream.GateInclusive, &u2c17Recorder{}).ProcessBlock(u2c17Block(1), nil)
	}()
	t.Logf("closed irreversible gate, obj=nil: panic=%q", msg)
	if msg == "" {
		t.Fatalf("observation changed: no panic")
	}
}
