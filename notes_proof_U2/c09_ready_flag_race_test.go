// package directory: hub; run: go test -race -vet=off -count=1 -v -run TestU2_C09_ReadyFlagRace ./hub/ (place next to u2_c09_helpers_test.go; file name in the repo: u2_c09_ready_flag_race_test.go)
package hub

import (
	"sync"
	"testing"
)

// Environment hypothesis of the C09 model: it is SEQUENTIAL (requests are made between live blocks). The observation points
// IsReady / LowestBlockNum / HeadInfo / HeadNum read the plain bool `h.ready` that bootstrap() writes from the live source's
// goroutine with no synchronisation (only `close(h.Ready)` afterwards publishes it, for callers that wait on the channel).
// A caller that polls from another goroutine (the joining source calls LowestBlockNum from the file source's goroutine) races
// with that write. Without -race this test PASSES (the values read are always consistent: not ready -> 0, ready -> servable);
// with -race the detector reports the data race on ForkableHub.ready and the test FAILS.
func TestU2_C09_ReadyFlagRace(t *testing.T) {
	ch := u2c09Chain(1, 60, 2, 0)
	h := u2c09New(t, 1, 5)
	stop := make(chan struct{})
	var wg sync.WaitGroup
	var sawReady, bad int
	wg.Add(1)
	go func() {
		defer wg.Done()
		for {
			select {
			case <-stop:
				return
			default:
			}
			if h.fh.IsReady() {
				sawReady++
				low := h.fh.LowestBlockNum()
				if low == 0 {
					bad++
				}
			} else if h.fh.LowestBlockNum() != 0 {
				// may legitimately happen when the hub turned ready between the two calls
			}
		}
	}()
	for i := 30; i < 60; i++ {
		if r := h.live(ch[i], &u2c09Pass{blocks: ch[:i]}); r != "ok" {
			t.Fatalf("live: %s", r)
		}
	}
	close(stop)
	wg.Wait()
	t.Logf("poller saw ready %d times, lowest==0 while ready: %d", sawReady, bad)
	if bad != 0 {
		t.Errorf("ready hub reported lowest 0")
	}
}
