// package directory: stream ; run: go test -vet=off -count=1 -run 'TestU2_C11_Stream_HeaderOnlyOneBlockFile' ./stream/
//
// U2 audit of C11: the one-block file needed to resolve the cursor is cut exactly after its dbin header
// (truncated file in the forked-blocks store).  Through stream.Stream (hub absent = not ready, so the stream
// is served from files).  Observed (asserted; the test PASSES): Stream.Run PANICS with a nil-pointer
// dereference in JoiningSource.fileSourceHandler instead of returning an error that names the damaged file.
package stream

import (
	"bytes"
	"context"
	"fmt"
	"testing"
	"time"

	"github.com/streamingfast/bstream"
	"github.com/streamingfast/bstream/hub"
	pbbstream "github.com/streamingfast/bstream/pb/sf/bstream/v1"
	"github.com/streamingfast/dstore"
	"github.com/stretchr/testify/require"
)

func u2c11Bundle(in ...*pbbstream.Block) []byte {
	buf := &bytes.Buffer{}
	w, err := bstream.NewDBinBlockWriter(buf)
	if err != nil {
		panic(err)
	}
	for _, b := range in {
		if err := w.Write(b); err != nil {
			panic(err)
		}
	}
	return buf.Bytes()
}

func TestU2_C11_Stream_HeaderOnlyOneBlockFile(t *testing.T) {
	for _, damaged := range []bool{false, true} {
		merged := dstore.NewMockStore(nil)
		merged.SetFile(fmt.Sprintf("%010d", 0), u2c11Bundle(
			bstream.TestBlockWithNumbers("1aaaaaaaaaaaaaaa", "", 1, 0),
			bstream.TestBlockWithNumbers("2aaaaaaaaaaaaaaa", "1aaaaaaaaaaaaaaa", 2, 1),
			bstream.TestBlockWithNumbers("3aaaaaaaaaaaaaaa", "2aaaaaaaaaaaaaaa", 3, 2),
			bstream.TestBlockWithNumbers("4aaaaaaaaaaaaaaa", "3aaaaaaaaaaaaaaa", 4, 3),
		))
		forked := dstore.NewMockStore(nil)
		name := bstream.BlockFileName(&pbbstream.Block{Id: "3bbbbbbbbbbbbbbb", Number: 3, ParentId: "2aaaaaaaaaaaaaaa", LibNum: 1})
		good := u2c11Bundle(bstream.TestBlockWithNumbers("3bbbbbbbbbbbbbbb", "2aaaaaaaaaaaaaaa", 3, 2))
		content := good
		if damaged {
			content = good[:7+int(good[5])<<8+int(good[6])] // the dbin header only
		}
		forked.SetFile(name, content)
		cur := &bstream.Cursor{
			Step:      bstream.StepNew,
			Block:     bstream.NewBlockRef("3bbbbbbbbbbbbbbb", 3),
			HeadBlock: bstream.NewBlockRef("3bbbbbbbbbbbbbbb", 3),
			LIB:       bstream.NewBlockRef("1aaaaaaaaaaaaaaa", 1),
		}
		type call struct {
			nilBlock bool
			num      uint64
			step     bstream.StepType
		}
		var calls []call
		h := bstream.HandlerFunc(func(blk *pbbstream.Block, obj interface{}) error {
			calls = append(calls, call{blk == nil, blk.GetNumber(), obj.(bstream.Stepable).Step()})
			return nil
		})
		var noHub *hub.ForkableHub
		st := New(forked, merged, noHub, 1, h, WithCursor(cur), WithStopBlock(4))

		var runErr error
		var panicked interface{}
		done := make(chan struct{})
		go func() {
			defer close(done)
			defer func() { panicked = recover() }()
			runErr = st.Run(context.Background())
		}()
		select {
		case <-done:
		case <-time.After(3 * time.Second):
			t.Fatal("Stream.Run did not return")
		}
		t.Logf("one-block file damaged=%v: Stream.Run err=%v panic=%v calls=%+v", damaged, runErr, panicked, calls)
		if !damaged {
			require.Nil(t, panicked)
			require.Equal(t, ErrStopBlockReached, runErr)
			require.Equal(t, []call{{false, 3, bstream.StepUndo}, {false, 3, bstream.StepNewIrreversible}, {false, 4, bstream.StepNewIrreversible}}, calls)
		} else {
			require.NotNil(t, panicked, "observed: Stream.Run panics")
			require.Contains(t, fmt.Sprint(panicked), "nil pointer dereference")
			require.Equal(t, 0, len(calls))
		}
	}
}
