(* U2 hypothesis audit of C12 (Shutdown at any instant stops every source; multiplexed handlers never
   concurrent; eternal source restarts from the last accepted block).

   Hypotheses of the C12 property theorems (Spec/C12_Spec.v) and their necessity FOR THE MODEL
   (Model/Lifecycle.v).  Every theorem below is a closed witness: a concrete reachable state / schedule
   that violates the hypothesis and on which the conclusion of the theorem fails.

     c12_fairness_needed                  weak fairness (fair_rounds) of c12_returns, liveness clause
     c12_handler_returns_needed           "handler calls return" (= the thread inside the handler is scheduled)
     c12_mx_fixed_needed                  `fixed = true` (repo_patches/C12_fix_mux_no_call_after_shutdown.diff) of the multiplexed
                                          clauses of c12_no_call_after: re-export of c12_mux_unfixed_refuted (defect D1 of this
                                          audit, now repaired; before the repair the theorem carried the hypothesis
                                          `mx_all_returned`, which hid it)
     c12_mx_late_call_log                 the log of the late call on the unrepaired wrapper, and the same schedule on the
                                          repaired one (the waiting source gives up)
     c12_mx_started_needed                `Mx.started i = true` in the 2nd clause of c12_fail_stops_all
     c12_fixed_needed_eternal / _joining  `fixed = true` (the fix: patches) of c12_returns: re-export of the
                                          refutation theorems of Properties/C12.v (known findings, fixed)        *)
From BV Require Import Base.Prelude Model.Lifecycle Spec.C12_Spec Properties.C12.

(* ------------------------------------------------------------------------------------------------
   1. weak fairness.  Eternal source, Shutdown complete (Terminated) while Run's thread is at its
      loop-top check.  Run's thread is enabled in every state of the run, but the schedule never gives
      it a turn: Run never returns, for schedules of every length.  So the liveness clause of
      `Returns` is false when `fair_rounds` is dropped. *)
Definition c12_s_unfair : Et.state := run (Et.step true) [Et.TX; Et.TX; Et.TX; Et.TX] (Et.init []).

Lemma c12_unfair_stutter : forall n, run (Et.step true) (repeat Et.TX n) c12_s_unfair = c12_s_unfair.
Proof. induction n as [|n IH]; [reflexivity|]. simpl repeat. unfold run in *. simpl fold_left.
  change (Et.step true c12_s_unfair Et.TX) with c12_s_unfair. exact IH. Qed.

Theorem c12_fairness_needed :
  et_reach c12_s_unfair /\ Et.terminating c12_s_unfair = true /\
  forall n, let s' := run (Et.step true) (repeat Et.TX n) c12_s_unfair in
            Et.done s' = false /\ Et.step true s' Et.TRun <> s'.
Proof.
  split; [exists [], [Et.TX; Et.TX; Et.TX; Et.TX]; reflexivity|].
  split; [vm_compute; reflexivity|].
  intros n s'. unfold s'. rewrite c12_unfair_stutter. split; [vm_compute; reflexivity|].
  vm_compute. discriminate.
Qed.
Print Assumptions c12_fairness_needed.

(* ------------------------------------------------------------------------------------------------
   2. "handler calls return".  In the model a handler call is an always-enabled step of the thread that
      makes it; a handler that never returns is that thread never being scheduled again.  Eternal source,
      Shutdown complete while the inner source is inside its 1st handler call: Terminated is reached, the
      inner source is shut down, but Run does not return as long as the handler does not. *)
Definition c12_s_inh : Et.state :=
  run (Et.step true) ([Et.TRun; Et.TRun; Et.TRun; Et.TRun] ++ [Et.TX; Et.TX; Et.TX; Et.TX])
      (Et.init [[IBlock 1 true; IBlock 2 true]]).

Lemma c12_inh_stutter : forall n, run (Et.step true) (repeat Et.TX n) c12_s_inh = c12_s_inh.
Proof. induction n as [|n IH]; [reflexivity|]. simpl repeat. unfold run in *. simpl fold_left.
  change (Et.step true c12_s_inh Et.TX) with c12_s_inh. exact IH. Qed.

Theorem c12_handler_returns_needed :
  et_reach c12_s_inh /\ Et.pcr c12_s_inh = Et.PInH 1 true /\
  Et.terminated c12_s_inh = true /\ Et.src_term c12_s_inh = true /\
  (forall n, Et.returned (run (Et.step true) (repeat Et.TX n) c12_s_inh) = false) /\
  (* as soon as the handler returns, Run returns, and no further handler call is made *)
  (let s' := run (Et.step true) [Et.TRun; Et.TRun; Et.TRun; Et.TRun; Et.TRun] c12_s_inh in
   Et.done s' = true /\ Et.hbegun s' = Et.hbegun c12_s_inh).
Proof.
  split; [exists [[IBlock 1 true; IBlock 2 true]], ([Et.TRun; Et.TRun; Et.TRun; Et.TRun] ++ [Et.TX; Et.TX; Et.TX; Et.TX]); reflexivity|].
  split; [vm_compute; reflexivity|]. split; [vm_compute; reflexivity|]. split; [vm_compute; reflexivity|].
  split.
  - intro n. rewrite c12_inh_stutter. vm_compute. reflexivity.
  - cbv zeta. split; vm_compute; reflexivity.
Qed.
Print Assumptions c12_handler_returns_needed.

(* ------------------------------------------------------------------------------------------------
   3. `fixed = true` of the multiplexed clauses of c12_no_call_after (defect D1, repaired by
      repo_patches/C12_fix_mux_no_call_after_shutdown.diff).  Two inner sources; source 0 is inside the handler,
      source 1 waits for handlerLock inside the wrapper; a complete external Shutdown (or: the handler call of
      source 0 FAILS and its goroutine shuts the source down); Run returns.  On the wrapper before the repair
      (`Mx.step false`) the state satisfies `Mx.returned /\ Mx.terminated`, both inner sources are shut down, and
      then a handler call BEGINS (source 1, block 2).  Before the repair c12_no_call_after avoided this by the
      hypothesis `mx_all_returned` ("relative to the inner sources having returned"); it now holds without it. *)
Theorem c12_mx_fixed_needed : C12_mux_unfixed_late_call.
Proof. exact c12_mux_unfixed_refuted. Qed.
Print Assumptions c12_mx_fixed_needed.

Definition c12_mx_sched1 : list Mx.tid :=
  repeat Mx.TRun 8 ++ [Mx.TIn 0; Mx.TIn 0; Mx.TIn 0; Mx.TIn 1] ++ repeat Mx.TX 4 ++ [Mx.TRun; Mx.TRun].
Definition c12_mx_s1 (fx : bool) : Mx.state := run (Mx.step fx) c12_mx_sched1 (Mx.init 2 [[IBlock 1 true]; [IBlock 2 true]]).

Theorem c12_mx_late_call_log :
  (* unrepaired wrapper *)
  (mx_reach false (c12_mx_s1 false) /\
   Mx.returned (c12_mx_s1 false) = true /\ Mx.terminated (c12_mx_s1 false) = true /\
   map Mx.i_term (Mx.inners (c12_mx_s1 false)) = [true; true] /\
   hd ERet (Mx.log (c12_mx_s1 false)) = ERet /\
   let s2 := run (Mx.step false) [Mx.TIn 0; Mx.TIn 1; Mx.TIn 1] (c12_mx_s1 false) in
   Mx.hbegun s2 = S (Mx.hbegun (c12_mx_s1 false)) /\
   Mx.log s2 = EHBegin 1 2 :: EPoint 25 :: EPoint 26 :: EHEnd 0 1 true :: Mx.log (c12_mx_s1 false)) /\
  (* repaired wrapper, same schedule: no call begins, the waiting source returns an error and shuts itself down *)
  (Mx.log (c12_mx_s1 true) = Mx.log (c12_mx_s1 false) /\
   let s2 := run (Mx.step true) [Mx.TIn 0; Mx.TIn 1; Mx.TIn 1; Mx.TIn 1; Mx.TIn 1] (c12_mx_s1 true) in
   Mx.hbegun s2 = Mx.hbegun (c12_mx_s1 true) /\
   Mx.log s2 = EPoint 25 :: EPoint 26 :: EHEnd 0 1 true :: Mx.log (c12_mx_s1 true)).
Proof.
  split.
  - split; [exists 2, [[IBlock 1 true]; [IBlock 2 true]], c12_mx_sched1; reflexivity|].
    vm_compute. repeat split; reflexivity.
  - vm_compute. repeat split; reflexivity.
Qed.
Print Assumptions c12_mx_late_call_log.

(* ------------------------------------------------------------------------------------------------
   4. `Mx.started i = true` (2nd clause of c12_fail_stops_all).  A complete Shutdown between the factory
      call and LockedInit of connectSources: LockedInit refuses, the source the factory just made is
      neither run NOR shut down (EternalSource / JoiningSource shut such a source down since their fix). *)
Definition c12_mx_sched3 : list Mx.tid :=
  [Mx.TRun; Mx.TRun; Mx.TRun; Mx.TX; Mx.TX; Mx.TX; Mx.TRun; Mx.TRun; Mx.TX; Mx.TX; Mx.TRun; Mx.TRun].
Definition c12_mx_s5 : Mx.state := run (Mx.step true) c12_mx_sched3 (Mx.init 1 [[IBlock 1 true]]).

Theorem c12_mx_started_needed :
  mx_reach true c12_mx_s5 /\ Mx.done c12_mx_s5 = true /\
  exists i, nth_error (Mx.inners c12_mx_s5) 0 = Some i /\ Mx.started i = false /\ Mx.i_term i = false /\
  rev (Mx.log c12_mx_s5) = [EPoint 20; EPoint 22; EFactory 0 0; EPoint 23; EPoint 24; EPoint 21; ERet].
Proof.
  split; [exists 1, [[IBlock 1 true]], c12_mx_sched3; reflexivity|].
  split; [vm_compute; reflexivity|].
  exists (Mx.mki 0 false Mx.INew [IBlock 1 true]).
  split; [vm_compute; reflexivity|]. split; [vm_compute; reflexivity|]. split; vm_compute; reflexivity.
Qed.
Print Assumptions c12_mx_started_needed.

(* ------------------------------------------------------------------------------------------------
   5. `fixed = true` of C12_returns_eternal / C12_returns_joining: the two known (fixed) findings. *)
Theorem c12_fixed_needed_eternal : C12_eternal_unfixed_hangs.
Proof. exact c12_eternal_unfixed_refuted. Qed.
Print Assumptions c12_fixed_needed_eternal.

Theorem c12_fixed_needed_joining : C12_joining_unfixed_hangs.
Proof. exact c12_joining_unfixed_refuted. Qed.
Print Assumptions c12_fixed_needed_joining.
