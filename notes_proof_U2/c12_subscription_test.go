// package directory: hub ; run: go test -vet=off -count=1 -run 'TestU2_C12_Subscription' ./hub/
package hub

import (
	"sync/atomic"
	"testing"
	"time"

	"github.com/streamingfast/bstream"
	pbbstream "github.com/streamingfast/bstream/pb/sf/bstream/v1"
)

func u2c12SubBlk(n uint64) *bstream.PreprocessedBlock {
	return &bstream.PreprocessedBlock{Block: &pbbstream.Block{Number: n, Id: string(rune('a' + n))}}
}

// Shutdown before Run with blocks already queued: both arms of the select are ready; the IsTerminating re-check after the
// receive keeps the handler from being called.  500 repetitions (the select picks at random).
func TestU2_C12_Subscription_ShutdownBeforeRun_QueuedBlocks(t *testing.T) {
	calls := int32(0)
	for i := 0; i < 500; i++ {
		sub := NewSubscription(bstream.HandlerFunc(func(*pbbstream.Block, interface{}) error { atomic.AddInt32(&calls, 1); return nil }), 10)
		for n := uint64(1); n <= 5; n++ {
			if err := sub.push(u2c12SubBlk(n)); err != nil {
				t.Fatal(err)
			}
		}
		sub.Shutdown(nil)
		done := make(chan struct{})
		go func() { sub.Run(); close(done) }()
		select {
		case <-done:
		case <-time.After(2 * time.Second):
			t.Fatal("Run did not return")
		}
		if !sub.IsTerminated() {
			t.Fatal("not terminated")
		}
	}
	t.Logf("OBSERVED: 500 x (5 blocks queued, Shutdown, Run): Run returned every time, handler calls=%d", atomic.LoadInt32(&calls))
	if calls != 0 {
		t.Fatal("handler called after Shutdown")
	}
}

// Shutdown while the handler is blocked, further blocks queued
func TestU2_C12_Subscription_ShutdownWhileHandlerBlocked(t *testing.T) {
	entered, release := make(chan struct{}), make(chan struct{})
	calls := int32(0)
	sub := NewSubscription(bstream.HandlerFunc(func(*pbbstream.Block, interface{}) error {
		if atomic.AddInt32(&calls, 1) == 1 {
			close(entered)
			<-release
		}
		return nil
	}), 10)
	for n := uint64(1); n <= 5; n++ {
		_ = sub.push(u2c12SubBlk(n))
	}
	done := make(chan struct{})
	go func() { sub.Run(); close(done) }()
	<-entered
	sub.Shutdown(nil)
	time.Sleep(50 * time.Millisecond)
	select {
	case <-done:
		t.Fatal("Run returned while the handler is blocked")
	default:
	}
	t.Logf("OBSERVED: handler blocked: Terminated=%v, Run not returned", sub.IsTerminated())
	close(release)
	select {
	case <-done:
	case <-time.After(2 * time.Second):
		t.Fatal("Run did not return")
	}
	time.Sleep(20 * time.Millisecond)
	t.Logf("OBSERVED: after the handler returned: Run returned, handler calls=%d (4 blocks were still queued)", atomic.LoadInt32(&calls))
	if calls != 1 {
		t.Fatal("late handler call")
	}
}
