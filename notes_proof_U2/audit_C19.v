(* U2 hypothesis audit — C19 (block range algebra, ParseRange).
   Hypotheses of the property theorems (Spec/C19_Spec.v):
     range_ok r                      every theorem except c19_contains / c19_parse_total
     0 < chunk                       c19_split_partial / c19_split_exact
     e + sz < 2^64 (start + sz when open-ended)   c19_next, c19_isnext
     sz <= start                     c19_previous
     exists m, in_range r m          c19_reached, second clause
     a, b < 2^63                     c19_parse_total, third clause
     b - b mod sz + sz < 2^64        c19_constructors, NewRangeContaining
   Each theorem below is a closed witness (vm_compute) that the conclusion of the theorem fails
   without the hypothesis.  (u64 n / chunk < 2^64 only say "the argument is a uint64".) *)
From BV Require Import Base.Prelude Base.Decimal Model.Range Spec.C19_Spec.
Local Open Scope N_scope.

Definition c19_max : N := 18446744073709551615.   (* 2^64 - 1 *)

(* ---- c19_next: guard [e + sz < two64] (bounded) ----
   [2^64-10, 2^64-5].Next(10) is the INVERTED range [2^64-5, 5]: not the range the theorem
   describes, not a constructed range, and it contains no number at all. *)
Theorem c19_next_nowrap_needed :
  exists r sz e, range_ok r /\ rend r = Some e /\ ~ e + sz < two64 /\
    next r sz <> mkRange e (Some (e + sz)) (rexs r) (rexe r) /\
    ~ range_ok (next r sz) /\
    next r sz = mkRange (c19_max - 4) (Some 5) false false /\
    contains (next r sz) (c19_max - 4) = false /\ contains (next r sz) 0 = false /\
    contains (next r sz) c19_max = false /\
    size (next r sz) = Some sz.
Proof.
  exists (mkRange (c19_max - 9) (Some (c19_max - 4)) false false), 10, (c19_max - 4).
  split; [unfold range_ok, u64; vm_compute; repeat split; reflexivity|].
  split; [reflexivity|]. split; [vm_compute; discriminate|].
  split; [vm_compute; discriminate|].
  split; [intros [_ [_ H]]; vm_compute in H; discriminate|].
  repeat split; vm_compute; reflexivity.
Qed.
Print Assumptions c19_next_nowrap_needed.

(* open-ended: [2^64-5, oo).Next(10) = [5, oo): a range that CONTAINS the low numbers *)
Theorem c19_next_nowrap_needed_open :
  exists r sz, range_ok r /\ rend r = None /\ ~ rstart r + sz < two64 /\
    next r sz <> mkRange (rstart r + sz) None (rexs r) (rexe r) /\
    next r sz = mkRange 5 None false true /\
    contains r 7 = false /\ contains (next r sz) 7 = true.
Proof.
  exists (mkRange (c19_max - 4) None false true), 10.
  split; [unfold range_ok, u64; vm_compute; split; [reflexivity|exact I]|].
  split; [reflexivity|]. split; [vm_compute; discriminate|].
  split; [vm_compute; discriminate|]. repeat split; vm_compute; reflexivity.
Qed.
Print Assumptions c19_next_nowrap_needed_open.

(* ---- c19_previous: guard [sz <= rstart r] ----
   [5,10].Previous(10) = [2^64-5, 5] (inverted); open-ended [5,oo).Previous(10) = [2^64-5, oo). *)
Theorem c19_previous_guard_needed :
  exists r sz, range_ok r /\ ~ sz <= rstart r /\
    previous r sz <> mkRange (rstart r - sz) (Some (rstart r)) (rexs r) (rexe r) /\
    previous r sz = mkRange (c19_max - 4) (Some 5) false false /\
    ~ range_ok (previous r sz) /\ contains (previous r sz) 3 = false /\
    previous (mkRange 5 None false true) sz = mkRange (c19_max - 4) None false true.
Proof.
  exists (mkRange 5 (Some 10) false false), 10.
  split; [unfold range_ok, u64; vm_compute; repeat split; reflexivity|].
  split; [vm_compute; intro H; apply H; reflexivity|].
  split; [vm_compute; discriminate|]. split; [vm_compute; reflexivity|].
  split; [intros [_ [_ H]]; vm_compute in H; discriminate|].
  split; vm_compute; reflexivity.
Qed.
Print Assumptions c19_previous_guard_needed.

(* ---- c19_isnext: same guard as Next: IsNext answers true for the wrapped range and false for the
   range of the interval arithmetic ---- *)
Theorem c19_isnext_nowrap_needed :
  exists r nx sz e, range_ok r /\ rend r = Some e /\ ~ e + sz < two64 /\
    is_next r nx sz = true /\ nx <> mkRange e (Some (e + sz)) (rexs r) (rexe r) /\
    is_next r (mkRange e (Some (e + sz)) (rexs r) (rexe r)) sz = false.
Proof.
  exists (mkRange (c19_max - 9) (Some (c19_max - 4)) false false),
         (mkRange (c19_max - 4) (Some 5) false false), 10, (c19_max - 4).
  split; [unfold range_ok, u64; vm_compute; repeat split; reflexivity|].
  split; [reflexivity|]. split; [vm_compute; discriminate|].
  split; [vm_compute; reflexivity|]. split; [vm_compute; discriminate|vm_compute; reflexivity].
Qed.
Print Assumptions c19_isnext_nowrap_needed.

(* ---- c19_size: [range_ok r] — on an inverted range (as Next / Previous produce them when they
   wrap) Size is the wrapped difference, not end - start ---- *)
Theorem c19_size_range_ok_needed :
  exists r e, rend r = Some e /\ ~ range_ok r /\
    size r <> Some (e - rstart r) /\ size r = Some (c19_max - 4).
Proof.
  exists (mkRange 10 (Some 5) false false), 5.
  split; [reflexivity|]. split; [intros [_ [_ H]]; vm_compute in H; discriminate|].
  split; vm_compute; [discriminate|reflexivity].
Qed.
Print Assumptions c19_size_range_ok_needed.

(* ---- c19_reached, second clause: hypothesis [exists m, in_range r m] (non-empty range).
   (5,6) is a constructed range (ParseRange "5-6" with both exclusive options) that contains no
   number; "no later number belongs to the range" holds at n = 4 but ReachedEndBlock(4) = false. *)
Theorem c19_reached_nonempty_needed :
  exists r n, range_ok r /\ u64 n /\ ~ (exists m, in_range r m) /\
    parse_range [53;45;54] true true = ParseOk r /\
    reached r n = false /\ (rend r <> None /\ forall m, n < m -> ~ in_range r m).
Proof.
  exists (mkRange 5 (Some 6) true true), 4.
  split; [unfold range_ok, u64; vm_compute; repeat split; reflexivity|].
  split; [vm_compute; reflexivity|].
  assert (Hempty : forall m, ~ in_range (mkRange 5 (Some 6) true true) m).
  { intros m [H1 H2]. cbn in H1, H2. lia. }
  split; [intros [m Hm]; exact (Hempty m Hm)|].
  split; [vm_compute; reflexivity|]. split; [vm_compute; reflexivity|].
  split; [discriminate|]. intros m _. apply Hempty.
Qed.
Print Assumptions c19_reached_nonempty_needed.

(* ---- c19_split_*: [0 < chunk] — chunk size 0 on any constructed range: divide by zero ---- *)
Theorem c19_split_chunk_pos_needed :
  exists r, range_ok r /\ split r 0 = SplitPanic.
Proof.
  exists (mkRange 10 (Some 20) false false).
  split; [unfold range_ok, u64; vm_compute; repeat split; reflexivity|vm_compute; reflexivity].
Qed.
Print Assumptions c19_split_chunk_pos_needed.

(* ---- c19_split_*: [range_ok r].
   (i) start = end, the value of r.Next(0): Split returns [r], which is not a list of constructed
   ranges (chunks_shape fails);
   (ii) an inverted range, the value of [2^64-15, 2^64-5].Next(105) = [2^64-5, 100]: it contains no
   number, yet Split(10) returns 11 chunks [2^64-5,0],[0,10],…,[90,100] that contain 0..100. *)
Theorem c19_split_range_ok_needed :
  (let r := next (mkRange 10 (Some 15) false false) 0 in
   r = mkRange 15 (Some 15) false false /\ split r 5 = SplitOk [r] /\ ~ chunks_shape r 5 [r]) /\
  (let r0 := mkRange (c19_max - 14) (Some (c19_max - 4)) false false in
   let r := next r0 105 in
   range_ok r0 /\ r = mkRange (c19_max - 4) (Some 100) false false /\
   (forall n, n < two64 -> contains r n = false) /\
   exists l, split r 10 = SplitOk l /\ length l = 11%nat /\
     exists c, In c l /\ contains c 50 = true).
Proof.
  split.
  - cbv zeta. split; [vm_compute; reflexivity|]. split; [vm_compute; reflexivity|].
    intros (_ & _ & _ & _ & _ & H).
    destruct (H _ (or_introl eq_refl)) as (_ & _ & (_ & _ & Hlt) & _).
    vm_compute in Hlt. discriminate.
  - cbv zeta. split; [unfold range_ok, u64; vm_compute; repeat split; reflexivity|].
    split; [vm_compute; reflexivity|].
    split.
    { intros n Hn. change (next _ 105) with (mkRange (c19_max - 4) (Some 100) false false).
      unfold contains. cbn [rstart rend rexs rexe andb].
      destruct (n <? c19_max - 4) eqn:E1; [reflexivity|].
      apply N.ltb_ge in E1.
      assert (E2 : (100 <? n) = true) by (apply N.ltb_lt; unfold c19_max in E1; lia).
      rewrite E2. reflexivity. }
    eexists. split; [vm_compute; reflexivity|]. split; [reflexivity|].
    exists (mkRange 50 (Some 60) false false). split; [|vm_compute; reflexivity].
    simpl. do 6 right. left. reflexivity.
Qed.
Print Assumptions c19_split_range_ok_needed.

(* ---- c19_parse_total, third clause: [a < two63], [b < two63] — heights from 2^63 on are 64-bit
   heights the constructors accept, but ParseRange (ParseInt, 64 bits SIGNED) answers an error ---- *)
Theorem c19_parse_below_two63_needed :
  exists a b, a < b /\ b < two64 /\ ~ b < two63 /\
    parse_range (print_dec a ++ 45 :: print_dec b) false false = ParseErr /\
    new_inclusive_range a b = CtorOk (mkRange a (Some b) false false).
Proof.
  exists 5, two63. split; [reflexivity|]. split; [reflexivity|].
  split; [vm_compute; discriminate|]. split; vm_compute; reflexivity.
Qed.
Print Assumptions c19_parse_below_two63_needed.

(* ---- c19_constructors: NewRangeContaining guard [b - b mod sz + sz < two64] — panic (through
   mustNewRange) although the function has an error result ---- *)
Theorem c19_containing_nowrap_needed :
  exists b sz, u64 b /\ u64 sz /\ 0 < sz /\ ~ b - b mod sz + sz < two64 /\
    new_range_containing b sz = CtorPanic.
Proof.
  exists c19_max, 2. unfold u64. repeat split; vm_compute; try reflexivity; discriminate.
Qed.
Print Assumptions c19_containing_nowrap_needed.
