// package directory: forkable; run: go test -vet=off -count=1 -run 'TestU2_C05' ./forkable/
// U2 hypothesis audit, C05: hypothesis `last_sent s <> None` of c05_total (and the BPanic clause of
// c05_through_no_source, which says that the MODEL takes the "nil dereference of lastBlockSent" branch when the
// forkdb has a LIB and nothing was sent yet).  On the real code that state answers with an ERROR (no source), not
// a panic: pbbstream.(*Block).AsRef is nil-safe, CompleteSegment of the empty reference does not reach the LIB.
// Both tests PASS and assert "error, no panic": the hypothesis is needed for the model only (model infidelity in a
// state outside every theorem's hypotheses and never produced by the correspondence check).
package forkable

import (
	"testing"

	"github.com/streamingfast/bstream"
	"github.com/stretchr/testify/require"
)

func u2c05Call(f func()) (panicked interface{}) {
	defer func() { panicked = recover() }()
	f()
	return nil
}

// (1) a Forkable configured with a LIB before its first block (has LIB, no head).
func TestU2_C05_ConfiguredLIBNoHead(t *testing.T) {
	p := New(newTestForkableSink(nil, nil), WithExclusiveLIB(bRef("00000002a")))
	cur := &bstream.Cursor{Step: bstream.StepNew, Block: bRef("00000003a"), HeadBlock: bRef("00000003a"), LIB: bRef("00000002a")}
	var err error
	pan := u2c05Call(func() { err = p.CallWithBlocksFromCursor(cur, func([]*bstream.PreprocessedBlock) {}) })
	t.Logf("CallWithBlocksFromCursor: panic=%v err=%v", pan, err)
	require.Nil(t, pan)
	require.Error(t, err)
	pan = u2c05Call(func() { err = p.CallWithBlocksThroughCursor(2, cur, func([]*bstream.PreprocessedBlock) {}) })
	t.Logf("CallWithBlocksThroughCursor: panic=%v err=%v", pan, err)
	require.Nil(t, pan)
	require.Error(t, err)
}

// (2) hub configuration (hold-until-LIB discovery): block 11 (parent 10 received) declares LIB number 14, above its
// own height (outside lib_ok / C02's quantifier): the forkdb gets the LIB (id of block 11, number 14), nothing is
// delivered, there is no head.  A cursor request is answered with an error.
func TestU2_C05_WildLIBNoHead(t *testing.T) {
	sink := newTestForkableSink(nil, nil)
	p := New(sink, HoldBlocksUntilLIB(), WithKeptFinalBlocks(100))
	require.NoError(t, p.ProcessBlock(tb("0000000aa", "00000009a", 5), nil))  // block 10, LIB 5 unknown: held
	require.NoError(t, p.ProcessBlock(tb("0000000ba", "0000000aa", 14), nil)) // block 11 declares LIB 14
	_, _, _, _, herr := p.HeadInfo()
	t.Logf("events=%d hasLIB=%v lib=%s headInfoErr=%v", len(sink.results), p.forkDB.HasLIB(), p.forkDB.libRef, herr)
	require.True(t, p.forkDB.HasLIB())
	require.Equal(t, uint64(14), p.forkDB.LIBNum())
	require.Equal(t, "0000000ba", p.forkDB.LIBID())
	require.Error(t, herr)
	require.Empty(t, sink.results)
	cur := &bstream.Cursor{Step: bstream.StepNew, Block: bRef("0000000ba"), HeadBlock: bRef("0000000ba"), LIB: bRef("0000000aa")}
	var err error
	pan := u2c05Call(func() { err = p.CallWithBlocksFromCursor(cur, func([]*bstream.PreprocessedBlock) {}) })
	t.Logf("CallWithBlocksFromCursor: panic=%v err=%v", pan, err)
	require.Nil(t, pan)
	require.Error(t, err)
}
