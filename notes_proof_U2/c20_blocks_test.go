// package directory: blockstream; run: go test -vet=off -count=1 -run 'TestU2_C20_Blocks' ./blockstream/
//
// U2 hypothesis audit, C20, assumption "consumers only receive from their subscription channel"
// (driver/props_C20.py) probed on the REAL consumer, Server.Blocks, with a fake gRPC stream whose
// Send blocks or fails; and the public path of the burst (BlockRequest.Burst is an int64 converted
// with int(...)).  All tests PASS and document the behaviour of the real code.
package blockstream

import (
	"context"
	"errors"
	"fmt"
	"math"
	"sync"
	"testing"
	"time"

	pbbstream "github.com/streamingfast/bstream/pb/sf/bstream/v1"
	"google.golang.org/grpc"
)

type u2c20Stream struct {
	grpc.ServerStream
	ctx    context.Context
	mu     sync.Mutex
	got    []uint64
	block  chan struct{} // when non-nil, Send waits on it before returning
	failAt int           // Send number (1-based) that fails; 0 = never
	inSend chan struct{} // closed when the first Send is entered
	once   sync.Once
}

func (f *u2c20Stream) Context() context.Context { return f.ctx }
func (f *u2c20Stream) Send(b *pbbstream.Block) error {
	f.mu.Lock()
	f.got = append(f.got, b.Number)
	n := len(f.got)
	f.mu.Unlock()
	if f.inSend != nil {
		f.once.Do(func() { close(f.inSend) })
	}
	if f.block != nil {
		<-f.block
	}
	if f.failAt != 0 && n >= f.failAt {
		return errors.New("socket closed")
	}
	return nil
}
func (f *u2c20Stream) received() []uint64 {
	f.mu.Lock()
	defer f.mu.Unlock()
	return append([]uint64(nil), f.got...)
}

func u2c20SubCount(s *Server) int {
	s.lock.RLock()
	defer s.lock.RUnlock()
	return len(s.subscriptions)
}

func u2c20WaitSubs(t *testing.T, s *Server, n int) {
	deadline := time.Now().Add(2 * time.Second)
	for time.Now().Before(deadline) {
		if u2c20SubCount(s) == n {
			return
		}
		time.Sleep(time.Millisecond)
	}
	t.Fatalf("subscription count never became %d (is %d)", n, u2c20SubCount(s))
}

// A client whose stream.Send never returns, next to one that keeps up.
func TestU2_C20_Blocks_SendBlocksForever(t *testing.T) {
	s := NewUnmanagedServer(ServerOptionWithBuffer(3))
	for i := 1; i <= 3; i++ {
		s.PushBlock(u2c20Block(i))
	}
	ctx, cancel := context.WithCancel(context.Background())
	stuck := &u2c20Stream{ctx: ctx, block: make(chan struct{}), inSend: make(chan struct{})}
	fast := &u2c20Stream{ctx: context.Background()}
	stuckRet, fastRet := make(chan error, 1), make(chan error, 1)
	go func() { stuckRet <- s.Blocks(&pbbstream.BlockRequest{Burst: 2, Requester: "stuck"}, stuck) }()
	u2c20WaitSubs(t, s, 1)
	go func() { fastRet <- s.Blocks(&pbbstream.BlockRequest{Burst: 1, Requester: "fast"}, fast) }()
	u2c20WaitSubs(t, s, 2)
	<-stuck.inSend

	var worst time.Duration
	const n = 1000
	for i := 4; i < 4+n; i++ {
		t0 := time.Now()
		if err := s.PushBlock(u2c20Block(i)); err != nil {
			t.Fatal(err)
		}
		if d := time.Since(t0); d > worst {
			worst = d
		}
		if i%100 == 0 {
			time.Sleep(time.Millisecond) // let the fast reader breathe: it must never overflow
		}
	}
	time.Sleep(50 * time.Millisecond)
	s.lock.RLock()
	stuckSub := s.subscriptions[0]
	s.lock.RUnlock()
	t.Logf("%d pushes next to a client stuck in Send: all returned, worst latency %v", n, worst)
	t.Logf("stuck client: Send entered with %v; its channel %d/%d closed=%v; still listed: %d subscriptions (Blocks cannot unsubscribe while Send does not return)",
		stuck.received(), len(stuckSub.incomingBlock), cap(stuckSub.incomingBlock), stuckSub.closed, u2c20SubCount(s))
	fr := fast.received()
	ok := len(fr) == 1+n && fr[0] == 3
	for i := 1; i < len(fr); i++ {
		ok = ok && fr[i] == fr[i-1]+1
	}
	t.Logf("fast client received %d blocks, first %d last %d, contiguous=%v", len(fr), fr[0], fr[len(fr)-1], ok)
	if !ok {
		t.Errorf("the fast client was disturbed: %v", fr)
	}
	if !stuckSub.closed || cap(stuckSub.incomingBlock) != 202 || len(stuckSub.incomingBlock) != 202 {
		t.Errorf("unexpected state of the stuck subscription")
	}
	// cancelling the client's context does not help while Send is stuck
	cancel()
	time.Sleep(50 * time.Millisecond)
	t.Logf("after cancelling the stuck client's context: %d subscriptions (closed subscription still listed, skipped by every PushBlock)", u2c20SubCount(s))
	if u2c20SubCount(s) != 2 {
		t.Errorf("expected the stuck subscription to be still listed")
	}
	close(stuck.block) // Send finally returns
	select {
	case err := <-stuckRet:
		t.Logf("once Send returns, Blocks returns %v after having passed %d blocks to Send; subscriptions left: %d", err, len(stuck.received()), u2c20SubCount(s))
	case <-time.After(2 * time.Second):
		t.Errorf("Blocks did not return")
	}
}

// A client whose Send fails on the 3rd block: Blocks returns nil (the error is swallowed) and
// unsubscribes; the producer and the other client are not affected.
func TestU2_C20_Blocks_SendFails(t *testing.T) {
	s := NewUnmanagedServer(ServerOptionWithBuffer(3))
	bad := &u2c20Stream{ctx: context.Background(), failAt: 3}
	good := &u2c20Stream{ctx: context.Background()}
	badRet := make(chan error, 1)
	go func() { badRet <- s.Blocks(&pbbstream.BlockRequest{Burst: 0}, bad) }()
	go func() { s.Blocks(&pbbstream.BlockRequest{Burst: 0}, good) }()
	u2c20WaitSubs(t, s, 2)
	for i := 1; i <= 10; i++ {
		if err := s.PushBlock(u2c20Block(i)); err != nil {
			t.Fatal(err)
		}
		time.Sleep(time.Millisecond)
	}
	select {
	case err := <-badRet:
		t.Logf("failing client: Send called with %v, Blocks returned %v; subscriptions left %d; good client got %v", bad.received(), err, u2c20SubCount(s), good.received())
		if err != nil || u2c20SubCount(s) != 1 || fmt.Sprint(good.received()) != "[1 2 3 4 5 6 7 8 9 10]" {
			t.Errorf("behaviour changed")
		}
	case <-time.After(2 * time.Second):
		t.Errorf("Blocks did not return after a failed Send")
	}
}

// The public path of the burst: BlockRequest.Burst (int64) -> int(r.Burst) -> subscribe.
// PASSES on 64-bit platforms.  FAILS when built for a 32-bit platform
// (GOARCH=386 CGO_ENABLED=0 go test -vet=off -count=1 -run TestU2_C20_Blocks_BurstRange ./blockstream/):
// int(r.Burst) keeps the low 32 bits, so Burst=MaxInt64 becomes -1 (no burst instead of the whole
// window), Burst=2^32 becomes 0, Burst=2^32+1 and Burst=MinInt64+1 become 1 (one block).
func TestU2_C20_Blocks_BurstRange(t *testing.T) {
	s := NewUnmanagedServer(ServerOptionWithBuffer(3))
	for i := 1; i <= 5; i++ {
		s.PushBlock(u2c20Block(i))
	}
	for _, burst := range []int64{math.MinInt64, math.MinInt64 + 1, -1 << 32, -1, 0, 1, 2, 3, 4, 1 << 31, 1 << 32, 1<<32 + 1, 1 << 62, math.MaxInt64} {
		ctx, cancel := context.WithCancel(context.Background())
		st := &u2c20Stream{ctx: ctx}
		ret := make(chan error, 1)
		before := u2c20SubCount(s)
		go func() { ret <- s.Blocks(&pbbstream.BlockRequest{Burst: burst}, st) }()
		u2c20WaitSubs(t, s, before+1)
		time.Sleep(5 * time.Millisecond)
		s.lock.RLock()
		c := cap(s.subscriptions[len(s.subscriptions)-1].incomingBlock)
		s.lock.RUnlock()
		cancel()
		err := <-ret
		got := st.received()
		want := burst
		if want < 0 {
			want = 0
		}
		if want > 3 {
			want = 3
		}
		t.Logf("Burst=%d (int size %d bits): channel cap %d, burst received %v, Blocks returned %v", burst, 32<<(^uint(0)>>63), c, got, err)
		if int64(len(got)) != want || int64(c) != 200+want {
			t.Errorf("Burst=%d: expected the last %d buffered blocks and cap %d, got %v cap %d", burst, want, 200+want, got, c)
		}
	}
}
