(* U2 hypothesis audit — C17 (gates forward a suffix of the stream).
   The C17 theorems are unconditional at top level; their hypotheses sit INSIDE the Spec
   definitions: (a) c17_first conj 1/2: "the trigger block has number = first";
   (b) c17_first conj 3: the constants {0,1} / 2 instead of GetProtocolFirstStreamableBlock;
   (c) is_irreversible = "step is exactly 16" (c17_suffix for the irreversible gates, c17_irr_only);
   (d) holdoff_rule: "maxhold <> 0"; (e) holdoff_rule of the irreversible gates: only looked-at
   events are counted; (f) c17_filter: nondecreasing; (g) the number gator has no first-streamable
   rule; (h) the id gates' empty-target rule uses the constant 2.
   Each theorem below is a closed witness (vm_compute) that the conclusion fails without it. *)
From BV Require Import Base.Prelude Model.Gates Spec.C17_Spec Proofs.C17_Lists.
Local Open Scope N_scope.

Definition c17_new (n : N) : ev := mkEv [48 + n; 97] n 1 false.    (* New event of block n *)
Definition c17_irr (n : N) : ev := mkEv [48 + n; 97] n 16 false.   (* Irreversible event *)
Definition c17_newirr (n : N) : ev := mkEv [48 + n; 97] n 17 false. (* StepNewIrreversible = 1|16 *)

(* ---- (a) c17_first, conjunct 1: hypothesis [enum e = first] ----
   first = 2, target 0, exclusive gate, block 2 never comes (stream 3,4): the gate opens at 3 with
   its configured type and drops it. *)
Theorem c17_first_trigger_is_first_needed :
  exists first target incl maxhold l i e,
    target < first /\ first_at (T_num target) l i /\ nth_error l i = Some e /\
    enum e <> first /\
    fw_of (num_gate_step first target maxhold) (g_init incl) l <> skipn i l.
Proof.
  exists 2, 0, false, 15000%Z, [c17_new 3; c17_new 4], 0%nat, (c17_new 3).
  split; [reflexivity|]. split; [apply first_index_some; vm_compute; reflexivity|].
  split; [reflexivity|]. split; vm_compute; discriminate.
Qed.
Print Assumptions c17_first_trigger_is_first_needed.

(* ---- (b) c17_first, conjunct 3: the irreversible number gate knows the constants 0/1 and 2,
   not the first streamable block.  first = 1 (the ETH setting named in gates.go), target 0 < first,
   exclusive: the trigger is the irreversible event of block 1 = first, and it is dropped. *)
Theorem c17_irrnum_first_constants_needed :
  exists first target incl maxhold l i e,
    target < first /\ first_at (T_irrnum target) l i /\ nth_error l i = Some e /\ enum e = first /\
    fw_of (irrnum_gate_step target maxhold) (g_init incl) l <> skipn i l /\
    (* whereas the plain number gate, same setting, same stream, forwards everything *)
    fw_of (num_gate_step first target maxhold) (g_init incl) l = skipn i l.
Proof.
  exists 1, 0, false, 15000%Z, [c17_irr 1; c17_irr 2; c17_irr 3], 0%nat, (c17_irr 1).
  split; [reflexivity|]. split; [apply first_index_some; vm_compute; reflexivity|].
  split; [reflexivity|]. split; [reflexivity|]. split; vm_compute; [discriminate|reflexivity].
Qed.
Print Assumptions c17_irrnum_first_constants_needed.

(* same with first = 5, target 3 *)
Theorem c17_irrnum_first_constants_needed_5 :
  let l := [c17_irr 5; c17_irr 6] in
  3 < 5 /\ first_at (T_irrnum 3) l 0 /\
  fw_of (irrnum_gate_step 3 15000%Z) (g_init false) l = [c17_irr 6] /\
  fw_of (num_gate_step 5 3 15000%Z) (g_init false) l = l.
Proof.
  split; [reflexivity|]. split; [apply first_index_some; vm_compute; reflexivity|].
  split; vm_compute; reflexivity.
Qed.
Print Assumptions c17_irrnum_first_constants_needed_5.

(* ---- (c) "irreversible event" = step exactly 16.  With the reading "the step contains the
   irreversible bit" (StepType.Matches(StepIrreversible), i.e. also StepNewIrreversible = 17, the
   step hubs and cursor resolution emit for blocks already final) the suffix statement fails: the
   gate never opens, and it never fails either because ignored events are not counted. *)
Definition c17_irr_bit (e : ev) : bool := N.testbit (estep e) 4.

Theorem c17_exact_step_needed :
  exists target incl maxhold l,
    ~ suffix_of_input (fun e => c17_irr_bit e && T_num target e) (I_irrnum target incl) l
        (fw_of (irrnum_gate_step target maxhold) (g_init incl) l) /\
    run (irrnum_gate_step target maxhold) (g_init incl) l = map (fun _ => Hold) l.
Proof.
  exists 5, true, 1%Z, [c17_newirr 5; c17_newirr 6; c17_newirr 7; c17_newirr 8].
  split; [|vm_compute; reflexivity].
  intros [_ H].
  specialize (H 0%nat (c17_newirr 5)).
  assert (Hf : first_at (fun e => c17_irr_bit e && T_num 5 e)
                 [c17_newirr 5; c17_newirr 6; c17_newirr 7; c17_newirr 8] 0)
    by (apply first_index_some; vm_compute; reflexivity).
  specialize (H Hf eq_refl). vm_compute in H. discriminate.
Qed.
Print Assumptions c17_exact_step_needed.

(* the same for the irreversible id gate *)
Theorem c17_exact_step_needed_id :
  let l := [c17_newirr 5; c17_newirr 6; c17_newirr 7] in
  ~ suffix_of_input (fun e => c17_irr_bit e && T_id [53;97] e) (I_id [53;97] true) l
      (fw_of (irrid_gate_step [53;97] 1%Z) (g_init true) l) /\
  run (irrid_gate_step [53;97] 1%Z) (g_init true) l = [Hold; Hold; Hold].
Proof.
  split; [|vm_compute; reflexivity].
  intros [_ H]. specialize (H 0%nat (c17_newirr 5)).
  assert (Hf : first_at (fun e => c17_irr_bit e && T_id [53;97] e)
                 [c17_newirr 5; c17_newirr 6; c17_newirr 7] 0)
    by (apply first_index_some; vm_compute; reflexivity).
  specialize (H Hf eq_refl). vm_compute in H. discriminate.
Qed.
Print Assumptions c17_exact_step_needed_id.

(* ---- (d) holdoff_rule: "maxhold <> 0".  The literal rule of the property text, "a gate that has
   held back more blocks than its limit fails", without the exception for 0: *)
Definition c17_holdoff_rule_literal (R T : ev -> bool) (maxhold : Z)
    (step : gstate -> ev -> gstate * action) : Prop :=
  forall incl l j e,
    nth_error l j = Some e ->
    (forall k x, (k <= j)%nat -> nth_error l k = Some x -> T x = false) ->
    nth_error (run step (g_init incl) l) j =
      Some (if R e && (held R l j >? maxhold)%Z then HoldErr else Hold).

Theorem c17_holdoff_nonzero_needed :
  exists first target,
    ~ c17_holdoff_rule_literal always (T_num target) 0%Z (num_gate_step first target 0%Z).
Proof.
  exists 0, 100. intro H.
  specialize (H true [c17_new 1; c17_new 2; c17_new 3] 2%nat (c17_new 3) eq_refl).
  assert (Hb : forall k x, (k <= 2)%nat ->
            nth_error [c17_new 1; c17_new 2; c17_new 3] k = Some x -> T_num 100 x = false).
  { intros k x Hk Hx. do 3 (destruct k as [|k]; [inversion Hx; subst; reflexivity|]). lia. }
  specialize (H Hb). vm_compute in H. discriminate.
Qed.
Print Assumptions c17_holdoff_nonzero_needed.

(* with limit 0 the gate holds back any number of blocks and never fails *)
Theorem c17_holdoff_zero_never_fails :
  forall n, run (num_gate_step 0 100 0%Z) (g_init true) (repeat (c17_new 1) n) = repeat Hold n.
Proof. induction n as [|n IH]; [reflexivity|]. simpl repeat. cbn [run].
  change (num_gate_step 0 100 0%Z (g_init true) (c17_new 1)) with (g_init true, Hold).
  cbv iota beta. f_equal. exact IH.
Qed.
Print Assumptions c17_holdoff_zero_never_fails.

(* ---- (e) hold-off of the irreversible gates counts only irreversible events: with "held back"
   read as "every block the gate did not forward" (held always) the rule fails: limit 1, five New
   events held back, no error. *)
Theorem c17_holdoff_relevant_only_needed :
  exists target maxhold l j,
    (forall k x, (k <= j)%nat -> nth_error l k = Some x -> T_irrnum target x = false) /\
    (held always l j > maxhold)%Z /\ maxhold <> 0%Z /\
    nth_error (run (irrnum_gate_step target maxhold) (g_init true) l) j = Some Hold.
Proof.
  exists 100, 1%Z, [c17_new 1; c17_new 2; c17_new 3; c17_new 4; c17_new 5], 4%nat.
  split.
  { intros k x Hk Hx. do 5 (destruct k as [|k]; [inversion Hx; subst; reflexivity|]). lia. }
  split; [vm_compute; reflexivity|]. split; [discriminate|]. vm_compute. reflexivity.
Qed.
Print Assumptions c17_holdoff_relevant_only_needed.

(* ---- (f) c17_filter: [nondecreasing l].  min 5, numbers 5,4,6 (an undo / step back): the
   filter forwards 5 and 6 — not a suffix of the input. *)
Theorem c17_filter_nondecreasing_needed :
  exists min l,
    ~ nondecreasing l /\
    ~ suffix_of_input (T_num min) always l (fw_of (min_filter_step min) tt l).
Proof.
  exists 5, [c17_new 5; c17_new 4; c17_new 6]. split.
  - intro H. specialize (H 0%nat 1%nat (c17_new 5) (c17_new 4)).
    assert (Hc : enum (c17_new 5) <= enum (c17_new 4)) by (apply H; [lia|reflexivity|reflexivity]).
    vm_compute in Hc. apply Hc. reflexivity.
  - intros [_ H]. specialize (H 0%nat (c17_new 5)).
    assert (Hf : first_at (T_num 5) [c17_new 5; c17_new 4; c17_new 6] 0)
      by (apply first_index_some; vm_compute; reflexivity).
    specialize (H Hf eq_refl). vm_compute in H. discriminate.
Qed.
Print Assumptions c17_filter_nondecreasing_needed.

(* ---- (g) the number gator has no first-streamable rule: exclusive gator at 0 < first = 2 drops
   block 2, where the number gate (same setting) forwards it. *)
Theorem c17_numgator_no_first_rule :
  exists first target l,
    target < first /\ (exists e l', l = e :: l' /\ enum e = first) /\
    fw_of (num_gator_step target true) false l <> l /\
    fw_of (num_gate_step first target 15000%Z) (g_init false) l = l.
Proof.
  exists 2, 0, [c17_new 2; c17_new 3].
  split; [reflexivity|]. split; [eexists; eexists; split; reflexivity|].
  split; vm_compute; [discriminate|reflexivity].
Qed.
Print Assumptions c17_numgator_no_first_rule.

(* ---- (h) id gates, empty target id: the opening block is the constant 2, not the first
   streamable block.  first = 1: block 1 is held back; a stream that starts above 2 (first = 3)
   never opens the gate and runs into the hold-off error. *)
Theorem c17_id_empty_target_constant_2 :
  fw_of (id_gate_step [] 15000%Z) (g_init true) [c17_new 1; c17_new 2; c17_new 3]
    = [c17_new 2; c17_new 3] /\
  run (id_gate_step [] 2%Z) (g_init true) [c17_new 3; c17_new 4; c17_new 5]
    = [Hold; Hold; HoldErr].
Proof. vm_compute. split; reflexivity. Qed.
Print Assumptions c17_id_empty_target_constant_2.
