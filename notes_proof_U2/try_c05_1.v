From BV Require Import Base.Prelude Model.Block Model.ForkDB Model.Forkable Model.ForkableLookups
  Model.Burst Model.Hub Spec.Consumer Spec.Universe Check.Fk_Check Check.Burst_Check Spec.C09_Spec Spec.C05_Spec Spec.C05_Through_Spec
  Spec.C01_Spec Spec.C01_Moving_Spec Spec.C05_History_Spec.
Local Open Scope N_scope.
Definition b1 := mkBlock 11 1 10 0.
Definition b2 := mkBlock 12 2 11 1.
Definition b3' := mkBlock 23 3 12 1.
Definition b3 := mkBlock 13 3 12 1.
Definition b4 := mkBlock 14 4 13 2.
Definition b5 := mkBlock 15 5 14 3.
Definition h := [b1; b2; b3'; b3; b4; b5].
Definition cfg := hub_config 1 2.
Definition tr := fk_run cfg (fs_init LNone) h.
Definition evs_all := concat (map fst tr).
Eval vm_compute in (wf_b h, lib_ok_b LNone h).
Eval vm_compute in (map (fun e => (estep e, bid (eblk e), elib e)) evs_all).
Definition show (b : burst) : option (list (step * N * N * option ref)) :=
  match b with BOk evs => Some (map (fun e => (estep e, bid (eblk e), rn (elib e), ejunc e)) evs) | _ => None end.
Definition ek := nth 3 evs_all (mkEv SNew b1 ref_empty ref_empty ref_empty None 0 0).
Eval vm_compute in (estep ek, bid (eblk ek), ev_cursor ek).
Definition s6 := state_after cfg (fs_init LNone) h 6.
Definition s5 := state_after cfg (fs_init LNone) h 5.
Eval vm_compute in (libref (db s6), option_map bid (last_sent s6), map key (store (db s6))).
Eval vm_compute in (show (blocks_from_cursor s6 (ev_cursor ek))).
Eval vm_compute in (show (blocks_through_cursor s6 2 (ev_cursor ek)), blocks_through_cursor s6 2 (ev_cursor ek)).
Eval vm_compute in (show (blocks_through_cursor s6 1 (ev_cursor ek)), blocks_through_cursor s6 1 (ev_cursor ek)).
Eval vm_compute in (libref (db s5), show (blocks_through_cursor s5 2 (ev_cursor ek))).
Eval vm_compute in (show (hub_through_cursor s6 2 (ev_cursor ek))).
