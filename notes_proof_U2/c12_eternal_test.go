// package directory: . ; run: go test -vet=off -count=1 -run 'TestU2_C12_Eternal' ./   (needs u2_c12_helpers_test.go)
package bstream

import (
	"fmt"
	"sync"
	"sync/atomic"
	"testing"
	"time"

	pbbstream "github.com/streamingfast/bstream/pb/sf/bstream/v1"
)

type u2c12EtEnv struct {
	mu      sync.Mutex
	created []*u2c12Src
	refs    []string
	newCh   chan *u2c12Src
	prep    func(*u2c12Src)
}

func newU2C12EtEnv() *u2c12EtEnv { return &u2c12EtEnv{newCh: make(chan *u2c12Src, 1000)} }
func (e *u2c12EtEnv) factory(ref BlockRef, h Handler) Source {
	s := newU2C12Src(fmt.Sprintf("e%d", len(e.created)), h)
	s.startRef = ref
	if e.prep != nil {
		e.prep(s)
	}
	e.mu.Lock()
	e.created = append(e.created, s)
	e.refs = append(e.refs, ref.String())
	e.mu.Unlock()
	e.newCh <- s
	return s
}
func (e *u2c12EtEnv) count() int {
	e.mu.Lock()
	defer e.mu.Unlock()
	return len(e.created)
}
func (e *u2c12EtEnv) next(t *testing.T) *u2c12Src {
	select {
	case s := <-e.newCh:
		return s
	case <-time.After(2 * time.Second):
		t.Fatal("no inner source created")
		return nil
	}
}

func TestU2_C12_Eternal_ShutdownBeforeRun(t *testing.T) {
	env := newU2C12EtEnv()
	es := NewEternalSource(env.factory, HandlerFunc(func(*pbbstream.Block, interface{}) error { return nil }))
	es.Shutdown(nil)
	runDone, _ := u2c12RunIn(es.Run)
	if !u2c12Wait(t, "Run returns", runDone, time.Second) {
		t.Fatal("Run did not return")
	}
	if env.count() != 0 || !es.IsTerminated() {
		t.Fatalf("factory calls=%d terminated=%v", env.count(), es.IsTerminated())
	}
	t.Logf("OBSERVED: Shutdown before Run: Run returns at once, Terminated, 0 factory calls")
}

// Shutdown while the handler is blocked ("during a handler call"; the model assumes handler calls return)
func TestU2_C12_Eternal_ShutdownWhileHandlerBlocked(t *testing.T) {
	env := newU2C12EtEnv()
	entered := make(chan struct{})
	release := make(chan struct{})
	var calls int32
	es := NewEternalSource(env.factory, HandlerFunc(func(blk *pbbstream.Block, _ interface{}) error {
		if atomic.AddInt32(&calls, 1) == 1 {
			close(entered)
			<-release
		}
		return nil
	}))
	es.restartDelay = 10 * time.Millisecond
	runDone, _ := u2c12RunIn(es.Run)
	src := env.next(t)
	src.blocks <- u2c12Blk(1, "a")
	u2c12Wait(t, "handler entered", entered, time.Second)
	sd, _ := u2c12RunIn(func() { es.Shutdown(nil) })
	if !u2c12Wait(t, "Shutdown returns", sd, time.Second) {
		t.Fatal("Shutdown blocked")
	}
	time.Sleep(100 * time.Millisecond)
	runReturned := false
	select {
	case <-runDone:
		runReturned = true
	default:
	}
	t.Logf("OBSERVED while the handler is blocked: Shutdown returned, terminated=%v, inner terminating=%v, Run returned=%v", es.IsTerminated(), src.IsTerminating(), runReturned)
	if runReturned || !es.IsTerminated() {
		t.Fatal("unexpected")
	}
	close(release)
	if !u2c12Wait(t, "Run returns", runDone, time.Second) {
		t.Fatal("Run did not return after the handler returned")
	}
	time.Sleep(50 * time.Millisecond)
	t.Logf("OBSERVED after the handler returned: Run returned; handler calls=%d; factory calls=%d (no restart)", atomic.LoadInt32(&calls), env.count())
	if atomic.LoadInt32(&calls) != 1 || env.count() != 1 {
		t.Fatal("late handler call or late factory call")
	}
}

// inner source fails immediately on every start; Shutdown during the restart delay
func TestU2_C12_Eternal_InnerFailsOnEveryStart_ShutdownDuringRestartDelay(t *testing.T) {
	env := newU2C12EtEnv()
	env.prep = func(s *u2c12Src) { s.failNow <- struct{}{} }
	es := NewEternalSource(env.factory, HandlerFunc(func(*pbbstream.Block, interface{}) error { return nil }))
	es.restartDelay = 300 * time.Millisecond
	runDone, _ := u2c12RunIn(es.Run)
	s0 := env.next(t)
	u2c12Wait(t, "1st inner source returned", s0.returned, time.Second)
	time.Sleep(50 * time.Millisecond) // Run is now inside time.Sleep(restartDelay)
	n := env.count()
	t0 := time.Now()
	es.Shutdown(nil)
	sdTook := time.Since(t0)
	if !u2c12Wait(t, "Run returns", runDone, 2*time.Second) {
		t.Fatal("Run did not return")
	}
	t.Logf("OBSERVED: Shutdown during the restart delay: Shutdown took %s, Terminated=%v, Run returned %s after Shutdown (restart delay 300ms is slept in full), factory calls before/after: %d/%d",
		sdTook, es.IsTerminated(), time.Since(t0), n, env.count())
	if env.count() != n {
		t.Fatal("factory called after Shutdown")
	}

	// several restarts in a row, then Shutdown at a random moment
	env2 := newU2C12EtEnv()
	env2.prep = func(s *u2c12Src) { s.failNow <- struct{}{} }
	es2 := NewEternalSource(env2.factory, HandlerFunc(func(*pbbstream.Block, interface{}) error { return nil }))
	es2.restartDelay = time.Millisecond
	runDone2, _ := u2c12RunIn(es2.Run)
	time.Sleep(60 * time.Millisecond)
	es2.Shutdown(nil)
	if !u2c12Wait(t, "Run returns", runDone2, 2*time.Second) {
		t.Fatal("Run did not return (2)")
	}
	c := env2.count()
	time.Sleep(30 * time.Millisecond)
	t.Logf("OBSERVED: %d restarts of an always-failing inner source, then Shutdown: Run returned, Terminated=%v, factory calls afterwards: %d", c, es2.IsTerminated(), env2.count()-c)
	for i, s := range env2.created {
		if !s.IsTerminating() {
			t.Fatalf("inner source %d not terminating", i)
		}
	}
}

// restart point: handler fails on a block -> restart from the last ACCEPTED block; handler fails on the very first block -> BlockRefEmpty
func TestU2_C12_Eternal_RestartFromLastAccepted(t *testing.T) {
	env := newU2C12EtEnv()
	fail := map[string]bool{"00000003a": true, "00000003b": true, "00000001z": true}
	es := NewEternalSource(env.factory, HandlerFunc(func(blk *pbbstream.Block, _ interface{}) error {
		if fail[blk.Id] {
			return errU2C12Handler
		}
		return nil
	}))
	es.restartDelay = time.Millisecond
	runDone, _ := u2c12RunIn(es.Run)
	s := env.next(t)
	s.blocks <- u2c12Blk(1, "a")
	s.blocks <- u2c12Blk(2, "a")
	s.blocks <- u2c12Blk(3, "a") // rejected
	u2c12Wait(t, "inner 0 returned", s.returned, time.Second)
	s = env.next(t) // from 2a
	s.blocks <- u2c12Blk(3, "b") // rejected at once: nothing accepted by this incarnation
	u2c12Wait(t, "inner 1 returned", s.returned, time.Second)
	s = env.next(t) // still from 2a
	s.blocks <- u2c12Blk(3, "c")
	s.failNow <- struct{}{} // fails on its own
	u2c12Wait(t, "inner 2 returned", s.returned, time.Second)
	s = env.next(t) // from 3c
	es.Shutdown(nil)
	u2c12Wait(t, "Run returns", runDone, time.Second)
	t.Logf("OBSERVED restart refs: %v", env.refs)
	want := []string{BlockRefEmpty.String(), "#2 (00000002a)", "#2 (00000002a)", "#3 (00000003c)"}
	if fmt.Sprint(env.refs) != fmt.Sprint(want) {
		t.Fatalf("restart refs %v, want %v", env.refs, want)
	}

	// first block ever is rejected: restart from BlockRefEmpty
	env2 := newU2C12EtEnv()
	es2 := NewEternalSource(env2.factory, HandlerFunc(func(blk *pbbstream.Block, _ interface{}) error { return errU2C12Handler }))
	es2.restartDelay = time.Millisecond
	runDone2, _ := u2c12RunIn(es2.Run)
	s = env2.next(t)
	s.blocks <- u2c12Blk(1, "z")
	s = env2.next(t)
	es2.Shutdown(nil)
	u2c12Wait(t, "Run returns", runDone2, time.Second)
	t.Logf("OBSERVED restart refs when the 1st block is rejected: %v", env2.refs)
	if env2.refs[1] != BlockRefEmpty.String() {
		t.Fatal("expected BlockRefEmpty")
	}
}

// factory returns nil: Run panics (nil Source)
func TestU2_C12_Eternal_FactoryReturnsNil(t *testing.T) {
	es := NewEternalSource(func(BlockRef, Handler) Source { return nil }, HandlerFunc(func(*pbbstream.Block, interface{}) error { return nil }))
	runDone, pan := u2c12RunIn(es.Run)
	if !u2c12Wait(t, "Run ends", runDone, time.Second) {
		es.Shutdown(nil)
		t.Fatal("hang")
	}
	select {
	case p := <-pan:
		t.Logf("OBSERVED: EternalSource.Run panics when the factory returns nil: %v", p)
	default:
		t.Fatal("no panic")
	}
}

// delegating variant (not modelled): startBackAt fails -> Run returns WITHOUT the source terminating; the restart point is
// whatever startBackAt says, not the last accepted block
func TestU2_C12_Eternal_Delegating(t *testing.T) {
	env := newU2C12EtEnv()
	var fail int32
	es := NewDelegatingEternalSource(env.factory, func() (BlockRef, error) {
		if atomic.LoadInt32(&fail) == 1 {
			return nil, fmt.Errorf("no start block")
		}
		return NewBlockRef("00000001a", 1), nil
	}, HandlerFunc(func(*pbbstream.Block, interface{}) error { return nil }))
	es.restartDelay = time.Millisecond
	runDone, _ := u2c12RunIn(es.Run)
	s := env.next(t)
	s.blocks <- u2c12Blk(1, "a")
	s.blocks <- u2c12Blk(2, "a")
	s.blocks <- u2c12Blk(3, "a")
	s.failNow <- struct{}{}
	s = env.next(t)
	atomic.StoreInt32(&fail, 1)
	s.failNow <- struct{}{}
	if !u2c12Wait(t, "Run returns", runDone, time.Second) {
		t.Fatal("Run did not return")
	}
	t.Logf("OBSERVED (delegating): restart refs %v (3 blocks were accepted); after startBackAt failed: Run returned, terminating=%v terminated=%v",
		env.refs, es.IsTerminating(), es.IsTerminated())
	if es.IsTerminating() {
		t.Fatal("expected observation: Run returned but the source is not even terminating")
	}
	es.Shutdown(nil)
}

// inner source that violates the contract: its Run returns without the source terminating (like bstream.MockSource at the
// end of its blocks).  EternalSource.Run then waits on <-src.Terminating(): no restart ever; Shutdown still makes Run return.
func TestU2_C12_Eternal_InnerRunReturnsWithoutTerminating(t *testing.T) {
	var made int32
	es := NewEternalSource(func(ref BlockRef, h Handler) Source {
		atomic.AddInt32(&made, 1)
		return NewMockSource([]*pbbstream.Block{u2c12Blk(1, "a")}, h)
	}, HandlerFunc(func(*pbbstream.Block, interface{}) error { return nil }))
	es.restartDelay = time.Millisecond
	runDone, _ := u2c12RunIn(es.Run)
	time.Sleep(100 * time.Millisecond)
	t.Logf("OBSERVED: inner Run returned without terminating: factory calls after 100ms = %d (no restart)", atomic.LoadInt32(&made))
	es.Shutdown(nil)
	if !u2c12Wait(t, "Run returns", runDone, time.Second) {
		t.Fatal("Run did not return")
	}
	t.Logf("OBSERVED: Shutdown -> Run returned, Terminated=%v", es.IsTerminated())
}
