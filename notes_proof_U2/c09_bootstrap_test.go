// package directory: hub; run: go test -vet=off -count=1 -v -run 'TestU2_C09_(PassShapes|Duplicates|EmptyParent|NotReadyServes|RequestRange)' ./hub/ (place next to u2_c09_helpers_test.go; file name in the repo: u2_c09_bootstrap_test.go)
package hub

import (
	"testing"
)

// helper: one step = live block + pass, logs the state and (when ready) checks the servable window
func u2c09Step(t *testing.T, h *u2c09Hub, b u2c09Blk, p *u2c09Pass, wantReady bool) {
	t.Helper()
	r := h.live(b, p)
	line := h.state()
	if h.fh.IsReady() {
		desc, ok := h.window()
		line += " | " + desc
		if !ok {
			t.Errorf("servable window violated after live %d", b.num)
		}
	}
	t.Logf("live %x@%d(lib %d) -> %s | %s | starts=%v", b.id, b.num, b.lib, r, line, h.starts)
	if r != "ok" {
		t.Errorf("live %d: %s", b.num, r)
	}
	if h.fh.IsReady() != wantReady {
		t.Errorf("after live %d: ready=%v, expected %v", b.num, h.fh.IsReady(), wantReady)
	}
}

// bootstrap passes that are empty, fail half-way, overlap partially; live blocks before any one-block source exists;
// live blocks older than the files. Linear chain, LIB two behind, first streamable 1, kept 5.
func TestU2_C09_PassShapes(t *testing.T) {
	ch := u2c09Chain(1, 60, 2, 0)
	blk := func(n uint64) u2c09Blk { return ch[n-1] }

	t.Run("empty passes: the hub becomes ready from live blocks alone", func(t *testing.T) {
		h := u2c09New(t, 1, 5)
		empty := &u2c09Pass{}
		u2c09Step(t, h, blk(31), empty, false)
		u2c09Step(t, h, blk(32), empty, false)
		u2c09Step(t, h, blk(33), empty, true) // 33 declares LIB 31 = the first live block
		u2c09Step(t, h, blk(34), empty, true)
		if got := h.from(31); got != "[101f@31/new,irreversible/lib31 1020@32/new,irreversible/lib32 1021@33/new/lib32 1022@34/new/lib32]" {
			t.Errorf("from(31) = %s", got)
		}
	})

	t.Run("pass fails after 10 blocks, next pass complete", func(t *testing.T) {
		h := u2c09New(t, 1, 5)
		u2c09Step(t, h, blk(31), &u2c09Pass{blocks: ch[:30], failAfter: 10}, false)
		t.Logf("not ready: from(8)=%s forks(0)=%s", h.from(8), h.forks(0))
		u2c09Step(t, h, blk(32), &u2c09Pass{blocks: ch[:31]}, true)
		u2c09Step(t, h, blk(33), nil, true)
	})

	t.Run("partially overlapping passes with a hole that closes later", func(t *testing.T) {
		h := u2c09New(t, 1, 5)
		u2c09Step(t, h, blk(31), &u2c09Pass{blocks: ch[:20]}, false)    // files 1..20, hole 21..30
		u2c09Step(t, h, blk(32), &u2c09Pass{blocks: ch[10:26]}, false)  // files 11..26, hole 27..30
		u2c09Step(t, h, blk(33), &u2c09Pass{blocks: ch[22:32]}, true)   // files 23..32: links
		u2c09Step(t, h, blk(34), nil, true)
	})

	t.Run("live blocks before any one-block source (factory answers nil)", func(t *testing.T) {
		h := u2c09New(t, 1, 5)
		u2c09Step(t, h, blk(31), &u2c09Pass{nilSrc: true}, false)
		u2c09Step(t, h, blk(32), &u2c09Pass{nilSrc: true}, false)
		t.Logf("dropped live blocks are not stored: GetBlockByHash(31)=%v", h.fh.GetBlockByHash(u2c09ID(blk(31).id)) != nil)
		if h.fh.GetBlockByHash(u2c09ID(blk(31).id)) != nil {
			t.Errorf("live block 31 stored although the factory answered nil")
		}
		u2c09Step(t, h, blk(33), &u2c09Pass{blocks: ch[:32]}, true)
	})

	t.Run("live blocks older than the files", func(t *testing.T) {
		h := u2c09New(t, 1, 5)
		u2c09Step(t, h, blk(20), &u2c09Pass{blocks: ch[:30]}, false) // files reach 30, live is at 20
		for n := uint64(21); n <= 29; n++ {
			u2c09Step(t, h, blk(n), &u2c09Pass{blocks: ch[:30]}, false)
		}
		t.Logf("one-block sources requested so far: %v (only the first live block triggered a pass)", h.starts)
		if len(h.starts) != 1 {
			t.Errorf("expected a single bootstrap pass, got %v", h.starts)
		}
		u2c09Step(t, h, blk(30), &u2c09Pass{blocks: ch[:30]}, true)
		u2c09Step(t, h, blk(31), nil, true)
	})

	t.Run("start block rounding: files start at a multiple of 100", func(t *testing.T) {
		long := u2c09Chain(1, 460, 2, 0)
		h := u2c09New(t, 1, 5)
		u2c09Step(t, h, long[449], &u2c09Pass{blocks: long[:449]}, true) // live 450, LIB 448, kept 5 -> start 400
		if len(h.starts) != 1 || h.starts[0] != 400 {
			t.Errorf("starts=%v, expected [400]", h.starts)
		}
		u2c09Step(t, h, long[450], nil, true)
	})
}

// duplicate deliveries: of a live block, inside a pass, of old blocks after readiness
func TestU2_C09_Duplicates(t *testing.T) {
	ch := u2c09Chain(1, 60, 2, 0)
	blk := func(n uint64) u2c09Blk { return ch[n-1] }
	h := u2c09New(t, 1, 5)
	dup := append(append([]u2c09Blk{}, ch[:30]...), ch[10:30]...) // 1..30 then 11..30 again
	u2c09Step(t, h, blk(31), &u2c09Pass{blocks: dup}, true)
	before := h.from(h.fh.LowestBlockNum())
	u2c09Step(t, h, blk(31), nil, true) // same live block again
	u2c09Step(t, h, blk(28), nil, true) // a retained final block again
	u2c09Step(t, h, blk(3), nil, true)  // a purged block again
	after := h.from(h.fh.LowestBlockNum())
	t.Logf("snapshot before duplicates: %s", before)
	t.Logf("snapshot after duplicates : %s | forks(0)=%s", after, h.forks(0))
	if before != after {
		t.Errorf("duplicates changed the snapshot")
	}
	u2c09Step(t, h, blk(32), nil, true)
}

// a first block whose parent id is the empty string (genesis); first streamable block 0.
// ForkDB.AddLink treats links[id]=="" as "not stored", so such a block is re-added on every delivery.
func TestU2_C09_EmptyParent(t *testing.T) {
	mk := func(first uint64) []u2c09Blk {
		out := []u2c09Blk{{0x2000 + first, first, 0, first}} // parent id "" and LIB = itself
		for k := first + 1; k <= first+12; k++ {
			lib := first
			if k-first > 2 {
				lib = k - 2
			}
			out = append(out, u2c09Blk{0x2000 + k, k, 0x2000 + k - 1, lib})
		}
		return out
	}
	for _, first := range []uint64{0, 1} {
		ch := mk(first)
		h := u2c09New(t, first, 100)
		u2c09Step(t, h, ch[6], &u2c09Pass{blocks: ch[:6]}, true)
		snap := h.from(first)
		t.Logf("first=%d: from(%d)=%s", first, first, snap)
		u2c09Step(t, h, ch[0], nil, true) // the genesis block delivered again by the live source
		u2c09Step(t, h, ch[7], nil, true)
		snap2 := h.from(first)
		t.Logf("first=%d: after re-delivery of the genesis block and one more block: from(%d)=%s forks(0)=%s", first, first, snap2, h.forks(0))
		if got := h.fromNums(first); len(got) != 8 || got[0] != first {
			t.Errorf("first=%d: from(first) = %v", first, got)
		}
	}
}

// requests before readiness: SourceFromBlockNum / WithForks / GetBlock do not look at the ready flag
func TestU2_C09_NotReadyServes(t *testing.T) {
	ch := u2c09Chain(1, 60, 2, 0)
	h := u2c09New(t, 1, 5)
	u2c09Step(t, h, ch[39], &u2c09Pass{blocks: ch[:30]}, false) // files 1..30, live 40: hole 31..39
	t.Logf("NOT ready: LowestBlockNum=%d HeadNum=%d; from(26)=%s from(30)=%s forks(29)=%s GetBlock(30,\"\")=%v",
		h.fh.LowestBlockNum(), h.fh.HeadNum(), h.from(26), h.from(30), h.forks(29), h.fh.GetBlock(30, "") != nil)
	if h.fh.LowestBlockNum() != 0 || h.fh.HeadNum() != 0 {
		t.Errorf("not ready but lowest/head reported")
	}
	if h.fromNums(26) == nil {
		t.Errorf("expected the not-ready hub to serve 26 (documented behaviour), got nil")
	}
}

// requested numbers 0, below the window, inside, head, beyond head, 2^64-1; first streamable 0 with block 0 retained
func TestU2_C09_RequestRange(t *testing.T) {
	ch := u2c09Chain(0, 12, 2, 0)
	h := u2c09New(t, 0, 1000)
	u2c09Step(t, h, ch[8], &u2c09Pass{blocks: ch[:8]}, true)
	t.Logf("%s | from(0)=%s", h.state(), h.from(0))
	if got := h.fromNums(0); len(got) != 9 || got[0] != 0 {
		t.Errorf("from(0) = %v", got)
	}
	for _, n := range []uint64{9, 10, 1 << 40, ^uint64(0)} {
		if got := h.fromNums(n); got != nil {
			t.Errorf("from(%d) = %v, want nil", n, got)
		}
		if got := h.forks(n); got != "[]" {
			t.Errorf("forks(%d) = %s, want an EMPTY source (with-forks never answers nil once a LIB is set)", n, got)
		}
	}
	t.Logf("beyond head: from(9)=%s forks(9)=%s forks(2^64-1)=%s", h.from(9), h.forks(9), h.forks(^uint64(0)))
}
