// package directory: hub; run: go test -vet=off -count=1 -v -run TestU2_C09_Outside ./hub/ (place next to u2_c09_helpers_test.go; file name in the repo: u2_c09_outside_test.go)
package hub

import (
	"testing"
)

// Replays of the model-level necessity witnesses whose inputs are OUTSIDE C09's quantifier (malformed histories): they only
// confirm that the real code behaves like the model at those points. Both tests PASS and assert the observed behaviour.

// lib_ok (hypothesis of c09_chain_is_consumer_chain): block 15@5 declares LIB 9, above itself. Witness c09_lib_ok_needed.
func TestU2_C09_Outside_LibAboveSelf(t *testing.T) {
	a := []u2c09Blk{{11, 1, 10, 0}, {12, 2, 11, 1}, {13, 3, 12, 1}, {14, 4, 13, 2}, {15, 5, 14, 9}, {16, 6, 15, 9}}
	for _, kept := range []int{0, 2} {
		h := u2c09New(t, 1, kept)
		r1 := h.live(a[3], &u2c09Pass{blocks: a[:3]})
		s1 := h.state()
		r2 := h.live(a[4], nil)
		t.Logf("kept=%d: live 14 -> %s | %s ; live 15(lib 9) -> %s | %s | from(0)=%s from(5)=%s forks(0)=%s", kept, r1, s1, r2, h.state(), h.from(0), h.from(5), h.forks(0))
		if !h.fh.IsReady() || h.fh.LowestBlockNum() != 0 || h.fromNums(0) != nil || h.fromNums(5) != nil || h.forks(0) != "[]" {
			t.Errorf("kept=%d: expected a ready hub with an EMPTY store (lowest 0 not servable, head 15@5 not servable)", kept)
		}
		hn, _, _, _, err := h.fh.HeadInfo()
		if err != nil || hn != 5 {
			t.Errorf("kept=%d: head %d err %v", kept, hn, err)
		}
		r3 := h.live(a[5], nil)
		t.Logf("kept=%d: live 16 -> %s | %s | from(6)=%s forks(0)=%s", kept, r3, h.state(), h.from(6), h.forks(0))
	}
}

// wf_universe.wu_parent (hypothesis of c09_hub_snapshots / c09_wf_reachable): block 13 has the same number as its parent 12.
// Witness c09_wu_parent_needed.
func TestU2_C09_Outside_EqualNumberParent(t *testing.T) {
	e := []u2c09Blk{{11, 1, 10, 0}, {12, 2, 11, 1}, {13, 2, 12, 1}, {14, 3, 13, 2}, {15, 4, 14, 2}}
	h := u2c09New(t, 1, 5)
	h.live(e[3], &u2c09Pass{blocks: e[:3]})
	h.live(e[4], nil)
	got := h.from(2)
	t.Logf("%s | from(2)=%s from(1)=%s", h.state(), got, h.from(1))
	if got != "[c@2/new,irreversible/lib2 d@2/new,irreversible/lib2 e@3/new/lib2 f@4/new/lib2]" {
		t.Errorf("from(2) = %s", got)
	}
}
