// package directory: hub; run: go test -vet=off -count=1 -v -run TestU2_C09_ReconnectBeforeReady ./hub/ (place next to u2_c09_helpers_test.go; file name in the repo: u2_c09_reconnect_before_ready_test.go)
package hub

import (
	"testing"
	"time"

	"github.com/streamingfast/bstream"
	"github.com/streamingfast/shutter"
)

// Environment hypothesis in C09's trusted base: "hub reconnection not modelled" - the model feeds every live block through
// bootstrapperHandler. In the code, when the FIRST live source terminates, reconnect() builds the next live source around a
// reconnectionHandler that forwards to h.forkable.ProcessBlock directly: bootstrap() is never called again. If that happens
// before the hub is ready, the ready flag can never be set, although the Forkable goes on to build a complete chain.
// PASSES, asserting: after a live-source reconnection that precedes readiness, a history that makes a fresh hub ready
// (control) leaves this hub not ready for ever: LowestBlockNum 0, HeadInfo error, while SourceFromBlockNum serves the chain.
func TestU2_C09_ReconnectBeforeReady(t *testing.T) {
	saved := bstream.GetProtocolFirstStreamableBlock
	bstream.GetProtocolFirstStreamableBlock = 1
	defer func() { bstream.GetProtocolFirstStreamableBlock = saved }()

	ch := u2c09Chain(1, 60, 2, 0)
	handlers := make(chan bstream.Handler, 4)
	var lives []*u2c09Idle
	lsf := func(hd bstream.Handler) bstream.Source {
		l := &u2c09Idle{shutter.New()}
		lives = append(lives, l)
		handlers <- hd
		return l
	}
	var files []u2c09Blk
	obsf := bstream.SourceFromNumFactory(func(start uint64, hd bstream.Handler) bstream.Source {
		var bl []u2c09Blk
		for _, b := range files {
			if b.num >= start {
				bl = append(bl, b)
			}
		}
		return &u2c09PassSource{Shutter: shutter.New(), blocks: bl, h: hd}
	})
	fh := NewForkableHub(lsf, obsf, 5)
	go fh.Run()
	defer fh.Shutdown(nil)
	h1 := <-handlers

	// live 31 while the files only reach 20: not ready (hole 21..30)
	files = ch[:20]
	if err := h1.ProcessBlock(u2c09PB(ch[30]), nil); err != nil {
		t.Fatal(err)
	}
	if fh.IsReady() {
		t.Fatal("unexpectedly ready")
	}
	// the live source disconnects; the hub reconnects
	lives[0].Shutdown(nil)
	var h2 bstream.Handler
	select {
	case h2 = <-handlers:
	case <-time.After(5 * time.Second):
		t.Fatal("no reconnection")
	}
	// the files are now complete; live 32..45 arrive through the reconnected source
	for n := 32; n <= 45; n++ {
		files = ch[:n-1]
		if err := h2.ProcessBlock(u2c09PB(ch[n-1]), nil); err != nil {
			t.Fatalf("live %d: %v", n, err)
		}
	}
	_, _, _, _, herr := fh.HeadInfo()
	src := fh.SourceFromBlockNum(31, u2c09Nop)
	var served []uint64
	if src != nil {
		for _, pb := range u2c09Drain(src) {
			served = append(served, pb.Block.Number)
		}
	}
	t.Logf("after reconnection and live 32..45 with complete files: ready=%v lowest=%d HeadInfo err=%v forkable head=%d; SourceFromBlockNum(31) numbers=%v terminating=%v",
		fh.IsReady(), fh.LowestBlockNum(), herr, fh.forkable.HeadNum(), served, fh.IsTerminating())
	if fh.IsReady() {
		t.Errorf("hub became ready: the behaviour documented here is gone")
	}

	// control: the same blocks without the disconnection
	h := u2c09New(t, 1, 5)
	h.live(ch[30], &u2c09Pass{blocks: ch[:20]})
	for n := 32; n <= 45; n++ {
		h.live(ch[n-1], &u2c09Pass{blocks: ch[:n-1]})
	}
	t.Logf("control (no disconnection): %s", h.state())
	if !h.fh.IsReady() {
		t.Errorf("control hub not ready")
	}
}
