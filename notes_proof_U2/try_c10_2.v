From BV Require Import Base.Prelude Model.FileSeq Model.Pipeline Spec.C10_Spec Spec.C11_Spec.
Local Open Scope N_scope.
Definition pre (b : blk) : N := 3 * b_id b + b_num b.
Definition lay : layout :=
  mkLayout [[mkBlk 1 1 0; mkBlk 2 2 1; mkBlk 3 3 2; mkBlk 4 4 3];
            [mkBlk 4 4 3; mkBlk 5 5 4; mkBlk 7 7 5; mkBlk 9 9 7];
            [mkBlk 10 10 9]] 2 5 7.
(* [fixed] in C10_order_complete / C10_order_quiesces: undisturbed runs of the UNFIXED model *)
Eval vm_compute in
  (map (fun T => let C := mkCfg lay T FNone false false false in
        let s := run pre C (rounds C 60) (init C) in
        (s_err s, returned s, map (fun v => b_num (fst v)) (s_calls s))) [0%nat; 1%nat; 3%nat]).
(* bundle size 0: the model is total (N.modulo _ 0), the code divides by zero *)
Eval vm_compute in (let L := mkLayout [[mkBlk 1 1 0]] 1 0 3 in (base0 L, base_of L 1, expected L, stopped L)).
