(* U2 hypothesis audit of C11 (Spec/C11_Spec.v, Properties/C11.v): necessity witnesses.
   Every theorem exhibits a concrete input that violates ONE hypothesis of a C11 statement and on
   which the conclusion of that statement is false for the model (Model/Pipeline.v).
   All proofs by vm_compute; closed under the global context. *)
From BV Require Import Base.Prelude Model.FileSeq Model.Pipeline Spec.C10_Spec Spec.C11_Spec
  Proofs.C11_Proofs.
Local Open Scope N_scope.

Definition c11_pre (b : blk) : N := 3 * b_id b + b_num b.
Definition c11_f := false.

Ltac c11_quiet :=
  let t := fresh "t" in let c := fresh "c" in
  intros [t c];
  destruct t as [|i|i|i k| |]; destruct c;
  try (vm_compute; reflexivity);
  try (destruct i as [|[|i]]; vm_compute; reflexivity);
  try (destruct i as [|[|i]]; [destruct k as [|[|[|k]]]|destruct k as [|[|[|k]]]|];
       vm_compute; reflexivity).

(* ---------------------------------------------------------------------------------------------
   H = [fixed C].
   c_fix1 (run() watches Terminating() while it receives from the per-file channel) is needed by
   C11_returns, c_fix2 (no close(preprocessed) on the error path) by C11_error: these are the two
   refutations that already exist (known, FIXED findings of known_findings.json, property C11). *)
Theorem c11_fix1_needed_returns : C11_returns_unfixed_counterexample.
Proof. exact c11_returns_unfixed_proof. Qed.
Print Assumptions c11_fix1_needed_returns.

Theorem c11_fix2_needed_error : C11_error_unfixed_counterexample.
Proof. exact c11_error_unfixed_proof. Qed.
Print Assumptions c11_fix2_needed_error.

(* c_fix2 is ALSO needed by C11_prefix ("delivered in order without gaps") and by C11_bound
   ("nothing behind the fault site is delivered"): two bundles, the 2nd Read of bundle 0 fails,
   the unfixed reader closes `preprocessed` before reporting; run() moves on to bundle 1, whose
   first block names block 1 as parent: deliveries [1; 3], block 2 is silently missing.
   Same known finding, in its silent-gap form (no error at all at that moment). *)
Definition c11_b1 := mkBlk 1 1 0.
Definition c11_b2 := mkBlk 2 2 1.
Definition c11_b3 := mkBlk 3 5 1.
Definition c11_layA : layout := mkLayout [[c11_b1; c11_b2]; [c11_b3]] 1 5 0.
Definition c11_cfgA : cfg := mkCfg c11_layA 1 (FRead 0 1) false true false.
Definition c11_schedA : list (tid * bool) :=
  map (fun t => (t, c11_f))
  [TL; TL; TR 0; TR 0; TR 0; TR 0; TP 0 0; TM; TD 0; TD 0; TD 0;
   TM; TM; TD 0; TM; TL; TL; TR 1; TR 1; TR 1; TP 1 0; TM; TD 1; TD 1; TD 1; TM; TM].

Theorem c11_fix2_needed_prefix_bound :
  exists pre C sched,
    c_fix1 C = true /\ c_fix2 C = false /\
    let s := run pre C sched (init C) in
    s_calls s = pairs pre [c11_b1; c11_b3] /\ s_err s = None /\
    ~ prefix (s_calls s) (pairs pre (expected_blocks (c_lay C))) /\
    site_limit_blocks C = Some [c11_b1] /\
    ~ prefix (s_calls s) (pairs pre [c11_b1]).
Proof.
  exists c11_pre, c11_cfgA, c11_schedA.
  split; [reflexivity|]. split; [reflexivity|].
  split; [vm_compute; reflexivity|]. split; [vm_compute; reflexivity|].
  split; [intros [r H]; vm_compute in H; discriminate H|].
  split; [vm_compute; reflexivity|].
  intros [r H]; vm_compute in H; discriminate H.
Qed.
Print Assumptions c11_fix2_needed_prefix_bound.

(* ---------------------------------------------------------------------------------------------
   H = [quiescent pre C s] in C11_returns / C11_fires, i.e. weak FAIRNESS — more precisely only
   the fairness of run()'s own goroutine: OpenObject of the only bundle has failed, Err() is set,
   and as long as TM (run()) is not scheduled Run does not return, whatever the others do (the
   state is a fixpoint of a round without TM); two steps of TM suffice.  "Go schedules every
   runnable goroutine": outside the quantifier.  The handler-side reading "the handler returns"
   is probed on the real code: TestU2_C11_Env_HandlerNeverReturns (Err() set, Run blocked until the
   handler returns, then no further call). *)
Definition c11_layB : layout := mkLayout [[c11_b1; c11_b2]] 1 5 3.
Definition c11_cfgB (fl : fault) (stop : N) : cfg :=
  mkCfg (mkLayout [[c11_b1; c11_b2]] 1 5 stop) 1 fl false true true.
Definition c11_noTM :=
  filter (fun tc : tid * bool => match fst tc with TM => false | _ => true end).

Theorem c11_returns_fairness_needed :
  exists pre C sched, fixed C /\ site_reached C = true /\
    let s := run pre C sched (init C) in
    s_err s = Some EOpen /\ returned s = false /\ ~ quiescent pre C s /\
    run pre C (c11_noTM (all_moves C)) s = s /\
    returned (run pre C [(TM, c11_f); (TM, c11_f)] s) = true.
Proof.
  exists c11_pre, (c11_cfgB (FOpen 0) 3),
    ([(TL, c11_f); (TL, c11_f); (TM, c11_f); (TR 0, c11_f)] ++
     c11_noTM (rounds (c11_cfgB (FOpen 0) 3) 4)).
  split; [split; reflexivity|]. split; [reflexivity|].
  set (s := run _ _ _ _). vm_compute in s.
  split; [reflexivity|]. split; [reflexivity|].
  split; [intro Q; specialize (Q (TM, false));
          apply (f_equal (fun st => match s_m st with MFile _ => true | _ => false end)) in Q;
          vm_compute in Q; discriminate Q|].
  split; vm_compute; reflexivity.
Qed.
Print Assumptions c11_returns_fairness_needed.

(* ---------------------------------------------------------------------------------------------
   H = [site_reached C = true] in C11_fires: a fault site that no run of the layout ever reaches
   (OpenObject of a bundle that does not exist; the preprocessor failing on a block below the
   start block, which is never submitted).  Without a stop block the source then legitimately
   keeps polling: quiescent, Run has not returned, no error.  Outside the quantifier ("every fault
   site OF A RUN"). *)
Theorem c11_fires_site_needed :
  exists pre C1 C2, fixed C1 /\ fixed C2 /\
    c_fault C1 = FOpen 3 /\ c_fault C2 = FPre 0 0 /\
    site_reached C1 = false /\ site_reached C2 = false /\
    let s1 := run pre C1 (rounds C1 12) (init C1) in
    let s2 := run pre C2 (rounds C2 12) (init C2) in
    quiescent pre C1 s1 /\ returned s1 = false /\ s_err s1 = None /\
    quiescent pre C2 s2 /\ returned s2 = false /\ s_err s2 = None.
Proof.
  exists c11_pre, (c11_cfgB (FOpen 3) 0),
    (mkCfg (mkLayout [[c11_b1; c11_b2]] 2 5 0) 1 (FPre 0 0) false true true).
  split; [split; reflexivity|]. split; [split; reflexivity|].
  split; [reflexivity|]. split; [reflexivity|].
  split; [vm_compute; reflexivity|]. split; [vm_compute; reflexivity|].
  set (s1 := run _ _ _ _). vm_compute in s1.
  set (s2 := run _ _ _ _). vm_compute in s2.
  split; [c11_quiet|]. split; [reflexivity|]. split; [reflexivity|].
  split; [c11_quiet|]. split; reflexivity.
Qed.
Print Assumptions c11_fires_site_needed.

(* ---------------------------------------------------------------------------------------------
   H = [returned s = true] in C11_error: before Run returns Err() need not be set (trivially: the
   initial state), and in C11_silence: before Run returns the handler is of course still called.
   Structural; one witness for the record. *)
Theorem c11_error_returned_needed :
  exists pre C, fixed C /\
    (forall e, s_err (run pre C [] (init C)) <> Some e) /\
    exists sched, s_calls (run pre C sched (init C)) <> s_calls (run pre C [] (init C)).
Proof.
  exists c11_pre, (c11_cfgB FNone 3).
  split; [split; reflexivity|]. split; [intros e H; vm_compute in H; discriminate H|].
  exists (rounds (c11_cfgB FNone 3) 12). vm_compute. discriminate.
Qed.
Print Assumptions c11_error_returned_needed.
