// package directory: . (repo root, package bstream); run: go test -vet=off -count=1 -run 'TestU2_C16_Codec' ./
package bstream

// U2 hypothesis audit, property C16: the Coq theorems abstract protobuf as Section variables
// penc/pdec/pdec_meta with the hypothesis codec_ok (pdec (penc b) = Some b, pdec_meta (penc b) =
// Some (meta_of b)) and the per-block guard `writable` (non-empty encoding < 4 GiB).  These tests
// run the REAL writer / reader at the extreme points of the property's quantifier ("arbitrary
// ids, heights, parents, LIB numbers, timestamps and payloads (including legacy blocks without
// payload)") and record exactly what round-trips and what does not.

import (
	"bytes"
	"fmt"
	"io"
	"math"
	"strings"
	"testing"
	"testing/iotest"

	pbbstream "github.com/streamingfast/bstream/pb/sf/bstream/v1"
	"google.golang.org/protobuf/proto"
	"google.golang.org/protobuf/types/known/anypb"
	"google.golang.org/protobuf/types/known/timestamppb"
)

func u2c16Anchor() *pbbstream.Block {
	return &pbbstream.Block{Number: 7, Id: "00000007aaaaaaaaaaaaaaaa", ParentId: "00000006aaaaaaaaaaaaaaaa", LibNum: 5, ParentNum: 6,
		Timestamp: &timestamppb.Timestamp{Seconds: 1700000000},
		Payload:   &anypb.Any{TypeUrl: "type.googleapis.com/t.Block", Value: []byte{1, 2, 3}}}
}

// writes the blocks with one writer; returns the file and the error of every Write call
func u2c16Write(bs ...*pbbstream.Block) ([]byte, []error) {
	var buf bytes.Buffer
	w, _ := NewDBinBlockWriter(&buf)
	errs := make([]error, len(bs))
	for i, b := range bs {
		errs[i] = w.Write(b)
	}
	return buf.Bytes(), errs
}

// reads until an error; end = "eof" | "hdr: ..." | "err: ..." | "panic: ..."
func u2c16ReadAll(r io.Reader) (out []*pbbstream.Block, end string) {
	defer func() {
		if p := recover(); p != nil {
			end = fmt.Sprintf("panic: %v", p)
		}
	}()
	br, err := NewDBinBlockReader(r)
	if err != nil {
		return nil, "hdr: " + err.Error()
	}
	for i := 0; i < 1000; i++ {
		b, err := br.Read()
		if err == io.EOF && b == nil {
			return out, "eof"
		}
		if err != nil {
			return out, "err: " + err.Error()
		}
		out = append(out, b)
	}
	return out, "loop"
}

func u2c16ReadMetas(data []byte) (out []*pbbstream.BlockMeta, end string) {
	defer func() {
		if p := recover(); p != nil {
			end = fmt.Sprintf("panic: %v", p)
		}
	}()
	br, err := NewDBinBlockReader(bytes.NewReader(data))
	if err != nil {
		return nil, "hdr: " + err.Error()
	}
	for i := 0; i < 1000; i++ {
		b, err := br.ReadAsBlockMeta()
		if err == io.EOF && b == nil {
			return out, "eof"
		}
		if err != nil {
			return out, "err: " + err.Error()
		}
		out = append(out, b)
	}
	return out, "loop"
}

// names of the fields of got that differ from want
func u2c16Diff(want, got *pbbstream.Block) string {
	var d []string
	add := func(c bool, s string) {
		if c {
			d = append(d, s)
		}
	}
	add(want.Number != got.Number, "number")
	add(want.Id != got.Id, "id")
	add(want.ParentId != got.ParentId, "parent_id")
	add(!proto.Equal(want.Timestamp, got.Timestamp) || (want.Timestamp == nil) != (got.Timestamp == nil), "timestamp")
	add(want.LibNum != got.LibNum, "lib_num")
	add(want.PayloadKind != got.PayloadKind, "payload_kind")
	add(want.PayloadVersion != got.PayloadVersion, "payload_version")
	add(!bytes.Equal(want.PayloadBuffer, got.PayloadBuffer), "payload_buffer")
	add(want.HeadNum != got.HeadNum, "head_num")
	add(want.ParentNum != got.ParentNum, fmt.Sprintf("parent_num(%d->%d)", want.ParentNum, got.ParentNum))
	switch {
	case (want.Payload == nil) != (got.Payload == nil):
		add(true, fmt.Sprintf("payload(nil=%v -> nil=%v url=%q len=%d)", want.Payload == nil, got.Payload == nil, got.GetPayload().GetTypeUrl(), len(got.GetPayload().GetValue())))
	case want.Payload != nil:
		add(want.Payload.TypeUrl != got.Payload.TypeUrl, "payload.type_url")
		add(!bytes.Equal(want.Payload.Value, got.Payload.Value), "payload.value")
	}
	if len(d) == 0 {
		return "same"
	}
	return "ALTERED[" + strings.Join(d, ",") + "]"
}

type u2c16Point struct {
	name string
	blk  *pbbstream.Block
	// expected observation when the block is written as the SECOND block after the anchor:
	wantWrite string // "ok" | "err"
	wantRead  string // "same" | "ALTERED[...]" prefix | "err" (read stops with an error at this block)
	wantMeta  string // "same" | "err"
}

func u2c16Mod(f func(b *pbbstream.Block)) *pbbstream.Block {
	b := u2c16Anchor()
	b.Number, b.Id, b.ParentId, b.ParentNum = 8, "00000008aaaaaaaaaaaaaaaa", "00000007aaaaaaaaaaaaaaaa", 7
	f(b)
	return b
}

func u2c16Points() []u2c16Point {
	big := make([]byte, 32<<20)
	for i := range big {
		big[i] = byte(i*7 + i>>9)
	}
	legacy := func(kind int32, num, pnum uint64) *pbbstream.Block {
		return u2c16Mod(func(b *pbbstream.Block) {
			b.Payload = nil
			b.PayloadKind = pbbstream.Protocol(kind)
			b.PayloadVersion = 3
			b.PayloadBuffer = []byte{9, 9}
			b.Number = num
			b.ParentNum = pnum
		})
	}
	return []u2c16Point{
		// ---- heights, LIB numbers, parent numbers
		{"height 2^32", u2c16Mod(func(b *pbbstream.Block) { b.Number = 1 << 32; b.ParentNum = 1<<32 - 1 }), "ok", "same", "same"},
		{"height 2^63", u2c16Mod(func(b *pbbstream.Block) { b.Number = 1 << 63; b.ParentNum = 1<<63 - 1 }), "ok", "same", "same"},
		{"height 2^64-1, lib 2^64-1, parent_num 2^64-1, head 2^64-1", u2c16Mod(func(b *pbbstream.Block) {
			b.Number, b.LibNum, b.ParentNum, b.HeadNum = math.MaxUint64, math.MaxUint64, math.MaxUint64, math.MaxUint64
		}), "ok", "same", "same"},
		{"lib above number (lib 100, number 8)", u2c16Mod(func(b *pbbstream.Block) { b.LibNum = 100 }), "ok", "same", "same"},
		{"parent_num above number", u2c16Mod(func(b *pbbstream.Block) { b.ParentNum = 99 }), "ok", "same", "same"},
		{"height 0, parent_num 0", u2c16Mod(func(b *pbbstream.Block) { b.Number, b.ParentNum, b.LibNum = 0, 0, 0 }), "ok", "same", "same"},
		{"MODERN block, height 15, parent_num 0", u2c16Mod(func(b *pbbstream.Block) { b.Number, b.ParentNum = 15, 0 }), "ok", "same", "same"},
		// supportLegacyMeta heuristic: a modern block whose parent number is legitimately 0 (parent = genesis, skipped heights)
		{"MODERN block, height 16, parent_num 0", u2c16Mod(func(b *pbbstream.Block) { b.Number, b.ParentNum = 16, 0 }), "ok", "same", "err"},
		// ---- timestamps
		{"timestamp nil", u2c16Mod(func(b *pbbstream.Block) { b.Timestamp = nil }), "ok", "same", "same"},
		{"timestamp zero (non-nil)", u2c16Mod(func(b *pbbstream.Block) { b.Timestamp = &timestamppb.Timestamp{} }), "ok", "same", "same"},
		{"timestamp pre-1970", u2c16Mod(func(b *pbbstream.Block) { b.Timestamp = &timestamppb.Timestamp{Seconds: -86400, Nanos: 5} }), "ok", "same", "same"},
		{"timestamp negative nanos", u2c16Mod(func(b *pbbstream.Block) { b.Timestamp = &timestamppb.Timestamp{Seconds: 1, Nanos: -1} }), "ok", "same", "same"},
		{"timestamp nanos 2^31-1 (invalid)", u2c16Mod(func(b *pbbstream.Block) { b.Timestamp = &timestamppb.Timestamp{Seconds: 1, Nanos: math.MaxInt32} }), "ok", "same", "same"},
		{"timestamp seconds MaxInt64", u2c16Mod(func(b *pbbstream.Block) { b.Timestamp = &timestamppb.Timestamp{Seconds: math.MaxInt64, Nanos: 999999999} }), "ok", "same", "same"},
		{"timestamp seconds MinInt64", u2c16Mod(func(b *pbbstream.Block) { b.Timestamp = &timestamppb.Timestamp{Seconds: math.MinInt64, Nanos: math.MinInt32} }), "ok", "same", "same"},
		// ---- ids
		{"id empty, parent empty", u2c16Mod(func(b *pbbstream.Block) { b.Id, b.ParentId = "", "" }), "ok", "same", "same"},
		{"id 1 char", u2c16Mod(func(b *pbbstream.Block) { b.Id = "a" }), "ok", "same", "same"},
		{"id uppercase / non-hex / dash / slash / dot / space", u2c16Mod(func(b *pbbstream.Block) { b.Id, b.ParentId = "ABC-xyz/../ q.", "-" }), "ok", "same", "same"},
		{"id with NUL and control bytes", u2c16Mod(func(b *pbbstream.Block) { b.Id = "a\x00b\n\x7f" }), "ok", "same", "same"},
		{"id non-ASCII valid UTF-8", u2c16Mod(func(b *pbbstream.Block) { b.Id = "héllo-Ω-日本語-😀" }), "ok", "same", "same"},
		{"id 1 MiB", u2c16Mod(func(b *pbbstream.Block) { b.Id = strings.Repeat("ab", 1<<19) }), "ok", "same", "same"},
		{"id invalid UTF-8", u2c16Mod(func(b *pbbstream.Block) { b.Id = "ab\xff\xfe" }), "err", "", ""},
		{"parent id invalid UTF-8", u2c16Mod(func(b *pbbstream.Block) { b.ParentId = "\xc3" }), "err", "", ""},
		// ---- payloads
		{"payload non-nil, empty Any", u2c16Mod(func(b *pbbstream.Block) { b.Payload = &anypb.Any{} }), "ok", "same", "same"},
		{"payload url set, value empty", u2c16Mod(func(b *pbbstream.Block) { b.Payload = &anypb.Any{TypeUrl: "t"} }), "ok", "same", "same"},
		{"payload url empty, value set", u2c16Mod(func(b *pbbstream.Block) { b.Payload = &anypb.Any{Value: []byte{0}} }), "ok", "same", "same"},
		{"payload url invalid UTF-8", u2c16Mod(func(b *pbbstream.Block) { b.Payload = &anypb.Any{TypeUrl: "t\xff"} }), "err", "", ""},
		{"payload 32 MiB", u2c16Mod(func(b *pbbstream.Block) { b.Payload = &anypb.Any{TypeUrl: "t", Value: big} }), "ok", "same", "same"},
		{"payload value that is itself a dbin file", u2c16Mod(func(b *pbbstream.Block) {
			f, _ := u2c16Write(u2c16Anchor())
			b.Payload = &anypb.Any{TypeUrl: "t", Value: f}
		}), "ok", "same", "same"},
		{"modern block that ALSO carries legacy fields", u2c16Mod(func(b *pbbstream.Block) {
			b.PayloadKind, b.PayloadVersion, b.PayloadBuffer, b.HeadNum = pbbstream.Protocol_ETH, -7, []byte{1}, 12
		}), "ok", "same", "same"},
		// ---- legacy blocks without payload: the reader "upgrades" them
		{"legacy ETH, parent_num recorded 7", legacy(2, 8, 7), "ok", "ALTERED[payload(", "same"},
		{"legacy ETH, parent_num recorded 3 (skipped heights)", legacy(2, 8, 3), "ok", "ALTERED[parent_num(3->7),payload(", "same"},
		{"legacy EOS, height 100, parent_num 0 (never filled)", legacy(1, 100, 0), "ok", "ALTERED[parent_num(0->99),payload(", "err"},
		{"legacy COSMOS", legacy(5, 8, 7), "ok", "ALTERED[payload(", "same"},
		{"legacy UNKNOWN kind 0", legacy(0, 8, 7), "ok", "ALTERED[payload(", "same"},
		{"legacy kind 99 (not in the enum)", legacy(99, 8, 7), "ok", "ALTERED[payload(", "same"},
		{"legacy NEAR", legacy(4, 8, 7), "ok", "err", "same"},
		{"legacy SOLANA (env not set)", legacy(3, 8, 7), "ok", "err", "same"},
		// ---- the one block whose encoding is empty
		{"all-default block (legacy, height 0, empty ids)", &pbbstream.Block{}, "ok", "err", "err"},
	}
}

func TestU2_C16_CodecPoints(t *testing.T) {
	for _, p := range u2c16Points() {
		anchor := u2c16Anchor()
		trailer := u2c16Mod(func(b *pbbstream.Block) { b.Number, b.Id, b.ParentNum = 9, "00000009aaaaaaaaaaaaaaaa", 8 })
		in := proto.Clone(p.blk).(*pbbstream.Block)
		file, errs := u2c16Write(anchor, p.blk, trailer)
		if !proto.Equal(in, p.blk) {
			t.Errorf("%s: the writer modified its argument", p.name)
		}
		if errs[0] != nil || errs[2] != nil {
			t.Fatalf("%s: anchor/trailer write failed: %v %v", p.name, errs[0], errs[2])
		}
		if p.wantWrite == "err" {
			if errs[1] == nil {
				t.Errorf("%s: expected a write error, got none", p.name)
				continue
			}
			// the failed Write left no byte behind: the file is anchor + trailer
			got, end := u2c16ReadAll(bytes.NewReader(file))
			ok := end == "eof" && len(got) == 2 && u2c16Diff(anchor, got[0]) == "same" && u2c16Diff(trailer, got[1]) == "same"
			t.Logf("%-60s write: ERROR %q; the file holds the 2 other blocks intact: %v", p.name, errs[1], ok)
			if !ok {
				t.Errorf("%s: a refused block damaged the file: %d blocks, end %s", p.name, len(got), end)
			}
			continue
		}
		if errs[1] != nil {
			t.Errorf("%s: unexpected write error %v", p.name, errs[1])
			continue
		}
		got, end := u2c16ReadAll(bytes.NewReader(file))
		if len(got) < 1 || u2c16Diff(anchor, got[0]) != "same" {
			t.Errorf("%s: anchor damaged", p.name)
			continue
		}
		var obs string
		switch {
		case len(got) == 1:
			obs = "err"
			if !strings.HasPrefix(end, "err: ") {
				t.Errorf("%s: read stopped after the anchor with %q", p.name, end)
			}
		default:
			obs = u2c16Diff(p.blk, got[1])
			if len(got) != 3 || end != "eof" || u2c16Diff(trailer, got[2]) != "same" {
				t.Errorf("%s: trailer not delivered intact: %d blocks, end %s", p.name, len(got), end)
			}
		}
		metas, mend := u2c16ReadMetas(file)
		mobs := "same"
		switch {
		case len(metas) == 1:
			mobs = "err"
		case len(metas) >= 2:
			m := metas[1]
			if m.Number != p.blk.Number || m.Id != p.blk.Id || m.ParentId != p.blk.ParentId || m.LibNum != p.blk.LibNum ||
				m.ParentNum != p.blk.ParentNum || !proto.Equal(m.Timestamp, p.blk.Timestamp) {
				mobs = fmt.Sprintf("ALTERED(%v)", m)
			}
		default:
			mobs = "anchor lost: " + mend
		}
		t.Logf("%-60s write ok (%d bytes); Read: %s [end %.70s]; ReadAsBlockMeta: %s [end %.90s]", p.name, len(file), obs, end, mobs, mend)
		if !strings.HasPrefix(obs, p.wantRead) {
			t.Errorf("%s: Read observation %q, recorded expectation %q", p.name, obs, p.wantRead)
		}
		if mobs != p.wantMeta {
			t.Errorf("%s: ReadAsBlockMeta observation %q, recorded expectation %q", p.name, mobs, p.wantMeta)
		}
	}
}

// seq_ok hypotheses on the FIRST block / on the sequence: empty sequence, first block legacy, empty type URL,
// type URL of 65535 / 65536 bytes.
func TestU2_C16_CodecFirstBlockAndEmptySequence(t *testing.T) {
	// empty sequence: no byte is written; the reader reports a header error, not "the same (empty) sequence then EOF"
	file, _ := u2c16Write()
	got, end := u2c16ReadAll(bytes.NewReader(file))
	t.Logf("empty sequence: file of %d bytes; read: %d blocks, end %q", len(file), len(got), end)
	if len(file) != 0 || len(got) != 0 || !strings.HasPrefix(end, "hdr: ") {
		t.Errorf("empty sequence: unexpected observation")
	}

	for _, n := range []int{1, 65535, 65536, 70000} {
		b := u2c16Anchor()
		b.Payload.TypeUrl = strings.Repeat("u", n)
		file, errs := u2c16Write(b)
		if n <= 65535 {
			got, end := u2c16ReadAll(bytes.NewReader(file))
			ok := errs[0] == nil && end == "eof" && len(got) == 1 && u2c16Diff(b, got[0]) == "same"
			t.Logf("first block type URL of %d bytes: write err=%v, round trip ok=%v", n, errs[0], ok)
			if !ok {
				t.Errorf("type URL %d: round trip failed (%s)", n, end)
			}
		} else {
			t.Logf("first block type URL of %d bytes: write err=%v, %d bytes written", n, errs[0], len(file))
			if errs[0] == nil || len(file) != 0 {
				t.Errorf("type URL %d: expected a clean refusal", n)
			}
		}
	}

	// first block legacy (fixed finding C16_fix_writer_nil_payload): error; a later modern block then starts the file
	leg := &pbbstream.Block{Number: 5, Id: "a", PayloadKind: pbbstream.Protocol_ETH, PayloadBuffer: []byte{1}}
	anchor := u2c16Anchor()
	file, errs := u2c16Write(leg, anchor)
	got, end = u2c16ReadAll(bytes.NewReader(file))
	t.Logf("[legacy, modern]: write errors %v / %v; read back %d block(s), end %q", errs[0], errs[1], len(got), end)
	if errs[0] == nil || errs[1] != nil || len(got) != 1 || end != "eof" || u2c16Diff(anchor, got[0]) != "same" {
		t.Errorf("[legacy, modern]: unexpected observation")
	}

	// a block refused by proto.Marshal as the FIRST block: the header is already on disk, the message is not
	bad := u2c16Anchor()
	bad.Id = "\xff"
	file, errs = u2c16Write(bad)
	got, end = u2c16ReadAll(bytes.NewReader(file))
	t.Logf("[first block with invalid UTF-8 id]: write err=%v; file of %d bytes (header only); read: %d blocks, end %q", errs[0], len(file), len(got), end)
	if errs[0] == nil || len(got) != 0 || end != "eof" {
		t.Errorf("[invalid first block]: unexpected observation")
	}
}

// the all-default block in the middle of a sequence: everything after it is lost (error), although every Write succeeded
func TestU2_C16_CodecEmptyEncodingLosesTail(t *testing.T) {
	a := u2c16Anchor()
	tr := u2c16Mod(func(b *pbbstream.Block) {})
	file, errs := u2c16Write(a, &pbbstream.Block{}, tr)
	got, end := u2c16ReadAll(bytes.NewReader(file))
	t.Logf("[modern, all-default, modern]: write errors %v; read back %d of 3 blocks, end %q", errs, len(got), end)
	if errs[0] != nil || errs[1] != nil || errs[2] != nil {
		t.Fatalf("writes failed")
	}
	if len(got) != 1 || !strings.HasPrefix(end, "err: failed reading next dbin message") {
		t.Errorf("observation changed: %d blocks, end %q", len(got), end)
	}
}

// io.Reader semantics other than bytes.Reader (trusted-base item "the file is a byte sequence that is delivered and then ends")
func TestU2_C16_CodecOtherReaders(t *testing.T) {
	a := u2c16Anchor()
	b := u2c16Mod(func(b *pbbstream.Block) {})
	file, _ := u2c16Write(a, b)
	for name, mk := range map[string]func() io.Reader{
		"OneByteReader": func() io.Reader { return iotest.OneByteReader(bytes.NewReader(file)) },
		"HalfReader":    func() io.Reader { return iotest.HalfReader(bytes.NewReader(file)) },
		"DataErrReader": func() io.Reader { return iotest.DataErrReader(bytes.NewReader(file)) },
	} {
		got, end := u2c16ReadAll(mk())
		t.Logf("%s: %d blocks, end %q", name, len(got), end)
		if len(got) != 2 || end != "eof" || u2c16Diff(a, got[0]) != "same" || u2c16Diff(b, got[1]) != "same" {
			t.Errorf("%s: not the same sequence", name)
		}
	}
	// a reader that fails with a non-EOF error at every offset: always a correct prefix and an error, never EOF, never altered
	for cut := 0; cut <= len(file); cut++ {
		r := io.MultiReader(bytes.NewReader(file[:cut]), iotest.ErrReader(fmt.Errorf("network down")))
		got, end := u2c16ReadAll(r)
		for i, g := range got {
			want := a
			if i == 1 {
				want = b
			}
			if i > 1 || u2c16Diff(want, g) != "same" {
				t.Errorf("cut %d with failing reader: block %d altered", cut, i)
			}
		}
		if end == "eof" {
			t.Errorf("cut %d with failing reader: clean EOF", cut)
		}
	}
	t.Logf("failing reader at each of the %d offsets: always a correct prefix followed by an error", len(file)+1)
}
