// package directory: . (repo root, package bstream); run: go test -vet=off -count=1 -run 'TestU2_C17_' ./
package bstream

// U2 hypothesis audit, property C17: replays of the model-level necessity witnesses
// (notes_proof_U2/audit_C17.v) on the real gates.  Every test PASSES and asserts the observed
// behaviour it logs (documentation of what the real code does at the point a hypothesis excludes).

import (
	"fmt"
	"strings"
	"testing"
	"time"

	pbbstream "github.com/streamingfast/bstream/pb/sf/bstream/v1"
	"google.golang.org/protobuf/types/known/timestamppb"
)

func u2c17Blk(num uint64) *pbbstream.Block {
	return &pbbstream.Block{Id: fmt.Sprintf("%da", num), Number: num, Timestamp: timestamppb.New(time.Now().Add(-time.Hour))}
}

type u2c17Rec struct{ got []uint64 }

func (r *u2c17Rec) ProcessBlock(blk *pbbstream.Block, obj interface{}) error {
	r.got = append(r.got, blk.Number)
	return nil
}

func u2c17SetFirst(t *testing.T, v uint64) {
	old := GetProtocolFirstStreamableBlock
	GetProtocolFirstStreamableBlock = v
	t.Cleanup(func() { GetProtocolFirstStreamableBlock = old })
}

// (d) holdoff_rule "maxhold <> 0": hold-off limit 0.  Property text: "a gate that has held back more
// blocks than its hold-off limit fails instead of waiting forever", quantifier "every hold-off limit".
// Observed: with MaxHoldOff = 0 the gate holds back 20000 blocks and never fails (0 = no limit).
func TestU2_C17_HoldOffZeroNeverFails(t *testing.T) {
	for _, kind := range []string{"num", "id"} {
		rec := &u2c17Rec{}
		var h Handler
		if kind == "num" {
			g := NewBlockNumGate(1_000_000, GateInclusive, rec)
			g.MaxHoldOff = 0
			h = g
		} else {
			g := NewBlockIDGate("absent", GateInclusive, rec)
			g.MaxHoldOff = 0
			h = g
		}
		errs := 0
		for i := uint64(1); i <= 20000; i++ {
			if err := h.ProcessBlock(u2c17Blk(i), nil); err != nil {
				errs++
			}
		}
		t.Logf("%s gate, MaxHoldOff=0, 20000 blocks below the target: errors=%d, forwarded=%d", kind, errs, len(rec.got))
		if errs != 0 || len(rec.got) != 0 {
			t.Fatalf("observation changed: errs=%d forwarded=%d", errs, len(rec.got))
		}
	}
}

// limit exactly reached / exceeded / negative, for reference (agrees with the property text)
func TestU2_C17_HoldOffBoundary(t *testing.T) {
	for _, tc := range []struct {
		limit    int
		firstErr int // 1-based index of the first failing call, 0 = none in 6 calls
	}{{1, 2}, {2, 3}, {5, 6}, {6, 0}, {-1, 1}, {-1 << 63, 1}, {1<<63 - 1, 0}} {
		g := NewBlockNumGate(100, GateInclusive, &u2c17Rec{})
		g.MaxHoldOff = tc.limit
		first := 0
		for i := 1; i <= 6; i++ {
			if err := g.ProcessBlock(u2c17Blk(uint64(i)), nil); err != nil && first == 0 {
				first = i
				if !strings.Contains(err.Error(), "maximum blocks held off busted") {
					t.Fatalf("unexpected error %v", err)
				}
			}
		}
		t.Logf("MaxHoldOff=%d: first failing call = %d (0 = none in 6 calls)", tc.limit, first)
		if first != tc.firstErr {
			t.Fatalf("limit %d: first error at call %d, expected %d", tc.limit, first, tc.firstErr)
		}
	}
}

// (a) c17_first conj 1, hypothesis "the trigger block is block `first`": first=2, target 0,
// exclusive, block 2 never arrives (stream 3,4) -> opens at 3 with its configured type, 3 is dropped.
func TestU2_C17_NumGate_FirstBlockAbsent(t *testing.T) {
	u2c17SetFirst(t, 2)
	rec := &u2c17Rec{}
	g := NewBlockNumGate(0, GateExclusive, rec)
	for _, n := range []uint64{3, 4} {
		if err := g.ProcessBlock(u2c17Blk(n), nil); err != nil {
			t.Fatal(err)
		}
	}
	t.Logf("first=2 target=0 exclusive, stream 3,4: forwarded %v", rec.got)
	if fmt.Sprint(rec.got) != "[4]" {
		t.Fatalf("observation changed: %v", rec.got)
	}
	// and with block 2 present the rule applies
	rec2 := &u2c17Rec{}
	g2 := NewBlockNumGate(0, GateExclusive, rec2)
	for _, n := range []uint64{2, 3} {
		_ = g2.ProcessBlock(u2c17Blk(n), nil)
	}
	if fmt.Sprint(rec2.got) != "[2 3]" {
		t.Fatalf("first-streamable rule: %v", rec2.got)
	}
}

// (g) the number gator has no first-streamable rule: first=2, NewExclusiveBlockNumberGator(0),
// blocks 2,3: Pass(2)=false (block 2, the first block of the chain, is dropped) where
// NewBlockNumGate(0, GateExclusive) forwards 2.  blockstream.WithNumGator(0, true) builds this gator.
func TestU2_C17_NumGator_NoFirstStreamableRule(t *testing.T) {
	u2c17SetFirst(t, 2)
	g := NewExclusiveBlockNumberGator(0)
	p2, p3 := g.Pass(u2c17Blk(2)), g.Pass(u2c17Blk(3))
	rec := &u2c17Rec{}
	gate := NewBlockNumGate(0, GateExclusive, rec)
	_ = gate.ProcessBlock(u2c17Blk(2), nil)
	_ = gate.ProcessBlock(u2c17Blk(3), nil)
	t.Logf("first=2: exclusive gator(0): Pass(2)=%v Pass(3)=%v; exclusive BlockNumGate(0) forwarded %v", p2, p3, rec.got)
	if p2 != false || p3 != true || fmt.Sprint(rec.got) != "[2 3]" {
		t.Fatalf("observation changed")
	}
}

// (h) id gate with an empty / all-zero target id opens at the CONSTANT block number 2, not at
// GetProtocolFirstStreamableBlock: first=1 -> block 1 is held back; first=3, stream 3.. -> never
// opens, hold-off error.
func TestU2_C17_IDGate_EmptyTargetConstant2(t *testing.T) {
	u2c17SetFirst(t, 1)
	rec := &u2c17Rec{}
	g := NewBlockIDGate("", GateExclusive, rec)
	for _, n := range []uint64{1, 2, 3} {
		if err := g.ProcessBlock(u2c17Blk(n), nil); err != nil {
			t.Fatal(err)
		}
	}
	t.Logf("first=1, BlockIDGate(\"\"), stream 1,2,3: forwarded %v", rec.got)
	if fmt.Sprint(rec.got) != "[2 3]" {
		t.Fatalf("observation changed: %v", rec.got)
	}

	GetProtocolFirstStreamableBlock = 3
	rec = &u2c17Rec{}
	g = NewBlockIDGate("0000000000000000000000000000000000000000000000000000000000000000", GateInclusive, rec)
	g.MaxHoldOff = 2
	var errs []int
	for i, n := range []uint64{3, 4, 5, 6} {
		if err := g.ProcessBlock(u2c17Blk(n), nil); err != nil {
			errs = append(errs, i)
		}
	}
	t.Logf("first=3, BlockIDGate(zero id), MaxHoldOff=2, stream 3..6: forwarded %v, failing calls %v", rec.got, errs)
	if len(rec.got) != 0 || fmt.Sprint(errs) != "[2 3]" {
		t.Fatalf("observation changed")
	}
}

// gate types outside {GateInclusive, GateExclusive}: everything that is not GateInclusive behaves
// (and prints) as exclusive.  Outside the property's quantifier ("inclusive and exclusive types").
func TestU2_C17_GateTypeOutOfRange(t *testing.T) {
	for _, gt := range []GateType{GateType(2), GateType(-1), GateType(1 << 40)} {
		rec := &u2c17Rec{}
		g := NewBlockNumGate(5, gt, rec)
		for _, n := range []uint64{4, 5, 6} {
			_ = g.ProcessBlock(u2c17Blk(n), nil)
		}
		t.Logf("GateType(%d) String=%q: forwarded %v", int(gt), gt.String(), rec.got)
		if fmt.Sprint(rec.got) != "[6]" || gt.String() != "exclusive" {
			t.Fatalf("observation changed")
		}
	}
}

// (f) MinimalBlockNumFilter on numbers that step back (undo / fork): not a suffix.
func TestU2_C17_MinFilter_NotASuffix(t *testing.T) {
	rec := &u2c17Rec{}
	f := NewMinimalBlockNumFilter(5, rec)
	for _, n := range []uint64{5, 4, 6} {
		_ = f.ProcessBlock(u2c17Blk(n), nil)
	}
	t.Logf("MinimalBlockNumFilter(5), stream 5,4,6: forwarded %v", rec.got)
	if fmt.Sprint(rec.got) != "[5 6]" {
		t.Fatalf("observation changed")
	}
}

func u2c17Panics(f func()) (msg string) {
	defer func() {
		if r := recover(); r != nil {
			msg = fmt.Sprint(r)
		}
	}()
	f()
	return ""
}

// real-time gate / tripper / time gator: what the model abstracts into one boolean per call.
// Assumption named in driver/props_C17.py: "block timestamps are valid protobuf timestamps".
func TestU2_C17_Realtime_ClockAssumptions(t *testing.T) {
	rec := &u2c17Rec{}
	// nil timestamp: RealtimeGate and RealtimeTripper panic (Block.Time checks validity), the time gator does not
	nilTs := &pbbstream.Block{Id: "7a", Number: 7}
	m1 := u2c17Panics(func() { _ = NewRealtimeGate(time.Minute, rec).ProcessBlock(nilTs, nil) })
	m2 := u2c17Panics(func() { _ = NewRealtimeTripper(time.Minute, func() {}, rec).ProcessBlock(nilTs, nil) })
	var pass bool
	m3 := u2c17Panics(func() { pass = NewTimeThresholdGator(time.Minute).Pass(nilTs) })
	t.Logf("nil timestamp: RealtimeGate panic=%q; RealtimeTripper panic=%q; TimeThresholdGator panic=%q Pass=%v", m1, m2, m3, pass)
	if !strings.Contains(m1, "invalid timestamp") || !strings.Contains(m2, "invalid timestamp") || m3 != "" || pass {
		t.Fatalf("observation changed")
	}
	// invalid nanos: same panic
	bad := &pbbstream.Block{Id: "7a", Number: 7, Timestamp: &timestamppb.Timestamp{Seconds: time.Now().Unix(), Nanos: -1}}
	m4 := u2c17Panics(func() { _ = NewRealtimeGate(time.Minute, rec).ProcessBlock(bad, nil) })
	t.Logf("timestamp with nanos=-1: RealtimeGate panic=%q", m4)
	if !strings.Contains(m4, "invalid timestamp") {
		t.Fatalf("observation changed")
	}
	// an OPEN gate does not look at the timestamp any more
	g := NewRealtimeGate(time.Minute, rec)
	live := &pbbstream.Block{Id: "8a", Number: 8, Timestamp: timestamppb.Now()}
	if err := g.ProcessBlock(live, nil); err != nil {
		t.Fatal(err)
	}
	m5 := u2c17Panics(func() { _ = g.ProcessBlock(nilTs, nil) })
	if m5 != "" || fmt.Sprint(rec.got) != "[8 7]" {
		t.Fatalf("open gate: panic=%q got=%v", m5, rec.got)
	}
	// block dated in the future: delta negative < tolerance, passes; zero / negative tolerance: only future blocks pass
	rec = &u2c17Rec{}
	future := &pbbstream.Block{Id: "9a", Number: 9, Timestamp: timestamppb.New(time.Now().Add(24 * time.Hour))}
	g0 := NewRealtimeGate(0, rec)
	_ = g0.ProcessBlock(&pbbstream.Block{Id: "8a", Number: 8, Timestamp: timestamppb.Now()}, nil)
	n0 := len(rec.got)
	_ = g0.ProcessBlock(future, nil)
	t.Logf("tolerance 0: block stamped now forwarded=%v, block stamped +24h forwarded=%v", n0 == 1, len(rec.got) == n0+1)
	if n0 != 0 || len(rec.got) != 1 {
		t.Fatalf("observation changed")
	}
	// no hold-off limit on the real-time gate: 20000 old blocks, never an error
	gr := NewRealtimeGate(time.Minute, rec)
	for i := uint64(0); i < 20000; i++ {
		if err := gr.ProcessBlock(u2c17Blk(i), nil); err != nil {
			t.Fatalf("unexpected error %v", err)
		}
	}
	t.Logf("RealtimeGate: 20000 one-hour-old blocks held back, no error (it has no hold-off limit)")
}
