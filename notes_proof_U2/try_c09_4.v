From Coq Require Import Sorted Permutation.
From BV Require Import Base.Prelude Model.Block Model.ForkDB Model.Forkable Model.ForkableLookups
  Model.Burst Model.Hub Spec.Universe Spec.C09_Spec.
Local Open Scope N_scope.
Fixpoint span_lt (n : N) (l : list seg) : list seg * list seg :=
  match l with [] => ([], []) | y :: t => if bnum (seg_blk y) <? n then let '(a, b) := span_lt n t in (y :: a, b) else ([], l) end.
Fixpoint evs_eqb (a b : list event) : bool :=
  match a, b with [], [] => true | x :: a', y :: b' => event_eqb x y && evs_eqb a' b' | _, _ => false end.
Definition from_num_ok_b (s : fstate) (n : N) : bool :=
  let cs := match last_sent s with Some hd => match complete_segment (db s) (bref hd) with Some (sg, true) => if has_lib (db s) then Some (hd, sg) else None | _ => None end | None => None end in
  match blocks_from_num s n with
  | BOk evs => match cs with
               | Some (hd, sg) => match snd (span_lt n sg) with
                                  | x :: suf => (bnum (seg_blk x) =? n) && forallb (fun y => n <? bnum (seg_blk y)) suf &&
                                                evs_eqb evs (map (snap_event s hd) (x :: suf)) && nodup_b (map bid (map eblk evs))
                                  | [] => false end
               | None => false end
  | BErr => match cs with Some (hd, sg) => forallb (fun x => negb (bnum (seg_blk x) =? n)) sg | None => true end
  | _ => false
  end.
Definition lowest_ok_b (h : hub) : bool :=
  if h_ready h then
    match last_sent (h_f h) with
    | Some hd => match complete_segment (db (h_f h)) (bref hd) with
                 | Some (x0 :: sg, true) => (hub_lowest h =? bnum (seg_blk x0)) &&
                     match blocks_from_num (h_f h) (hub_lowest h) with BOk evs => true | _ => false end &&
                     forallb (fun n => match blocks_from_num (h_f h) n with BErr => true | _ => false end) (map N.of_nat (seq 0 (N.to_nat (hub_lowest h))))
                 | _ => false   (* ready but no non-empty segment reaching the LIB: the text's "lowest is servable" fails *)
                 end
    | None => false end
  else true.
Definition chk (h : hub) := (wf_state_b (h_f h), h_ready h, forallb (from_num_ok_b (h_f h)) [0;1;2;3;4;5;6;7;8;9], lowest_ok_b h).
Fixpoint prefixes {A} (l : list A) : list (list A) := match l with [] => [[]] | x :: t => [] :: map (cons x) (prefixes t) end.
Definition chk_all first kept l := map (fun p => chk (hub_run first kept hub_init p)) (prefixes l).

(* wu_id *)
Definition d1 := mkBlock 11 1 10 0.
Definition d2 := mkBlock 12 2 11 1.
Definition d2' := mkBlock 12 3 11 1.
Definition d2'' := mkBlock 12 2 10 2.
Definition d3 := mkBlock 13 4 12 2.
Definition d4 := mkBlock 14 5 13 3.
Definition d5 := mkBlock 15 6 14 4.
Eval vm_compute in chk_all 1 1 [(d3, PBlocks [d1;d2;d2']); (d4, PNil); (d2', PNil); (d5, PNil)].
Eval vm_compute in chk_all 1 0 [(d3, PBlocks [d1;d2';d2]); (d4, PNil); (d2, PNil); (d5, PNil)].
Eval vm_compute in chk_all 1 0 [(d3, PBlocks [d1;d2'';d2]); (d4, PNil); (d2, PNil); (d5, PNil)].
(* wu_nonzero *)
Definition z1 := mkBlock 11 1 10 0.
Definition z2 := mkBlock 0 2 11 1.
Definition z3 := mkBlock 13 3 0 1.
Definition z4 := mkBlock 14 4 13 2.
Definition z5 := mkBlock 15 5 14 3.
Eval vm_compute in chk_all 1 0 [(z3, PBlocks [z1;z2]); (z4, PNil); (z5, PNil); (z2, PNil)].
Definition y0 := mkBlock 0 1 10 0.
Definition y2 := mkBlock 12 2 0 1.
Definition y3 := mkBlock 13 3 12 1.
Definition y4 := mkBlock 14 4 13 2.
Eval vm_compute in chk_all 1 0 [(y3, PBlocks [y0;y2]); (y4, PNil); (y0, PNil)].
Eval vm_compute in chk_all 0 0 [(mkBlock 0 0 9 0, PBlocks []); (mkBlock 11 1 0 0, PNil); (mkBlock 12 2 11 0, PNil); (mkBlock 13 3 12 1, PNil)].
(* LIB backwards from parent to child (second clause of lib_ok) *)
Definition g1 := mkBlock 11 1 10 0.
Definition g2 := mkBlock 12 2 11 1.
Definition g3 := mkBlock 13 3 12 2.
Definition g4 := mkBlock 14 4 13 3.
Definition g5 := mkBlock 15 5 14 1.
Definition g6 := mkBlock 16 6 15 4.
Definition g7 := mkBlock 17 7 16 2.
Eval vm_compute in (lib_ok_b LNone [g1;g2;g3;g4;g5;g6;g7], chk_all 1 0 [(g4, PBlocks [g1;g2;g3]); (g5, PNil); (g6,PNil); (g7, PNil)],
  chk_all 1 0 [(g5, PBlocks [g1;g2;g3;g4]); (g6,PNil); (g7, PNil)], chk_all 1 3 [(g7, PBlocks [g1;g2;g3;g4;g5;g6])]).
