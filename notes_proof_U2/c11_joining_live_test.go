// package directory: . ; run: go test -vet=off -count=1 -run 'TestU2_C11_Joining' ./
// NEEDS u2_c11_env_probes_test.go in the same package (helpers u2env*: store with fault injection, recorder).
//
// U2 audit of C11, hypothesis of [joining_result] "the live factory yields no source" (the C11 model and the
// C11 harness only know the joining source as `fileSrc.Run(); return fileSrc.Err()`).  Probes of the real
// JoiningSource over the real FileSource when a live source IS obtained: faults while joining / after joining.
// All tests PASS and assert the observed behaviour.
package bstream

import (
	"errors"
	"sync/atomic"
	"testing"
	"time"

	pbbstream "github.com/streamingfast/bstream/pb/sf/bstream/v1"
	"github.com/stretchr/testify/require"
)

// file source factory that remembers the source it made
type u2joinFileFactory struct {
	*FileSourceFactory
	made chan *FileSource
}

func (f *u2joinFileFactory) SourceFromBlockNum(start uint64, h Handler) Source {
	src := f.FileSourceFactory.SourceFromBlockNum(start, h).(*FileSource)
	f.made <- src
	return src
}

// after the join: the live source delivers, then the handler fails: Run returns with the handler's error,
// deliveries 1..6 (files) 7,8,9 (live) without gap, nothing afterwards.
func TestU2_C11_Joining_FaultAfterJoin(t *testing.T) {
	s := u2envNewStore()
	rec := u2envNewRec()
	rec.failAtCall = 8 // the 9th call (block 9) fails
	ff := &u2joinFileFactory{NewFileSourceFactory(s, s, zlog, FileSourceWithBundleSize(5), FileSourceWithStopBlock(12)), make(chan *FileSource, 1)}
	live := NewTestSourceFactory()
	live.LowestBlkNum = 7
	var liveSrc *TestSource
	liveMade := make(chan struct{})
	live.FromBlockNumFunc = func(num uint64, h Handler) Source {
		if num == 7 {
			liveSrc = NewTestSource(h)
			close(liveMade)
			return liveSrc
		}
		return nil
	}
	js := NewJoiningSource(ff, live, rec, 1, nil, false, zlog)
	done := make(chan struct{})
	go func() { js.Run(); atomic.StoreInt32(&rec.returned, 1); close(done) }()
	fileSrc := <-ff.made
	select {
	case <-liveMade:
	case <-time.After(2 * time.Second):
		t.Fatal("never joined")
	}
	<-liveSrc.running
	t.Logf("joined at 7: file source Err=%v delivered so far=%v", fileSrc.Err(), rec.seen())
	require.True(t, errors.Is(fileSrc.Err(), stopSourceOnJoin))
	require.Equal(t, []uint64{1, 2, 3, 4, 5, 6}, rec.seen())
	for n := uint64(7); n <= 9; n++ {
		err := liveSrc.Push(TestBlockWithNumbers(u2envID(n), u2envID(n-1), n, n-1), nil)
		if n == 9 {
			require.Equal(t, u2envErrHandler, err)
		} else {
			require.NoError(t, err)
		}
	}
	select {
	case <-done:
	case <-time.After(2 * time.Second):
		t.Fatal("JoiningSource.Run did not return after the handler error on the live side")
	}
	t.Logf("handler error at block 9 (live side): Run returned, Err=%v delivered=%v lateCalls=%d", js.Err(), rec.seen(), rec.lateCalls)
	require.True(t, errors.Is(js.Err(), u2envErrHandler))
	require.Equal(t, []uint64{1, 2, 3, 4, 5, 6, 7, 8, 9}, rec.seen())
	require.Equal(t, int32(0), rec.lateCalls)
}

// a storage fault of the file source (OpenObject of bundle 10, which the launch reader opens ahead) is
// recorded by the file source WHILE its handler is obtaining the live source at block 7.
// Observed: the handler returns stopSourceOnJoin, JoiningSource.run sees liveSource != nil and goes on with the
// live source: the storage fault is swallowed (FileSource.Err() = open fault, JoiningSource keeps running,
// no error).  Literal C11 ("for any storage fault ... the source terminates ... error identifies the cause")
// does not hold; the bundle that failed is no longer needed after the join, so this is benign.
func TestU2_C11_Joining_FileFaultDuringJoinIsSwallowed(t *testing.T) {
	s := u2envNewStore()
	gate := make(chan struct{})
	s.openHang[base(10)] = gate
	s.openFail[base(10)] = true
	rec := u2envNewRec()
	ff := &u2joinFileFactory{NewFileSourceFactory(s, s, zlog, FileSourceWithBundleSize(5), FileSourceWithStopBlock(12)), make(chan *FileSource, 1)}
	live := NewTestSourceFactory()
	live.LowestBlkNum = 7
	var liveSrc *TestSource
	var fileSrc *FileSource
	liveMade := make(chan struct{})
	live.FromBlockNumFunc = func(num uint64, h Handler) Source {
		if num == 7 {
			close(gate) // the open fault of bundle 10 fires now
			select {
			case <-fileSrc.Terminating():
			case <-time.After(2 * time.Second):
			}
			liveSrc = NewTestSource(h)
			close(liveMade)
			return liveSrc
		}
		return nil
	}
	js := NewJoiningSource(ff, live, rec, 1, nil, false, zlog)
	done := make(chan struct{})
	go func() { js.Run(); close(done) }()
	fileSrc = <-ff.made
	select {
	case <-liveMade:
	case <-time.After(3 * time.Second):
		t.Fatal("never joined")
	}
	<-liveSrc.running
	require.NoError(t, liveSrc.Push(TestBlockWithNumbers(u2envID(7), u2envID(6), 7, 6), nil))
	returned := false
	select {
	case <-done:
		returned = true
	case <-time.After(200 * time.Millisecond):
	}
	t.Logf("open fault of bundle 10 recorded during the join: FileSource.Err()=%v; JoiningSource: Run returned=%v IsTerminating=%v Err=%v delivered=%v",
		fileSrc.Err(), returned, js.IsTerminating(), js.Err(), rec.seen())
	require.True(t, errors.Is(fileSrc.Err(), u2envErrOpen))
	require.False(t, returned)
	require.False(t, js.IsTerminating())
	require.Equal(t, []uint64{1, 2, 3, 4, 5, 6, 7}, rec.seen())
	js.Shutdown(nil)
	<-done
}

// the same storage fault fires BEFORE the join block is reached: the joining source ends with the fault.
func TestU2_C11_Joining_FileFaultBeforeJoin(t *testing.T) {
	s := u2envNewStore()
	gate := make(chan struct{})
	s.openHang[base(5)] = gate
	s.openFail[base(5)] = true
	rec := u2envNewRec()
	rec.delay = func(call int) time.Duration {
		if call == 1 {
			close(gate)
			time.Sleep(20 * time.Millisecond)
		}
		return 0
	}
	ff := &u2joinFileFactory{NewFileSourceFactory(s, s, zlog, FileSourceWithBundleSize(5), FileSourceWithStopBlock(12)), make(chan *FileSource, 1)}
	live := NewTestSourceFactory()
	live.LowestBlkNum = 7
	joined := int32(0)
	live.FromBlockNumFunc = func(num uint64, h Handler) Source {
		if num >= 7 {
			atomic.StoreInt32(&joined, 1)
			return NewTestSource(h)
		}
		return nil
	}
	js := NewJoiningSource(ff, live, rec, 1, nil, false, zlog)
	require.True(t, u2envRun(js, rec, 3*time.Second))
	t.Logf("open fault of bundle 5 while block 2 is handled: Err=%v delivered=%v joined=%v", js.Err(), rec.seen(), joined)
	require.True(t, errors.Is(js.Err(), u2envErrOpen))
	require.Equal(t, []uint64{1, 2}, rec.seen())
	require.Equal(t, int32(0), joined)
	_ = pbbstream.Block{}
}
