// package directory: . ; run: go test -vet=off -count=1 -run 'TestU2_C12_(File|Joining|Compose)' ./   (needs u2_c12_helpers_test.go, u2_c12_mux_test.go)
//
// C12 audit, hypothesis "inner sources obey the Source contract" probed with REAL sources as inner sources, and the
// instants "before Run" / "store call in progress" for FileSource and JoiningSource.
// (Handler / preprocessor / Read that never return on a FileSource: see u2_c11_env_probes_test.go of the C11 audit.)
package bstream

import (
	"context"
	"fmt"
	"io"
	"math/rand"
	"sync"
	"sync/atomic"
	"testing"
	"time"

	pbbstream "github.com/streamingfast/bstream/pb/sf/bstream/v1"
	"github.com/streamingfast/dstore"
)

func u2c12ID(n uint64) string { return fmt.Sprintf("%08xa", n) }

// bundles of 10 blocks: 10..19, 20..29, ... ; nb bundles
func u2c12Store(nb int) *dstore.MockStore {
	st := dstore.NewMockStore(nil)
	for b := 1; b <= nb; b++ {
		var blks []*pbbstream.Block
		for i := 0; i < 10; i++ {
			n := uint64(b*10 + i)
			blks = append(blks, TestBlockWithNumbers(u2c12ID(n), u2c12ID(n-1), n, n-1))
		}
		st.SetFile(fmt.Sprintf("%010d", b*10), testBlocks(blks...))
	}
	return st
}

func TestU2_C12_File_ShutdownBeforeRun(t *testing.T) {
	calls := int32(0)
	for i := 0; i < 300; i++ {
		fs := NewFileSource(u2c12Store(3), 10, HandlerFunc(func(*pbbstream.Block, interface{}) error { atomic.AddInt32(&calls, 1); return nil }), zlog,
			FileSourceWithBundleSize(10), FileSourceWithStopBlock(39))
		fs.Shutdown(nil)
		done, _ := u2c12RunIn(fs.Run)
		if !u2c12Wait(t, "Run returns", done, 2*time.Second) {
			t.Fatal("Run did not return")
		}
		if !fs.IsTerminated() {
			t.Fatal("not terminated")
		}
	}
	time.Sleep(20 * time.Millisecond)
	t.Logf("OBSERVED: 300 x Shutdown before Run on a FileSource with 3 readable bundles: Run returned every time, handler calls=%d", atomic.LoadInt32(&calls))
	if calls != 0 {
		t.Fatal("handler called")
	}
}

// store calls that never return (the model assumes OpenObject / FileExists return) + an outside Shutdown
func TestU2_C12_File_StoreCallHangs_OutsideShutdown(t *testing.T) {
	for _, which := range []string{"OpenObject", "FileExists"} {
		st := u2c12Store(2)
		never := make(chan struct{})
		entered := make(chan struct{}, 10)
		if which == "OpenObject" {
			st.OpenObjectFunc = func(ctx context.Context, name string) (io.ReadCloser, error) {
				entered <- struct{}{}
				<-never
				return nil, fmt.Errorf("released")
			}
		} else {
			st.FileExistsFunc = func(ctx context.Context, base string) (bool, error) {
				entered <- struct{}{}
				<-never
				return false, nil
			}
		}
		calls := int32(0)
		fs := NewFileSource(st, 10, HandlerFunc(func(*pbbstream.Block, interface{}) error { atomic.AddInt32(&calls, 1); return nil }), zlog, FileSourceWithBundleSize(10))
		done, _ := u2c12RunIn(fs.Run)
		<-entered
		time.Sleep(20 * time.Millisecond)
		fs.Shutdown(nil)
		ok := u2c12Wait(t, "Run returns", done, 2*time.Second)
		t.Logf("OBSERVED: %s never returns, outside Shutdown: Run returned=%v Terminated=%v handler calls=%d (the stuck goroutine leaks)", which, ok, fs.IsTerminated(), atomic.LoadInt32(&calls))
		if !ok {
			t.Fatalf("Run hangs when %s hangs", which)
		}
	}
}

// ---------------------------------------------------------------- joining

type u2c12Fact struct {
	mu    sync.Mutex
	made  []Source
	mk    func(start uint64, h Handler) Source
	calls int
}

func (f *u2c12Fact) SourceFromBlockNum(n uint64, h Handler) Source {
	f.mu.Lock()
	defer f.mu.Unlock()
	f.calls++
	s := f.mk(n, h)
	if s != nil {
		f.made = append(f.made, s)
	}
	return s
}
func (f *u2c12Fact) SourceFromCursor(*Cursor, Handler) Source             { return nil }
func (f *u2c12Fact) SourceThroughCursor(uint64, *Cursor, Handler) Source { return nil }

func TestU2_C12_Joining_ShutdownBeforeRun(t *testing.T) {
	for _, liveFirst := range []bool{true, false} {
		calls := int32(0)
		h := HandlerFunc(func(*pbbstream.Block, interface{}) error { atomic.AddInt32(&calls, 1); return nil })
		var liveSrc *u2c12Src
		live := &u2c12Fact{mk: func(n uint64, h Handler) Source {
			if !liveFirst {
				return nil
			}
			liveSrc = newU2C12Src("live", h)
			return liveSrc
		}}
		var fileSrc *FileSource
		file := &u2c12Fact{mk: func(n uint64, h Handler) Source {
			fileSrc = NewFileSource(u2c12Store(2), n, h, zlog, FileSourceWithBundleSize(10))
			return fileSrc
		}}
		js := NewJoiningSource(file, live, h, 10, nil, false, zlog)
		js.Shutdown(nil)
		done, _ := u2c12RunIn(js.Run)
		if !u2c12Wait(t, "Run returns", done, 2*time.Second) {
			t.Fatal("Run did not return")
		}
		time.Sleep(30 * time.Millisecond)
		if liveFirst {
			started := false
			select {
			case <-liveSrc.started:
				started = true
			default:
			}
			t.Logf("OBSERVED (live source available): Run returned, Terminated=%v; live factory calls=%d, file factory calls=%d; live source started=%v terminating=%v; handler calls=%d",
				js.IsTerminated(), live.calls, file.calls, started, liveSrc.IsTerminating(), calls)
			if started || !liveSrc.IsTerminating() {
				t.Fatal("live source run or not shut down")
			}
		} else {
			t.Logf("OBSERVED (file source): Run returned, Terminated=%v; live factory calls=%d, file factory calls=%d; file source terminating=%v; handler calls=%d",
				js.IsTerminated(), live.calls, file.calls, fileSrc.IsTerminating(), calls)
			if !fileSrc.IsTerminating() {
				t.Fatal("file source not shut down")
			}
		}
		if calls != 0 || !js.IsTerminated() {
			t.Fatal("handler called / not terminated")
		}
	}
}

// Shutdown during the file-to-live join, real FileSource: Shutdown completes inside the live factory called from
// fileSourceHandler (block 25), and (2nd variant) while the user handler is blocked on a file block
func TestU2_C12_Joining_RealFileSource_ShutdownDuringJoinAndDuringHandler(t *testing.T) {
	for _, variant := range []string{"in-live-factory", "handler-blocked"} {
		log := &u2c12Log{}
		var js *JoiningSource
		var runReturned int32
		release := make(chan struct{})
		entered := make(chan struct{})
		h := HandlerFunc(func(blk *pbbstream.Block, _ interface{}) error {
			log.add("h %d runReturned=%v", blk.Number, atomic.LoadInt32(&runReturned) == 1)
			if variant == "handler-blocked" && blk.Number == 13 {
				close(entered)
				<-release
			}
			return nil
		})
		var liveSrc *u2c12Src
		live := &u2c12Fact{mk: func(n uint64, h Handler) Source {
			if n < 25 {
				return nil
			}
			if variant == "in-live-factory" {
				js.Shutdown(nil) // complete Shutdown while the live source is being obtained
			}
			liveSrc = newU2C12Src("live", h)
			return liveSrc
		}}
		var fileSrc *FileSource
		file := &u2c12Fact{mk: func(n uint64, h Handler) Source {
			fileSrc = NewFileSource(u2c12Store(3), n, h, zlog, FileSourceWithBundleSize(10))
			return fileSrc
		}}
		js = NewJoiningSource(file, live, h, 10, nil, false, zlog)
		done, _ := u2c12RunIn(func() { js.Run(); atomic.StoreInt32(&runReturned, 1) })
		if variant == "handler-blocked" {
			u2c12Wait(t, "handler entered", entered, 2*time.Second)
			js.Shutdown(nil)
			time.Sleep(50 * time.Millisecond)
			select {
			case <-done:
				t.Fatal("Run returned while the handler is blocked")
			default:
			}
			t.Logf("OBSERVED (%s): handler blocked on block 13: Terminated=%v, file source terminating=%v, Run not returned", variant, js.IsTerminated(), fileSrc.IsTerminating())
			close(release)
		}
		if !u2c12Wait(t, "Run returns", done, 2*time.Second) {
			t.Fatalf("%s: Run did not return", variant)
		}
		time.Sleep(50 * time.Millisecond)
		ev := log.snapshot()
		late := 0
		for _, e := range ev {
			if len(e) > 5 && e[len(e)-4:] == "true" {
				late++
			}
		}
		msg := fmt.Sprintf("OBSERVED (%s): Run returned, Terminated=%v, Err=%v, handler calls=%d (last: %q), calls after Run returned=%d, file terminating=%v",
			variant, js.IsTerminated(), js.Err(), len(ev), ev[len(ev)-1], late, fileSrc.IsTerminating())
		if liveSrc != nil {
			started := false
			select {
			case <-liveSrc.started:
				started = true
			default:
			}
			msg += fmt.Sprintf(", live made: started=%v terminating=%v", started, liveSrc.IsTerminating())
			if started || !liveSrc.IsTerminating() {
				t.Fatal(msg)
			}
		}
		t.Log(msg)
		if late != 0 || !js.IsTerminated() {
			t.Fatal("late call / not terminated")
		}
	}
}

// ---------------------------------------------------------------- compositions with real inner sources

// EternalSource over real FileSources (factory: FileSource from the block after the last accepted one), a handler that
// fails now and then, Shutdown at a random instant.  Checks: Run returns, no handler call begins after Run returned, every
// restart is made from the last accepted block.
func TestU2_C12_Compose_EternalOverFileSource_RandomShutdown(t *testing.T) {
	rnd := rand.New(rand.NewSource(12))
	restarts, hangs, late, badRestart := 0, 0, 0, 0
	for iter := 0; iter < 60; iter++ {
		var runReturned int32
		var lateCalls int32
		var mu sync.Mutex
		lastAccepted := ""
		var refs []string
		var expected []string
		failEvery := 3 + rnd.Intn(5)
		n := 0
		h := HandlerFunc(func(blk *pbbstream.Block, _ interface{}) error {
			if atomic.LoadInt32(&runReturned) == 1 {
				atomic.AddInt32(&lateCalls, 1)
			}
			mu.Lock()
			defer mu.Unlock()
			n++
			if n%failEvery == 0 {
				return errU2C12Handler
			}
			lastAccepted = blk.Id
			return nil
		})
		es := NewEternalSource(func(ref BlockRef, h Handler) Source {
			mu.Lock()
			refs = append(refs, ref.ID())
			expected = append(expected, lastAccepted)
			mu.Unlock()
			start := uint64(10)
			if ref.ID() != "" {
				start = ref.Num() + 1
			}
			return NewFileSource(u2c12Store(4), start, h, zlog, FileSourceWithBundleSize(10), FileSourceWithRetryDelay(time.Millisecond))
		}, h)
		es.restartDelay = time.Duration(rnd.Intn(300)) * time.Microsecond
		done, _ := u2c12RunIn(func() { es.Run(); atomic.StoreInt32(&runReturned, 1) })
		time.Sleep(time.Duration(rnd.Intn(4000)) * time.Microsecond)
		es.Shutdown(nil)
		if !u2c12Wait(t, "Run returns", done, 3*time.Second) {
			hangs++
			continue
		}
		time.Sleep(2 * time.Millisecond)
		late += int(atomic.LoadInt32(&lateCalls))
		mu.Lock()
		restarts += len(refs)
		for i := range refs {
			if refs[i] != expected[i] {
				badRestart++
			}
		}
		mu.Unlock()
	}
	t.Logf("OBSERVED: 60 runs, %d factory calls in total, hangs=%d, handler calls after Run returned=%d, restarts not from the last accepted block=%d", restarts, hangs, late, badRestart)
	if hangs+late+badRestart != 0 {
		t.Fatal("violation")
	}
}

// MultiplexedSource over contract-obeying sources that deliver freely (no blocking handler, no schedule control):
// how often does a handler call begin after Terminated / after Run returned when Shutdown comes at a random instant?
func TestU2_C12_Compose_MuxFreeRunning_LateCallFrequency(t *testing.T) {
	old := sourceReconnectDelay
	sourceReconnectDelay = 200 * time.Microsecond
	defer func() { sourceReconnectDelay = old }()
	rnd := rand.New(rand.NewSource(7))
	runs, afterTerminated, afterRunReturned, overlaps := 300, 0, 0, 0
	for iter := 0; iter < runs; iter++ {
		var mux *MultiplexedSource
		var runReturned, active, overlap, lateT, lateR int32
		h := HandlerFunc(func(blk *pbbstream.Block, _ interface{}) error {
			if atomic.AddInt32(&active, 1) > 1 {
				atomic.StoreInt32(&overlap, 1)
			}
			if mux.IsTerminated() {
				atomic.AddInt32(&lateT, 1)
				if atomic.LoadInt32(&runReturned) == 1 {
					atomic.AddInt32(&lateR, 1)
				}
			}
			for i := 0; i < 2000; i++ { // ~ a few microseconds of work
				_ = i * i
			}
			atomic.AddInt32(&active, -1)
			return nil
		})
		env := &u2c12MuxEnv{}
		mux = NewMultiplexedSource([]SourceFactory{env.factory("a"), env.factory("b"), env.factory("c")}, h)
		done, _ := u2c12RunIn(func() { mux.Run(); atomic.StoreInt32(&runReturned, 1) })
		stop := make(chan struct{})
		var wg sync.WaitGroup
		for k := 0; k < 3; k++ {
			s := env.get(k)
			wg.Add(1)
			go func(s *u2c12Src) { // feeder
				defer wg.Done()
				for n := uint64(1); ; n++ {
					select {
					case s.blocks <- u2c12Blk(n, s.id):
					case <-s.returned:
						return
					case <-stop:
						return
					}
				}
			}(s)
		}
		time.Sleep(time.Duration(200+rnd.Intn(1500)) * time.Microsecond)
		mux.Shutdown(nil)
		if !u2c12Wait(t, "Run returns", done, 3*time.Second) {
			t.Fatal("Run did not return")
		}
		for k := 0; k < 3; k++ {
			u2c12Wait(t, "inner Run returns", env.get(k).returned, 3*time.Second)
		}
		close(stop)
		wg.Wait()
		if lateT > 0 {
			afterTerminated++
		}
		if lateR > 0 {
			afterRunReturned++
		}
		if overlap == 1 {
			overlaps++
		}
	}
	t.Logf("OBSERVED: %d free-running runs (3 inner sources): runs with a handler call beginning after Terminated: %d, after Terminated AND Run returned: %d, runs with overlapping handler calls: %d",
		runs, afterTerminated, afterRunReturned, overlaps)
	if overlaps != 0 {
		t.Fatal("overlapping handler calls")
	}
}
