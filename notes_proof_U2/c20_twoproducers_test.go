// package directory: blockstream; run: go test -vet=off -count=1 [-race] -run 'TestU2_C20_TwoProducers' ./blockstream/
//
// U2 hypothesis audit, C20, hypothesis "single producer" (Coq witnesses c20_single_producer_needed,
// c20_single_producer_needed_buffer in notes_proof_U2/audit_C20.v).
//
// Two goroutines call PushBlock concurrently: they share the READ lock only, so
// subscription.Push's "len == cap ? ... ; ch <- blk" and the server's "Len() > size ; Tail() ;
// Delete()" are no longer atomic.  The tests PASS and document what the real code does; each
// asserts that the misbehaviour named in its comment was observed at least once.
package blockstream

import (
	"fmt"
	"io"
	"strings"
	"sync"
	"sync/atomic"
	"testing"
	"time"

	pbbstream "github.com/streamingfast/bstream/pb/sf/bstream/v1"
	"go.uber.org/zap"
	"go.uber.org/zap/zapcore"
	"google.golang.org/protobuf/types/known/timestamppb"
)

var u2c20Time = timestamppb.New(time.Unix(1600000000, 0))

func u2c20Block(i int) *pbbstream.Block {
	return &pbbstream.Block{Id: fmt.Sprintf("%08x", i), Number: uint64(i), Timestamp: u2c20Time}
}

// outcome of one guarded PushBlock call
func u2c20Push(s *Server, blk *pbbstream.Block) (panicMsg string) {
	defer func() {
		if p := recover(); p != nil {
			panicMsg = fmt.Sprint(p)
		}
	}()
	_ = s.PushBlock(blk)
	return ""
}

// pauseLogger returns a zap logger (Debug enabled, output discarded) whose hook parks the FIRST
// goroutine that logs `msg` until release is closed, and tells the test through `parked`.
// subscription.Push logs "subscription writing accepted block" between its capacity test and its
// channel send, so this freezes producer A exactly between the two halves of Push, using nothing
// but the library's own logger injection (subscription.SetLogger / ServerOptionWithLogger).
func u2c20PauseLogger(msg string, parked chan<- struct{}, release <-chan struct{}) *zap.Logger {
	var first int32
	core := zapcore.NewCore(zapcore.NewJSONEncoder(zap.NewProductionEncoderConfig()), zapcore.AddSync(io.Discard), zap.DebugLevel)
	return zap.New(core, zap.Hooks(func(e zapcore.Entry) error {
		if e.Message == msg && atomic.CompareAndSwapInt32(&first, 0, 1) {
			close(parked)
			<-release
		}
		return nil
	}))
}

const u2c20SendMsg = "subscription writing accepted block"

// Deterministic replay of c20_single_producer_needed, clause "blocked".
// A subscriber created by the REAL subscribe (capacity 200, burst 0) that never reads; 199 blocks
// pushed.  Producer A enters PushBlock(#200): test says room (199 < 200), A is parked before the
// send.  Producer B calls PushBlock(#201): room as well, sends, returns (200/200).  A resumes: its
// send BLOCKS for ever inside PushBlock, holding the read lock.  Then subscribe() blocks for ever
// (write lock), and so does B's next PushBlock (a pending writer stops new readers).
func TestU2_C20_TwoProducers_ProducerBlocked(t *testing.T) {
	s := NewUnmanagedServer(ServerOptionWithBuffer(3))
	sub := s.subscribe(0, "slow") // never read
	if sub == nil || cap(sub.incomingBlock) != 200 {
		t.Fatalf("unexpected subscription %v", sub)
	}
	for i := 1; i <= 199; i++ {
		if err := s.PushBlock(u2c20Block(i)); err != nil {
			t.Fatal(err)
		}
	}
	parked, release := make(chan struct{}), make(chan struct{})
	sub.SetLogger(u2c20PauseLogger(u2c20SendMsg, parked, release))

	aDone := make(chan string, 1)
	go func() { aDone <- u2c20Push(s, u2c20Block(200)) }()
	<-parked // A is between the test and the send

	bDone := make(chan string, 1)
	go func() { bDone <- u2c20Push(s, u2c20Block(201)) }()
	select {
	case msg := <-bDone:
		t.Logf("producer B: PushBlock(201) returned (panic=%q); channel %d/%d closed=%v", msg, len(sub.incomingBlock), cap(sub.incomingBlock), sub.closed)
	case <-time.After(2 * time.Second):
		t.Fatalf("producer B did not return")
	}
	close(release)
	select {
	case msg := <-aDone:
		t.Fatalf("producer A returned (panic=%q): expected it to block", msg)
	case <-time.After(500 * time.Millisecond):
		t.Logf("producer A: PushBlock(200) still has not returned after 500ms: blocked on the channel send (channel %d/%d, nobody reads), read lock held", len(sub.incomingBlock), cap(sub.incomingBlock))
	}
	// consequences
	subDone := make(chan struct{})
	go func() { s.subscribe(0, "late"); close(subDone) }()
	select {
	case <-subDone:
		t.Errorf("a later subscribe() got through")
	case <-time.After(300 * time.Millisecond):
		t.Logf("a later subscribe() is blocked as well (waits for the write lock)")
	}
	b2 := make(chan string, 1)
	go func() { b2 <- u2c20Push(s, u2c20Block(202)) }()
	select {
	case msg := <-b2:
		t.Errorf("producer B's next PushBlock returned (panic=%q)", msg)
	case <-time.After(300 * time.Millisecond):
		t.Logf("producer B's next PushBlock(202) is blocked too (RLock behind the pending writer): the whole server is wedged; Ready()=%v still answers", s.Ready())
	}
	// un-wedge for cleanliness: one receive lets A's send complete
	<-sub.incomingBlock
	select {
	case msg := <-aDone:
		t.Logf("after ONE receive by the consumer producer A returns (panic=%q): the producer was waiting for the consumer", msg)
	case <-time.After(2 * time.Second):
		t.Errorf("producer A still blocked after a receive")
	}
}

// Deterministic replay of c20_single_producer_needed, clause "panic".
// Same start; while A is parked between test and send, B pushes TWICE: #201 fills the channel,
// #202 finds it full and closes it.  A resumes: send on closed channel -> PushBlock PANICS.
func TestU2_C20_TwoProducers_SendOnClosedChannel(t *testing.T) {
	s := NewUnmanagedServer(ServerOptionWithBuffer(3))
	sub := s.subscribe(0, "slow")
	for i := 1; i <= 199; i++ {
		if err := s.PushBlock(u2c20Block(i)); err != nil {
			t.Fatal(err)
		}
	}
	parked, release := make(chan struct{}), make(chan struct{})
	sub.SetLogger(u2c20PauseLogger(u2c20SendMsg, parked, release))
	aDone := make(chan string, 1)
	go func() { aDone <- u2c20Push(s, u2c20Block(200)) }()
	<-parked
	for _, i := range []int{201, 202} {
		if msg := u2c20Push(s, u2c20Block(i)); msg != "" {
			t.Fatalf("producer B panicked: %s", msg)
		}
	}
	t.Logf("producer B pushed 201, 202: channel %d/%d closed=%v", len(sub.incomingBlock), cap(sub.incomingBlock), sub.closed)
	close(release)
	select {
	case msg := <-aDone:
		t.Logf("producer A: PushBlock(200) PANICKED: %q", msg)
		if !strings.Contains(msg, "send on closed channel") {
			t.Errorf("expected a send-on-closed-channel panic, got %q", msg)
		}
	case <-time.After(2 * time.Second):
		t.Fatalf("producer A did not return")
	}
}

// The same two things without any instrumentation, as a stress run (scheduling dependent: logged,
// not asserted).  Channel at 199/200, two producers released together, one block each.
func TestU2_C20_TwoProducers_Stress(t *testing.T) {
	trials := 4000
	var blocked, panicked, clean int
	var panicText string
	for trial := 0; trial < trials && blocked < 20; trial++ {
		s := NewUnmanagedServer()
		sub := s.subscribe(0, "slow")
		for i := 1; i <= 199; i++ {
			s.PushBlock(u2c20Block(i))
		}
		_ = sub
		var gate int32
		res := make(chan string, 2)
		for p := 0; p < 2; p++ {
			go func(p int) {
				atomic.AddInt32(&gate, 1)
				for atomic.LoadInt32(&gate) < 2 {
				}
				res <- u2c20Push(s, u2c20Block(1000+p))
			}(p)
		}
		got := 0
		timeout := time.After(100 * time.Millisecond)
	wait:
		for got < 2 {
			select {
			case msg := <-res:
				got++
				if msg != "" {
					panicked++
					panicText = msg
				}
			case <-timeout:
				blocked++
				break wait
			}
		}
		if got == 2 {
			clean++
		}
	}
	t.Logf("stress, no instrumentation: trials with both PushBlock returned=%d, trials with a producer blocked for ever=%d, panics=%d (%q)", clean, blocked, panicked, panicText)
}

// Buffer side: with two producers the window can stay ABOVE its size for good (both read the same
// Tail(): one eviction for two appends) -- or, more rarely, below it.
func TestU2_C20_TwoProducers_Window(t *testing.T) {
	const size = 2
	var over, under, exact int
	var panicked int32
	var example []string
	for trial := 0; trial < 200; trial++ {
		s := NewUnmanagedServer(ServerOptionWithBuffer(size))
		var wg sync.WaitGroup
		start := make(chan struct{})
		for p := 0; p < 2; p++ {
			wg.Add(1)
			go func(p int) {
				defer wg.Done()
				<-start
				for k := 0; k < 2000; k++ {
					if msg := u2c20Push(s, u2c20Block(1+p*100000+k)); msg != "" {
						atomic.AddInt32(&panicked, 1)
						return
					}
				}
			}(p)
		}
		close(start)
		wg.Wait()
		n := s.buffer.Len()
		switch {
		case n > size:
			over++
			if example == nil {
				for _, b := range s.buffer.AllBlocks() {
					example = append(example, b.Id)
				}
			}
		case n < size:
			under++
		default:
			exact++
		}
	}
	t.Logf("two producers x 2000 distinct blocks, buffer size %d, 200 trials: window larger than size at the end=%d (e.g. %v), smaller=%d, exact=%d, panics=%d",
		size, over, example, under, exact, panicked)
	if over+under == 0 {
		t.Logf("no window-size anomaly observed in this run (scheduling dependent)")
	}
}
