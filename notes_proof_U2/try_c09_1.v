From Coq Require Import Sorted Permutation.
From BV Require Import Base.Prelude Model.Block Model.ForkDB Model.Forkable Model.ForkableLookups
  Model.Burst Model.Hub Spec.Universe Spec.C09_Spec.
Local Open Scope N_scope.

Definition sh (h : hub) := (h_ready h, hub_lowest h, hub_head h, map (fun e => (bid (eb e), bnum (eb e))) (store (db (h_f h))), libref (db (h_f h)),
  wf_state_b (h_f h)).
Definition ans (h : hub) (n : N) := match blocks_from_num (h_f h) n with BOk evs => Some (map (fun e => (bid (eblk e), estep e, rn (elib e))) evs) | BErr => None | _ => Some [] end.

(* linear chain 1..6, LIB two behind *)
Definition b (i : N) := mkBlock (10+i) i (10+i-1) (i-2).
(* A3: equal number parent *)
Definition e1 := mkBlock 11 1 10 0.
Definition e2 := mkBlock 12 2 11 1.
Definition e3 := mkBlock 13 2 12 1.   (* same number as its parent *)
Definition e4 := mkBlock 14 3 13 2.
Definition e5 := mkBlock 15 4 14 2.
Definition hA3 := hub_run 1 5 hub_init [(e4, PBlocks [e1;e2;e3]); (e5, PNil)].
Eval vm_compute in (sh hA3, ans hA3 2, ans hA3 1, wf_b [e1;e2;e3;e4;e5]).

(* cycle *)
Definition c1 := mkBlock 11 1 12 0.
Definition c2 := mkBlock 12 2 11 0.
Definition c3 := mkBlock 13 3 12 2.
Definition hcyc := hub_run 1 5 hub_init [(c3, PBlocks [c1;c2])].
Eval vm_compute in (sh hcyc, ans hcyc 2, snd (hub_live 1 5 hub_init (PBlocks [c1;c2]) c3)).

(* A2: id 0 *)
Definition z1 := mkBlock 11 1 10 0.
Definition z2 := mkBlock 0 2 11 1.
Definition z3 := mkBlock 13 3 0 1.
Definition z4 := mkBlock 14 4 13 2.
Definition hz := hub_run 1 5 hub_init [(z3, PBlocks [z1;z2]); (z4, PNil)].
Eval vm_compute in (sh hz, ans hz 1, ans hz 3).

(* A1: same id different content *)
Definition d1 := mkBlock 11 1 10 0.
Definition d2 := mkBlock 12 2 11 1.
Definition d2' := mkBlock 12 3 11 1.
Definition d3 := mkBlock 13 4 12 2.
Definition d4 := mkBlock 14 5 13 3.
Definition hd1 := hub_run 1 5 hub_init [(d3, PBlocks [d1;d2;d2']); (d4, PNil)].
Definition hd2 := hub_run 1 5 hub_init [(d3, PBlocks [d1;d2';d2]); (d4, PNil)].
Eval vm_compute in (sh hd1, ans hd1 2, ans hd1 3, sh hd2, ans hd2 2, ans hd2 3).
