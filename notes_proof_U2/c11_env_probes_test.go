// package directory: . ; run: go test -vet=off -count=1 -run 'TestU2_C11_Env' ./
//
// U2 audit of C11 (and of the liveness half of C10): probes of the REAL code at the points the model's
// environment hypotheses exclude:
//   - "exactly one fault per run"                      -> TestU2_C11_Env_TwoFaults
//   - "the handler returns"                            -> TestU2_C11_Env_HandlerNeverReturns
//   - "the preprocessor returns" (fairness of TP i k)  -> TestU2_C11_Env_PreprocessorNeverReturns
//   - "store calls return"                             -> TestU2_C11_Env_StoreCallNeverReturns
//   - "Shutdown is one atomic step"                    -> TestU2_C11_Env_ShutterLoserSeesNilErr
//   - "a single failing FileExists call is a fault"    -> TestU2_C11_Env_TransientFileExistsIsMasked
// All tests PASS and assert the behaviour that was observed (logged with t.Logf).
package bstream

import (
	"context"
	"errors"
	"fmt"
	"io"
	"math/rand"
	"strings"
	"sync"
	"sync/atomic"
	"testing"
	"time"

	pbbstream "github.com/streamingfast/bstream/pb/sf/bstream/v1"
	"github.com/streamingfast/dstore"
	"github.com/streamingfast/shutter"
	"github.com/stretchr/testify/require"
)

var (
	u2envErrOpen    = errors.New("u2 injected open fault")
	u2envErrExists  = errors.New("u2 injected exists fault")
	u2envErrRead    = errors.New("u2 injected read fault")
	u2envErrPre     = errors.New("u2 injected preprocessor fault")
	u2envErrHandler = errors.New("u2 injected handler fault")
)

func u2envID(n uint64) string { return fmt.Sprintf("%08xaa", n) }

func u2envChain(from, to uint64) []*pbbstream.Block {
	var out []*pbbstream.Block
	for n := from; n <= to; n++ {
		par := ""
		if n > 1 {
			par = u2envID(n - 1)
		}
		out = append(out, TestBlockWithNumbers(u2envID(n), par, n, n-1))
	}
	return out
}

// bundles of 5: "0" = 1..4, "5" = 5..9, "10" = 10..12; stop block 12
type u2envStore struct {
	*dstore.MockStore
	content     map[string][]byte
	openFail    map[string]bool
	openHang    map[string]chan struct{}
	existsFail  func(name string, call int) bool
	existsCalls map[string]int
	readFailAt  map[string]int // byte offset at which the reader of that file starts failing
	readHangAt  map[string]int // byte offset at which the reader of that file blocks for ever
	hang        chan struct{}
	mu          sync.Mutex
}

func u2envNewStore() *u2envStore {
	s := &u2envStore{MockStore: dstore.NewMockStore(nil), content: map[string][]byte{}, openFail: map[string]bool{},
		openHang: map[string]chan struct{}{}, existsCalls: map[string]int{}, readFailAt: map[string]int{}, readHangAt: map[string]int{},
		hang: make(chan struct{})}
	s.content[base(0)] = testBlocks(u2envChain(1, 4)...)
	s.content[base(5)] = testBlocks(u2envChain(5, 9)...)
	s.content[base(10)] = testBlocks(u2envChain(10, 12)...)
	return s
}

func (s *u2envStore) FileExists(ctx context.Context, name string) (bool, error) {
	s.mu.Lock()
	call := s.existsCalls[name]
	s.existsCalls[name] = call + 1
	s.mu.Unlock()
	if s.existsFail != nil && s.existsFail(name, call) {
		return false, u2envErrExists
	}
	_, ok := s.content[name]
	return ok, nil
}

type u2envReader struct {
	r      io.Reader
	n      int
	failAt int
	hangAt int
	hang   chan struct{}
}

func (z *u2envReader) Read(p []byte) (int, error) {
	if z.hangAt >= 0 && z.n >= z.hangAt {
		<-z.hang
		return 0, errors.New("released")
	}
	if z.failAt >= 0 && z.n >= z.failAt {
		return 0, u2envErrRead
	}
	lim := len(p)
	for _, at := range []int{z.failAt, z.hangAt} {
		if at >= 0 && z.n+lim > at {
			lim = at - z.n
		}
	}
	n, err := z.r.Read(p[:lim])
	z.n += n
	return n, err
}
func (z *u2envReader) Close() error { return nil }

func (s *u2envStore) OpenObject(ctx context.Context, name string) (io.ReadCloser, error) {
	if ch, ok := s.openHang[name]; ok {
		<-ch
	}
	if s.openFail[name] {
		return nil, u2envErrOpen
	}
	c, ok := s.content[name]
	if !ok {
		return nil, io.EOF
	}
	fa, ha := -1, -1
	if v, ok := s.readFailAt[name]; ok {
		fa = v
	}
	if v, ok := s.readHangAt[name]; ok {
		ha = v
	}
	return &u2envReader{r: strings.NewReader(string(c)), failAt: fa, hangAt: ha, hang: s.hang}, nil
}

// offset of the length prefix of message k (0-based) of a bundle written by the real writer
func u2envMsgOffset(blocks []*pbbstream.Block, k int) int {
	if k == 0 {
		b := testBlocks(blocks[:1]...)
		return 7 + int(b[5])<<8 + int(b[6])
	}
	return len(testBlocks(blocks[:k]...))
}

type u2envRec struct {
	mu          sync.Mutex
	nums        []uint64
	failAtCall  int // -1 none
	afterFail   int32
	returned    int32
	lateCalls   int32
	delay       func(call int) time.Duration
	blockAtCall int // the handler never returns from this call (until release is closed); -1 none
	release     chan struct{}
	entered     chan struct{}
}

func u2envNewRec() *u2envRec {
	return &u2envRec{failAtCall: -1, blockAtCall: -1, release: make(chan struct{}), entered: make(chan struct{}, 1)}
}

func (r *u2envRec) ProcessBlock(blk *pbbstream.Block, obj interface{}) error {
	if atomic.LoadInt32(&r.returned) != 0 || atomic.LoadInt32(&r.afterFail) != 0 {
		atomic.AddInt32(&r.lateCalls, 1)
	}
	r.mu.Lock()
	call := len(r.nums)
	r.nums = append(r.nums, blk.Number)
	r.mu.Unlock()
	if r.delay != nil {
		time.Sleep(r.delay(call))
	}
	if call == r.blockAtCall {
		r.entered <- struct{}{}
		<-r.release
	}
	if call == r.failAtCall {
		atomic.StoreInt32(&r.afterFail, 1)
		return u2envErrHandler
	}
	return nil
}

func (r *u2envRec) seen() []uint64 {
	r.mu.Lock()
	defer r.mu.Unlock()
	return append([]uint64(nil), r.nums...)
}

func u2envIsPrefix(got []uint64, from uint64) bool {
	for i, n := range got {
		if n != from+uint64(i) {
			return false
		}
	}
	return true
}

func u2envRun(src Source, rec *u2envRec, wait time.Duration) (returned bool) {
	done := make(chan struct{})
	go func() {
		src.Run()
		atomic.StoreInt32(&rec.returned, 1)
		close(done)
	}()
	select {
	case <-done:
		return true
	case <-time.After(wait):
		return false
	}
}

// ---------------------------------------------------------------------------------------------
// "exactly one fault": two fault sites armed in the same run, random timing, many iterations.
// Observed: Run always returns; Err() is always one of the two injected causes (first Shutdown wins);
// the deliveries are a gap-free prefix; the handler is never called after its own failure nor after Run
// returned.  No candidate.
func TestU2_C11_Env_TwoFaults(t *testing.T) {
	type combo struct {
		name  string
		arm   func(s *u2envStore, rec *u2envRec) (preFailNum uint64)
		cause []error
	}
	combos := []combo{
		{"read(file0,msg2)+open(file5)", func(s *u2envStore, rec *u2envRec) uint64 {
			s.readFailAt[base(0)] = u2envMsgOffset(u2envChain(1, 4), 2) + 5
			s.openFail[base(5)] = true
			return 0
		}, []error{u2envErrRead, u2envErrOpen}},
		{"pre(block3)+handler(call1)", func(s *u2envStore, rec *u2envRec) uint64 { rec.failAtCall = 1; return 3 }, []error{u2envErrPre, u2envErrHandler}},
		{"exists(file10,persistent)+handler(call5)", func(s *u2envStore, rec *u2envRec) uint64 {
			s.existsFail = func(n string, c int) bool { return n == base(10) }
			rec.failAtCall = 5
			return 0
		}, []error{u2envErrExists, u2envErrHandler}},
		{"header(file5)+pre(block2)", func(s *u2envStore, rec *u2envRec) uint64 {
			b := append([]byte(nil), s.content[base(5)]...)
			copy(b, "xbin")
			s.content[base(5)] = b
			return 2
		}, []error{nil /* header error has no sentinel */, u2envErrPre}},
		{"open(file0)+open(file5)", func(s *u2envStore, rec *u2envRec) uint64 {
			s.openFail[base(0)] = true
			s.openFail[base(5)] = true
			return 0
		}, []error{u2envErrOpen}},
		{"handler(call2)+outside Shutdown(nil)", func(s *u2envStore, rec *u2envRec) uint64 { rec.failAtCall = 2; return 0 }, []error{u2envErrHandler}},
	}
	for _, c := range combos {
		t.Run(c.name, func(t *testing.T) {
			errCount := map[string]int{}
			for it := 0; it < 150; it++ {
				rng := rand.New(rand.NewSource(int64(it)*7919 + 13))
				s := u2envNewStore()
				rec := u2envNewRec()
				preFail := c.arm(s, rec)
				hd := time.Duration(rng.Intn(300)) * time.Microsecond
				rec.delay = func(int) time.Duration { return hd }
				pd := time.Duration(rng.Intn(300)) * time.Microsecond
				pre := PreprocessFunc(func(blk *pbbstream.Block) (interface{}, error) {
					time.Sleep(pd)
					if blk.Number == preFail {
						return nil, u2envErrPre
					}
					return blk.Number, nil
				})
				fs := NewFileSource(s, 1, rec, zlog, FileSourceWithBundleSize(5), FileSourceWithStopBlock(12),
					FileSourceWithConcurrentPreprocess(pre, rng.Intn(4)))
				if strings.Contains(c.name, "outside") {
					go func() { time.Sleep(time.Duration(rng.Intn(600)) * time.Microsecond); fs.Shutdown(nil) }()
				}
				returned := u2envRun(fs, rec, 3*time.Second)
				require.True(t, returned, "iteration %d: Run did not return", it)
				err := fs.Err()
				time.Sleep(200 * time.Microsecond)
				got := rec.seen()
				require.True(t, u2envIsPrefix(got, 1), "iteration %d: deliveries %v not a gap-free prefix", it, got)
				require.Equal(t, int32(0), atomic.LoadInt32(&rec.lateCalls), "iteration %d: handler called after its failure / after Run returned", it)
				if strings.Contains(c.name, "outside") {
					if err != nil {
						require.True(t, errors.Is(err, u2envErrHandler), "iteration %d: err %v", it, err)
					}
				} else {
					require.Error(t, err, "iteration %d: no error reported (deliveries %v)", it, got)
					ok := false
					for _, cause := range c.cause {
						if cause == nil {
							ok = ok || strings.Contains(err.Error(), "unable to create block reader")
						} else if cause == u2envErrRead {
							// read errors are wrapped with %s: the cause is only in the message
							ok = ok || strings.Contains(err.Error(), u2envErrRead.Error())
						} else {
							ok = ok || errors.Is(err, cause)
						}
					}
					require.True(t, ok, "iteration %d: error %v is none of the injected causes", it, err)
				}
				k := "nil"
				if err != nil {
					k = err.Error()
					if len(k) > 60 {
						k = k[:60]
					}
				}
				errCount[k]++
			}
			t.Logf("%s: 150 runs, all returned, prefix ok, no late call; reported errors: %v", c.name, errCount)
		})
	}
}

// ---------------------------------------------------------------------------------------------
// "the handler returns": the handler blocks in its 2nd call; meanwhile OpenObject of bundle 5 fails.
// Observed: the source is marked terminating with the open error, but Run cannot return while the handler is
// inside its call (run() calls the handler synchronously); an outside Shutdown does not help.  When the
// handler finally returns Run returns at once and no further call is made.  Inherent, not a defect.
func TestU2_C11_Env_HandlerNeverReturns(t *testing.T) {
	s := u2envNewStore()
	s.openFail[base(5)] = true
	gate := make(chan struct{})
	s.openHang[base(5)] = gate // the open fault fires once the handler is inside its 2nd call
	rec := u2envNewRec()
	rec.blockAtCall = 1
	fs := NewFileSource(s, 1, rec, zlog, FileSourceWithBundleSize(5), FileSourceWithStopBlock(12))
	done := make(chan struct{})
	go func() { fs.Run(); atomic.StoreInt32(&rec.returned, 1); close(done) }()
	select {
	case <-rec.entered:
	case <-time.After(2 * time.Second):
		t.Fatal("handler call 1 never made")
	}
	close(gate)
	select {
	case <-fs.Terminating():
	case <-time.After(2 * time.Second):
		t.Fatal("open fault not reported while the handler is blocked")
	}
	fs.Shutdown(errors.New("outside"))
	returnedEarly := false
	select {
	case <-done:
		returnedEarly = true
	case <-time.After(300 * time.Millisecond):
	}
	t.Logf("handler blocked in call 1: IsTerminating=%v Err=%v Run returned=%v delivered=%v", fs.IsTerminating(), fs.Err(), returnedEarly, rec.seen())
	require.False(t, returnedEarly)
	require.True(t, errors.Is(fs.Err(), u2envErrOpen))
	close(rec.release)
	select {
	case <-done:
	case <-time.After(2 * time.Second):
		t.Fatal("Run did not return after the handler returned")
	}
	time.Sleep(5 * time.Millisecond)
	t.Logf("after the handler returned: Run returned, delivered=%v lateCalls=%d", rec.seen(), rec.lateCalls)
	require.Equal(t, []uint64{1, 2}, rec.seen())
	require.Equal(t, int32(0), rec.lateCalls)
}

// ---------------------------------------------------------------------------------------------
// "the preprocessor returns": the preprocessor never returns for block 2.
// Observed: (a) nothing after block 1 is delivered, Run does not return, no error (the order-preserving
// pipeline waits for block 2: inherent); (b) an outside Shutdown, or (c) a fault elsewhere (OpenObject of
// bundle 5) still ends the run at once with the right error: the preprocessor's return is NOT needed for
// termination after a fault.
func TestU2_C11_Env_PreprocessorNeverReturns(t *testing.T) {
	for _, variant := range []string{"outside-shutdown", "open-fault-bundle5"} {
		t.Run(variant, func(t *testing.T) {
			s := u2envNewStore()
			gate := make(chan struct{})
			if variant == "open-fault-bundle5" {
				s.openHang[base(5)] = gate // the open fault is released after the stuck state was observed
				s.openFail[base(5)] = true
			}
			stuck := make(chan struct{})
			defer close(stuck)
			pre := PreprocessFunc(func(blk *pbbstream.Block) (interface{}, error) {
				if blk.Number == 2 {
					<-stuck
				}
				return blk.Number, nil
			})
			rec := u2envNewRec()
			fs := NewFileSource(s, 1, rec, zlog, FileSourceWithBundleSize(5), FileSourceWithStopBlock(12), FileSourceWithConcurrentPreprocess(pre, 2))
			done := make(chan struct{})
			go func() { fs.Run(); atomic.StoreInt32(&rec.returned, 1); close(done) }()
			select {
			case <-done:
				t.Fatal("Run returned although block 2 is still being preprocessed")
			case <-time.After(300 * time.Millisecond):
			}
			t.Logf("%s: preprocessor stuck on block 2 for 300ms: delivered=%v IsTerminating=%v Err=%v Run returned=false", variant, rec.seen(), fs.IsTerminating(), fs.Err())
			require.Equal(t, []uint64{1}, rec.seen())
			require.False(t, fs.IsTerminating())
			if variant == "outside-shutdown" {
				fs.Shutdown(nil)
			} else {
				close(gate)
			}
			select {
			case <-done:
			case <-time.After(2 * time.Second):
				t.Fatal("Run did not return")
			}
			t.Logf("%s: Run returned, Err=%v delivered=%v", variant, fs.Err(), rec.seen())
			if variant == "outside-shutdown" {
				require.NoError(t, fs.Err())
			} else {
				require.True(t, errors.Is(fs.Err(), u2envErrOpen))
			}
			require.Equal(t, []uint64{1}, rec.seen())
		})
	}
}

// ---------------------------------------------------------------------------------------------
// "store calls return": OpenObject of bundle 5 never returns / a Read inside bundle 0 never returns;
// the handler fails on its 3rd call (or never, for the Read case: then an outside Shutdown).
// Observed: Run returns with the handler's error / nil; the stuck goroutine leaks, nothing else.
func TestU2_C11_Env_StoreCallNeverReturns(t *testing.T) {
	t.Run("OpenObject(bundle5) hangs + handler fails at call 2", func(t *testing.T) {
		s := u2envNewStore()
		s.openHang[base(5)] = make(chan struct{})
		rec := u2envNewRec()
		rec.failAtCall = 2
		fs := NewFileSource(s, 1, rec, zlog, FileSourceWithBundleSize(5), FileSourceWithStopBlock(12))
		require.True(t, u2envRun(fs, rec, 2*time.Second))
		t.Logf("Err=%v delivered=%v", fs.Err(), rec.seen())
		require.True(t, errors.Is(fs.Err(), u2envErrHandler))
		require.Equal(t, []uint64{1, 2, 3}, rec.seen())
	})
	t.Run("Read(bundle0,msg2) hangs + outside Shutdown", func(t *testing.T) {
		s := u2envNewStore()
		s.readHangAt[base(0)] = u2envMsgOffset(u2envChain(1, 4), 2) + 5
		rec := u2envNewRec()
		fs := NewFileSource(s, 1, rec, zlog, FileSourceWithBundleSize(5), FileSourceWithStopBlock(12))
		done := make(chan struct{})
		go func() { fs.Run(); close(done) }()
		time.Sleep(200 * time.Millisecond)
		select {
		case <-done:
			t.Fatal("returned")
		default:
		}
		t.Logf("Read stuck: delivered=%v, Run not returned, Err=%v", rec.seen(), fs.Err())
		require.Equal(t, []uint64{1, 2}, rec.seen())
		fs.Shutdown(nil)
		select {
		case <-done:
		case <-time.After(2 * time.Second):
			t.Fatal("Run did not return after Shutdown while a Read is stuck")
		}
		t.Logf("after Shutdown(nil): Run returned, Err=%v", fs.Err())
	})
}

// ---------------------------------------------------------------------------------------------
// "Shutdown is one atomic step" (notes_C10/C11 "double-check" item).  shutter.Shutdown is once.Do(flag)
// followed by lock; err = e; close(terminating).  A second caller returns as soon as it lost the once and
// can read Err() == nil before the winner has stored its error.  In FileSource.Run = Shutdown(run()) this is
// the case "run() ends on its own (handler error / non-sequential / stop) while another goroutine reports a
// fault": Run returns, Err() is momentarily nil, and JoiningSource.run returns fileSrc.Err() = nil,
// i.e. the stream would end WITHOUT error.  Needs two simultaneous causes (outside the single-fault
// quantifier, except fault + regular end).  This test measures how often the window is hit on the bare
// shutter; it asserts nothing about the frequency.
func TestU2_C11_Env_ShutterLoserSeesNilErr(t *testing.T) {
	const N = 300000
	nilSeen := 0
	eA, eB := errors.New("A"), errors.New("B")
	for i := 0; i < N; i++ {
		sh := shutter.New()
		start := make(chan struct{})
		var wg sync.WaitGroup
		var seen [2]error
		for g, e := range []error{eA, eB} {
			wg.Add(1)
			go func(g int, e error) {
				defer wg.Done()
				<-start
				sh.Shutdown(e)
				seen[g] = sh.Err() // what a caller of Run() reads right after Run() returned
			}(g, e)
		}
		close(start)
		wg.Wait()
		if seen[0] == nil || seen[1] == nil {
			nilSeen++
		}
		require.NotNil(t, sh.Err())
	}
	t.Logf("shutter: in %d of %d races a Shutdown caller read Err()==nil right after its Shutdown returned", nilSeen, N)
}

// ---------------------------------------------------------------------------------------------
// Literal reading of the quantifier "each FileExists call ... failing": a FileExists call that fails fewer
// than five times in a row is retried inside checkExists and masked: the run completes normally, no error.
// (The model treats it as FNone; benign deviation from the literal text, noted.)
func TestU2_C11_Env_TransientFileExistsIsMasked(t *testing.T) {
	for _, count := range []int{1, 4, 5} {
		s := u2envNewStore()
		s.existsFail = func(n string, c int) bool { return n == base(5) && c < count }
		rec := u2envNewRec()
		fs := NewFileSource(s, 1, rec, zlog, FileSourceWithBundleSize(5), FileSourceWithStopBlock(12))
		require.True(t, u2envRun(fs, rec, 3*time.Second))
		t.Logf("FileExists(bundle 5) fails %d times in a row: Err=%v delivered=%v", count, fs.Err(), rec.seen())
		if count < 5 {
			require.True(t, errors.Is(fs.Err(), ErrStopBlockReached))
			require.Equal(t, 12, len(rec.seen()))
		} else {
			require.True(t, errors.Is(fs.Err(), u2envErrExists))
			require.True(t, u2envIsPrefix(rec.seen(), 1))
		}
	}
}
