// package directory: . ; helpers shared by the u2_c12_*_test.go files (no test of its own)
package bstream

import (
	"errors"
	"fmt"
	"sync"
	"testing"
	"time"

	pbbstream "github.com/streamingfast/bstream/pb/sf/bstream/v1"
	"github.com/streamingfast/shutter"
	"go.uber.org/zap"
)

var errU2C12Inner = errors.New("u2c12: inner source failed on its own")
var errU2C12Handler = errors.New("u2c12: handler failed")

// u2c12Src is an inner source that OBEYS the Source contract assumed by the C12 model:
//   - every handler call is made from inside Run,
//   - Shutdown (which never blocks) makes Run return as soon as the handler call in progress (if any) returns,
//   - a handler error or a failure of its own makes it shut itself down and return from Run.
type u2c12Src struct {
	*shutter.Shutter
	id       string
	h        Handler
	blocks   chan *pbbstream.Block // unbuffered: a successful send means Run took the block
	failNow  chan struct{}
	started  chan struct{}
	returned chan struct{}
	startRef BlockRef
}

func newU2C12Src(id string, h Handler) *u2c12Src {
	return &u2c12Src{Shutter: shutter.New(), id: id, h: h, blocks: make(chan *pbbstream.Block),
		failNow: make(chan struct{}, 1), started: make(chan struct{}), returned: make(chan struct{})}
}

func (s *u2c12Src) SetLogger(*zap.Logger) {}

func (s *u2c12Src) Run() {
	close(s.started)
	defer close(s.returned)
	for {
		select {
		case <-s.Terminating():
			return
		case <-s.failNow:
			s.Shutdown(errU2C12Inner)
			return
		case b := <-s.blocks:
			if s.IsTerminating() {
				return
			}
			if err := s.h.ProcessBlock(b, nil); err != nil {
				s.Shutdown(err)
				return
			}
		}
	}
}

func u2c12Blk(num uint64, suffix string) *pbbstream.Block {
	return &pbbstream.Block{Number: num, Id: fmt.Sprintf("%08x%s", num, suffix), ParentId: fmt.Sprintf("%08x%s", num-1, suffix)}
}

// u2c12Log is a chronological, goroutine-safe event log
type u2c12Log struct {
	mu sync.Mutex
	ev []string
}

func (l *u2c12Log) add(format string, a ...interface{}) {
	l.mu.Lock()
	l.ev = append(l.ev, fmt.Sprintf(format, a...))
	l.mu.Unlock()
}
func (l *u2c12Log) snapshot() []string {
	l.mu.Lock()
	defer l.mu.Unlock()
	return append([]string(nil), l.ev...)
}
func (l *u2c12Log) index(e string) int {
	for i, x := range l.snapshot() {
		if x == e {
			return i
		}
	}
	return -1
}

func u2c12Wait(t *testing.T, what string, ch <-chan struct{}, d time.Duration) bool {
	t.Helper()
	select {
	case <-ch:
		return true
	case <-time.After(d):
		t.Logf("TIMEOUT (%s) waiting for: %s", d, what)
		return false
	}
}

// u2c12RunIn runs f in a goroutine; the returned channel is closed when f returns, the 2nd one receives a recovered panic
func u2c12RunIn(f func()) (done chan struct{}, panicked chan interface{}) {
	done = make(chan struct{})
	panicked = make(chan interface{}, 1)
	go func() {
		defer close(done)
		defer func() {
			if r := recover(); r != nil {
				panicked <- r
			}
		}()
		f()
	}()
	return
}
