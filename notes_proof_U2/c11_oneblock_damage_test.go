// package directory: . ; run: go test -vet=off -count=1 -run 'TestU2_C11_OneBlock' ./
//
// U2 audit of C11, hypothesis "a failing / damaged one-block download during cursor resolution IS a
// handler error" (the model folds every fault of the forked-blocks store into FHandler n, i.e. it
// assumes that the damaged download comes back as an error).  Probe of the real code at the excluded
// point: the forked-blocks store returns damaged bytes for the one-block file the resolution needs.
//
// Every test here PASSES and asserts the behaviour that was observed; the header-only case documents a
// DEFECT (no error, the handler receives a nil block; through JoiningSource: nil-pointer panic).
package bstream

import (
	"context"
	"errors"
	"fmt"
	"io"
	"strings"
	"testing"
	"time"

	pbbstream "github.com/streamingfast/bstream/pb/sf/bstream/v1"
	"github.com/streamingfast/dstore"
	"github.com/stretchr/testify/require"
)

var u2c11ErrInj = errors.New("u2 injected storage fault")

// dbin v1 header: "dbin" 0x01, 2 bytes content-type length, content type
func u2c11HeaderLen(b []byte) int { return 7 + int(b[5])<<8 + int(b[6]) }

type u2c11Call struct {
	nilBlock bool
	id       string
	num      uint64
	step     StepType
}

type u2c11FailingReader struct {
	r      io.Reader
	n      int
	failAt int
}

func (z *u2c11FailingReader) Read(p []byte) (int, error) {
	if z.n >= z.failAt {
		return 0, u2c11ErrInj
	}
	if z.n+len(p) > z.failAt {
		p = p[:z.failAt-z.n]
	}
	n, err := z.r.Read(p)
	z.n += n
	return n, err
}
func (z *u2c11FailingReader) Close() error { return nil }

// merged blocks 1a..4a in bundle 0; the cursor sits on the forked block 3b (child of 2a, LIB 1a);
// resolving it needs the one-block file of 3b from the forked-blocks store.
func u2c11CursorSetup(oneBlockContent func(good []byte) []byte) (merged, forked *dstore.MockStore, cur *Cursor, name string) {
	merged = dstore.NewMockStore(nil)
	merged.SetFile(base(0), testBlocks(
		TestBlockWithNumbers("1aaaaaaaaaaaaaaa", "", 1, 0),
		TestBlockWithNumbers("2aaaaaaaaaaaaaaa", "1aaaaaaaaaaaaaaa", 2, 1),
		TestBlockWithNumbers("3aaaaaaaaaaaaaaa", "2aaaaaaaaaaaaaaa", 3, 1),
		TestBlockWithNumbers("4aaaaaaaaaaaaaaa", "3aaaaaaaaaaaaaaa", 4, 2),
	))
	forked = dstore.NewMockStore(nil)
	name = BlockFileName(&pbbstream.Block{Id: "3bbbbbbbbbbbbbbb", Number: 3, ParentId: "2aaaaaaaaaaaaaaa", LibNum: 1})
	good := testBlocks(TestBlockWithNumbers("3bbbbbbbbbbbbbbb", "2aaaaaaaaaaaaaaa", 3, 1))
	forked.SetFile(name, oneBlockContent(good))
	cur = &Cursor{
		Step:      StepNew,
		Block:     NewBlockRef("3bbbbbbbbbbbbbbb", 3),
		HeadBlock: NewBlockRef("3bbbbbbbbbbbbbbb", 3),
		LIB:       NewBlockRef("1aaaaaaaaaaaaaaa", 1),
	}
	return
}

func u2c11RunWatched(t *testing.T, src Source) (returned bool, panicked interface{}) {
	done := make(chan struct{})
	go func() {
		defer close(done)
		defer func() { panicked = recover() }()
		src.Run()
	}()
	select {
	case <-done:
		return true, panicked
	case <-time.After(3 * time.Second):
		src.Shutdown(errors.New("u2 watchdog"))
		select {
		case <-done:
		case <-time.After(2 * time.Second):
		}
		return false, panicked
	}
}

// The reference behaviour: an undamaged one-block file.
func TestU2_C11_OneBlock_Good(t *testing.T) {
	merged, forked, cur, _ := u2c11CursorSetup(func(good []byte) []byte { return good })
	var calls []u2c11Call
	h := HandlerFunc(func(blk *pbbstream.Block, obj interface{}) error {
		calls = append(calls, u2c11Call{blk == nil, blk.GetId(), blk.GetNumber(), obj.(Stepable).Step()})
		return nil
	})
	fs := NewFileSourceFromCursor(merged, forked, cur, h, zlog, FileSourceWithStopBlock(4))
	returned, p := u2c11RunWatched(t, fs)
	t.Logf("good one-block file: returned=%v panic=%v err=%v calls=%+v", returned, p, fs.Err(), calls)
	require.True(t, returned)
	require.Nil(t, p)
	require.True(t, errors.Is(fs.Err(), ErrStopBlockReached))
	require.Equal(t, 4, len(calls))
	require.Equal(t, u2c11Call{false, "3bbbbbbbbbbbbbbb", 3, StepUndo}, calls[0])
	require.Equal(t, u2c11Call{false, "2aaaaaaaaaaaaaaa", 2, StepIrreversible}, calls[1])
}

// Damaged bytes that the code DOES turn into an error (terminates cleanly, handler never called).
func TestU2_C11_OneBlock_DamageReported(t *testing.T) {
	cases := []struct {
		name   string
		damage func(good []byte) []byte
		reader func(r io.Reader, good []byte) io.ReadCloser
		want   string
	}{
		{"bad magic", func(g []byte) []byte { b := append([]byte(nil), g...); copy(b, "xbin"); return b }, nil, "unable to create block reader"},
		{"empty file", func(g []byte) []byte { return []byte{} }, nil, "unable to create block reader"},
		{"cut inside header", func(g []byte) []byte { return g[:5] }, nil, "unable to create block reader"},
		{"cut inside length prefix", func(g []byte) []byte { return g[:u2c11HeaderLen(g)+2] }, nil, "block reader failed"},
		{"cut inside message", func(g []byte) []byte { return g[:u2c11HeaderLen(g)+4+3] }, nil, "block reader failed"},
		{"garbage message", func(g []byte) []byte {
			b := append([]byte(nil), g...)
			for i := u2c11HeaderLen(g) + 4; i < len(b); i++ {
				b[i] = 0xff
			}
			return b
		}, nil, "block reader failed"},
		{"storage error in the middle of the download", func(g []byte) []byte { return g }, func(r io.Reader, g []byte) io.ReadCloser {
			return &u2c11FailingReader{r: r, failAt: u2c11HeaderLen(g) + 6}
		}, "u2 injected storage fault"},
		// the storage fails exactly when the header has been delivered: still an error, because
		// ioutil.ReadAll reports it
		{"storage error right after the header", func(g []byte) []byte { return g }, func(r io.Reader, g []byte) io.ReadCloser {
			return &u2c11FailingReader{r: r, failAt: u2c11HeaderLen(g)}
		}, "u2 injected storage fault"},
	}
	for _, c := range cases {
		t.Run(c.name, func(t *testing.T) {
			var good []byte
			merged, forked, cur, name := u2c11CursorSetup(func(g []byte) []byte { good = g; return c.damage(g) })
			if c.reader != nil {
				content := c.damage(good)
				forked.OpenObjectFunc = func(ctx context.Context, n string) (io.ReadCloser, error) {
					if n != name {
						return nil, fmt.Errorf("unexpected name %s", n)
					}
					return c.reader(strings.NewReader(string(content)), good), nil
				}
			}
			ncalls := 0
			h := HandlerFunc(func(blk *pbbstream.Block, obj interface{}) error { ncalls++; return nil })
			fs := NewFileSourceFromCursor(merged, forked, cur, h, zlog, FileSourceWithStopBlock(4))
			returned, p := u2c11RunWatched(t, fs)
			t.Logf("%s: returned=%v panic=%v calls=%d err=%v", c.name, returned, p, ncalls, fs.Err())
			require.True(t, returned)
			require.Nil(t, p)
			require.Equal(t, 0, ncalls)
			require.Error(t, fs.Err())
			require.Contains(t, fs.Err().Error(), c.want)
		})
	}
}

// DEFECT (observed behaviour asserted): the one-block file is cut exactly after its dbin header
// ("truncated file": the message is missing altogether).  decodeOneblockfileData returns (nil, nil),
// the resolver appends the nil block to the undo list and calls the handler with a NIL block and an
// undo step; no error is reported, the run goes on to the stop block.
func TestU2_C11_OneBlock_HeaderOnly_FileSource(t *testing.T) {
	merged, forked, cur, _ := u2c11CursorSetup(func(g []byte) []byte { return g[:u2c11HeaderLen(g)] })
	var calls []u2c11Call
	h := HandlerFunc(func(blk *pbbstream.Block, obj interface{}) error {
		calls = append(calls, u2c11Call{blk == nil, blk.GetId(), blk.GetNumber(), obj.(Stepable).Step()})
		return nil
	})
	fs := NewFileSourceFromCursor(merged, forked, cur, h, zlog, FileSourceWithStopBlock(4))
	returned, p := u2c11RunWatched(t, fs)
	t.Logf("header-only one-block file, file source: returned=%v panic=%v err=%v calls=%+v", returned, p, fs.Err(), calls)
	require.True(t, returned)
	require.Nil(t, p)
	// what the property demands: Err() identifies the damaged download, handler not called.
	// what happens: the regular end of the run, and the handler got a nil block as the undo
	require.True(t, errors.Is(fs.Err(), ErrStopBlockReached), "observed: the damage is not reported at all")
	require.Equal(t, 4, len(calls))
	require.Equal(t, u2c11Call{true, "", 0, StepUndo}, calls[0], "observed: handler called with a nil block")
	require.Equal(t, u2c11Call{false, "2aaaaaaaaaaaaaaa", 2, StepIrreversible}, calls[1])
	require.Equal(t, u2c11Call{false, "3aaaaaaaaaaaaaaa", 3, StepNewIrreversible}, calls[2])
	require.Equal(t, u2c11Call{false, "4aaaaaaaaaaaaaaa", 4, StepNewIrreversible}, calls[3])
}

// Same input through the JoiningSource (the way stream.Stream builds its source): the joining source's
// own handler dereferences the nil block: Run PANICS (nil pointer dereference) in the caller's goroutine
// instead of terminating with an error.
func TestU2_C11_OneBlock_HeaderOnly_JoiningSource(t *testing.T) {
	merged, forked, cur, _ := u2c11CursorSetup(func(g []byte) []byte { return g[:u2c11HeaderLen(g)] })
	ncalls := 0
	h := HandlerFunc(func(blk *pbbstream.Block, obj interface{}) error { ncalls++; return nil })
	ff := NewFileSourceFactory(merged, forked, zlog, FileSourceWithStopBlock(4))
	live := NewTestSourceFactory()
	live.FromBlockNumFunc = func(uint64, Handler) Source { return nil }
	live.FromCursorFunc = func(*Cursor, Handler) Source { return nil }
	live.ThroughCursorFunc = func(uint64, *Cursor, Handler) Source { return nil }
	js := NewJoiningSource(ff, live, h, 1, cur, false, zlog)
	returned, p := u2c11RunWatched(t, js)
	t.Logf("header-only one-block file, joining source: returned=%v panic=%v err=%v handler calls=%d", returned, p, js.Err(), ncalls)
	require.NotNil(t, p, "observed: JoiningSource.Run panics")
	require.Contains(t, fmt.Sprint(p), "nil pointer dereference")
	require.Equal(t, 0, ncalls)
	require.False(t, js.IsTerminating(), "observed: the joining source is not even shut down (the panic unwinds through Run)")
}
