// package directory: transform; run: go test -vet=off -count=1 -tags verif -run 'TestU2_C15_Progress' ./transform/   (needs u2_c15_audit_test.go in the same directory)
//go:build verif

package transform

import (
	"sync"
	"testing"
	"time"

	"github.com/streamingfast/bstream"
)

// a provider that answers like the generic one but sleeps on the first request of one bundle
type u2c15SlowProv struct {
	inner  bstream.BlockIndexProvider
	slowAt uint64
	d      time.Duration
	mu     sync.Mutex
	calls  map[uint64]int
}

func (p *u2c15SlowProv) BlocksInRange(base, bundle uint64) ([]uint64, error) {
	p.mu.Lock()
	if p.calls == nil {
		p.calls = map[uint64]int{}
	}
	p.calls[base]++
	first := p.calls[base] == 1
	p.mu.Unlock()
	if base == p.slowAt && first {
		time.Sleep(p.d)
	}
	return p.inner.BlocksInRange(base, bundle)
}

// The progress timer is an oracle "prog : base -> bool" in the theorems (any oracle).  The real timer is
// restarted by every lookupBlockIndex call, so on a retry the answer for the same base can change.
func TestU2_C15_Progress(t *testing.T) {
	defer func() { u2c15ExtraOpts = nil }()
	feed := u2c15FeedOf(u2c15Chain(0, 40), map[uint64][]string{2: {"a"}, 22: {"a"}})
	st := u2c15Index(10, feed, nil)
	mk := func() bstream.BlockIndexProvider {
		return NewGenericBlockIndexProvider(st, "t", []uint64{10}, u2c15Keys("a"))
	}
	// timer always fired: one progress block (the first existing block) per covered bundle without a wanted block
	u2c15ExtraOpts = []bstream.FileSourceOption{bstream.VerifFileSourceWithProgressDelay(0)}
	r := u2c15Stream(t, u2c15Chain(0, 34, 10, 11), 5, 0, 29, nil, mk())
	t.Logf("progress delay 0, chain 0..34 without 10 and 11, matches 2 22, start 0 stop 29: delivered %v end %s", r.deliv, r.end)
	u2c15Expect(t, "progress always", r.deliv, []uint64{0, 2, 5, 12, 15, 22, 29}) // [25,30) holds the stop block: no progress block

	// timer always fired and a whole bundle [10,15) missing inside the covered region: the source waits for it
	// (without the timer it skips it, see below)
	missing := u2c15Chain(0, 34, 10, 11, 12, 13, 14)
	r = u2c15Stream(t, missing, 5, 0, 29, nil, mk())
	t.Logf("progress delay 0, bundle [10,15) missing: delivered %v end %s", r.deliv, r.end)
	u2c15Expect(t, "progress always, missing bundle", r.deliv, []uint64{0, 2, 5})
	u2c15Expect(t, "progress always, missing bundle end", r.end, "wait:0000000010")

	u2c15ExtraOpts = []bstream.FileSourceOption{bstream.VerifFileSourceWithProgressDelay(time.Hour)}
	r = u2c15Stream(t, missing, 5, 0, 29, nil, mk())
	t.Logf("progress never, bundle [10,15) missing: delivered %v end %s", r.deliv, r.end)
	u2c15Expect(t, "progress never, missing bundle", r.deliv, []uint64{0, 2, 22, 29})

	// the timer fires once, at the missing bundle (the provider is slow on the first request for [10,15)); the
	// retry restarts the timer and moves on: same delivery as "never", plus nothing lost
	u2c15ExtraOpts = []bstream.FileSourceOption{bstream.VerifFileSourceWithProgressDelay(30 * time.Millisecond)}
	slow := &u2c15SlowProv{inner: mk(), slowAt: 10, d: 60 * time.Millisecond}
	r = u2c15Stream(t, missing, 5, 0, 29, nil, slow)
	t.Logf("timer fires once at the missing bundle [10,15): delivered %v end %s (requests for base 10: %d)", r.deliv, r.end, slow.calls[10])
	u2c15Expect(t, "timer fires once", r.deliv, []uint64{0, 2, 22, 29})
}
