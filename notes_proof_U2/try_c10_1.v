From BV Require Import Base.Prelude Model.FileSeq Model.Pipeline Spec.C10_Spec Spec.C11_Spec.
Local Open Scope N_scope.

Definition c10_pre (b : blk) : N := 3 * b_id b + b_num b.
Definition c10_b1 := mkBlk 1 1 0.
Definition c10_b2 := mkBlk 2 2 1.
Definition c10_b3 := mkBlk 3 5 1.
Definition c10_layA : layout := mkLayout [[c10_b1; c10_b2]; [c10_b3]] 1 5 0.
Definition c10_cfgA : cfg := mkCfg c10_layA 1 (FRead 0 1) false true false.
Definition f := false.
Definition c10_schedA : list (tid * bool) :=
  [(TL,f);(TL,f);(TR 0,f);(TR 0,f);(TR 0,f);(TR 0,f);(TP 0 0,f);(TM,f);(TD 0,f);(TD 0,f);(TD 0,f);
   (TM,f);(TM,f);(TD 0,f);(TM,f);(TL,f);(TL,f);(TR 1,f);(TR 1,f);(TR 1,f);(TP 1 0,f);(TM,f);
   (TD 1,f);(TD 1,f);(TD 1,f);(TM,f);(TM,f)].
Eval vm_compute in (expected c10_layA).
Eval vm_compute in (let s := run c10_pre c10_cfgA c10_schedA (init c10_cfgA) in (s_calls s, s_err s, s_m s, s_l s)).
(* nofault *)
Definition c10_layB : layout := mkLayout [[c10_b1; c10_b2]] 1 5 3.
Definition c10_cfgB fl ext : cfg := mkCfg c10_layB 1 fl ext true true.
Eval vm_compute in (expected c10_layB).
Eval vm_compute in (let C := c10_cfgB (FOpen 0) false in let s := run c10_pre C (rounds C 10) (init C) in (s_calls s, s_err s, s_m s, s_l s)).
Eval vm_compute in (let C := c10_cfgB FNone true in let s := run c10_pre C ((TX,f) :: rounds C 10) (init C) in (s_calls s, s_err s, s_m s, s_l s)).
Definition noTP := filter (fun tc : tid * bool => match fst tc with TP _ _ => false | _ => true end).
Eval vm_compute in (let C := c10_cfgB FNone false in let s := run c10_pre C (noTP (rounds C 10)) (init C) in (s_calls s, s_err s, s_m s, s_l s, f_r (s_file s 0), f_d (s_file s 0), f_cell (s_file s 0) 0)).
(* empty id *)
Definition c10_layC : layout := mkLayout [[mkBlk 0 1 0; mkBlk 3 2 7]] 1 5 3.
Eval vm_compute in (expected c10_layC, candidates c10_layC).
Eval vm_compute in (let C := mkCfg c10_layC 1 FNone false true true in let s := run c10_pre C (rounds C 12) (init C) in (s_calls s, s_err s, s_m s, s_l s)).
(* unlinked d *)
Definition c10_layD : layout := mkLayout [[mkBlk 1 1 0; mkBlk 2 2 9; mkBlk 3 3 8]] 1 5 3.
Eval vm_compute in (expected c10_layD, candidates c10_layD).
Eval vm_compute in (let C := mkCfg c10_layD 1 FNone false true true in let s := run c10_pre C (rounds C 12) (init C) in (s_calls s, s_err s, s_m s, s_l s)).
