#!/usr/bin/env python3
"""Concatenate notes_proof_U2/audit_Cxx.v into coq/Properties/Cxx_Audit.v, one Module per property.
Require's are hoisted to the top (without Import); each module Imports exactly what its source file imported, in order."""
import re, sys, os, glob
root = "/tmp/ag/U2/verif"
files = sorted(glob.glob(os.path.join(root, "notes_proof_U2", "audit_C*.v")))
req_re = re.compile(r'^From\s+(\w+)\s+Require\s+Import\s+(.*?)\.\s*$', re.S | re.M)
reqs = []   # (lib, module)
bodies = []
for f in files:
    pid = re.search(r'audit_(C\d+)\.v', f).group(1)
    src = open(f).read()
    imports = []
    def repl(m):
        lib = m.group(1)
        mods = m.group(2).split()
        for x in mods:
            if (lib, x) not in reqs:
                reqs.append((lib, x))
            imports.append((lib, x))
        return "Import " + " ".join(("BV." + x) if lib == "BV" else x for x in mods) + "."
    # a Require Import statement may span several lines: match from 'From' to the first '.' followed by newline
    src2 = re.sub(r'^From\s+(\w+)\s+Require\s+Import\s+([^.]*(?:\.[A-Za-z_][^.]*)*?)\.\s*$', repl, src, flags=re.M)
    if "Require" in re.sub(r'\(\*.*?\*\)', '', src2, flags=re.S):
        print("WARNING: leftover Require in", f)
    bodies.append((pid, src2))
out = []
out.append("(* U2 hypothesis audit: necessity witnesses for hypotheses of the property theorems of C05, C06, C09, C10, C11, C12,\n"
           "   C15, C16, C17, C19, C20.  One module per property; every theorem `cxx_<hyp>_needed` exhibits (vm_compute) a concrete\n"
           "   input that violates hypothesis <hyp> of a proved theorem and on which the theorem's conclusion fails for the model.\n"
           "   Which witnesses are inside the property's quantifier, and what the real code does there: notes_proof_U2.md.\n"
           "   GENERATED from notes_proof_U2/audit_Cxx.v by notes_proof_U2/mkaudit.py (Require's hoisted, Imports kept per module). *)\n")
by_lib = {}
for lib, x in reqs:
    by_lib.setdefault(lib, []).append(x)
for lib in sorted(by_lib, key=lambda l: (l != "Coq", l)):
    out.append("From %s Require %s." % (lib, " ".join(by_lib[lib])))
out.append("")
for pid, body in bodies:
    out.append("Module %s." % pid)
    out.append(body.rstrip())
    out.append("End %s.\n" % pid)
open(os.path.join(root, "coq", "Properties", "Cxx_Audit.v"), "w").write("\n".join(out) + "\n")
print("modules:", [p for p, _ in bodies])
