// package directory: hub; run: go test -vet=off -count=1 -v -run TestU2_C09_ReadyAcrossHole ./hub/ (place next to u2_c09_helpers_test.go; file name in the repo: u2_c09_ready_across_hole_test.go)
package hub

import (
	"testing"
)

// Readiness hypothesis of c09_ready_latch: the latch is set when `Linkable(live block)` holds, i.e. when the live block links
// through stored blocks to the LIB HEIGHT IT DECLARES - not to the hub's own LIB/head. When the one-block files lag behind the
// live source by more than the finality lag, the live blocks link among themselves: the hub turns ready while its head (built
// from the files) is separated from the live blocks by a hole. From then on no bootstrap pass is ever made again (bootstrap is
// only run while not ready) and no live block ever links to the hub's LIB: the hub stays ready with a frozen head.
//
// The property text is satisfied literally (the answers ARE the canonical chain up to the hub's head; the live block does link
// to its declared LIB height), so this test PASSES and documents the behaviour: ready=true, head frozen below the live blocks,
// a subscriber taken at readiness never receives a block.
func TestU2_C09_ReadyAcrossHole(t *testing.T) {
	t.Run("finality lag 2, files lag 5..7 behind live", func(t *testing.T) {
		ch := u2c09Chain(1, 60, 2, 0)
		blk := func(n uint64) u2c09Blk { return ch[n-1] }
		h := u2c09New(t, 1, 5)
		u2c09Step(t, h, blk(31), &u2c09Pass{blocks: ch[:24]}, false) // files 1..24
		u2c09Step(t, h, blk(32), &u2c09Pass{blocks: ch[:26]}, false) // files 1..26
		// live 33 declares LIB 31: it links 33 <- 32 <- 31 through the stored LIVE blocks; no third pass is made
		u2c09Step(t, h, blk(33), &u2c09Pass{blocks: ch[:32]}, true)
		if len(h.starts) != 2 {
			t.Errorf("expected no bootstrap pass for live 33, one-block sources requested: %v", h.starts)
		}
		hn, _, _, _, _ := h.fh.HeadInfo()
		if hn != 26 {
			t.Errorf("head=%d, expected 26 (the head built from the files)", hn)
		}
		sub := h.fh.SourceFromBlockNum(h.fh.LowestBlockNum(), u2c09Nop).(*Subscription)
		burst := len(sub.blocks)
		// the files are complete from now on, the live source keeps delivering: nothing moves any more
		for n := uint64(34); n <= 50; n++ {
			if r := h.live(blk(n), &u2c09Pass{blocks: ch[:n-1]}); r != "ok" {
				t.Fatalf("live %d: %s", n, r)
			}
		}
		hn2, _, _, _, _ := h.fh.HeadInfo()
		t.Logf("after live 34..50 with complete files: %s | one-block sources requested: %v | subscriber got %d blocks beyond its burst of %d | forks(27)=%s",
			h.state(), h.starts, len(sub.blocks)-burst, burst, h.forks(27))
		if hn2 != 26 || len(sub.blocks) != burst || len(h.starts) != 2 {
			t.Errorf("expected a frozen hub (head 26, no new pass, no event): head=%d events=%d starts=%v", hn2, len(sub.blocks)-burst, h.starts)
		}
		if desc, ok := h.window(); !ok {
			t.Errorf("servable window violated: %s", desc)
		}
	})

	t.Run("instant finality (every block declares itself final): ready on the first live block after any pass", func(t *testing.T) {
		var ch []u2c09Blk
		for k := uint64(1); k <= 60; k++ {
			ch = append(ch, u2c09Blk{0x3000 + k, k, 0x3000 + k - 1, k})
		}
		blk := func(n uint64) u2c09Blk { return ch[n-1] }
		h := u2c09New(t, 1, 5)
		u2c09Step(t, h, blk(31), &u2c09Pass{blocks: ch[:24]}, true) // files 1..24, hole 25..30: READY at once
		hn, _, _, _, _ := h.fh.HeadInfo()
		if hn != 24 {
			t.Errorf("head=%d, expected 24", hn)
		}
		for n := uint64(32); n <= 45; n++ {
			if r := h.live(blk(n), &u2c09Pass{blocks: ch[:n-1]}); r != "ok" {
				t.Fatalf("live %d: %s", n, r)
			}
		}
		hn2, _, _, _, _ := h.fh.HeadInfo()
		t.Logf("after live 32..45 with complete files: %s | one-block sources requested: %v", h.state(), h.starts)
		if hn2 != 24 || len(h.starts) != 1 {
			t.Errorf("expected a frozen hub: head=%d starts=%v", hn2, h.starts)
		}
	})

	t.Run("control: same lag but the finality lag (12) exceeds the file lag: the hub waits for the files", func(t *testing.T) {
		ch := u2c09Chain(1, 60, 12, 0)
		blk := func(n uint64) u2c09Blk { return ch[n-1] }
		h := u2c09New(t, 1, 5)
		u2c09Step(t, h, blk(31), &u2c09Pass{blocks: ch[:24]}, false)
		u2c09Step(t, h, blk(32), &u2c09Pass{blocks: ch[:26]}, false)
		u2c09Step(t, h, blk(33), &u2c09Pass{blocks: ch[:28]}, false)
		u2c09Step(t, h, blk(34), &u2c09Pass{blocks: ch[:33]}, true)
		hn, _, _, _, _ := h.fh.HeadInfo()
		if hn != 34 {
			t.Errorf("head=%d, expected 34", hn)
		}
	})
}
