From BV Require Import Base.Prelude Model.Lifecycle Spec.C12_Spec.

(* fairness: eternal, Shutdown complete while Run thread is at PCheck *)
Definition c12_s_fair := run (Et.step true) [Et.TX; Et.TX; Et.TX; Et.TX] (Et.init []).
Eval vm_compute in (Et.terminating c12_s_fair, Et.terminated c12_s_fair, Et.done c12_s_fair, Et.pcr c12_s_fair, Et.xs c12_s_fair).
Eval vm_compute in (Et.done (run (Et.step true) (repeat Et.TX 50) c12_s_fair)).

(* handler: eternal, in handler, Shutdown complete *)
Definition c12_s_inh := run (Et.step true) ([Et.TRun; Et.TRun; Et.TRun; Et.TRun] ++ [Et.TX; Et.TX; Et.TX; Et.TX]) (Et.init [[IBlock 1 true; IBlock 2 true]]).
Eval vm_compute in (Et.pcr c12_s_inh, Et.terminated c12_s_inh, Et.src_term c12_s_inh, Et.hbegun c12_s_inh).

(* mux: late handler call *)
Definition c12_mx_sched1 := repeat Mx.TRun 8 ++ [Mx.TIn 0; Mx.TIn 0; Mx.TIn 0; Mx.TIn 1] ++ repeat Mx.TX 4 ++ [Mx.TRun; Mx.TRun].
Definition c12_mx_s1 := run Mx.step c12_mx_sched1 (Mx.init 2 [[IBlock 1 true]; [IBlock 2 true]]).
Eval vm_compute in (Mx.pcr c12_mx_s1, Mx.terminated c12_mx_s1, Mx.returned c12_mx_s1, Mx.hbegun c12_mx_s1, map Mx.i_pc (Mx.inners c12_mx_s1), map Mx.i_term (Mx.inners c12_mx_s1), Mx.log c12_mx_s1).
Definition c12_mx_s2 := run Mx.step [Mx.TIn 0; Mx.TIn 1; Mx.TIn 1] c12_mx_s1.
Eval vm_compute in (Mx.hbegun c12_mx_s2, map Mx.i_pc (Mx.inners c12_mx_s2), rev (Mx.log c12_mx_s2)).

(* mux: created but never started / never shut down *)
Definition c12_mx_sched3 := [Mx.TRun; Mx.TRun; Mx.TRun; Mx.TX; Mx.TX; Mx.TX; Mx.TRun; Mx.TRun; Mx.TX; Mx.TX; Mx.TRun; Mx.TRun].
Definition c12_mx_s3 := run Mx.step c12_mx_sched3 (Mx.init 1 [[IBlock 1 true]]).
Eval vm_compute in (Mx.pcr c12_mx_s3, Mx.terminated c12_mx_s3, map Mx.i_pc (Mx.inners c12_mx_s3), map Mx.i_term (Mx.inners c12_mx_s3), Mx.sources c12_mx_s3, rev (Mx.log c12_mx_s3)).
