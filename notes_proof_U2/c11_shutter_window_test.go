// package directory: . ; run: go test -vet=off -count=1 -run 'TestU2_C11_ShutterWindow' ./
// NEEDS u2_c11_env_probes_test.go in the same package (helpers u2env*: store with fault injection, recorder).
//
// U2 audit of C11, hypothesis "Shutdown is one atomic step" + "single fault": FileSource.Run = Shutdown(run()).
// Two causes are released at the same instant: the handler returns an error (run() returns it, Run calls
// Shutdown) and OpenObject of the next bundle fails (the reader goroutine calls Shutdown).  When the reader
// goroutine wins shutter's once but has not yet stored its error, Run's own Shutdown returns at once and the
// caller of Run reads Err() == nil: "Run returned, no error" although two faults happened.  JoiningSource.run
// does exactly this read (`fileSrc.Run(); return fileSrc.Err()`).
// The test PASSES; it counts how often the window was hit and logs it (no assertion on the frequency).
package bstream

import (
	"math/rand"
	"sync/atomic"
	"testing"
	"time"

	pbbstream "github.com/streamingfast/bstream/pb/sf/bstream/v1"
)

func TestU2_C11_ShutterWindow_FileSource(t *testing.T) {
	const N = 30000
	nilAtReturn, nilLater := 0, 0
	var sink int64
	for it := 0; it < N; it++ {
		rng := rand.New(rand.NewSource(int64(it)))
		s := u2envNewStore()
		gate := make(chan struct{})
		s.openHang[base(5)] = gate
		s.openFail[base(5)] = true
		entered := make(chan struct{})
		spin := rng.Intn(400)
		h := HandlerFunc(func(blk *pbbstream.Block, obj interface{}) error {
			close(entered)
			<-gate
			for i := 0; i < spin; i++ {
				atomic.AddInt64(&sink, 1)
			}
			return u2envErrHandler
		})
		fs := NewFileSource(s, 1, h, zlog, FileSourceWithBundleSize(5), FileSourceWithStopBlock(12))
		done := make(chan error, 1)
		go func() { fs.Run(); done <- fs.Err() }()
		<-entered
		time.Sleep(20 * time.Microsecond) // let the reader of bundle 5 reach its gate as well
		close(gate)
		select {
		case e := <-done:
			if e == nil {
				nilAtReturn++
				if fs.Err() == nil {
					nilLater++
				}
			}
		case <-time.After(3 * time.Second):
			t.Fatalf("iteration %d: Run did not return", it)
		}
	}
	t.Logf("handler error + open fault released together, %d runs: Err()==nil right after Run returned in %d runs (still nil later: %d)", N, nilAtReturn, nilLater)
}

// The same race through JoiningSource (live factory without a source, as when the hub is not ready):
// JoiningSource.run returns fileSrc.Err() read right after fileSrc.Run(): when the window is hit the joining
// source is shut down with a nil error for good: the stream ends "successfully" although a handler error and
// an open fault occurred.
func TestU2_C11_ShutterWindow_JoiningSource(t *testing.T) {
	const N = 30000
	nilForGood := 0
	var sink int64
	for it := 0; it < N; it++ {
		rng := rand.New(rand.NewSource(int64(it)))
		s := u2envNewStore()
		gate := make(chan struct{})
		s.openHang[base(5)] = gate
		s.openFail[base(5)] = true
		entered := make(chan struct{})
		spin := rng.Intn(400)
		h := HandlerFunc(func(blk *pbbstream.Block, obj interface{}) error {
			close(entered)
			<-gate
			for i := 0; i < spin; i++ {
				atomic.AddInt64(&sink, 1)
			}
			return u2envErrHandler
		})
		ff := NewFileSourceFactory(s, s, zlog, FileSourceWithBundleSize(5), FileSourceWithStopBlock(12))
		live := NewTestSourceFactory()
		live.FromBlockNumFunc = func(uint64, Handler) Source { return nil }
		js := NewJoiningSource(ff, live, h, 1, nil, false, zlog)
		done := make(chan struct{})
		go func() { js.Run(); close(done) }()
		<-entered
		time.Sleep(20 * time.Microsecond)
		close(gate)
		select {
		case <-done:
			if js.Err() == nil {
				nilForGood++
			}
		case <-time.After(3 * time.Second):
			t.Fatalf("iteration %d: Run did not return", it)
		}
	}
	t.Logf("joining source, handler error + open fault released together, %d runs: JoiningSource.Err()==nil for good in %d runs", N, nilForGood)
}
