From BV Require Import Base.Prelude Model.Block Model.Burst Model.CursorResolver Check.Burst_Check Spec.C06_Spec.
Local Open Scope N_scope.
(* chain 1..8, ids 10+n, parent-linked *)
Definition mk (n : N) : block := mkBlock (10+n) n (if n =? 1 then 0 else 10+n-1) 0.
Definition chain := map mk [1;2;3;4;5;6;7;8].
(* New cursor on canonical block 5, LIB 3 *)
Definition c := mkCursor SNew (mkR 15 5) (mkR 15 5) (mkR 13 3).
(* A: through mode, start 7 > cursor block 5 *)
Eval vm_compute in (let '(evs, r) := through_cursor_run chain [] 7 c 8 100 in (map (fun e => (estep e, bid (eblk e))) evs, r)).
Eval vm_compute in (let '(evs, r) := through_cursor_run chain [] 6 c 8 100 in (map (fun e => (estep e, bid (eblk e))) evs, r)).
Eval vm_compute in (let '(evs, r) := through_cursor_run chain [] 5 c 8 100 in (map (fun e => (estep e, bid (eblk e))) evs, r)).
(* final target cursor at 3 (lib 3), start 5 *)
Definition cf := mkCursor SIrr (mkR 13 3) (mkR 15 5) (mkR 13 3).
Eval vm_compute in (let '(evs, r) := through_cursor_run chain [] 5 cf 8 100 in (map (fun e => (estep e, bid (eblk e))) evs, r)).
(* D: not reached: forked cursor at 9' over chain ending at 8 *)
Definition f9 := mkBlock 99 9 18 0.
Definition cfk := mkCursor SNew (mkR 99 9) (mkR 99 9) (mkR 13 3).
Eval vm_compute in (let '(evs, r) := from_cursor_run chain [f9] cfk 8 100 in (map (fun e => (estep e, bid (eblk e))) evs, r)).
