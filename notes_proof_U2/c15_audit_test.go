// package directory: transform; run: go test -vet=off -count=1 -run 'TestU2_C15' ./transform/
package transform

// U2 hypothesis audit of property C15 (block indexes find what was indexed; indexed file streaming
// loses no match).  Each test replays, on the real indexer -> store -> GenericBlockIndexProvider ->
// FileSource pipeline, an input that violates one hypothesis of the Coq theorems of
// coq/Properties/C15.v, logs what the real code delivers and asserts that observation (the tests
// PASS: they document behaviour; what the property text would demand is said in the comments).

import (
	"bytes"
	"context"
	"errors"
	"fmt"
	"io"
	"reflect"
	"sync"
	"testing"
	"time"

	"github.com/RoaringBitmap/roaring/roaring64"
	"github.com/streamingfast/bstream"
	pbbstream "github.com/streamingfast/bstream/pb/sf/bstream/v1"
	"github.com/streamingfast/dstore"
	"go.uber.org/zap"
)

type u2c15Feed struct {
	num  uint64
	keys []string
}

func u2c15Index(size uint64, feed []u2c15Feed, st *dstore.MockStore, opts ...Option) *dstore.MockStore {
	if st == nil {
		st = dstore.NewMockStore(nil)
		st.SetOverwrite(true)
	}
	ix := NewBlockIndexer(st, size, "t", opts...)
	for _, f := range feed {
		ix.Add(f.keys, f.num)
	}
	return st
}

func u2c15Files(t *testing.T, st *dstore.MockStore) map[string]map[string][]uint64 {
	out := map[string]map[string][]uint64{}
	err := st.Walk(context.Background(), "", func(name string) error {
		r, err := st.OpenObject(context.Background(), name)
		if err != nil {
			return err
		}
		idx, err := ReadNewBlockIndex(r)
		if err != nil {
			return fmt.Errorf("%s: %w", name, err)
		}
		kv := map[string][]uint64{}
		for k, v := range idx.kv {
			kv[k] = v.ToArray()
		}
		out[name] = kv
		return nil
	})
	if err != nil {
		t.Fatalf("listing index files: %v", err)
	}
	return out
}

// OR of the bitmaps of the wanted keys, ToArray of the union
func u2c15Keys(keys ...string) func(BitmapGetter) []uint64 {
	return func(g BitmapGetter) []uint64 {
		var acc *roaring64.Bitmap
		for _, k := range keys {
			bm := g.Get(k)
			if bm == nil {
				continue
			}
			if acc == nil {
				acc = bm.Clone()
			} else {
				acc.Or(bm)
			}
		}
		if acc == nil {
			return nil
		}
		return acc.ToArray()
	}
}

// extra FileSource options (set by the verif-tagged progress test)
var u2c15ExtraOpts []bstream.FileSourceOption

type u2c15Run struct {
	deliv []uint64
	end   string // stop | wait:<base> | err:<msg> | hang
}

// runs a real FileSource over the chain cut into merged bundle files
func u2c15Stream(t *testing.T, chain []uint64, bundle, start, stop uint64, wl []uint64, prov bstream.BlockIndexProvider) u2c15Run {
	contents := map[string][]byte{}
	bufs := map[uint64]*bytes.Buffer{}
	writers := map[uint64]*bstream.DBinBlockWriter{}
	prevID, prevNum := "", uint64(0)
	for _, n := range chain {
		base := n - n%bundle
		if bufs[base] == nil {
			bufs[base] = &bytes.Buffer{}
			w, _ := bstream.NewDBinBlockWriter(bufs[base])
			writers[base] = w
		}
		id := fmt.Sprintf("%08xa", n)
		blk := bstream.TestBlockWithNumbers(id, prevID, n, prevNum)
		blk.Number = n
		if err := writers[base].Write(blk); err != nil {
			t.Fatalf("write bundle: %v", err)
		}
		prevID, prevNum = blk.Id, n
	}
	for base, buf := range bufs {
		contents[fmt.Sprintf("%010d", base)] = buf.Bytes()
	}
	var mu sync.Mutex
	miss := map[string]int{}
	waitCh := make(chan string, 1)
	bs := dstore.NewMockStore(nil)
	bs.FileExistsFunc = func(ctx context.Context, name string) (bool, error) {
		mu.Lock()
		defer mu.Unlock()
		if _, ok := contents[name]; ok {
			return true, nil
		}
		miss[name]++
		if miss[name] == 4 {
			select {
			case waitCh <- name:
			default:
			}
		}
		return false, nil
	}
	bs.OpenObjectFunc = func(ctx context.Context, name string) (io.ReadCloser, error) {
		c, ok := contents[name]
		if !ok {
			return nil, io.EOF
		}
		return io.NopCloser(bytes.NewReader(c)), nil
	}
	var deliv []uint64
	handler := bstream.HandlerFunc(func(blk *pbbstream.Block, obj interface{}) error {
		mu.Lock()
		deliv = append(deliv, blk.Number)
		mu.Unlock()
		return nil
	})
	opts := []bstream.FileSourceOption{
		bstream.FileSourceWithBundleSize(bundle),
		bstream.FileSourceWithRetryDelay(time.Millisecond),
	}
	opts = append(opts, u2c15ExtraOpts...)
	if prov != nil {
		opts = append(opts, bstream.FileSourceWithBlockIndexProvider(prov))
	}
	if stop != 0 {
		opts = append(opts, bstream.FileSourceWithStopBlock(stop))
	}
	if len(wl) > 0 {
		opts = append(opts, bstream.FileSourceWithWhitelistedBlocks(wl...))
	}
	fs := bstream.NewFileSource(bs, start, handler, zap.NewNop(), opts...)
	done := make(chan struct{})
	go func() { defer close(done); fs.Run() }()
	snap := func() []uint64 { mu.Lock(); defer mu.Unlock(); return append([]uint64(nil), deliv...) }
	select {
	case <-done:
		if errors.Is(fs.Err(), bstream.ErrStopBlockReached) {
			return u2c15Run{snap(), "stop"}
		}
		return u2c15Run{snap(), fmt.Sprintf("err:%v", fs.Err())}
	case name := <-waitCh:
		time.Sleep(50 * time.Millisecond)
		r := u2c15Run{snap(), "wait:" + name}
		fs.Shutdown(nil)
		<-done
		return r
	case <-time.After(10 * time.Second):
		r := u2c15Run{snap(), "hang"}
		fs.Shutdown(nil)
		return r
	}
}

func u2c15Chain(from, to uint64, skip ...uint64) []uint64 {
	sk := map[uint64]bool{}
	for _, s := range skip {
		sk[s] = true
	}
	var out []uint64
	for n := from; n <= to; n++ {
		if !sk[n] {
			out = append(out, n)
		}
	}
	return out
}

func u2c15FeedOf(chain []uint64, keyed map[uint64][]string) []u2c15Feed {
	var fd []u2c15Feed
	for _, n := range chain {
		fd = append(fd, u2c15Feed{n, keyed[n]})
	}
	return fd
}

func u2c15Expect(t *testing.T, what string, got, want interface{}) {
	t.Helper()
	if !reflect.DeepEqual(got, want) {
		t.Errorf("%s: observed %v, the audit notes describe %v", what, got, want)
	}
}

// Hypothesis "matches are numbers of existing blocks" (on_chain m in C15_stream_complete).
// The index says number 9 matches, the chain skips 9, the next existing block (10) is in the next
// bundle file.  PassesFilter works per bundle file: nothing is let through for 9.
func TestU2_C15_MatchOnSkippedNumber(t *testing.T) {
	// (a) next existing block in the NEXT bundle
	chain := u2c15Chain(0, 16, 9)
	feed := u2c15FeedOf(u2c15Chain(0, 30), map[uint64][]string{9: {"a"}}) // the indexer was fed a block 9
	st := u2c15Index(10, feed, nil)
	prov := NewGenericBlockIndexProvider(st, "t", []uint64{10}, u2c15Keys("a"))
	in, err := prov.BlocksInRange(5, 5)
	t.Logf("BlocksInRange(5,5) = %v, %v", in, err)
	u2c15Expect(t, "provider answer", in, []uint64{9})
	r := u2c15Stream(t, chain, 5, 0, 16, nil, NewGenericBlockIndexProvider(st, "t", []uint64{10}, u2c15Keys("a")))
	t.Logf("(a) chain skips 9, index match on 9, bundle 5, start 0, stop 16: delivered %v end %s", r.deliv, r.end)
	u2c15Expect(t, "(a) delivered", r.deliv, []uint64{0, 16}) // block 10 = next existing block after wanted 9: NOT delivered
	u2c15Expect(t, "(a) end", r.end, "stop")

	// (b) next existing block in the SAME bundle: it is delivered
	chain = u2c15Chain(0, 16, 7)
	feed = u2c15FeedOf(u2c15Chain(0, 30), map[uint64][]string{7: {"a"}})
	st = u2c15Index(10, feed, nil)
	r = u2c15Stream(t, chain, 5, 0, 16, nil, NewGenericBlockIndexProvider(st, "t", []uint64{10}, u2c15Keys("a")))
	t.Logf("(b) chain skips 7, index match on 7: delivered %v end %s", r.deliv, r.end)
	u2c15Expect(t, "(b) delivered", r.deliv, []uint64{0, 8, 16})

	// (c) the same asymmetry for a whitelisted number (cursor block 8, cursor block + 1 = 9 skipped):
	// whitelisted blocks are allowed, not required, by C15; observation only
	chain = u2c15Chain(0, 16, 9)
	st = u2c15Index(10, u2c15FeedOf(u2c15Chain(0, 30), nil), nil)
	r = u2c15Stream(t, chain, 5, 0, 16, []uint64{8, 9}, NewGenericBlockIndexProvider(st, "t", []uint64{10}, u2c15Keys("a")))
	t.Logf("(c) chain skips 9, whitelist {8,9}: delivered %v end %s", r.deliv, r.end)
	u2c15Expect(t, "(c) delivered", r.deliv, []uint64{0, 8, 16})
}

// Hypothesis "stop = 0 or start <= stop" of C15_stream_tight.
func TestU2_C15_StartAfterStop(t *testing.T) {
	chain := u2c15Chain(0, 34)
	feed := u2c15FeedOf(u2c15Chain(0, 40), map[uint64][]string{2: {"a"}, 27: {"a"}})
	st := u2c15Index(10, feed, nil) // files [0,10) .. [30,40)
	mk := func() bstream.BlockIndexProvider {
		return NewGenericBlockIndexProvider(st, "t", []uint64{10}, u2c15Keys("a"))
	}
	// start and stop in different bundles: the provider is dropped at once (in > stop), the start bundle is
	// read unfiltered although the index covers it
	r := u2c15Stream(t, chain, 5, 12, 3, nil, mk())
	t.Logf("start 12 stop 3 (index covers everything, matches 2 and 27): delivered %v end %s", r.deliv, r.end)
	u2c15Expect(t, "start 12 stop 3", r.deliv, []uint64{12, 13, 14})
	// start and stop in the same bundle: start and stop are bounded away, the lookup loop runs PAST the stop
	// block until the next match: block 27 is delivered for the request start 13, stop 11
	r = u2c15Stream(t, chain, 5, 13, 11, nil, mk())
	t.Logf("start 13 stop 11: delivered %v end %s", r.deliv, r.end)
	u2c15Expect(t, "start 13 stop 11", r.deliv, []uint64{27})
	u2c15Expect(t, "start 13 stop 11 end", r.end, "stop")
	// the same request without an index
	r = u2c15Stream(t, chain, 5, 13, 11, nil, nil)
	t.Logf("start 13 stop 11 without index: delivered %v end %s", r.deliv, r.end)
	u2c15Expect(t, "start 13 stop 11 no index", r.deliv, []uint64{13, 14})
}

// Hypothesis of C15_stream_tight "every bundle from the start bundle to the one after x's is covered":
// (1) an index with a hole: the provider is dropped for good at the hole, bundles the index covers
// AFTER the hole are delivered entirely; (2) the last available bundle is read entirely.
func TestU2_C15_IndexHoleAndLastBundle(t *testing.T) {
	chain := u2c15Chain(0, 34)
	feed := u2c15FeedOf(u2c15Chain(0, 40), map[uint64][]string{2: {"a"}, 22: {"a"}})
	st := u2c15Index(10, feed, nil)
	if err := st.DeleteObject(context.Background(), toIndexFilename(10, 10, "t")); err != nil {
		t.Fatal(err)
	}
	t.Logf("index files: %v", u2c15Files(t, st))
	r := u2c15Stream(t, chain, 5, 0, 29, nil, NewGenericBlockIndexProvider(st, "t", []uint64{10}, u2c15Keys("a")))
	t.Logf("index [0,10) and [20,40), hole [10,20), matches 2 and 22, start 0 stop 29: delivered %v end %s", r.deliv, r.end)
	u2c15Expect(t, "hole", r.deliv, append([]uint64{0, 2}, u2c15Chain(10, 29)...))

	// no hole, no stop: index files [0,10) [10,20) [20,30) (indexer fed up to block 30), merged files up to
	// block 29: bundle [25,30) is covered by the index, holds no match, and is the last available one: read entirely
	st = u2c15Index(10, u2c15FeedOf(u2c15Chain(0, 30), map[uint64][]string{2: {"a"}, 22: {"a"}}), nil)
	r = u2c15Stream(t, u2c15Chain(0, 29), 5, 0, 0, nil, NewGenericBlockIndexProvider(st, "t", []uint64{10}, u2c15Keys("a")))
	t.Logf("index to 30, chain to 29, no stop: delivered %v end %s", r.deliv, r.end)
	u2c15Expect(t, "last bundle", r.deliv, []uint64{0, 2, 22, 25, 26, 27, 28, 29})
	u2c15Expect(t, "last bundle end", r.end, "wait:0000000030")
	// the index reaches beyond the merged files (index to 40, chain to 34): the trailing bundles without a match
	// are skipped and the source waits for the bundle before the end of the index
	st = u2c15Index(10, feed, nil)
	r = u2c15Stream(t, chain, 5, 0, 0, nil, NewGenericBlockIndexProvider(st, "t", []uint64{10}, u2c15Keys("a")))
	t.Logf("index to 40, chain to 34, no stop: delivered %v end %s", r.deliv, r.end)
	u2c15Expect(t, "index beyond chain", r.deliv, []uint64{0, 2, 22})
	u2c15Expect(t, "index beyond chain end", r.end, "wait:0000000035")
}

// Index sizes outside "index files larger than the bundle size" / not a multiple of it: the provider
// refuses, the file source falls back to unfiltered reading: no match is lost.
func TestU2_C15_SmallAndNonMultipleIndexSize(t *testing.T) {
	chain := u2c15Chain(0, 44)
	feed := u2c15FeedOf(u2c15Chain(0, 60), map[uint64][]string{3: {"a"}, 17: {"a"}, 33: {"a"}})
	// index size 5, bundle 10
	st := u2c15Index(5, feed, nil)
	prov := NewGenericBlockIndexProvider(st, "t", []uint64{5}, u2c15Keys("a"))
	_, err := prov.BlocksInRange(0, 10)
	t.Logf("index size 5, BlocksInRange(0,10): err = %v", err)
	if err == nil {
		t.Errorf("expected an error")
	}
	r := u2c15Stream(t, chain, 10, 0, 39, nil, prov)
	t.Logf("index size 5, bundle 10, start 0 stop 39: delivered %d blocks %v end %s", len(r.deliv), r.deliv, r.end)
	u2c15Expect(t, "size 5", r.deliv, u2c15Chain(0, 39))
	// index size 15, bundle 10: [0,10) answered from file [0,15); [10,20) straddles -> error -> fallback
	st = u2c15Index(15, feed, nil)
	prov = NewGenericBlockIndexProvider(st, "t", []uint64{15}, u2c15Keys("a"))
	r = u2c15Stream(t, chain, 10, 0, 39, nil, prov)
	t.Logf("index size 15, bundle 10, start 0 stop 39: delivered %v end %s", r.deliv, r.end)
	u2c15Expect(t, "size 15", r.deliv, append([]uint64{0, 3}, u2c15Chain(10, 39)...))
	// index size 15 with bundle 5 (a multiple): fully filtered
	prov = NewGenericBlockIndexProvider(st, "t", []uint64{15}, u2c15Keys("a"))
	r = u2c15Stream(t, chain, 5, 0, 39, nil, prov)
	t.Logf("index size 15, bundle 5, start 0 stop 39: delivered %v end %s", r.deliv, r.end)
	u2c15Expect(t, "size 15 bundle 5", r.deliv, []uint64{0, 3, 17, 33, 39})
}

// Hypotheses of c15_indexer: feed in ascending order; defined start block not above the first block.
func TestU2_C15_FeedOrderAndDefinedStart(t *testing.T) {
	// out of order across ranges: 0, 10, 5, 20
	st := u2c15Index(10, []u2c15Feed{{0, []string{"a"}}, {10, []string{"a"}}, {5, []string{"a"}}, {20, []string{"a"}}}, nil)
	files := u2c15Files(t, st)
	t.Logf("feed 0,10,5,20 size 10: files %v", files)
	u2c15Expect(t, "file [10,20)", files["0000000010.10.t.idx"]["a"], []uint64{5, 10})
	prov := NewGenericBlockIndexProvider(st, "t", []uint64{10}, u2c15Keys("a"))
	got, err := prov.BlocksInRange(0, 10)
	t.Logf("BlocksInRange(0,10) = %v, %v (block 5 was fed with key a)", got, err)
	u2c15Expect(t, "BlocksInRange(0,10)", got, []uint64{0})
	got, _ = prov.BlocksInRange(10, 10)
	u2c15Expect(t, "BlocksInRange(10,10)", got, []uint64{10})

	// duplicates and out of order inside one range are harmless
	st = u2c15Index(10, []u2c15Feed{{0, []string{"a"}}, {3, []string{"a"}}, {0, []string{"b"}}, {2, []string{"a", "a"}}, {3, []string{"a"}}, {10, nil}}, nil)
	files = u2c15Files(t, st)
	t.Logf("feed 0,3,0,2,3,10: files %v", files)
	u2c15Expect(t, "dups", files["0000000000.10.t.idx"], map[string][]uint64{"a": {0, 2, 3}, "b": {0}})

	// defined start block 10 above the first block 5: block 5 lands in file [10,20), no file [0,10)
	st = u2c15Index(10, []u2c15Feed{{5, []string{"a"}}, {10, []string{"a"}}, {12, []string{"a"}}, {20, []string{"a"}}}, nil, WithDefinedStartBlock(10))
	files = u2c15Files(t, st)
	t.Logf("defined start 10, feed 5,10,12,20: files %v", files)
	u2c15Expect(t, "defined start", files, map[string]map[string][]uint64{"0000000010.10.t.idx": {"a": {5, 10, 12}}})
	prov = NewGenericBlockIndexProvider(st, "t", []uint64{10}, u2c15Keys("a"))
	_, err = prov.BlocksInRange(0, 10)
	got, _ = prov.BlocksInRange(10, 10)
	t.Logf("BlocksInRange(0,10) err=%v ; BlocksInRange(10,10) = %v", err, got)
	if err == nil {
		t.Errorf("expected no index for [0,10)")
	}
	u2c15Expect(t, "BlocksInRange(10,10)", got, []uint64{10, 12})
}

// Hypothesis store_exact of c15_provider (every file of the store holds exactly the fed pairs of its
// range, for ONE feed) and prov_inv (the cache agrees with the store).
func TestU2_C15_StoreNotExact(t *testing.T) {
	keyed := map[uint64][]string{}
	for _, n := range []uint64{0, 3, 7, 10, 15, 20, 25, 30, 40} {
		keyed[n] = []string{"a"}
	}
	whole := u2c15FeedOf(u2c15Chain(0, 40), keyed)
	st := u2c15Index(10, whole, nil)
	// a second indexer of size 20 with defined start block 0, started at block 5 (e.g. restarted there)
	u2c15Index(20, whole[5:], st, WithDefinedStartBlock(0))
	files := u2c15Files(t, st)
	t.Logf("file [0,20) of the second indexer: %v ; file [0,10) of the first: %v", files["0000000000.20.t.idx"], files["0000000000.10.t.idx"])
	p1 := NewGenericBlockIndexProvider(st, "t", []uint64{20, 10}, u2c15Keys("a"))
	p2 := NewGenericBlockIndexProvider(st, "t", []uint64{10, 20}, u2c15Keys("a"))
	g1, _ := p1.BlocksInRange(0, 5)
	g2, _ := p2.BlocksInRange(0, 5)
	t.Logf("BlocksInRange(0,5): possible [20,10] -> %v ; possible [10,20] -> %v", g1, g2)
	u2c15Expect(t, "possible [20,10]", g1, []uint64(nil))
	u2c15Expect(t, "possible [10,20]", g2, []uint64{0, 3})

	// cache: the loaded file is replaced in the store, the provider keeps answering from its cache
	st.SetFile("0000000000.10.t.idx", nil) // an empty index file: no key
	g2, _ = p2.BlocksInRange(0, 5)
	g3, _ := NewGenericBlockIndexProvider(st, "t", []uint64{10, 20}, u2c15Keys("a")).BlocksInRange(0, 5)
	t.Logf("after replacing file [0,10) by an empty index: cached provider %v, fresh provider %v", g2, g3)
	u2c15Expect(t, "cached", g2, []uint64{0, 3})
	u2c15Expect(t, "fresh", g3, []uint64(nil))
}

// provider_ok (the answer of the provider is ascending): a user filterFunc that concatenates the
// arrays of two keys instead of OR-ing the bitmaps.
func TestU2_C15_UnsortedFilterFunc(t *testing.T) {
	chain := u2c15Chain(0, 24)
	feed := u2c15FeedOf(u2c15Chain(0, 30), map[uint64][]string{8: {"a"}, 6: {"b"}, 13: {"b"}, 11: {"a"}})
	st := u2c15Index(10, feed, nil)
	concat := func(g BitmapGetter) []uint64 {
		var out []uint64
		for _, k := range []string{"a", "b"} {
			if bm := g.Get(k); bm != nil {
				out = append(out, bm.ToArray()...)
			}
		}
		return out
	}
	prov := NewGenericBlockIndexProvider(st, "t", []uint64{10}, concat)
	got, _ := prov.BlocksInRange(5, 5)
	t.Logf("BlocksInRange(5,5) with a concatenating filterFunc = %v", got)
	u2c15Expect(t, "unsorted answer", got, []uint64{8, 6})
	r := u2c15Stream(t, chain, 5, 0, 24, nil, NewGenericBlockIndexProvider(st, "t", []uint64{10}, concat))
	t.Logf("stream start 0 stop 24 (matches 6 8 11 13): delivered %v end %s", r.deliv, r.end)
	u2c15Expect(t, "unsorted stream", r.deliv, []uint64{0, 8, 11, 13, 24})
}

// codec_ok is a Section hypothesis (protobuf + roaring64): probes of the real serialisation at
// corner points: a range without any key, the empty key, non-UTF-8 keys, a long key, block numbers
// above 2^32 and 2^63.
func TestU2_C15_CodecProbes(t *testing.T) {
	// a whole index range without any key: the file is written (empty), decodes, the provider answers "none"
	st := u2c15Index(10, []u2c15Feed{{0, nil}, {5, []string{}}, {10, []string{"a"}}, {20, nil}}, nil)
	files := u2c15Files(t, st)
	t.Logf("files: %v", files)
	u2c15Expect(t, "empty file", files, map[string]map[string][]uint64{"0000000000.10.t.idx": {}, "0000000010.10.t.idx": {"a": {10}}})
	prov := NewGenericBlockIndexProvider(st, "t", []uint64{10}, u2c15Keys("a"))
	got, err := prov.BlocksInRange(0, 10)
	t.Logf("BlocksInRange(0,10) over the empty file = %v, %v", got, err)
	if err != nil || got != nil {
		t.Errorf("expected nil, nil")
	}
	// odd keys and large numbers
	big := (uint64(1) << 40) / 10 * 10
	huge := (uint64(1)<<63 + 10) / 10 * 10
	long := string(bytes.Repeat([]byte("k"), 70000))
	keys := []string{"", "\xff\xfe", "a\x00b", long}
	for _, base := range []uint64{big, huge} {
		st = u2c15Index(10, []u2c15Feed{{base, keys}, {base + 3, []string{""}}, {base + 10, nil}}, nil)
		files = u2c15Files(t, st)
		name := toIndexFilename(10, base, "t")
		f := files[name]
		if f == nil {
			t.Fatalf("no file %s (files: %d)", name, len(files))
		}
		for _, k := range keys {
			want := []uint64{base}
			if k == "" {
				want = []uint64{base, base + 3}
			}
			u2c15Expect(t, fmt.Sprintf("key %.10q at base %d", k, base), f[k], want)
		}
		prov = NewGenericBlockIndexProvider(st, "t", []uint64{10}, u2c15Keys(""))
		got, err = prov.BlocksInRange(base, 10)
		t.Logf("base %d file %s: BlocksInRange(base,10) for the empty key = %v, %v", base, name, got, err)
		u2c15Expect(t, "empty key", got, []uint64{base, base + 3})
		prov = NewGenericBlockIndexProvider(st, "t", []uint64{10}, func(g BitmapGetter) []uint64 {
			if bm := g.GetByPrefixAndSuffix("\xff", "\xfe"); bm != nil {
				return bm.ToArray()
			}
			return nil
		})
		got, _ = prov.BlocksInRange(base, 5)
		u2c15Expect(t, "non-UTF-8 prefix/suffix", got, []uint64{base})
	}
}

// The sequential model does not contain goroutines.  FileSource.blockIndexProvider is written by the
// reader goroutine (launchReader sets it to nil when the index ends) and read without synchronisation by
// run() ("validateBlockOrder := s.blockIndexProvider == nil", evaluated once, AFTER "go s.launchReader()").
// If run() is delayed until the reader has already filtered the first bundle and dropped the provider at
// the second, run() validates parent links over a filtered (non-contiguous) bundle and fails with
// "found non-sequential blocks".  This stress test looks for that outcome; it logs how often it was seen.
func TestU2_C15_ProviderFieldRace(t *testing.T) {
	chain := u2c15Chain(0, 9)
	// index file [0,5) only: bundle [0,5) filtered to {0 (start), 3}, provider dropped at bundle 5
	st := u2c15Index(5, u2c15FeedOf(u2c15Chain(0, 5), map[uint64][]string{3: {"a"}}), nil)
	iters := 1000
	if testing.Short() {
		iters = 300
	}
	stopSpin := make(chan struct{})
	for i := 0; i < 16; i++ {
		go func() {
			for {
				select {
				case <-stopSpin:
					return
				default:
				}
			}
		}()
	}
	defer close(stopSpin)
	bad, other := 0, 0
	var firstBad string
	for i := 0; i < iters; i++ {
		r := u2c15Stream(t, chain, 5, 0, 9, nil, NewGenericBlockIndexProvider(st, "t", []uint64{5}, u2c15Keys("a")))
		if r.end == "stop" && reflect.DeepEqual(r.deliv, []uint64{0, 3, 5, 6, 7, 8, 9}) {
			continue
		}
		if len(r.end) > 4 && r.end[:4] == "err:" {
			bad++
			if firstBad == "" {
				firstBad = fmt.Sprintf("delivered %v end %s", r.deliv, r.end)
			}
		} else {
			other++
			t.Logf("unexpected run: delivered %v end %s", r.deliv, r.end)
		}
	}
	t.Logf("%d runs: %d ended with an error (first: %s), %d other deviations", iters, bad, firstBad, other)
}
