// package directory: blockstream; run: go test -vet=off -count=1 -run 'TestU2_C20_(Repush|TransientOversize|SubscribeDelaysProducer|MalformedBlock)' ./blockstream/
//
// U2 hypothesis audit, C20: hypotheses NoDup P (c20_nodup_needed), g_ppc = PIdle (c20_idle_needed),
// g_wlock = None (c20_wlock_free_needed), and the abstraction "a block is its id" (nil block, block
// without a valid timestamp).  All tests PASS and document the behaviour of the real code.
package blockstream

import (
	"fmt"
	"sync"
	"sync/atomic"
	"testing"
	"time"

	pbbstream "github.com/streamingfast/bstream/pb/sf/bstream/v1"
)

func u2c20Win(s *Server) (ids []uint64) {
	for _, b := range s.buffer.AllBlocks() {
		ids = append(ids, b.Number)
	}
	return
}

func u2c20Drain(sub *subscription) (ids []uint64) {
	for {
		select {
		case b, ok := <-sub.incomingBlock:
			if !ok {
				return
			}
			ids = append(ids, b.Number)
		default:
			return
		}
	}
}

// c20_nodup_needed on the real code: size 3, pushes 1,2,3,1,4.  The re-push of the still buffered
// block 1 is a no-op for the window (Buffer.AppendHead de-duplicates), it does not make 1 "recent":
// the push of 4 evicts 1 and keeps 2, although 1 was pushed after 2 and 3.  A subscriber asking for
// 3 blocks of burst gets 2,3,4 (the live subscriber did receive 1,2,3,1,4).
func TestU2_C20_RepushDoesNotRefresh(t *testing.T) {
	s := NewUnmanagedServer(ServerOptionWithBuffer(3))
	live := s.subscribe(0, "live")
	for _, i := range []int{1, 2, 3, 1, 4} {
		if err := s.PushBlock(u2c20Block(i)); err != nil {
			t.Fatal(err)
		}
	}
	win := u2c20Win(s)
	late := s.subscribe(3, "late")
	burst := u2c20Drain(late)
	got := u2c20Drain(live)
	t.Logf("size 3, pushes 1,2,3,1,4: window=%v Ready=%v; burst(3) of a new subscriber=%v; live subscriber received %v", win, s.Ready(), burst, got)
	if fmt.Sprint(win) != "[2 3 4]" || fmt.Sprint(burst) != "[2 3 4]" || fmt.Sprint(got) != "[1 2 3 1 4]" {
		t.Errorf("behaviour changed: window %v burst %v live %v", win, burst, got)
	}
	// the other duplicate kinds: duplicate of the head, duplicate of an evicted block
	s2 := NewUnmanagedServer(ServerOptionWithBuffer(3))
	var trace []string
	for _, i := range []int{1, 2, 3, 3, 4, 1, 1} {
		s2.PushBlock(u2c20Block(i))
		trace = append(trace, fmt.Sprintf("push %d -> %v", i, u2c20Win(s2)))
	}
	t.Logf("size 3: %v", trace)
	if fmt.Sprint(u2c20Win(s2)) != "[3 4 1]" {
		t.Errorf("behaviour changed: %v", u2c20Win(s2))
	}
	// same id, different content: the window keeps the FIRST block object, subscribers get the new one
	s3 := NewUnmanagedServer(ServerOptionWithBuffer(3))
	live3 := s3.subscribe(0, "live")
	s3.PushBlock(&pbbstream.Block{Id: "x", Number: 7, Timestamp: u2c20Time})
	s3.PushBlock(&pbbstream.Block{Id: "x", Number: 8, Timestamp: u2c20Time})
	t.Logf("same id \"x\" pushed with Number 7 then 8: window numbers=%v, live subscriber got numbers %v", u2c20Win(s3), u2c20Drain(live3))
}

// c20_idle_needed on the real code: between AppendHead and the eviction the buffer holds size+1
// blocks.  Not visible through subscribe (write lock) nor Ready(); visible to anything reading the
// Buffer directly (here s.buffer.Len(), what the hook VerifWindow does).
func TestU2_C20_TransientOversize(t *testing.T) {
	const size = 4
	s := NewUnmanagedServer(ServerOptionWithBuffer(size))
	var stop int32
	var over, samples, notReady int64
	var wg sync.WaitGroup
	for g := 0; g < 4; g++ {
		wg.Add(1)
		go func() {
			defer wg.Done()
			seenReady := false
			for atomic.LoadInt32(&stop) == 0 {
				n := s.buffer.Len()
				atomic.AddInt64(&samples, 1)
				if n > size {
					atomic.AddInt64(&over, 1)
				}
				r := s.Ready()
				if seenReady && !r {
					atomic.AddInt64(&notReady, 1)
				}
				seenReady = seenReady || r
			}
		}()
	}
	for i := 1; i <= 200000; i++ {
		s.PushBlock(u2c20Block(i))
	}
	atomic.StoreInt32(&stop, 1)
	wg.Wait()
	t.Logf("size %d, 200000 pushes, 4 pollers: %d samples of Buffer.Len(), %d saw size+1 blocks; Ready() flipped back to false %d times", size, samples, over, notReady)
	if notReady != 0 {
		t.Errorf("Ready() went back to false")
	}
}

// c20_wlock_free_needed on the real code: the producer waits while a client is inside subscribe
// (write lock held during AllBlocks + the burst loop).  The wait grows with the burst, i.e. with the
// buffer size chosen by the operator; it does not depend on any consumer.
func TestU2_C20_SubscribeDelaysProducer(t *testing.T) {
	for _, size := range []int{100, 200000} {
		s := NewUnmanagedServer(ServerOptionWithBuffer(size))
		for i := 1; i <= size; i++ {
			s.PushBlock(u2c20Block(i))
		}
		// baseline
		var base time.Duration
		for i := 0; i < 2000; i++ {
			t0 := time.Now()
			s.PushBlock(u2c20Block(size + 1 + i))
			if d := time.Since(t0); d > base {
				base = d
			}
		}
		var stop int32
		var nsubs int64
		var wg sync.WaitGroup
		wg.Add(1)
		go func() {
			defer wg.Done()
			for atomic.LoadInt32(&stop) == 0 {
				sub := s.subscribe(size, "burst")
				atomic.AddInt64(&nsubs, 1)
				s.unsubscribe(sub)
			}
		}()
		var worst time.Duration
		deadline := time.Now().Add(1500 * time.Millisecond)
		n := 0
		for time.Now().Before(deadline) {
			t0 := time.Now()
			s.PushBlock(u2c20Block(size + 5000 + n))
			if d := time.Since(t0); d > worst {
				worst = d
			}
			n++
		}
		atomic.StoreInt32(&stop, 1)
		wg.Wait()
		t.Logf("buffer size %d: worst PushBlock latency alone = %v; with one client looping subscribe(burst=%d)/unsubscribe (%d subscribes): worst = %v, mean = %v over %d pushes",
			size, base, size, nsubs, worst, 1500*time.Millisecond/time.Duration(n), n)
	}
}

// the models identify a block with its id; the real PushBlock dereferences the block and calls
// blk.Time(), which panics on a missing / invalid timestamp: PushBlock panics instead of returning
// its error.  The deferred RUnlock runs, nothing was buffered or fanned out, the server stays usable.
func TestU2_C20_MalformedBlock(t *testing.T) {
	s := NewUnmanagedServer(ServerOptionWithBuffer(3))
	sub := s.subscribe(0, "x")
	p1 := u2c20Push(s, nil)
	p2 := u2c20Push(s, &pbbstream.Block{Id: "a", Number: 1})
	p3 := u2c20Push(s, &pbbstream.Block{Id: "", Number: 2, Timestamp: u2c20Time})
	p4 := u2c20Push(s, &pbbstream.Block{Id: "", Number: 3, Timestamp: u2c20Time})
	t.Logf("PushBlock(nil): panic=%q", p1)
	t.Logf("PushBlock(block without timestamp): panic=%q", p2)
	t.Logf("two blocks with the empty id: panic=%q,%q window=%v (second one de-duplicated), subscriber got %v", p3, p4, u2c20Win(s), u2c20Drain(sub))
	if p1 == "" || p2 == "" {
		t.Errorf("behaviour changed: expected panics, got %q %q", p1, p2)
	}
	if s2 := s.subscribe(1, "after"); s2 == nil {
		t.Errorf("server unusable after the recovered panics")
	}
}
