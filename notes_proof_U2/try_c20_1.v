From BV Require Import Base.Prelude Model.BlockServer Model.BlockServerSched Spec.C20_Spec Spec.C20_SchedSpec.
Local Open Scope Z_scope.

Definition ops1 : list op := [OPush 1; OPush 2; OPush 3; OPush 1; OPush 4]%N.
Eval vm_compute in (window (final true 3 ops1), lastz 3 (pushes_of ops1), ready (final true 3 ops1)).
Eval vm_compute in (window (final true 0 [OPush 1%N]), window (final true (-1) [OPush 1%N]), ready (final true 0 [])).
Eval vm_compute in (ref_sub 0 (mkView [] [1%N] false) []).
Definition st6 := crun (cinit true 1 [1;2]%N []) [TProd;TProd;TProd;TProd;TProd;TProd].
Eval vm_compute in (g_ppc st6, cwindow st6, spec_window 1 (g_pushed st6), cready st6).
Definition stw := crun (cinit true 1 [1]%N [0]) [TClient 0].
Eval vm_compute in (g_ppc stw, g_script stw, g_wlock stw, prod_enabled stw).
Eval vm_compute in (chan_send (new_sub 1) 1%N).
(* duplicates of head/old/evicted *)
Eval vm_compute in (window (final true 3 [OPush 1; OPush 2; OPush 3; OPush 3; OPush 1; OPush 4; OPush 1]%N)).
(* size 1 *)
Eval vm_compute in (window (final true 1 [OPush 1; OPush 1; OPush 2; OPush 1]%N)).
(* subs with attach 0 / 1 *)
Eval vm_compute in (let sv := final true 2 [OAttach 0; OAttach 1; OPush 1; OPush 2; OPush 3]%N in
  (map (fun s => (s_q s, s_chclosed s, s_ncloses s)) (sv_subs sv), trace true 2 [OAttach 0; OAttach 1; OPush 1; OPush 2; OPush 3]%N)).
Eval vm_compute in (trace true 3 [OPush 1; OSubscribe (-9223372036854775808); OSubscribe 9223372036854775807; OSubscribe (2^64); OSubscribe (-(2^64))]%N).
