// package directory: . ; run: go test -vet=off -count=1 -run 'TestU2_C11_BoundaryTruncation' ./
// NEEDS u2_c11_env_probes_test.go in the same package (helpers u2env*: store with fault injection, recorder).
//
// U2 audit of C11, hypothesis behind the fault class FRead i k: "a damaged / truncated bundle makes SOME Read
// return an error".  A merged-blocks bundle cut exactly between two dbin messages (or right after its header)
// makes no Read fail: it reads as a clean, shorter bundle (dbin has no trailer / message count).
// Observed (asserted, the test PASSES):
//   - cut in a bundle that is followed by another one: the run stops with "non-sequential blocks" naming the
//     NEXT bundle as the one to reprocess (already a corpus case of the C11 harness);
//   - cut in the LAST bundle before the stop block: the run ends with "stop block reached" although the
//     blocks after the cut, up to the stop block, were never delivered: silent loss, no error.
package bstream

import (
	"errors"
	"testing"
	"time"

	"github.com/stretchr/testify/require"
)

func TestU2_C11_BoundaryTruncation(t *testing.T) {
	cases := []struct {
		name     string
		cutFile  string
		keepMsgs int
		chain    [2]uint64
		want     []uint64
		wantErr  string
	}{
		{"cut after block 2 in bundle 0 (bundles 5 and 10 follow)", base(0), 2, [2]uint64{1, 4}, []uint64{1, 2}, "non-sequential"},
		{"cut after block 11 in the last bundle (stop block 12)", base(10), 2, [2]uint64{10, 12}, []uint64{1, 2, 3, 4, 5, 6, 7, 8, 9, 10, 11}, "stop block reached"},
		{"last bundle cut right after its header (stop block 12)", base(10), 0, [2]uint64{10, 12}, []uint64{1, 2, 3, 4, 5, 6, 7, 8, 9}, "stop block reached"},
	}
	for _, c := range cases {
		s := u2envNewStore()
		blocks := u2envChain(c.chain[0], c.chain[1])
		full := testBlocks(blocks...)
		cut := u2envMsgOffset(blocks, 0)
		if c.keepMsgs > 0 {
			cut = len(testBlocks(blocks[:c.keepMsgs]...))
		}
		s.content[c.cutFile] = full[:cut]
		rec := u2envNewRec()
		fs := NewFileSource(s, 1, rec, zlog, FileSourceWithBundleSize(5), FileSourceWithStopBlock(12))
		require.True(t, u2envRun(fs, rec, 3*time.Second))
		t.Logf("%s: Err=%v delivered=%v", c.name, fs.Err(), rec.seen())
		require.Equal(t, c.want, rec.seen())
		require.Contains(t, fs.Err().Error(), c.wantErr)
		if c.wantErr == "stop block reached" {
			require.True(t, errors.Is(fs.Err(), ErrStopBlockReached))
		} else {
			require.Contains(t, fs.Err().Error(), `reprocess "0000000005"`)
		}
	}
}
