// package directory: . ; run: go test -vet=off -count=1 -tags verif -run 'TestU2_C12_MuxFail' ./   (needs u2_c12_helpers_test.go, u2_c12_mux_test.go)

//go:build verif

package bstream

import (
	"sync/atomic"
	"testing"
	"time"

	pbbstream "github.com/streamingfast/bstream/pb/sf/bstream/v1"
)

// Coq witness c12_mx_inner_returned_needed_fail replayed with the verif schedule points.
// "shuts down all its inner sources when the handler fails": source 0's handler call FAILS; its goroutine performs the
// whole Shutdown (both inner sources shut down, Terminated), Run returns.  Source 1 was waiting for handlerLock inside
// the wrapper: it obtains the lock when source 0 unlocks; its goroutine is paused at the schedule point
// `mux.handler_locked` (a pure scheduling delay) until the source is Terminated and Run has returned, and then the user
// handler is called with source 1's block.  PASSES asserting this observation.
func TestU2_C12_MuxFail_HandlerCalledAfterFailureShutdown(t *testing.T) {
	old := sourceReconnectDelay
	sourceReconnectDelay = 10 * time.Millisecond
	defer func() { sourceReconnectDelay = old }()

	log := &u2c12Log{}
	var mux *MultiplexedSource
	var runReturned int32
	var lockedPassages int32
	inFirst := make(chan struct{})
	release := make(chan struct{})
	SetVerifHook(func(name string) {
		if name == "mux.handler_locked" && atomic.AddInt32(&lockedPassages, 1) == 2 {
			// 2nd acquisition of handlerLock = source 1's goroutine: delay it until Terminated and Run returned
			for i := 0; i < 5000 && !(mux.IsTerminated() && atomic.LoadInt32(&runReturned) == 1); i++ {
				time.Sleep(time.Millisecond)
			}
		}
	})
	defer SetVerifHook(nil)

	h := HandlerFunc(func(blk *pbbstream.Block, obj interface{}) error {
		log.add("begin %s terminated=%v runReturned=%v", blk.Id, mux.IsTerminated(), atomic.LoadInt32(&runReturned) == 1)
		if blk.Id == "00000001a" {
			close(inFirst)
			<-release
			log.add("end %s with ERROR", blk.Id)
			return errU2C12Handler
		}
		log.add("end %s", blk.Id)
		return nil
	})
	env := &u2c12MuxEnv{}
	mux = NewMultiplexedSource([]SourceFactory{env.factory("s0"), env.factory("s1")}, h)
	runDone, _ := u2c12RunIn(func() { mux.Run(); atomic.StoreInt32(&runReturned, 1); log.add("Run returned") })
	s0, s1 := env.get(0), env.get(1)
	u2c12Wait(t, "s0 started", s0.started, 2*time.Second)
	u2c12Wait(t, "s1 started", s1.started, 2*time.Second)
	s0.blocks <- u2c12Blk(1, "a")
	u2c12Wait(t, "1st handler call entered", inFirst, 2*time.Second)
	s1.blocks <- u2c12Blk(2, "b")
	time.Sleep(50 * time.Millisecond) // s1 waits for handlerLock
	close(release)                    // the 1st handler call fails
	if !u2c12Wait(t, "Run returns", runDone, 3*time.Second) {
		t.Fatal("Run did not return")
	}
	u2c12Wait(t, "s0.Run returns", s0.returned, 2*time.Second)
	u2c12Wait(t, "s1.Run returns", s1.returned, 6*time.Second)
	for _, e := range log.snapshot() {
		t.Logf("  %s", e)
	}
	t.Logf("mux.Err()=%v terminated=%v s0.terminating=%v s1.terminating=%v", mux.Err(), mux.IsTerminated(), s0.IsTerminating(), s1.IsTerminating())
	iFail, iLate := log.index("end 00000001a with ERROR"), log.index("begin 00000002b terminated=true runReturned=true")
	if iFail < 0 || iLate < iFail {
		t.Fatalf("expected observation not made (late call after failure, Terminated and Run returned)")
	}
	t.Logf("OBSERVED: after the handler FAILED on 00000001a and the source shut itself down (Terminated, Run returned), the user handler is called with 00000002b")
}
