// package directory: . (repo root, package bstream); run: go test -vet=off -count=1 -run 'TestU2_C16_(Name|Fetch|Merged|Dbin)' ./
package bstream

// U2 hypothesis audit, property C16: one-block file names (hypothesis name_ok), the fetchers'
// assumptions about the store (hypothesis stored_ok, "intact store", listing order, what the
// theorem c16_fetch does NOT promise: equality of the id), merged-store fetch (not modelled),
// and the 4 GiB message bound of `writable` at the dbin level.

import (
	"bytes"
	"context"
	"fmt"
	"math"
	"math/rand"
	"strings"
	"testing"
	"time"

	pbbstream "github.com/streamingfast/bstream/pb/sf/bstream/v1"
	"github.com/streamingfast/dbin"
	"github.com/streamingfast/dstore"
	"google.golang.org/protobuf/proto"
	"google.golang.org/protobuf/types/known/anypb"
)

func u2c16Blk(num uint64, id, parent string, lib uint64) *pbbstream.Block {
	pn := num - 1
	if num == 0 {
		pn = 0
	}
	return &pbbstream.Block{Number: num, Id: id, ParentId: parent, LibNum: lib, ParentNum: pn,
		Payload: &anypb.Any{TypeUrl: "type.googleapis.com/t.Block", Value: []byte(id)}}
}

func u2c16File(t *testing.T, bs ...*pbbstream.Block) []byte {
	var buf bytes.Buffer
	w, _ := NewDBinBlockWriter(&buf)
	for _, b := range bs {
		if err := w.Write(b); err != nil {
			t.Fatalf("write: %v", err)
		}
	}
	return buf.Bytes()
}

// ---------------------------------------------------------------- names

func TestU2_C16_NameRoundTripPoints(t *testing.T) {
	hex20 := "0123456789abcdef0123"
	type pt struct {
		name               string
		num                uint64
		id, parent         string
		lib                uint64
		suffix             string
		want               string // "same" | "error" | "ALTERED"
		wantID, wantParent string // expected parsed id/parent when "same"
	}
	pts := []pt{
		{"ordinary 64-hex id", 101, strings.Repeat("ab", 32), strings.Repeat("cd", 32), 100, "generated", "same", strings.Repeat("ab", 8), strings.Repeat("cd", 8)},
		{"20-char id", 5, hex20, "p", 3, "x", "same", "456789abcdef0123", "p"},
		{"16-char id", 5, "0123456789abcdef", "0123456789abcdef", 3, "x", "same", "0123456789abcdef", "0123456789abcdef"},
		{"15-char id", 5, "0123456789abcde", "", 3, "x", "same", "0123456789abcde", ""},
		{"empty id and parent", 5, "", "", 3, "x", "same", "", ""},
		{"uppercase / non-hex id", 5, "XYZ_q.~ /", "ÅÅ", 3, "x", "same", "XYZ_q.~ /", "ÅÅ"},
		{"height 2^32", 1 << 32, "a", "b", 1<<32 - 1, "x", "same", "a", "b"},
		{"height 10^10 (11 digits)", 10000000000, "a", "b", 9999999999, "x", "same", "a", "b"},
		{"height 2^63", 1 << 63, "a", "b", 1 << 63, "x", "same", "a", "b"},
		{"height 2^64-1, lib 2^64-1", math.MaxUint64, "a", "b", math.MaxUint64, "x", "same", "a", "b"},
		{"lib above number", 5, "a", "b", 999, "x", "same", "a", "b"},
		{"missing suffix (empty)", 5, "a", "b", 3, "", "same", "a", "b"},
		{"suffix with dots", 5, "a", "b", 3, "mindreader.1.dbin.zst", "same", "a", "b"},
		{"dash BEFORE the last 16 bytes of the id", 5, "xx-x0123456789abcdef", "b", 3, "x", "same", "0123456789abcdef", "b"},
		// name_ok violated: a '-' inside what is written between the dashes
		{"dash inside the last 16 bytes of the id", 5, "0123-56789abcdef", "b", 3, "x", "error", "", ""},
		{"id is a single dash", 5, "-", "b", 3, "x", "error", "", ""},
		{"dash in the parent id", 5, "a", "b-c", 3, "x", "error", "", ""},
		{"dash in the suffix", 5, "a", "b", 3, "mindreader-1", "error", "", ""},
		{"id = 'a-b' AND empty parent (still 6 segments)", 5, "a-b", "", 3, "", "error", "", ""},
		// 16 BYTES, not 16 characters: a multi-byte id is cut in the middle of a rune
		{"non-ASCII id of 12 two-byte runes (24 bytes)", 5, strings.Repeat("é", 12), "b", 3, "x", "same", strings.Repeat("é", 8), "b"},
		{"non-ASCII id cut inside a rune (a + 8 x 2 bytes = 17 bytes)", 5, "a" + strings.Repeat("é", 8), "b", 3, "x", "same", ("a" + strings.Repeat("é", 8))[1:], "b"},
		{"3-byte runes: 6 x 3 = 18 bytes, cut after the 2nd byte of the first rune", 5, strings.Repeat("日", 6), "b", 3, "x", "same", strings.Repeat("日", 6)[2:], "b"},
	}
	for _, p := range pts {
		b := u2c16Blk(p.num, p.id, p.parent, p.lib)
		name := BlockFileNameWithSuffix(b, p.suffix)
		num, id, prev, lib, canon, err := ParseFilename(name)
		obs := "same"
		switch {
		case err != nil:
			obs = "error"
		case num != p.num || lib != p.lib || id != p.wantID || prev != p.wantParent || id != TruncateBlockID(p.id) || prev != TruncateBlockID(p.parent):
			obs = "ALTERED"
		}
		if obs == "same" && canon != strings.TrimSuffix(name, "-"+p.suffix) {
			obs = "ALTERED(canonical name)"
		}
		t.Logf("%-75s name %q -> %s (err=%v) [parsed id %q: %d bytes, %d runes]", p.name, name, obs, err, id, len(id), len([]rune(id)))
		if obs != p.want {
			t.Errorf("%s: observed %s, recorded expectation %s", p.name, obs, p.want)
		}
	}
}

// every file name string: never a panic; success implies 5 segments, decimal numbers that print back (modulo leading zeros)
func TestU2_C16_NameParseFuzz(t *testing.T) {
	r := rand.New(rand.NewSource(16))
	alpha := []string{"0", "1", "9", "-", "-", "a", "+", " ", "_", ".", "x", "18446744073709551615", "18446744073709551616", "\x00", "é", "0x", "e", "٣"}
	ok, bad := 0, 0
	for i := 0; i < 200000; i++ {
		var sb strings.Builder
		for j, n := 0, r.Intn(12); j < n; j++ {
			sb.WriteString(alpha[r.Intn(len(alpha))])
		}
		s := sb.String()
		func() {
			defer func() {
				if p := recover(); p != nil {
					t.Fatalf("ParseFilename(%q) panicked: %v", s, p)
				}
			}()
			num, id, prev, lib, canon, err := ParseFilename(s)
			if err != nil {
				bad++
				return
			}
			ok++
			parts := strings.Split(s, "-")
			if len(parts) != 5 || parts[1] != id || parts[2] != prev || canon != strings.Join(parts[:4], "-") ||
				strings.TrimLeft(parts[0], "0") != strings.TrimLeft(fmt.Sprint(num), "0") || strings.TrimLeft(parts[3], "0") != strings.TrimLeft(fmt.Sprint(lib), "0") {
				t.Errorf("ParseFilename(%q) = %d %q %q %d %q: not the name's own segments", s, num, id, prev, lib, canon)
			}
		}()
	}
	t.Logf("200000 random names: %d parsed, %d refused, no panic, every success returns the name's own segments", ok, bad)
	if ok == 0 {
		t.Errorf("generator never produced a parsable name")
	}
}

// ---------------------------------------------------------------- fetch from a one-block store

func u2c16Put(t *testing.T, store *dstore.MockStore, b *pbbstream.Block, suffix string) string {
	name := BlockFileNameWithSuffix(b, suffix)
	store.SetFile(name, u2c16File(t, b))
	return name
}

func u2c16Fetch(store dstore.Store, num uint64, id string) string {
	var res string
	func() {
		defer func() {
			if p := recover(); p != nil {
				res = fmt.Sprintf("PANIC %v", p)
			}
		}()
		blk, err := FetchBlockFromOneBlockStore(context.Background(), num, id, store)
		switch {
		case err == dstore.ErrNotFound:
			res = "not-found"
		case err != nil:
			res = "error: " + err.Error()
		case blk == nil:
			res = "(nil, nil)"
		default:
			res = fmt.Sprintf("block #%d id=%q", blk.Number, blk.Id)
		}
	}()
	return res
}

func TestU2_C16_FetchStoreAssumptions(t *testing.T) {
	check := func(label, got, want string) {
		t.Helper()
		t.Logf("%-95s -> %s", label, got)
		if got != want {
			t.Errorf("%s: observed %q, recorded expectation %q", label, got, want)
		}
	}
	long := func(prefix string) string { return prefix + "00000000deadbeefcafe0005" } // ids that share their last 16 characters

	// (a) id shorter than 16: a longer requested id that merely ENDS with it matches
	s := dstore.NewMockStore(nil)
	u2c16Put(t, s, u2c16Blk(5, "b", "a", 3), "x")
	check("(a) store {#5 id \"b\"}; fetch (5, \"b\")", u2c16Fetch(s, 5, "b"), `block #5 id="b"`)
	check("(a) store {#5 id \"b\"}; fetch (5, \"ab\")   [another id]", u2c16Fetch(s, 5, "ab"), `block #5 id="b"`)
	check("(a) store {#5 id \"b\"}; fetch (5, \"0123456789abcdef0b\")   [another id]", u2c16Fetch(s, 5, "0123456789abcdef0b"), `block #5 id="b"`)

	// (b) empty id in the store matches EVERY requested id
	s = dstore.NewMockStore(nil)
	u2c16Put(t, s, u2c16Blk(5, "", "a", 3), "x")
	check("(b) store {#5 id \"\"}; fetch (5, \"ffffffffffffffffffff\")   [another id]", u2c16Fetch(s, 5, "ffffffffffffffffffff"), `block #5 id=""`)

	// (c) two blocks of one height whose ids share their last 16 characters (different parents => two files)
	s = dstore.NewMockStore(nil)
	idA, idB := long("aaaaaaaa"), long("bbbbbbbb")
	nA := u2c16Put(t, s, u2c16Blk(5, idA, "parentA", 3), "x")
	nB := u2c16Put(t, s, u2c16Blk(5, idB, "parentB", 3), "x")
	t.Logf("(c) file names: %q and %q", nA, nB)
	check("(c) fetch (5, idA)", u2c16Fetch(s, 5, idA), fmt.Sprintf("block #5 id=%q", idA))
	check("(c) fetch (5, idB)   [returns the OTHER block]", u2c16Fetch(s, 5, idB), fmt.Sprintf("block #5 id=%q", idA))
	// same ids AND same parent, lib, suffix: one file name, the second write replaces the first
	s = dstore.NewMockStore(nil)
	u2c16Put(t, s, u2c16Blk(5, idA, "p", 3), "x")
	u2c16Put(t, s, u2c16Blk(5, idB, "p", 3), "x")
	check("(c') same name for both blocks; fetch (5, idA)   [file now holds B]", u2c16Fetch(s, 5, idA), fmt.Sprintf("block #5 id=%q", idB))

	// (d) several files for the same block (two suffixes) and forks at one height with distinct ids
	s = dstore.NewMockStore(nil)
	id1, id2 := "11111111aaaaaaaa00000001", "22222222bbbbbbbb00000002"
	u2c16Put(t, s, u2c16Blk(5, id1, "p", 3), "reader1")
	u2c16Put(t, s, u2c16Blk(5, id1, "p", 3), "reader2")
	u2c16Put(t, s, u2c16Blk(5, id2, "p", 3), "reader1")
	u2c16Put(t, s, u2c16Blk(6, id2, id1, 3), "reader1") // the same id again at the next height
	check("(d) forks + duplicates; fetch (5, id1)", u2c16Fetch(s, 5, id1), fmt.Sprintf("block #5 id=%q", id1))
	check("(d) forks + duplicates; fetch (5, id2)", u2c16Fetch(s, 5, id2), fmt.Sprintf("block #5 id=%q", id2))
	check("(d) forks + duplicates; fetch (6, id2)", u2c16Fetch(s, 6, id2), fmt.Sprintf("block #6 id=%q", id2))
	check("(d) forks + duplicates; fetch (6, id1)", u2c16Fetch(s, 6, id1), "not-found")
	check("(d) fetch (5, only the last 16 characters of id1)", u2c16Fetch(s, 5, id1[len(id1)-16:]), fmt.Sprintf("block #5 id=%q", id1))
	check("(d) fetch (5, the last 15 characters of id1)", u2c16Fetch(s, 5, id1[len(id1)-15:]), "not-found")
	check("(d) fetch (5, uppercase id1)", u2c16Fetch(s, 5, strings.ToUpper(id1)), "not-found")
	check("(d) fetch (5, \"0x\"+id1)", u2c16Fetch(s, 5, "0x"+id1), fmt.Sprintf("block #5 id=%q", id1))

	// (e) a stored block whose id has a dash in its last 16 characters is invisible
	s = dstore.NewMockStore(nil)
	u2c16Put(t, s, u2c16Blk(5, "0123-56789abcdef", "p", 3), "x")
	check("(e) store {#5 id with dash}; fetch (5, that id)", u2c16Fetch(s, 5, "0123-56789abcdef"), "not-found")

	// (f) heights of 11 and more digits, 2^64-1 (num+1 wraps to 0 = 'no upper bound')
	s = dstore.NewMockStore(nil)
	for _, n := range []uint64{999999999, 1000000000, 9999999999, 10000000000, 10000000001, 100000000000, math.MaxUint64 - 1, math.MaxUint64} {
		u2c16Put(t, s, u2c16Blk(n, fmt.Sprintf("%024x", n), "p", 3), "x")
	}
	for _, n := range []uint64{999999999, 1000000000, 9999999999, 10000000000, 10000000001, 100000000000, math.MaxUint64 - 1, math.MaxUint64} {
		check(fmt.Sprintf("(f) mixed-width store; fetch (%d, its id)", n), u2c16Fetch(s, n, fmt.Sprintf("%024x", n)), fmt.Sprintf("block #%d id=%q", n, fmt.Sprintf("%024x", n)))
	}
	check("(f) mixed-width store; fetch (2^64-1, id of 2^64-2)", u2c16Fetch(s, math.MaxUint64, fmt.Sprintf("%024x", uint64(math.MaxUint64-1))), "not-found")

	// (g) name and content disagree (a store not written from blocks): the CONTENT is returned unchecked
	s = dstore.NewMockStore(nil)
	s.SetFile(BlockFileNameWithSuffix(u2c16Blk(5, id1, "p", 3), "x"), u2c16File(t, u2c16Blk(77, id2, "q", 70)))
	check("(g) file named after (#5,id1) holding block (#77,id2); fetch (5, id1)", u2c16Fetch(s, 5, id1), fmt.Sprintf("block #77 id=%q", id2))

	// (h) one-block file cut exactly at the end of its header (a truncation point of the encoded file): (nil, nil)
	s = dstore.NewMockStore(nil)
	full := u2c16File(t, u2c16Blk(5, id1, "p", 3))
	hdrLen := 7 + len("type.googleapis.com/t.Block")
	name := BlockFileNameWithSuffix(u2c16Blk(5, id1, "p", 3), "x")
	outcomes := map[string]int{}
	for cut := 0; cut < len(full); cut++ {
		s.SetFile(name, full[:cut])
		r := u2c16Fetch(s, 5, id1)
		switch {
		case strings.HasPrefix(r, "error"):
			outcomes["error"]++
		default:
			outcomes[fmt.Sprintf("%s (cut %d)", r, cut)]++
		}
	}
	t.Logf("(h) every truncation point of a one-block file of %d bytes (header %d): %v", len(full), hdrLen, outcomes)
	s.SetFile(name, full[:hdrLen])
	check("(h) one-block file cut right after its header; fetch (5, id1)", u2c16Fetch(s, 5, id1), "(nil, nil)")
	if len(outcomes) != 2 || outcomes[fmt.Sprintf("(nil, nil) (cut %d)", hdrLen)] != 1 {
		t.Errorf("(h) unexpected outcome set %v", outcomes)
	}

	// (h') the same file through the one-blocks source: the handler receives a nil block
	var got []*pbbstream.Block
	src, err := NewOneBlocksSource(5, s, HandlerFunc(func(blk *pbbstream.Block, _ interface{}) error { got = append(got, blk); return nil }))
	if err != nil {
		t.Fatal(err)
	}
	src.Run()
	t.Logf("(h') NewOneBlocksSource over the header-only file: handler called %d time(s), block == nil: %v, source error: %v", len(got), len(got) == 1 && got[0] == nil, src.Err())
	if len(got) != 1 || got[0] != nil {
		t.Errorf("(h') observation changed")
	}

	// (i) FetchBlockMetaFromOneBlockStore on a MODERN block whose parent number is 0 and height > 15: error, neither the block nor not-found
	s = dstore.NewMockStore(nil)
	b := u2c16Blk(16, id1, "genesis", 0)
	b.ParentNum = 0
	u2c16Put(t, s, b, "x")
	meta, err := FetchBlockMetaFromOneBlockStore(context.Background(), 16, id1, s)
	t.Logf("(i) modern block #16 with parent_num 0: FetchBlockMetaFromOneBlockStore -> meta=%v err=%v", meta, err)
	if meta != nil || err == nil || err == dstore.ErrNotFound {
		t.Errorf("(i) observation changed")
	}
	check("(i) the same block through FetchBlockFromOneBlockStore", u2c16Fetch(s, 16, id1), fmt.Sprintf("block #16 id=%q", id1))
}

// ---------------------------------------------------------------- fetch from a merged store

func u2c16MergedFetch(store dstore.Store, num uint64, wait time.Duration) string {
	done := make(chan string, 1)
	ctx, cancel := context.WithTimeout(context.Background(), wait/2) // the context expires long before the watchdog
	defer cancel()
	go func() {
		defer func() {
			if p := recover(); p != nil {
				done <- fmt.Sprintf("PANIC %v", p)
			}
		}()
		blk, err := FetchBlockFromMergedBlocksStore(ctx, num, store)
		switch {
		case err == dstore.ErrNotFound:
			done <- "not-found"
		case err != nil:
			done <- "error: " + err.Error()
		default:
			done <- fmt.Sprintf("block #%d id=%q", blk.Number, blk.Id)
		}
	}()
	select {
	case r := <-done:
		return r
	case <-time.After(wait):
		return "HANG"
	}
}

func u2c16Chain(from, to uint64, tag string) []*pbbstream.Block {
	var out []*pbbstream.Block
	prev := ""
	for i := uint64(0); i <= to-from; i++ { // no overflow when to = 2^64-1
		n := from + i
		id := fmt.Sprintf("%s%08x", tag, n)
		out = append(out, u2c16Blk(n, id, prev, 0))
		prev = id
	}
	return out
}

func TestU2_C16_MergedFetchPoints(t *testing.T) {
	check := func(label, got, want string) {
		t.Helper()
		t.Logf("%-100s -> %s", label, got)
		if got != want {
			t.Errorf("%s: observed %q, recorded expectation %q", label, got, want)
		}
	}
	s := dstore.NewMockStore(nil)
	s.SetFile("0000000000", u2c16File(t, u2c16Chain(0, 99, "a")...))
	s.SetFile("0000000100", u2c16File(t, u2c16Chain(100, 150, "a")...))
	check("bundles 0..99, 100..150; fetch 42", u2c16MergedFetch(s, 42, 3*time.Second), `block #42 id="a0000002a"`)
	check("bundles 0..99, 100..150; fetch 0", u2c16MergedFetch(s, 0, 3*time.Second), `block #0 id="a00000000"`)
	check("bundles 0..99, 100..150; fetch 150 (last block of the store)", u2c16MergedFetch(s, 150, 3*time.Second), `block #150 id="a00000096"`)
	check("bundles 0..99, 100..150; fetch 170 (bundle exists, block does not)", u2c16MergedFetch(s, 170, 3*time.Second), "not-found")
	// the bundle that would hold the block does not exist: the file source polls for it forever; the context is ignored
	check("bundles 0..99, 100..150; fetch 250 (no bundle 0000000200), ctx of 5 s, watchdog of 10 s", u2c16MergedFetch(s, 250, 10*time.Second), "HANG")
	check("EMPTY merged store; fetch 5, ctx of 5 s, watchdog of 10 s", u2c16MergedFetch(dstore.NewMockStore(nil), 5, 10*time.Second), "HANG")

	// a bundle that holds two blocks of the requested height (a fork kept in the merged file): the first one wins (no id parameter)
	s = dstore.NewMockStore(nil)
	bs := u2c16Chain(0, 5, "a")
	fork := u2c16Blk(5, "forked05", bs[4].Id, 0)
	s.SetFile("0000000000", u2c16File(t, append(bs, fork)...))
	check("bundle 0..5 + forked #5; fetch 5", u2c16MergedFetch(s, 5, 3*time.Second), `block #5 id="a00000005"`)

	// heights at the top of uint64
	s = dstore.NewMockStore(nil)
	top := uint64(math.MaxUint64)
	base := top - top%100
	s.SetFile(fmt.Sprintf("%010d", base), u2c16File(t, u2c16Chain(base, top, "t")...))
	check("bundle 18446744073709551600..2^64-1; fetch 2^64-1", u2c16MergedFetch(s, top, 3*time.Second), fmt.Sprintf("block #%d id=%q", top, fmt.Sprintf("t%08x", top)))
	check("bundle 18446744073709551600..2^64-1; fetch 2^64-16", u2c16MergedFetch(s, top-15, 3*time.Second), fmt.Sprintf("block #%d id=%q", top-15, fmt.Sprintf("t%08x", top-15)))
	// the last bundle of the number space without the requested block: the next base wraps to 84, which is not above the stop block
	s = dstore.NewMockStore(nil)
	s.SetFile(fmt.Sprintf("%010d", base), u2c16File(t, u2c16Chain(base, top-1, "t")...))
	check("bundle 18446744073709551600..2^64-2; fetch 2^64-1 (absent), watchdog of 10 s", u2c16MergedFetch(s, top, 10*time.Second), "HANG")
}

// ---------------------------------------------------------------- the 4 GiB bound of `writable`, at the dbin level

type u2c16HeadWriter struct {
	head  []byte
	total uint64
}

func (w *u2c16HeadWriter) Write(p []byte) (int, error) {
	if len(w.head) < 16 {
		n := 16 - len(w.head)
		if n > len(p) {
			n = len(p)
		}
		w.head = append(w.head, p[:n]...)
	}
	w.total += uint64(len(p))
	return len(p), nil
}

// dbin.Writer.WriteMessage(msg) with len(msg) = 2^32+10: no error, the 4-byte length prefix says 10.
// (The slice is never touched, so it costs address space only.)
func TestU2_C16_DbinLengthPrefixWraps(t *testing.T) {
	msg := make([]byte, 1<<32+10)
	hw := &u2c16HeadWriter{}
	w := dbin.NewWriter(hw)
	if err := w.WriteHeader("t"); err != nil {
		t.Fatal(err)
	}
	err := w.WriteMessage(msg)
	t.Logf("WriteMessage of %d bytes: err=%v, %d bytes written, header+prefix bytes % x", len(msg), err, hw.total, hw.head[:12])
	if err != nil || !bytes.Equal(hw.head[8:12], []byte{0, 0, 0, 10}) {
		t.Errorf("observation changed")
	}
	_ = proto.Size
}

// every truncation point of a merged bundle, fetched by number: that block (intact) or not-found, never a hang
func TestU2_C16_MergedFetchTruncations(t *testing.T) {
	bs := u2c16Chain(0, 3, "a")
	full := u2c16File(t, bs...)
	counts := map[string]int{}
	for cut := 0; cut <= len(full); cut++ {
		s := dstore.NewMockStore(nil)
		s.SetFile("0000000000", full[:cut])
		r := u2c16MergedFetch(s, 2, 4*time.Second)
		switch r {
		case `block #2 id="a00000002"`, "not-found":
		default:
			t.Errorf("cut %d: %s", cut, r)
		}
		counts[r]++
	}
	t.Logf("bundle of %d bytes holding #0..#3, fetch 2 at each of the %d truncation points: %v", len(full), len(full)+1, counts)
}
