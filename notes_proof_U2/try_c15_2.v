From Coq Require Import Sorted.
From BV Require Import Base.Prelude Model.BlockIndex Spec.C15_Spec Check.C15_Check.
Local Open Scope N_scope.
Definition blocks_of (chain : list N) (bundle b : N) : list N := filter (fun n => (b <=? n) && (n <? b + bundle)) chain.
Definition exists_of (chain : list N) (bundle b : N) : bool := match blocks_of chain bundle b with [] => false | _ => true end.
Definition qM (M : list N) (bundle lim : N) (ps : unit) (base : N) : unit * option (list N) :=
  (tt, if base <? lim then Some (filter (fun n => (base <=? n) && (n <? base + bundle)) M) else None).
Definition upto (n : nat) : list N := map N.of_nat (seq 0 (S n)).
(* start 13 stop 11, index to 40, matches 2 27, chain to 34 *)
Eval vm_compute in file_source_run unit (qM [2;27] 5 40) 13 11 5 (fun _ => false) (exists_of (upto 34) 5) (blocks_of (upto 34) 5) 20 20 (Some tt) [].
(* start 12 stop 3 *)
Eval vm_compute in file_source_run unit (qM [2;27] 5 40) 12 3 5 (fun _ => false) (exists_of (upto 34) 5) (blocks_of (upto 34) 5) 20 20 (Some tt) [].
(* index to 40 chain to 34 no stop *)
Eval vm_compute in file_source_run unit (qM [2;22] 5 40) 0 0 5 (fun _ => false) (exists_of (upto 34) 5) (blocks_of (upto 34) 5) 20 20 (Some tt) [].
(* next bundle uncovered but its file exists: bundle 5 covered, no match: nothing of it delivered *)
Eval vm_compute in file_source_run unit (qM [2] 5 10) 0 0 5 (fun _ => false) (exists_of (upto 20) 5) (blocks_of (upto 20) 5) 20 20 (Some tt) [].
Eval vm_compute in file_source_run unit (qM [2;7] 5 10) 0 0 5 (fun _ => true) (exists_of (upto 20) 5) (blocks_of (upto 20) 5) 20 20 (Some tt) [4;9].
(* progress always, a missing bundle inside the covered region *)
Eval vm_compute in file_source_run unit (qM [2] 5 40) 0 0 5 (fun _ => true) (exists_of ([0;1;2;3;4;5;6;7;8;9;15;16;17]) 5) (blocks_of ([0;1;2;3;4;5;6;7;8;9;15;16;17]) 5) 20 20 (Some tt) [].
Eval vm_compute in file_source_run unit (qM [2] 5 40) 0 0 5 (fun _ => false) (exists_of ([0;1;2;3;4;5;6;7;8;9;15;16;17]) 5) (blocks_of ([0;1;2;3;4;5;6;7;8;9;15;16;17]) 5) 20 20 (Some tt) [].
(* bundle size 0 *)
Eval vm_compute in file_source_run unit (qM [2] 0 40) 0 0 0 (fun _ => false) (exists_of (upto 20) 5) (blocks_of (upto 20) 5) 20 20 (Some tt) [].
