// package directory: forkable; run: go test -vet=off -count=1 -run 'TestU2_C05_Through' ./forkable/
// U2 hypothesis audit, C05: hypothesis `complete_segment (db s) (cu_blk c) = Some (csg, true)` ("the cursor block's
// own branch reaches the hub LIB") of c05_through_forked_burst / c05_through_forked_consumer.
// History (well formed, LIB declarations in lib_ok): 1a <- 2a <- 3b, then 3a (child of 2a), 4a (declares LIB 2),
// 5a (declares LIB 3).  The stream delivers "new 3b" with cursor {new, 3b, head 3b, LIB 1a}.  The consumer crashes
// there and reconnects in target-cursor mode from start block 1 or 2 (at or below the junction 2a).
//  * after 4a (hub LIB 2a = the junction): SourceThroughCursor's burst is served;
//  * after 5a (hub LIB 3a, ABOVE the junction; 3b, 2a, 1a all still retained): CallWithBlocksThroughCursor fails
//    ("head segment does not reach LIB") although CallWithBlocksFromCursor serves the very same cursor.
// The test PASSES and asserts this observed behaviour.
package forkable

import (
	"fmt"
	"testing"

	"github.com/streamingfast/bstream"
	"github.com/stretchr/testify/require"
)

func u2c05Show(blocks []*bstream.PreprocessedBlock) (out []string) {
	for _, b := range blocks {
		fo := b.Obj.(*ForkableObject)
		s := fmt.Sprintf("%s %s lib=%d", fo.step, b.Block.Id, fo.lastLIBSent.Num())
		if fo.reorgJunctionBlock != nil {
			s += " junction=" + fo.reorgJunctionBlock.ID()
		}
		out = append(out, s)
	}
	return
}

func TestU2_C05_ThroughForkedBelowHubLIB(t *testing.T) {
	saved := bstream.GetProtocolFirstStreamableBlock
	bstream.GetProtocolFirstStreamableBlock = 1
	defer func() { bstream.GetProtocolFirstStreamableBlock = saved }()

	sink := newTestForkableSink(nil, nil)
	p := New(sink, HoldBlocksUntilLIB(), WithKeptFinalBlocks(2)) // the hub's configuration
	feed := func(id, prev string, lib uint64) {
		require.NoError(t, p.ProcessBlock(bstream.TestBlockWithLIBNum(id, prev, lib), nil))
	}
	feed("00000001a", "00000000a", 0)
	feed("00000002a", "00000001a", 1)
	feed("00000003b", "00000002a", 1)
	// the cursor minted by the stream for "new 3b"
	last := sink.results[len(sink.results)-1]
	require.Equal(t, bstream.StepNew, last.step)
	require.Equal(t, "00000003b", last.block.ID())
	cur := last.Cursor()
	t.Logf("cursor minted by the stream: step=%s block=%s head=%s lib=%s", cur.Step, cur.Block, cur.HeadBlock, cur.LIB)
	require.Equal(t, "00000001a", cur.LIB.ID())

	feed("00000003a", "00000002a", 1)
	feed("00000004a", "00000003a", 2) // switches to the a branch: undo 3b, new 3a, new 4a; LIB 2a

	var got []string
	cb := func(blocks []*bstream.PreprocessedBlock) { got = u2c05Show(blocks) }
	require.Equal(t, "00000002a", p.forkDB.LIBID())
	require.NoError(t, p.CallWithBlocksThroughCursor(2, cur, cb))
	t.Logf("after 4a (hub LIB 2a), through cursor from start 2: %v", got)
	require.Equal(t, []string{
		"new 00000002a lib=1", "new 00000003b lib=1",
		"undo 00000003b lib=1 junction=00000002a",
		"irreversible 00000002a lib=2", "new 00000003a lib=2", "new 00000004a lib=2"}, got)

	feed("00000005a", "00000004a", 3) // LIB 3a: the junction 2a is now below the hub LIB
	require.Equal(t, "00000003a", p.forkDB.LIBID())
	require.NotNil(t, p.forkDB.BlockForID("00000003b")) // the cursor block is still retained
	require.NotNil(t, p.forkDB.BlockForID("00000001a")) // ... and so is the cursor LIB block, on the canonical chain

	require.NoError(t, p.CallWithBlocksFromCursor(cur, cb))
	t.Logf("after 5a (hub LIB 3a), from cursor: %v", got)
	require.Equal(t, []string{
		"undo 00000003b lib=1 junction=00000002a",
		"irreversible 00000002a lib=2", "new,irreversible 00000003a lib=3",
		"new 00000004a lib=3", "new 00000005a lib=3"}, got)

	for _, start := range []uint64{1, 2} {
		err := p.CallWithBlocksThroughCursor(start, cur, cb)
		t.Logf("after 5a (hub LIB 3a), through cursor from start %d: err=%v", start, err)
		require.Error(t, err) // no source from the hub
	}
}
