// package directory: hub; run: go test -vet=off -count=1 -v -run TestU2_C09_ ./hub/ (shared helpers only, no test of its own)
package hub

// U2 hypothesis audit of C09: replays of inputs at the edges of the quantifier on the REAL ForkableHub.
// The hub is driven like harness/hubh.go does: a live source factory that only captures the hub's handler
// (live blocks are pushed by the test), and a one-block factory that serves the pass of the current step.

import (
	"fmt"
	"sort"
	"strings"
	"testing"
	"time"

	"github.com/streamingfast/bstream"
	"github.com/streamingfast/bstream/forkable"
	pbbstream "github.com/streamingfast/bstream/pb/sf/bstream/v1"
	"github.com/streamingfast/shutter"
	"google.golang.org/protobuf/types/known/timestamppb"
)

type u2c09Blk struct{ id, num, parent, lib uint64 }

func u2c09ID(n uint64) string {
	if n == 0 {
		return ""
	}
	return fmt.Sprintf("%020x", n)
}

func u2c09PB(b u2c09Blk) *pbbstream.Block {
	return &pbbstream.Block{Id: u2c09ID(b.id), Number: b.num, ParentId: u2c09ID(b.parent), LibNum: b.lib,
		Timestamp: timestamppb.New(time.Unix(1600000000+int64(b.num%100000), 0))}
}

// u2c09Pass describes what the one-block factory answers for one live block.
type u2c09Pass struct {
	nilSrc    bool       // the factory returns nil ("no source yet")
	blocks    []u2c09Blk // blocks offered (those >= the requested start are pushed, in this order)
	failAfter int        // >0: the source shuts down with an error after pushing that many blocks; 0 = never
}

type u2c09PassSource struct {
	*shutter.Shutter
	blocks    []u2c09Blk
	failAfter int
	h         bstream.Handler
}

func (s *u2c09PassSource) Run() {
	for i, b := range s.blocks {
		if s.failAfter > 0 && i == s.failAfter {
			s.Shutdown(fmt.Errorf("u2: one-block download failed"))
			return
		}
		if err := s.h.ProcessBlock(u2c09PB(b), nil); err != nil {
			s.Shutdown(err)
			return
		}
	}
	s.Shutdown(nil)
}

type u2c09Idle struct{ *shutter.Shutter }

func (s *u2c09Idle) Run() { <-s.Terminating() }

type u2c09Hub struct {
	t       *testing.T
	fh      *ForkableHub
	handler bstream.Handler
	cur     *u2c09Pass
	starts  []uint64 // start block of every one-block source the hub asked for
	saved   uint64
}

var u2c09Nop = bstream.HandlerFunc(func(blk *pbbstream.Block, obj interface{}) error { return nil })

func u2c09New(t *testing.T, first uint64, kept int, opts ...forkable.Option) *u2c09Hub {
	h := &u2c09Hub{t: t, saved: bstream.GetProtocolFirstStreamableBlock}
	bstream.GetProtocolFirstStreamableBlock = first
	handlerCh := make(chan bstream.Handler, 1)
	lsf := func(hd bstream.Handler) bstream.Source {
		select {
		case handlerCh <- hd:
		default:
		}
		return &u2c09Idle{shutter.New()}
	}
	obsf := bstream.SourceFromNumFactory(func(start uint64, hd bstream.Handler) bstream.Source {
		h.starts = append(h.starts, start)
		if h.cur == nil || h.cur.nilSrc {
			return nil
		}
		var bl []u2c09Blk
		for _, b := range h.cur.blocks {
			if b.num >= start {
				bl = append(bl, b)
			}
		}
		return &u2c09PassSource{Shutter: shutter.New(), blocks: bl, failAfter: h.cur.failAfter, h: hd}
	})
	h.fh = NewForkableHub(lsf, obsf, kept, opts...)
	go h.fh.Run()
	select {
	case h.handler = <-handlerCh:
	case <-time.After(5 * time.Second):
		t.Fatal("hub did not create its live source")
	}
	t.Cleanup(func() {
		h.fh.Shutdown(nil)
		bstream.GetProtocolFirstStreamableBlock = h.saved
	})
	return h
}

// live pushes one live block (with the pass the one-block factory would serve) and reports "ok", "err:..", "panic:.." or "hang".
func (h *u2c09Hub) live(b u2c09Blk, p *u2c09Pass) string {
	h.cur = p
	res := make(chan string, 1)
	go func() {
		defer func() {
			if r := recover(); r != nil {
				res <- fmt.Sprintf("panic: %v", r)
			}
		}()
		if err := h.handler.ProcessBlock(u2c09PB(b), nil); err != nil {
			res <- "err: " + err.Error()
			return
		}
		res <- "ok"
	}()
	select {
	case r := <-res:
		return r
	case <-time.After(5 * time.Second):
		return "hang"
	}
}

func u2c09Short(id string) string {
	s := strings.TrimLeft(id, "0")
	if s == "" && id != "" {
		s = "0"
	}
	return s
}

// state: "ready=.. lowest=.. head=<id>@<num> headlib=.." (head=- when HeadInfo errors)
func (h *u2c09Hub) state() string {
	num, id, _, lib, err := h.fh.HeadInfo()
	hd := "-"
	if err == nil {
		hd = fmt.Sprintf("%s@%d headlib=%d", u2c09Short(id), num, lib)
	}
	return fmt.Sprintf("ready=%v lowest=%d head=%s", h.fh.IsReady(), h.fh.LowestBlockNum(), hd)
}

func u2c09Drain(src bstream.Source) []*bstream.PreprocessedBlock {
	sub := src.(*Subscription)
	var out []*bstream.PreprocessedBlock
	for {
		select {
		case b := <-sub.blocks:
			out = append(out, b)
		default:
			sub.Shutdown(nil)
			return out
		}
	}
}

// from returns the answer of SourceFromBlockNum(n): "nil" or "id@num/step/cursorLIBnum ..."
func (h *u2c09Hub) from(n uint64) string {
	src := h.fh.SourceFromBlockNum(n, u2c09Nop)
	if src == nil {
		return "nil"
	}
	var parts []string
	for _, pb := range u2c09Drain(src) {
		fo := pb.Obj.(*forkable.ForkableObject)
		parts = append(parts, fmt.Sprintf("%s@%d/%s/lib%d", u2c09Short(pb.Block.Id), pb.Block.Number, fo.Step(), fo.Cursor().LIB.Num()))
	}
	return "[" + strings.Join(parts, " ") + "]"
}

// fromNums returns the block numbers of SourceFromBlockNum(n), nil when no source
func (h *u2c09Hub) fromNums(n uint64) []uint64 {
	src := h.fh.SourceFromBlockNum(n, u2c09Nop)
	if src == nil {
		return nil
	}
	out := []uint64{}
	for _, pb := range u2c09Drain(src) {
		out = append(out, pb.Block.Number)
	}
	return out
}

// forks returns the answer of SourceFromBlockNumWithForks(n), canonicalised by (num, id)
func (h *u2c09Hub) forks(n uint64) string {
	src := h.fh.SourceFromBlockNumWithForks(n, u2c09Nop)
	if src == nil {
		return "nil"
	}
	bl := u2c09Drain(src)
	sort.SliceStable(bl, func(i, j int) bool {
		if bl[i].Block.Number != bl[j].Block.Number {
			return bl[i].Block.Number < bl[j].Block.Number
		}
		return bl[i].Block.Id < bl[j].Block.Id
	})
	var parts []string
	for _, pb := range bl {
		parts = append(parts, fmt.Sprintf("%s@%d", u2c09Short(pb.Block.Id), pb.Block.Number))
	}
	return "[" + strings.Join(parts, " ") + "]"
}

// chain builds the linear chain lo..hi: block k has id 0x1000+k, parent 0x1000+k-1, LIB number max(k-lag, floor)
func u2c09Chain(lo, hi, lag, floor uint64) []u2c09Blk {
	var out []u2c09Blk
	for k := lo; k <= hi; k++ {
		lib := floor
		if k >= lag && k-lag > floor {
			lib = k - lag
		}
		out = append(out, u2c09Blk{0x1000 + k, k, 0x1000 + k - 1, lib})
	}
	return out
}

// window checks the servable-window clause of C09 on a ready hub and returns a description; ok=false when violated
func (h *u2c09Hub) window() (desc string, ok bool) {
	ok = true
	low := h.fh.LowestBlockNum()
	hn, _, _, _, err := h.fh.HeadInfo()
	if err != nil {
		return "HeadInfo error: " + err.Error(), false
	}
	atLow := h.fromNums(low)
	if atLow == nil || len(atLow) == 0 || atLow[0] != low || atLow[len(atLow)-1] != hn {
		ok = false
	}
	for i := 1; i < len(atLow); i++ {
		if atLow[i] <= atLow[i-1] {
			ok = false
		}
	}
	below := "n/a"
	if low > 0 {
		b := h.fromNums(low - 1)
		below = fmt.Sprint(b)
		if b != nil {
			ok = false
		}
	}
	above := h.fromNums(hn + 1)
	if above != nil {
		ok = false
	}
	atHead := h.fromNums(hn)
	if len(atHead) != 1 || atHead[0] != hn {
		ok = false
	}
	return fmt.Sprintf("from(lowest=%d)=%v from(lowest-1)=%s from(head=%d)=%v from(head+1)=%v from(0)=%v", low, atLow, below, hn, atHead, above, h.fromNums(0)), ok
}
