From BV Require Import Base.Prelude Model.Block Model.ForkDB Model.Forkable Model.ForkableLookups
  Model.Burst Model.Hub Spec.Consumer Spec.Universe Check.Fk_Check Check.Burst_Check Spec.C09_Spec Spec.C05_Spec Spec.C05_Through_Spec
  Spec.C01_Spec Spec.C01_Moving_Spec Spec.C05_History_Spec.
Local Open Scope N_scope.
Definition show (b : burst) : option (list (step * N * N * option ref)) :=
  match b with BOk evs => Some (map (fun e => (estep e, bid (eblk e), rn (elib e), ejunc e)) evs) | _ => None end.
(* boolean resume check for any config / mode *)
Definition resume (cfg : config) (m0 : libmode) (h : list block) (k m : nat) :=
  let tr := fk_run cfg (fs_init m0) h in
  let upto n := concat (map fst (firstn n tr)) in
  let all := upto (length tr) in
  match nth_error all k with
  | None => None
  | Some ek =>
    let ck := cons_fold cons0 (firstn (S k) all) in
    let cm := cons_fold cons0 (upto m) in
    let b := blocks_from_cursor (state_after cfg (fs_init m0) h m) (ev_cursor ek) in
    match ck, cm, b with
    | Some ck, Some cm, BOk evs =>
       let ck' := mkCons (cs_stack ck) (length (filter (fun b => bnum b <=? rn (elib ek)) (cs_stack ck))) true in
       Some (estep ek, bid (eblk ek), show b, option_map (fun c => (map bid (cs_stack c), cs_nf c)) (cons_fold ck' evs), (map bid (cs_stack cm), cs_nf cm))
    | _, _, _ => Some (estep ek, bid (eblk ek), show b, None, ([], 0%nat))
    end
  end.
(* all-blocks-trigger: 1 <- 2 <- 3, then 22 (sibling of 2) *)
Definition b1 := mkBlock 11 1 10 0.
Definition b2 := mkBlock 12 2 11 1.
Definition b3 := mkBlock 13 3 12 1.
Definition b2' := mkBlock 22 2 11 1.
Definition b3' := mkBlock 23 3 22 1.
Definition cfgA := mkCfg 1 false true 2 true (mkFilter true true true true) None.
Definition hA := [b1; b2; b3; b2'].
Eval vm_compute in (map (fun e => (estep e, bid (eblk e), elib e)) (concat (map fst (fk_run cfgA (fs_init LNone) hA)))).
Eval vm_compute in (resume cfgA LNone hA 3 4).
Eval vm_compute in (resume cfgA LNone hA 2 4).
(* inclusive LIB config *)
Definition cfgI := mkCfg 0 true false 2 false (mkFilter true true true true) None.
Definition hI := [b1; b2; b3; b2'; b3'; mkBlock 24 4 23 2].
Eval vm_compute in (map (fun e => (estep e, bid (eblk e), elib e)) (concat (map fst (fk_run cfgI (fs_init (LIncl (mkR 11 1))) hI)))).
Eval vm_compute in (resume cfgI (LIncl (mkR 11 1)) hI 0 6).
Eval vm_compute in (resume cfgI (LIncl (mkR 11 1)) hI 3 6).
Eval vm_compute in (resume cfgI (LIncl (mkR 11 1)) hI 3 3).
(* exclusive *)
Definition cfgE := mkCfg 0 false false 2 false (mkFilter true true true true) None.
Definition hE := [b2; b3; b2'; b3'; mkBlock 24 4 23 2].
Eval vm_compute in (map (fun e => (estep e, bid (eblk e), elib e)) (concat (map fst (fk_run cfgE (fs_init (LExcl (mkR 11 1))) hE)))).
Eval vm_compute in (resume cfgE (LExcl (mkR 11 1)) hE 1 5).
Eval vm_compute in (resume cfgE (LExcl (mkR 11 1)) hE 1 2).
