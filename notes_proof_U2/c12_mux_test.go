// package directory: . ; run: go test -vet=off -count=1 -run 'TestU2_C12_Mux' ./   (needs u2_c12_helpers_test.go)
package bstream

import (
	"sync"
	"sync/atomic"
	"testing"
	"time"

	pbbstream "github.com/streamingfast/bstream/pb/sf/bstream/v1"
)

type u2c12MuxEnv struct {
	mu      sync.Mutex
	created []*u2c12Src
}

func (e *u2c12MuxEnv) factory(id string) SourceFactory {
	return func(h Handler) Source {
		s := newU2C12Src(id, h)
		e.mu.Lock()
		e.created = append(e.created, s)
		e.mu.Unlock()
		return s
	}
}
func (e *u2c12MuxEnv) get(i int) *u2c12Src {
	for k := 0; k < 2000; k++ {
		e.mu.Lock()
		if i < len(e.created) {
			s := e.created[i]
			e.mu.Unlock()
			return s
		}
		e.mu.Unlock()
		time.Sleep(time.Millisecond)
	}
	return nil
}
func (e *u2c12MuxEnv) count() int {
	e.mu.Lock()
	defer e.mu.Unlock()
	return len(e.created)
}

// Hypothesis audited: `mx_all_returned` of c12_no_call_after (Coq witness c12_mx_inner_returned_needed).
// Input inside the quantifier: 2 inner sources, Shutdown "during a handler call".
// Inner sources obey the Source contract (u2c12Src).  Source 0 is inside the user handler; source 1 has
// called the wrapper and waits for handlerLock.  Shutdown is called and completes, Run returns.  When the
// first handler call returns, source 1's wrapper takes handlerLock and calls the user handler.
// This test PASSES and asserts the observed behaviour: a handler call BEGINS after the multiplexed source is
// Terminated and its Run has returned.
func TestU2_C12_Mux_HandlerCallBeginsAfterTerminatedAndRunReturned(t *testing.T) {
	old := sourceReconnectDelay
	sourceReconnectDelay = 10 * time.Millisecond
	defer func() { sourceReconnectDelay = old }()

	log := &u2c12Log{}
	var mux *MultiplexedSource
	var runReturned int32
	inFirst := make(chan struct{})
	release := make(chan struct{})
	var lateTerminated, lateRunReturned int32
	h := HandlerFunc(func(blk *pbbstream.Block, obj interface{}) error {
		log.add("begin %s terminated=%v runReturned=%v", blk.Id, mux.IsTerminated(), atomic.LoadInt32(&runReturned) == 1)
		if blk.Id == "00000001a" {
			close(inFirst)
			<-release
		} else {
			if mux.IsTerminated() {
				atomic.StoreInt32(&lateTerminated, 1)
			}
			atomic.StoreInt32(&lateRunReturned, atomic.LoadInt32(&runReturned))
		}
		log.add("end %s", blk.Id)
		return nil
	})
	env := &u2c12MuxEnv{}
	mux = NewMultiplexedSource([]SourceFactory{env.factory("s0"), env.factory("s1")}, h)
	runDone, _ := u2c12RunIn(func() { mux.Run(); atomic.StoreInt32(&runReturned, 1); log.add("Run returned") })

	s0, s1 := env.get(0), env.get(1)
	if s0 == nil || s1 == nil {
		t.Fatal("inner sources not created")
	}
	u2c12Wait(t, "s0 started", s0.started, 2*time.Second)
	u2c12Wait(t, "s1 started", s1.started, 2*time.Second)

	s0.blocks <- u2c12Blk(1, "a")
	u2c12Wait(t, "1st handler call entered", inFirst, 2*time.Second)
	s1.blocks <- u2c12Blk(2, "b") // s1.Run took the block and calls the wrapper: blocked on handlerLock
	time.Sleep(50 * time.Millisecond)

	sdDone, _ := u2c12RunIn(func() { mux.Shutdown(nil); log.add("Shutdown returned") })
	if !u2c12Wait(t, "Shutdown returns", sdDone, 2*time.Second) {
		t.Fatal("Shutdown did not return")
	}
	if !mux.IsTerminated() {
		t.Fatal("not terminated after Shutdown returned")
	}
	if !u2c12Wait(t, "Run returns", runDone, 2*time.Second) {
		t.Fatal("Run did not return")
	}
	t.Logf("after Shutdown: mux terminated=%v, s0 terminating=%v, s1 terminating=%v, Run returned", mux.IsTerminated(), s0.IsTerminating(), s1.IsTerminating())

	close(release) // the handler call in progress returns
	u2c12Wait(t, "s0.Run returns", s0.returned, 2*time.Second)
	u2c12Wait(t, "s1.Run returns", s1.returned, 2*time.Second)
	for _, e := range log.snapshot() {
		t.Logf("  %s", e)
	}
	iRet, iLate := log.index("Run returned"), log.index("begin 00000002b terminated=true runReturned=true")
	if iLate < 0 || iRet < 0 || iLate < iRet {
		t.Fatalf("expected the observed behaviour (handler call for block 2 begins after Terminated and after Run returned); log differs")
	}
	if atomic.LoadInt32(&lateTerminated) != 1 || atomic.LoadInt32(&lateRunReturned) != 1 {
		t.Fatalf("late call flags: terminated=%d runReturned=%d", lateTerminated, lateRunReturned)
	}
	t.Logf("OBSERVED: user handler called with block 00000002b AFTER MultiplexedSource.IsTerminated()==true and AFTER Run() returned")
}

// zero inner sources: Run loops (connectSources logs "all sources are failing"), Shutdown makes it return after the reconnect delay
func TestU2_C12_Mux_ZeroInnerSources(t *testing.T) {
	old := sourceReconnectDelay
	sourceReconnectDelay = 100 * time.Millisecond
	defer func() { sourceReconnectDelay = old }()
	called := int32(0)
	mux := NewMultiplexedSource(nil, HandlerFunc(func(*pbbstream.Block, interface{}) error { atomic.AddInt32(&called, 1); return nil }))
	runDone, pan := u2c12RunIn(mux.Run)
	time.Sleep(30 * time.Millisecond)
	select {
	case <-runDone:
		t.Fatalf("Run returned by itself with zero sources (panic: %v)", <-pan)
	default:
	}
	t0 := time.Now()
	mux.Shutdown(nil)
	if !mux.IsTerminated() {
		t.Fatal("not terminated")
	}
	if !u2c12Wait(t, "Run returns", runDone, 2*time.Second) {
		t.Fatal("Run did not return")
	}
	t.Logf("OBSERVED: zero inner sources: Terminated at once, Run returned %s after Shutdown (reconnect delay 100ms is not interruptible), handler calls=%d", time.Since(t0), called)
}

// Shutdown before Run: Run returns at once, no factory is called
func TestU2_C12_Mux_ShutdownBeforeRun(t *testing.T) {
	env := &u2c12MuxEnv{}
	mux := NewMultiplexedSource([]SourceFactory{env.factory("s0"), env.factory("s1")}, HandlerFunc(func(*pbbstream.Block, interface{}) error { return nil }))
	mux.Shutdown(nil)
	runDone, _ := u2c12RunIn(mux.Run)
	if !u2c12Wait(t, "Run returns", runDone, time.Second) {
		t.Fatal("Run did not return")
	}
	if env.count() != 0 || !mux.IsTerminated() {
		t.Fatalf("factories called %d times, terminated=%v", env.count(), mux.IsTerminated())
	}
	t.Logf("OBSERVED: Shutdown before Run: Run returns at once, Terminated, 0 factory calls")
}

// Hypothesis audited: `Mx.started i = true` of c12_fail_stops_all (Coq witness c12_mx_started_needed).
// Shutdown completes "while the multiplexed source reconnects": from inside the factory of slot 1 (i.e. between the
// factory call and LockedInit).  The external Shutdown closes the terminating channel, then its OnTerminating callback
// waits for sourcesLock.  PASSES, asserting the observation: the source just made by the factory is neither run nor shut down.
func TestU2_C12_Mux_ShutdownWhileReconnecting_CreatedSourceNeverShutDown(t *testing.T) {
	old := sourceReconnectDelay
	sourceReconnectDelay = 10 * time.Millisecond
	defer func() { sourceReconnectDelay = old }()
	env := &u2c12MuxEnv{}
	var mux *MultiplexedSource
	sdDone := make(chan struct{})
	f1 := func(h Handler) Source {
		src := env.factory("s1")(h)
		go func() { mux.Shutdown(nil); close(sdDone) }()
		for !mux.IsTerminating() { // the factory returns once the terminating channel is closed
			time.Sleep(time.Millisecond)
		}
		return src
	}
	mux = NewMultiplexedSource([]SourceFactory{env.factory("s0"), f1}, HandlerFunc(func(*pbbstream.Block, interface{}) error { return nil }))
	runDone, _ := u2c12RunIn(mux.Run)
	if !u2c12Wait(t, "Shutdown returns", sdDone, 2*time.Second) {
		t.Fatal("Shutdown did not return")
	}
	if !u2c12Wait(t, "Run returns", runDone, 2*time.Second) {
		t.Fatal("Run did not return")
	}
	s0, s1 := env.get(0), env.get(1)
	u2c12Wait(t, "s0.Run returns", s0.returned, time.Second)
	time.Sleep(50 * time.Millisecond)
	s1Started := false
	select {
	case <-s1.started:
		s1Started = true
	default:
	}
	t.Logf("OBSERVED: mux terminated=%v; s0 (started before): terminating=%v; s1 (made by the factory while Shutdown arrived): started=%v terminating=%v",
		mux.IsTerminated(), s0.IsTerminating(), s1Started, s1.IsTerminating())
	if !mux.IsTerminated() || !s0.IsTerminating() {
		t.Fatal("mux / s0 not shut down")
	}
	if s1Started || s1.IsTerminating() {
		t.Fatalf("expected observation: s1 never started and never shut down")
	}
}

// inner source that fails immediately on every start (both slots), Shutdown while it keeps reconnecting
func TestU2_C12_Mux_InnerFailsOnEveryStart(t *testing.T) {
	old := sourceReconnectDelay
	sourceReconnectDelay = 5 * time.Millisecond
	defer func() { sourceReconnectDelay = old }()
	var made int32
	var all sync.Map
	failing := func(h Handler) Source {
		s := newU2C12Src("f", h)
		s.failNow <- struct{}{}
		atomic.AddInt32(&made, 1)
		all.Store(s, true)
		return s
	}
	mux := NewMultiplexedSource([]SourceFactory{failing, failing, failing}, HandlerFunc(func(*pbbstream.Block, interface{}) error { return nil }))
	runDone, _ := u2c12RunIn(mux.Run)
	time.Sleep(100 * time.Millisecond)
	mux.Shutdown(nil)
	madeAtShutdown := atomic.LoadInt32(&made)
	if !u2c12Wait(t, "Run returns", runDone, 2*time.Second) {
		t.Fatal("Run did not return")
	}
	time.Sleep(50 * time.Millisecond)
	notTerm := 0
	all.Range(func(k, _ interface{}) bool {
		if !k.(*u2c12Src).IsTerminating() {
			notTerm++
		}
		return true
	})
	t.Logf("OBSERVED: %d sources made before Shutdown returned, %d in total; Terminated=%v; Run returned; sources not terminating at the end: %d",
		madeAtShutdown, atomic.LoadInt32(&made), mux.IsTerminated(), notTerm)
	if atomic.LoadInt32(&made) != madeAtShutdown {
		t.Fatalf("a factory was called after Shutdown returned")
	}
}

// factory returns nil (the only way a SourceFactory can say "I could not make a source"): `go newSrc.Run()` on a nil
// interface panics on the Run goroutine (inside LockedInit, under sourcesLock; both are released by their defers)
func TestU2_C12_Mux_FactoryReturnsNil(t *testing.T) {
	mux := NewMultiplexedSource([]SourceFactory{func(h Handler) Source { return nil }}, HandlerFunc(func(*pbbstream.Block, interface{}) error { return nil }))
	runDone, pan := u2c12RunIn(mux.Run)
	if !u2c12Wait(t, "Run ends", runDone, 2*time.Second) {
		mux.Shutdown(nil)
		t.Fatal("Run neither returned nor panicked")
	}
	select {
	case p := <-pan:
		t.Logf("OBSERVED: MultiplexedSource.Run panics when a factory returns nil: %v (terminated=%v)", p, mux.IsTerminated())
	default:
		t.Fatalf("Run returned without panic; terminated=%v", mux.IsTerminated())
	}
}

// Shutdown twice / concurrently: the 2nd caller returns at once, possibly BEFORE Terminated is reached (shutter semantics)
func TestU2_C12_Mux_SecondShutdownReturnsBeforeTerminated(t *testing.T) {
	old := sourceReconnectDelay
	sourceReconnectDelay = 10 * time.Millisecond
	defer func() { sourceReconnectDelay = old }()
	env := &u2c12MuxEnv{}
	var mux *MultiplexedSource
	inFactory := make(chan struct{})
	leave := make(chan struct{})
	slow := func(h Handler) Source { // a slow factory: connectSources holds sourcesLock meanwhile
		close(inFactory)
		<-leave
		return env.factory("s0")(h)
	}
	mux = NewMultiplexedSource([]SourceFactory{slow}, HandlerFunc(func(*pbbstream.Block, interface{}) error { return nil }))
	runDone, _ := u2c12RunIn(mux.Run)
	u2c12Wait(t, "in factory", inFactory, time.Second)
	first, _ := u2c12RunIn(func() { mux.Shutdown(nil) })
	for !mux.IsTerminating() {
		time.Sleep(time.Millisecond)
	}
	second, _ := u2c12RunIn(func() { mux.Shutdown(nil) })
	u2c12Wait(t, "2nd Shutdown returns", second, time.Second)
	firstReturned := false
	select {
	case <-first:
		firstReturned = true
	default:
	}
	t.Logf("OBSERVED: 2nd Shutdown returned; 1st Shutdown returned=%v; terminating=%v terminated=%v (the 1st waits for sourcesLock held across the factory call)",
		firstReturned, mux.IsTerminating(), mux.IsTerminated())
	if firstReturned || mux.IsTerminated() {
		t.Fatalf("expected: first Shutdown still blocked, not terminated")
	}
	close(leave)
	if !u2c12Wait(t, "1st Shutdown returns", first, time.Second) || !u2c12Wait(t, "Run returns", runDone, time.Second) {
		t.Fatal("hang")
	}
	t.Logf("OBSERVED: after the factory returned: terminated=%v, Run returned", mux.IsTerminated())
}
