From BV Require Import Base.Prelude Model.Block Model.ForkDB Model.Forkable Model.ForkableLookups
  Model.Burst Model.Hub Spec.Consumer Spec.Universe Check.Fk_Check Check.Burst_Check Spec.C09_Spec Spec.C05_Spec Spec.C05_Through_Spec
  Properties.C09 Properties.C05 Properties.C05_Through.
Local Open Scope N_scope.
(* cursor_numbered violated: names retained fork id 23 with number 2 / 4 instead of 3 *)
Definition c_n2 := mkCursor SNew (mkR 23 2) (mkR 23 3) (mkR 12 2).
Definition c_n4 := mkCursor SNew (mkR 23 4) (mkR 23 3) (mkR 12 2).
Eval vm_compute in (show (blocks_through_cursor ex_s1 2 c_n2), blocks_through_cursor ex_s1 2 c_n2).
Eval vm_compute in (show (blocks_through_cursor ex_s1 2 c_n4), blocks_through_cursor ex_s1 2 c_n4).
Eval vm_compute in (show (blocks_through_cursor ex_s1 2 ex_cf)).
(* cursor LIB above the junction: LIB 13@3 (on chain), cursor on 23 (junction 12@2) *)
Definition c_la := mkCursor SNew (mkR 23 3) (mkR 23 3) (mkR 13 3).
Eval vm_compute in (show (blocks_through_cursor ex_s1 2 c_la)).
Eval vm_compute in (match blocks_through_cursor ex_s1 2 c_la with BOk evs => option_map (fun k => (map bid (cs_stack k), cs_nf k)) (cons_fold cons0 (tolerate 2 evs)) | _ => None end).
Eval vm_compute in (show (blocks_from_cursor ex_s1 c_la)).
(* serves: LIB id on chain, wrong number *)
Definition c_ln := mkCursor SNew (mkR 13 3) (mkR 13 3) (mkR 12 0).
Eval vm_compute in (blocks_from_cursor ex_s c_ln, show (blocks_from_cursor ex_s (mkCursor SNew (mkR 13 3) (mkR 13 3) (mkR 12 2)))).
(* start above junction+1: start 4? cursor 23@3 -> start > cursor blk -> BErr; with deeper fork needed; skip *)
(* has_lib, no head *)
Definition s_nohead := mkFS (db ex_s) None (lchain ex_s) (incl_done ex_s).
