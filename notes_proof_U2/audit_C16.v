(* U2 hypothesis audit, C16 (block files, one-block file names, fetch): necessity witnesses.
   Every theorem is closed (vm_compute on concrete inputs).  See notes_proof_U2/notes_C16.md.
   Go replays: notes_proof_U2/c16_codec_test.go, notes_proof_U2/c16_names_fetch_test.go. *)
From BV Require Import Base.Prelude Base.Decimal Model.CursorCodec Model.Dbin Model.OneBlockName
  Spec.C16_Spec Proofs.PreludeFacts Proofs.DbinFacts.
Local Open Scope N_scope.

(* two modern blocks and one legacy block; the type URL of the modern ones is "A" *)
Definition c16_b1 : blk :=
  mkBlk 7 [97] [96] (Some (1700000000, 0)%Z) 5 0 0%Z [] 0 6 (Some (mkAny [65] [1; 2; 3])).
Definition c16_b2 : blk :=
  mkBlk 8 [98] [97] (Some (1700000001, 0)%Z) 5 0 0%Z [] 0 7 (Some (mkAny [65] [4])).
Definition c16_leg : blk :=   (* a legacy ETH block without payload *)
  mkBlk 8 [98] [97] None 5 2 1%Z [9; 9] 0 7 None.

(* a protobuf stand-in over a two-element table: b1 <-> m1, b2 <-> m2, everything else refused *)
Definition c16_tenc (m1 m2 : str) (b : blk) : option str :=
  if blk_eqb b c16_b1 then Some m1 else if blk_eqb b c16_b2 then Some m2 else None.
Definition c16_tdec (m1 m2 : str) (x1 x2 : blk) (m : str) : option blk :=
  if eqb_list m m1 then Some x1 else if eqb_list m m2 then Some x2 else None.

Lemma c16_table_codec_ok m1 m2 :
  eqb_list m1 m2 = false ->
  codec_ok (c16_tenc m1 m2) (c16_tdec m1 m2 c16_b1 c16_b2)
           (fun m => option_map meta_of (c16_tdec m1 m2 c16_b1 c16_b2 m)).
Proof.
  intro Hne.
  assert (H1 : eqb_list m1 m1 = true) by apply eqb_list_refl.
  assert (H2 : eqb_list m2 m2 = true) by apply eqb_list_refl.
  assert (H21 : eqb_list m2 m1 = false).
  { destruct (eqb_list m2 m1) eqn:E; [|reflexivity].
    apply eqb_list_eq in E. subst m2. rewrite H1 in Hne. discriminate. }
  split; intros b m; unfold c16_tenc, c16_tdec;
    (destruct (blk_eqb b c16_b1) eqn:E1;
     [apply blk_eqb_eq in E1; subst b; intros [= <-]; rewrite H1; reflexivity|]);
    (destruct (blk_eqb b c16_b2) eqn:E2;
     [apply blk_eqb_eq in E2; subst b; intros [= <-]; rewrite H21, H2; reflexivity|discriminate]).
Qed.

Ltac c16_seq_ok_tac m1 m2 :=
  split; [discriminate|]; split; [discriminate|]; split; [cbv; discriminate|];
  constructor; [|constructor; [|constructor]];
  [exists m1; split; [reflexivity|]; split; [discriminate|reflexivity]
  |exists m2; split; [reflexivity|]; split; [discriminate|reflexivity]].

(* ================================================================== codec_ok, first conjunct
   pdec (penc b) = Some b.  A decoder that returns another block for the bytes of b2 (the height
   is one too high) — everything else as in a correct codec: the round trip delivers the other
   block, and so does the read of the "truncation at n = whole file".
   The hypothesis speaks about protobuf, which the model abstracts: the real proto.Marshal /
   Unmarshal were run at the extreme points of the quantifier (TestU2_C16_CodecPoints): every
   block that Marshal accepts is read back field by field; Marshal refuses invalid UTF-8 in id,
   parent id and type URL (write error, nothing written). *)
Definition c16_b2_wrong : blk :=
  mkBlk 9 [98] [97] (Some (1700000001, 0)%Z) 5 0 0%Z [] 0 7 (Some (mkAny [65] [4])).

Theorem c16_codec_block_needed :
  let penc := c16_tenc [1] [2] in
  let pdec := c16_tdec [1] [2] c16_b1 c16_b2_wrong in
  let bs := [c16_b1; c16_b2] in
  seq_ok penc bs /\
  penc c16_b2 = Some [2] /\ pdec [2] <> Some c16_b2 /\             (* codec_ok fails exactly here *)
  expected 0 false bs = (bs, OEOF) /\
  read_blocks pdec 0 false (file_of penc bs) = (Some (mkHdr 1 [65]), [c16_b1; c16_b2_wrong], OEOF) /\
  (* C16_roundtrip, third conjunct, fails *)
  read_blocks pdec 0 false (file_of penc bs) <>
    (Some (mkHdr 1 (ctype_of bs)), fst (expected 0 false bs), snd (expected 0 false bs)) /\
  (* C16_truncation, first conjunct, fails at n = length of the file *)
  ~ prefix_of (rf_items (read_blocks pdec 0 false (firstn 18 (file_of penc bs)))) (fst (expected 0 false bs)).
Proof.
  cbv zeta. split; [c16_seq_ok_tac [1] [2]|].
  split; [reflexivity|]. split; [vm_compute; discriminate|]. split; [reflexivity|].
  split; [vm_compute; reflexivity|]. split; [vm_compute; discriminate|].
  intros [r Hr]. vm_compute in Hr. discriminate Hr.
Qed.
Print Assumptions c16_codec_block_needed.

(* ================================================================== codec_ok, second conjunct
   pdec_meta (penc b) = Some (meta_of b): a meta decoder that drops the LIB number. *)
Definition c16_meta_wrong (m : str) : option bmeta :=
  match c16_tdec [1] [2] c16_b1 c16_b2 m with
  | Some b => Some (mkMeta (b_num b) (b_id b) (b_parent b) (b_ts b) 0 (b_pnum b))
  | None => None
  end.

Theorem c16_codec_meta_needed :
  let penc := c16_tenc [1] [2] in
  let bs := [c16_b1; c16_b2] in
  seq_ok penc bs /\
  (forall b m, penc b = Some m -> c16_tdec [1] [2] c16_b1 c16_b2 m = Some b) /\   (* first conjunct holds *)
  c16_meta_wrong [1] <> Some (meta_of c16_b1) /\
  read_metas c16_meta_wrong 0 (file_of penc bs) <>
    (Some (mkHdr 1 (ctype_of bs)), fst (expected_meta 0 bs), snd (expected_meta 0 bs)).
Proof.
  cbv zeta. split; [c16_seq_ok_tac [1] [2]|].
  split; [exact (proj1 (c16_table_codec_ok [1] [2] eq_refl))|].
  split; vm_compute; discriminate.
Qed.
Print Assumptions c16_codec_meta_needed.

(* ================================================================== seq_ok: bs <> []
   The empty sequence writes no byte; reading the empty file is a header error, not "the same
   (empty) sequence followed by end-of-file".  For every codec.
   Inside the quantifier read literally ("all sequences of blocks").  Real code:
   TestU2_C16_CodecFirstBlockAndEmptySequence: 0 bytes, "unable to read file header: EOF". *)
Theorem c16_seq_nonempty_needed :
  forall penc pdec first acc,
    file_of penc [] = [] /\
    read_blocks pdec first acc (file_of penc []) = (None, [], OHdr) /\
    read_blocks pdec first acc (file_of penc []) <>
      (Some (mkHdr 1 (ctype_of [])), fst (expected first acc []), snd (expected first acc [])).
Proof. intros. split; [reflexivity|]. split; [reflexivity|]. cbv. discriminate. Qed.
Print Assumptions c16_seq_nonempty_needed.

(* ================================================================== seq_ok: ctype_of bs <> []
   First block without payload (legacy) or with an empty type URL: the writer refuses it (after
   the fixed finding C16_fix_writer_nil_payload: an error, before: a nil dereference).  The
   sequence is then not "written with the block writer": outside the quantifier. *)
Definition c16_lenc (b : blk) : option str :=
  if blk_eqb b c16_leg then Some [3] else if blk_eqb b c16_b1 then Some [1] else None.

Theorem c16_first_payload_needed :
  let bs := [c16_leg; c16_b1] in
  bs <> [] /\ ctype_of bs = [] /\
  (exists m, c16_lenc c16_leg = Some m /\ m <> [] /\ lenN m < two32) /\
  snd (write_all c16_lenc bs) = WErr /\ file_of c16_lenc bs = [].
Proof.
  cbv zeta. split; [discriminate|]. split; [reflexivity|].
  split; [exists [3]; split; [reflexivity|]; split; [discriminate|reflexivity]|].
  split; vm_compute; reflexivity.
Qed.
Print Assumptions c16_first_payload_needed.

(* ================================================================== seq_ok: lenN (ctype_of bs) <= 65535
   A type URL of 65536 bytes: dbin's WriteHeader refuses it, nothing is written.  Real code:
   TestU2_C16_CodecFirstBlockAndEmptySequence (65535 round-trips, 65536 and 70000 are refused
   with 0 bytes written).  A refusal, not an alteration: outside "written with the block writer". *)
Definition c16_big_url : str := repeat 117 65536.
Definition c16_bbig : blk :=
  mkBlk 7 [97] [96] None 5 0 0%Z [] 0 6 (Some (mkAny c16_big_url [1])).

Theorem c16_ctype_len_needed :
  let penc := fun _ : blk => Some [1] in
  lenN (ctype_of [c16_bbig]) = 65536 /\
  snd (write_all penc [c16_bbig]) = WErr /\ file_of penc [c16_bbig] = [].
Proof. vm_compute. repeat split; reflexivity. Qed.
Print Assumptions c16_ctype_len_needed.

(* ================================================================== writable: m <> []
   A codec that satisfies codec_ok and encodes b2 as the EMPTY message (in real protobuf: the
   all-default block, which is a legacy block of height 0 with empty ids: inside the quantifier).
   Every Write succeeds, the file is header ++ frame m1 ++ 00 00 00 00, and the reader stops
   with an error where b2 should be delivered: the round trip (and prefix_intact with k = 2) fail.
   Real code: TestU2_C16_CodecEmptyEncodingLosesTail ([modern, all-default, modern]: 3 writes
   succeed, 1 of 3 blocks is read back, then "failed reading next dbin message: %!s(<nil>)"). *)
Theorem c16_msg_nonempty_needed :
  let penc := c16_tenc [1] [] in
  let pdec := c16_tdec [1] [] c16_b1 c16_b2 in
  let bs := [c16_b1; c16_b2] in
  codec_ok penc pdec (fun m => option_map meta_of (pdec m)) /\
  bs <> [] /\ ctype_of bs <> [] /\ lenN (ctype_of bs) <= 65535 /\
  Forall (fun b => exists m, penc b = Some m /\ lenN m < two32) bs /\     (* writable without m <> [] *)
  snd (write_all penc bs) = WOk /\
  file_of penc bs = [100; 98; 105; 110; 1; 0; 1; 65; 0; 0; 0; 1; 1; 0; 0; 0; 0] /\
  expected 0 false bs = (bs, OEOF) /\
  read_blocks pdec 0 false (file_of penc bs) = (Some (mkHdr 1 [65]), [c16_b1], OErr) /\
  (* C16_prefix_intact with k = 2, f' = the file itself: the second item is missing *)
  firstn 2 (rf_items (read_blocks pdec 0 false (file_of penc bs))) <> firstn 2 (fst (expected 0 false bs)).
Proof.
  cbv zeta. split; [exact (c16_table_codec_ok [1] [] eq_refl)|].
  split; [discriminate|]. split; [discriminate|]. split; [cbv; discriminate|].
  split.
  { constructor; [|constructor; [|constructor]].
    - exists [1]. split; reflexivity.
    - exists []. split; reflexivity. }
  split; [vm_compute; reflexivity|]. split; [vm_compute; reflexivity|].
  split; [reflexivity|]. split; [vm_compute; reflexivity|]. vm_compute. discriminate.
Qed.
Print Assumptions c16_msg_nonempty_needed.

(* C16_truncation does NOT need m <> [] on this input: every cut of that 17-byte file still gives a
   prefix of the blocks and EOF only on a block boundary (possibly not necessary there). *)
Definition c16_trunc_row (n : nat) : list blk * outcome :=
  let r := read_blocks (c16_tdec [1] [] c16_b1 c16_b2) 0 false
                       (firstn n (file_of (c16_tenc [1] []) [c16_b1; c16_b2])) in
  (rf_items r, rf_outcome r).
Example c16_msg_nonempty_not_needed_for_truncation :
  map c16_trunc_row (seq 0 18) =
    repeat ([], OHdr) 8 ++ [([], OEOF)] ++ repeat ([], OErr) 4 ++ [([c16_b1], OEOF)] ++ repeat ([c16_b1], OErr) 4.
Proof. vm_compute. reflexivity. Qed.

(* writable: lenN m < 2^32 — not evaluated in the model (a 4 GiB list).  be32_bytes drops the
   bits >= 2^32 by construction; the real dbin.Writer.WriteMessage does the same without an error:
   TestU2_C16_DbinLengthPrefixWraps (a message of 2^32+10 bytes gets the length prefix 00 00 00 0a). *)
Example c16_be32_wraps : be32_bytes (two32 + 10) = [0; 0; 0; 10].
Proof. vm_compute. reflexivity. Qed.

(* ================================================================== C16_header_corruption_partial:
   the side condition (p < 4 \/ (p = 4 /\ v <> 0) \/ 7 <= p).
   Stated with a codec that satisfies codec_ok and a sequence that satisfies seq_ok: byte 6 (low byte
   of the content-type length) changed 1 -> 6 moves the start of the message stream into the first
   message; the reader delivers b2 — a block that was never written — and a clean end-of-file.
   Inside the quantifier ("every single-byte corruption"); this IS the known finding
   C16-stream-start-corruption-alters (c16_header_length_corruption_refuted states it at the framing
   level for an arbitrary decoder); not re-reported. *)
Theorem c16_hdr_locator_bytes_excluded_needed :
  let m1 := [9; 0; 0; 0; 1; 7] in
  let penc := c16_tenc m1 [7] in
  let pdec := c16_tdec m1 [7] c16_b1 c16_b2 in
  let bs := [c16_b1] in
  codec_ok penc pdec (fun m => option_map meta_of (pdec m)) /\ seq_ok penc bs /\
  (6 < header_len (ctype_of bs))%nat /\ 6 <> nth 6 (file_of penc bs) 0 /\
  read_blocks pdec 0 false (file_of penc bs) = (Some (mkHdr 1 [65]), [c16_b1], OEOF) /\
  read_blocks pdec 0 false (corrupt (file_of penc bs) 6 6) = (Some (mkHdr 1 [65; 0; 0; 0; 6; 9]), [c16_b2], OEOF) /\
  ~ header_corruption_at penc pdec 0 false bs 6 6.
Proof.
  cbv zeta. split; [exact (c16_table_codec_ok [9; 0; 0; 0; 1; 7] [7] eq_refl)|].
  split.
  { split; [discriminate|]. split; [discriminate|]. split; [cbv; discriminate|].
    constructor; [|constructor].
    exists [9; 0; 0; 0; 1; 7]. split; [reflexivity|]. split; [discriminate|reflexivity]. }
  split; [vm_compute; lia|]. split; [vm_compute; discriminate|].
  split; [vm_compute; reflexivity|]. split; [vm_compute; reflexivity|].
  unfold header_corruption_at. cbv zeta.
  intros [[H _]|[[H _]|[H _]]]; vm_compute in H; discriminate H.
Qed.
Print Assumptions c16_hdr_locator_bytes_excluded_needed.

(* ================================================================== name_ok
   A '-' in the last 16 bytes of the id, in the last 16 bytes of the parent id, or in the suffix:
   the name has more than 5 segments and does not parse back (an error — never another block: the
   format contributes exactly 4 dashes, every extra dash gives a 6th segment).  Inside the quantifier
   ("arbitrary ids"); the property text demands that the name "parses back to the same ...".
   Real code: TestU2_C16_NameRoundTripPoints ("wrong filename format"); in a one-block store such a
   file is invisible to the fetchers (not-found, case (e) of TestU2_C16_FetchStoreAssumptions). *)
Theorem c16_name_id_nodash_needed :
  let id := [48; 49; 50; 51; 45; 53; 54; 55; 56; 57; 97; 98; 99; 100; 101; 102] in   (* "0123-56789abcdef" *)
  5 < two64 /\ 3 < two64 /\ memN dash (truncate_id id) = true /\
  memN dash (truncate_id [98]) = false /\ memN dash [120] = false /\
  parse_filename (block_file_name 5 id [98] 3 [120]) = None.
Proof. vm_compute. repeat split; reflexivity. Qed.
Print Assumptions c16_name_id_nodash_needed.

Theorem c16_name_parent_nodash_needed :
  memN dash (truncate_id [98; 45; 99]) = true /\
  parse_filename (block_file_name 5 [97] [98; 45; 99] 3 [120]) = None.
Proof. vm_compute. split; reflexivity. Qed.
Print Assumptions c16_name_parent_nodash_needed.

Theorem c16_name_suffix_nodash_needed :
  memN dash [109; 45; 49] = true /\
  parse_filename (block_file_name 5 [97] [98] 3 [109; 45; 49]) = None.
Proof. vm_compute. split; reflexivity. Qed.
Print Assumptions c16_name_suffix_nodash_needed.

(* num < 2^64, lib < 2^64: the model's numbers are unbounded; Go's are uint64: outside. *)
Theorem c16_name_num_bound_needed :
  parse_filename (block_file_name two64 [97] [98] 3 [120]) = None /\
  parse_filename (block_file_name 5 [97] [98] two64 [120]) = None.
Proof. vm_compute. split; reflexivity. Qed.
Print Assumptions c16_name_num_bound_needed.

(* ================================================================== C16_fetch: Forall stored_ok l
   (i) the part "the store holds intact one-block files" (msg_wf, store = store_of l): a one-block
   file cut exactly at the end of its header — a truncation point of the encoded file — makes the
   fetch return (nil, nil): neither the block, nor not-found, nor an error (FNil, which c16_fetch
   proves impossible on intact stores).  Real code: case (h) of TestU2_C16_FetchStoreAssumptions:
   of the 130 truncation points 129 give an error and the cut at 34 gives (nil, nil); the one-blocks
   source hands that nil block to its handler (h'). *)
Theorem c16_fetch_intact_store_needed :
  let name := block_file_name 5 [97] [112] 3 [120] in
  let whole := file_bytes [84] [[1; 7]] in
  let cut := firstn (header_len [84]) whole in
  fetch_one_block toy_dec [(name, whole)] 5 [97] = FBlock (1, 7) /\
  fetch_one_block toy_dec [(name, cut)] 5 [97] = FNil.
Proof. vm_compute. split; reflexivity. Qed.
Print Assumptions c16_fetch_intact_store_needed.

(* (ii) name_ok inside stored_ok: possibly not necessary — a stored block whose truncated id has a
   dash gets an unparsable name, is skipped by the listing, and the fetch answers not-found. *)
Example c16_fetch_dash_id_invisible :
  let x := mkStored 5 [97; 45; 98] [112] 3 [120] [84] [1; 7] in
  fetch_one_block toy_dec (store_of [x]) 5 [97; 45; 98] = FNotFound.
Proof. vm_compute. reflexivity. Qed.

(* ================================================================== C16_fetch: what its conclusion does NOT say
   The property text: "fetching a block by number and id ... returns THAT block or not-found".
   c16_fetch promises only an entry of the requested height whose truncated id is a SUFFIX of the
   requested id.  The stronger reading — the returned entry has the requested id — is false on
   stores that satisfy stored_ok, i.e. it would need the extra hypotheses "stored ids have at least
   16 bytes" and "no two stored ids of one height share their last 16 bytes":
   - a stored id shorter than 16 bytes ("b") answers the request for another id ("ab");
   - the stored empty id answers every request;
   - two blocks of one height whose ids share the last 16 bytes: the request for the second
     returns the first.
   Inside the quantifier ("arbitrary ids").  Real code: cases (a), (b), (c) of
   TestU2_C16_FetchStoreAssumptions. *)
Definition C16_fetch_exact_id : Prop :=
  forall l num id b, Forall (stored_ok) l ->
    fetch_one_block toy_dec (store_of l) num id = FBlock b ->
    exists x, In x l /\ s_num x = num /\ s_id x = id /\ toy_dec (s_msg x) = Some b.

Definition c16_sfx16 : str := [100; 101; 97; 100; 98; 101; 101; 102; 99; 97; 102; 101; 48; 48; 48; 53].
Definition c16_idA : str := [97; 97] ++ c16_sfx16.
Definition c16_idB : str := [98; 98] ++ c16_sfx16.
Definition c16_store3 : list stored :=
  [mkStored 5 c16_idA [112; 65] 3 [120] [84] [1; 7]; mkStored 5 c16_idB [112; 66] 3 [120] [84] [2; 8]].

Lemma c16_stored_ok_intro x :
  (s_num x <? two64) && (s_lib x <? two64) && negb (memN dash (truncate_id (s_id x))) &&
  negb (memN dash (truncate_id (s_parent x))) && negb (memN dash (s_suffix x)) &&
  negb (eqb_list (s_ct x) []) && (lenN (s_ct x) <=? 65535) && negb (eqb_list (s_msg x) []) &&
  (lenN (s_msg x) <? two32) = true -> stored_ok x.
Proof.
  intro H. repeat (apply andb_true_iff in H; destruct H as [H ?]).
  repeat match goal with
  | h : negb _ = true |- _ => apply negb_true_iff in h
  | h : (_ <? _) = true |- _ => apply N.ltb_lt in h
  | h : (_ <=? _) = true |- _ => apply N.leb_le in h
  end.
  assert (Hne : forall s : str, eqb_list s [] = false -> s <> []).
  { intros s E ->. discriminate E. }
  unfold stored_ok, name_ok, msg_wf. repeat split; auto.
Qed.

Theorem c16_fetch_exact_id_refuted :
  (* short stored id *)
  (let l := [mkStored 5 [98] [112] 3 [120] [84] [1; 7]] in
   Forall stored_ok l /\ fetch_one_block toy_dec (store_of l) 5 [97; 98] = FBlock (1, 7)) /\
  (* empty stored id *)
  (let l := [mkStored 5 [] [112] 3 [120] [84] [1; 7]] in
   Forall stored_ok l /\ fetch_one_block toy_dec (store_of l) 5 [102; 102] = FBlock (1, 7)) /\
  (* two ids of one height sharing their last 16 bytes: asking for B returns A's content *)
  (Forall stored_ok c16_store3 /\ c16_idA <> c16_idB /\
   fetch_one_block toy_dec (store_of c16_store3) 5 c16_idA = FBlock (1, 7) /\
   fetch_one_block toy_dec (store_of c16_store3) 5 c16_idB = FBlock (1, 7)) /\
  ~ C16_fetch_exact_id.
Proof.
  assert (S1 : Forall stored_ok [mkStored 5 [98] [112] 3 [120] [84] [1; 7]]).
  { constructor; [apply c16_stored_ok_intro; vm_compute; reflexivity|constructor]. }
  split; [split; [exact S1|vm_compute; reflexivity]|].
  split.
  { split; [|vm_compute; reflexivity].
    constructor; [apply c16_stored_ok_intro; vm_compute; reflexivity|constructor]. }
  split.
  { split.
    - constructor; [apply c16_stored_ok_intro; vm_compute; reflexivity|].
      constructor; [apply c16_stored_ok_intro; vm_compute; reflexivity|constructor].
    - split; [vm_compute; discriminate|]. split; vm_compute; reflexivity. }
  intro H.
  destruct (H _ 5 [97; 98] (1, 7) S1 ltac:(vm_compute; reflexivity)) as [x [Hin [_ [Hid _]]]].
  destruct Hin as [<-|[]]. vm_compute in Hid. discriminate Hid.
Qed.
Print Assumptions c16_fetch_exact_id_refuted.

(* ================================================================== C16_roundtrip, last conjunct: Forall modern bs
   "read back as the same sequence" is claimed only for blocks WITH payload.  A legacy block
   (inside the quantifier: "including legacy blocks without payload") comes back ALTERED by design
   (supportLegacy): payload := (type URL by protocol kind, payload_buffer), and — whenever the height
   is above GetProtocolFirstStreamableBlock — parent_num := number - 1 whatever was recorded (here
   3 -> 7); NEAR (and Solana without the environment variable) legacy blocks stop the read with an
   error.  Real code: the "legacy ..." rows of TestU2_C16_CodecPoints. *)
Definition c16_leg3 : blk := mkBlk 8 [98] [97] None 5 2 1%Z [9; 9] 0 3 None.
Definition c16_near : blk := mkBlk 8 [98] [97] None 5 4 1%Z [9; 9] 0 7 None.

Theorem c16_modern_needed :
  ~ modern c16_leg3 /\
  expected 0 false [c16_b1; c16_leg3] =
    ([c16_b1; mkBlk 8 [98] [97] None 5 2 1%Z [9; 9] 0 7 (Some (mkAny url_eth [9; 9]))], OEOF) /\
  expected 0 false [c16_b1; c16_leg3] <> ([c16_b1; c16_leg3], OEOF) /\
  expected 0 false [c16_b1; c16_near; c16_b2] = ([c16_b1], OErr).
Proof.
  split; [intro H; apply H; reflexivity|].
  split; [vm_compute; reflexivity|]. split; [vm_compute; discriminate|vm_compute; reflexivity].
Qed.
Print Assumptions c16_modern_needed.

(* ================================================================== C16_prefix_intact: k <= length bs
   Structural (k indexes a block of bs): for k beyond the sequence, a file that agrees with the
   written one on all its bytes and carries one more valid frame delivers one more item. *)
Theorem c16_prefix_k_bound_needed :
  let penc := c16_tenc [1] [2] in
  let pdec := c16_tdec [1] [2] c16_b1 c16_b2 in
  let bs := [c16_b1] in
  let f' := file_of penc bs ++ frame [2] in
  seq_ok penc bs /\
  firstn (boundary penc bs 2) f' = firstn (boundary penc bs 2) (file_of penc bs) /\
  firstn 2 (rf_items (read_blocks pdec 0 false f')) <> firstn 2 (fst (expected 0 false bs)).
Proof.
  cbv zeta. split.
  { split; [discriminate|]. split; [discriminate|]. split; [cbv; discriminate|].
    constructor; [|constructor].
    exists [1]. split; [reflexivity|]. split; [discriminate|reflexivity]. }
  split; [vm_compute; reflexivity|vm_compute; discriminate].
Qed.
Print Assumptions c16_prefix_k_bound_needed.

(* ================================================================== C16_roundtrip, fourth conjunct: what [expected_meta] hides
   Not a hypothesis but a weakening inside the conclusion: ReadAsBlockMeta is required to deliver
   [decode_run (support_legacy_meta first o meta_of)], and support_legacy_meta REFUSES every block
   with parent_num = 0 and height > first + 15 — also a MODERN block (with payload) whose parent
   really is block 0 (a chain that skips heights after genesis).  Such a block is written, is read
   back intact by Read, and stops ReadAsBlockMeta (and FetchBlockMetaFromOneBlockStore) with an
   error; the blocks after it are not delivered.  Real code: row "MODERN block, height 16,
   parent_num 0" of TestU2_C16_CodecPoints, case (i) of TestU2_C16_FetchStoreAssumptions. *)
Definition c16_b16 : blk :=
  mkBlk 16 [98] [97] (Some (1700000001, 0)%Z) 0 0 0%Z [] 0 0 (Some (mkAny [65] [4])).
Definition c16_b15 : blk :=
  mkBlk 15 [98] [97] (Some (1700000001, 0)%Z) 0 0 0%Z [] 0 0 (Some (mkAny [65] [4])).

Theorem c16_meta_parent0_refused :
  modern c16_b16 /\
  expected 0 false [c16_b1; c16_b16; c16_b2] = ([c16_b1; c16_b16; c16_b2], OEOF) /\
  expected_meta 0 [c16_b1; c16_b16; c16_b2] = ([meta_of c16_b1], OErr) /\
  expected_meta 0 [c16_b1; c16_b15; c16_b2] = ([meta_of c16_b1; meta_of c16_b15; meta_of c16_b2], OEOF).
Proof.
  split; [discriminate|]. split; [vm_compute; reflexivity|]. split; vm_compute; reflexivity.
Qed.
Print Assumptions c16_meta_parent0_refused.
