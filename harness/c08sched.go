package main

// C08S: the schedule-level model of the hub (coq/Model/HubSched.v) against the real code, at lock
// granularity.  One goroutine per model thread: the producer (Forkable.ProcessBlock for every live
// block), requester i (one ForkableHub.SourceFromXxx call) and consumer i (Subscription.Run on the
// source requester i obtained).  Every goroutine parks at the schedule points of the hooks patch
// (forkable:lock/locked/unlock, forkable:rlock/rlocked/runlock, subscribe:before-append/locked/appended,
// processblock:enter/snapshot/push-failed/after-push, subscription:receive) and is released ONE atomic
// step at a time by the scheduler, in the order of the schedule (a list of thread ids in the input).
// After every entry the scheduler records: did the real thread make a step, at which point it is
// afterwards, has the producer's RWMutex.Lock() returned, and the channel length of every subscription.
// coq/Check/C08S_Check.v runs `cstep` on the same schedule and compares every entry.
//
// A step whose lock is not available is not attempted (the real goroutine would commit to the wait
// and be served before later arrivals, the model retries): the scheduler asks the REAL lock instead
// (TryRLock on the Forkable's RWMutex, TryLock on subscribersLock) and records the answer as the
// enabledness of the step.  The one wait that is performed for real is the producer's RWMutex.Lock()
// with readers inside: the scheduler waits until the writer has announced itself (TryRLock fails)
// and later checks that Lock returns exactly when the last reader has left.
// After the explicit schedule the run is completed round-robin (deterministic), so that every request
// returns and the property can be evaluated on complete deliveries.

import (
	"encoding/json"
	"fmt"
	"runtime"
	"sync"
	"sync/atomic"
	"time"

	"github.com/streamingfast/bstream"
	"github.com/streamingfast/bstream/forkable"
	"github.com/streamingfast/bstream/hub"
	pbbstream "github.com/streamingfast/bstream/pb/sf/bstream/v1"
)

type c08sReq struct {
	Kind string `json:"kind"` // num | forks | cursor | through
	Sel  int    `json:"sel"`
	Sel2 int    `json:"sel2"`
	Lazy bool   `json:"lazy"` // its consumer never runs (slow subscriber)
}
type c08sInput struct {
	First   uint64    `json:"first"`
	Kept    int       `json:"kept"`
	Boot    []fkBlock `json:"boot"`
	Live    []fkBlock `json:"live"`
	Reqs    []c08sReq `json:"reqs"`
	Sched   []int     `json:"sched"`   // 0 producer | 1+2i requester i | 2+2i consumer i
	Tracker bool      `json:"tracker"` // requester 0 = from the lowest block, scheduled first, received after every producer step
	Commit  bool      `json:"commit"`  // a requester whose lock is taken really calls RLock() / Lock() and waits inside (see stepReq)
	Shape   string    `json:"shape"`
}
type c08sStep struct {
	T    int   `json:"t"`
	Skip bool  `json:"skip,omitempty"`
	En   bool  `json:"en"`
	Pos  int   `json:"pos"`
	Arr  bool  `json:"arr,omitempty"`
	Auto bool  `json:"auto,omitempty"` // not from the input schedule: a requester waiting inside RLock()/Lock() was let in by this unlock
	QI   int   `json:"qi,omitempty"` // 1 + index of the requester whose channel length changed in this step (0: none)
	QV   int   `json:"qv,omitempty"` // its new value: 1 + len(channel); 0 = SourceFromXxx has not returned a source
}
type c08sReqObs struct {
	c08Sub
	NRecv int `json:"nrecv"`
	Pos   int `json:"pos"`
}
type c08sObs struct {
	Skip    string       `json:"skip,omitempty"`
	Reqs    []c08sReqObs `json:"reqs"`
	Steps   []c08sStep   `json:"steps"`
	Order   []int        `json:"order"`
	Anomaly int          `json:"anomaly"`
	Note    string       `json:"note,omitempty"`
}

const c08sWatchdog = 3 * time.Second

func c08sGID() uint64 {
	var buf [64]byte
	n := runtime.Stack(buf[:], false)
	// "goroutine 123 [running]:"
	var id uint64
	for i := len("goroutine "); i < n && buf[i] >= '0' && buf[i] <= '9'; i++ {
		id = id*10 + uint64(buf[i]-'0')
	}
	return id
}

type c08sThread struct {
	role   int // 0 producer | 1 requester | 2 consumer
	idx    int
	gate   chan struct{}
	arrive chan string
	done   chan struct{}
	// scheduler-side view
	pos       int
	arrived   bool // producer, pos 1: RWMutex.Lock() has returned
	committed bool // requester, pos 0 / 2: released into RLock() / subscribersLock.Lock() while the lock was taken; it waits inside
	// requester result
	src   bstream.Source
	recvd []*bstream.PreprocessedBlock // consumer side (appended by the consumer goroutine only)
	nrecv int32
}

// which schedule points a thread of each role may reach, and whether it parks there
var c08sPoints = [3]map[string]bool{
	{"forkable:lock": true, "forkable:locked": true, "processblock:enter": true, "processblock:snapshot": true,
		"processblock:before-push": false, "processblock:push-failed": true, "processblock:after-push": true,
		"forkable:unlock": true, "forkable:unlocked": false},
	{"forkable:rlock": true, "forkable:rlocked": true, "subscribe:before-append": true, "subscribe:locked": true,
		"subscribe:appended": true, "subscribe:unlocked": false, "forkable:runlock": true, "forkable:runlocked": false},
	{"subscription:receive": true},
}
var c08sProdPos = map[string]int{"forkable:lock": 0, "forkable:locked": 1, "processblock:enter": 3, "processblock:snapshot": 5,
	"processblock:after-push": 5, "processblock:push-failed": 6, "forkable:unlock": 4}
var c08sReqPos = map[string]int{"forkable:rlock": 0, "forkable:rlocked": 1, "subscribe:before-append": 2, "subscribe:locked": 3,
	"subscribe:appended": 5, "forkable:runlock": 6}

type c08sCtx struct {
	mu      sync.Mutex
	byGID   map[uint64]*c08sThread
	free    int32
	freeCh  chan struct{}
	anomaly int32
	note    atomic.Value
}

func (x *c08sCtx) flag(code int32, note string) {
	if atomic.CompareAndSwapInt32(&x.anomaly, 0, code) {
		x.note.Store(note)
	} else if code == 2 {
		atomic.StoreInt32(&x.anomaly, 2)
	}
}

func (x *c08sCtx) register(t *c08sThread) {
	g := c08sGID()
	x.mu.Lock()
	x.byGID[g] = t
	x.mu.Unlock()
}

// point is the schedule-point callback of both packages; it runs on the goroutine that reached the point.
func (x *c08sCtx) point(name string) {
	if atomic.LoadInt32(&x.free) == 1 {
		return
	}
	g := c08sGID()
	x.mu.Lock()
	t := x.byGID[g]
	x.mu.Unlock()
	if t == nil {
		return // boot phase, the harness's own lookups
	}
	park, known := c08sPoints[t.role][name]
	if !known {
		x.flag(1, fmt.Sprintf("thread role %d idx %d reached %s", t.role, t.idx, name))
		return
	}
	if !park {
		return
	}
	select {
	case t.arrive <- name:
	case <-x.freeCh:
		return
	}
	select {
	case <-t.gate:
	case <-x.freeCh:
	}
}

// wait for the thread's next arrival ("" = its function returned); ok = false on watchdog
func (x *c08sCtx) await(t *c08sThread) (string, bool) {
	tm := time.NewTimer(c08sWatchdog)
	defer tm.Stop()
	select {
	case n := <-t.arrive:
		return n, true
	case <-t.done:
		// an arrival may have been posted just before the function returned
		select {
		case n := <-t.arrive:
			return n, true
		default:
		}
		return "", true
	case <-tm.C:
		return "", false
	}
}

func c08sRun(in *c08sInput) *c08sObs {
	saved := bstream.GetProtocolFirstStreamableBlock
	bstream.GetProtocolFirstStreamableBlock = in.First
	defer func() { bstream.GetProtocolFirstStreamableBlock = saved }()
	obs := &c08sObs{Steps: []c08sStep{}, Order: []int{}}
	th, skip := c08Setup(&c08Input{Kept: in.Kept, Boot: in.Boot})
	if skip != "" {
		obs.Skip = skip
		return obs
	}
	defer th.close()
	fk := th.fh.VerifForkable()

	// ---- requests, resolved against the hub as it is after the boot (deterministic)
	low := th.fh.LowestBlockNum()
	head := th.fh.HeadNum()
	span := int(head-low) + 3
	var bootLog []fkEvent
	_ = fk.CallWithBlocksFromNum(low, func(blocks []*bstream.PreprocessedBlock) { bootLog = brEventsOf(blocks) }, false)
	mkCursor := func(sel int) (*bstream.Cursor, *brCursor) {
		var cand []fkEvent
		for _, e := range bootLog {
			if e.Step == 1 || e.Step == 2 || e.Step == 17 {
				cand = append(cand, e)
			}
		}
		if len(cand) == 0 {
			return nil, nil
		}
		e := cand[sel%len(cand)]
		st := e.Step
		if st == 17 {
			st = 1
		}
		bc := &brCursor{st, e.CBlk, e.Head, e.Lib}
		return &bstream.Cursor{Step: bstream.StepType(st), Block: bstream.NewBlockRef(fkIDStr(e.CBlk.ID), e.CBlk.Num),
			HeadBlock: bstream.NewBlockRef(fkIDStr(e.Head.ID), e.Head.Num), LIB: bstream.NewBlockRef(fkIDStr(e.Lib.ID), e.Lib.Num)}, bc
	}
	type rq struct {
		kind  string
		start uint64
		cur   *bstream.Cursor
		bc    *brCursor
	}
	nreq := len(in.Reqs)
	reqs := make([]rq, nreq)
	for i, q := range in.Reqs {
		r := rq{kind: q.Kind, start: low + uint64(q.Sel%span)}
		if in.Tracker && i == 0 {
			r = rq{kind: "num", start: low}
		}
		if r.kind == "cursor" || r.kind == "through" {
			r.cur, r.bc = mkCursor(q.Sel)
			if r.cur == nil {
				r.kind = "num"
			} else if r.kind == "through" {
				lo := r.bc.Lib.Num
				sp := int(r.bc.Blk.Num-lo) + 2
				r.start = lo + uint64(q.Sel2%sp)
			}
		}
		reqs[i] = r
	}

	// ---- threads
	x := &c08sCtx{byGID: map[uint64]*c08sThread{}, freeCh: make(chan struct{})}
	newThread := func(role, idx int) *c08sThread {
		return &c08sThread{role: role, idx: idx, gate: make(chan struct{}), arrive: make(chan string, 4), done: make(chan struct{})}
	}
	prod := newThread(0, 0)
	rts := make([]*c08sThread, nreq)
	cts := make([]*c08sThread, nreq) // created when the request has returned a source
	hub.VerifPoint = x.point
	forkable.VerifPoint = x.point
	defer func() {
		hub.VerifPoint = func(string) {}
		forkable.VerifPoint = func(string) {}
	}()
	hang := func(what string) {
		x.flag(2, "hang: "+what)
	}
	start := func(t *c08sThread, f func()) bool {
		go func() {
			defer close(t.done)
			defer func() {
				if r := recover(); r != nil {
					x.flag(2, fmt.Sprintf("panic in thread role %d idx %d: %v", t.role, t.idx, r))
				}
			}()
			x.register(t)
			f()
		}()
		n, ok := x.await(t)
		if !ok {
			hang(fmt.Sprintf("thread role %d idx %d never reached a schedule point", t.role, t.idx))
			return false
		}
		x.place(t, n)
		return true
	}
	ok := start(prod, func() {
		for _, b := range in.Live {
			_ = th.push(b, []fkBlock{})
		}
	})
	for i := 0; ok && i < nreq; i++ {
		i := i
		rts[i] = newThread(1, i)
		t := rts[i]
		handler := bstream.HandlerFunc(func(blk *pbbstream.Block, o interface{}) error {
			t.recvd = append(t.recvd, &bstream.PreprocessedBlock{Block: blk, Obj: o})
			atomic.AddInt32(&t.nrecv, 1)
			return nil
		})
		ok = start(t, func() {
			r := reqs[i]
			switch r.kind {
			case "num":
				t.src = th.fh.SourceFromBlockNum(r.start, handler)
			case "forks":
				t.src = th.fh.SourceFromBlockNumWithForks(r.start, handler)
			case "cursor":
				t.src = th.fh.SourceFromCursor(r.cur, handler)
			case "through":
				t.src = th.fh.SourceThroughCursor(r.start, r.cur, handler)
			}
		})
	}

	subOf := func(i int) *hub.Subscription {
		if rts[i] == nil || rts[i].pos != 7 || rts[i].src == nil {
			return nil
		}
		return rts[i].src.(*hub.Subscription)
	}
	counts := map[string]int{}
	lastQ := make([]int, nreq)
	readersInside := func() int {
		n := 0
		for _, t := range rts {
			if t != nil && t.pos >= 1 && t.pos <= 6 {
				n++
			}
		}
		return n
	}
	qlens := func() []int {
		q := make([]int, nreq)
		for i := range q {
			if s := subOf(i); s != nil {
				q[i] = 1 + s.VerifLen()
			}
		}
		return q
	}
	// release the thread for one step and wait until it is parked again (or has returned)
	release := func(t *c08sThread) bool {
		select {
		case t.gate <- struct{}{}:
		case <-time.After(c08sWatchdog):
			hang(fmt.Sprintf("thread role %d idx %d is not parked where the scheduler believes (pos %d)", t.role, t.idx, t.pos))
			return false
		}
		n, ok := x.await(t)
		if !ok {
			hang(fmt.Sprintf("thread role %d idx %d released at pos %d never reached the next schedule point", t.role, t.idx, t.pos))
			return false
		}
		x.place(t, n)
		return true
	}
	// the producer is inside RWMutex.Lock(): wait for Lock to return
	awaitLock := func() bool {
		n, ok := x.await(prod)
		if !ok {
			hang("RWMutex.Lock() does not return although no reader is inside")
			return false
		}
		x.place(prod, n)
		return true
	}
	pollLock := func() bool { // non-blocking
		select {
		case n := <-prod.arrive:
			x.place(prod, n)
			return true
		case <-prod.done:
			x.place(prod, "")
			return true
		default:
			return false
		}
	}

	var auto []int // requesters let in by the unlock of the current step
	// the requester really calls RLock() / Lock() although the lock is taken: it waits inside
	commit := func(t *c08sThread) bool {
		select {
		case t.gate <- struct{}{}:
		case <-time.After(c08sWatchdog):
			hang(fmt.Sprintf("requester %d not parked (pos %d)", t.idx, t.pos))
			return false
		}
		t.committed = true
		counts["committed"]++
		return true
	}
	pollReq := func(t *c08sThread) bool { // non-blocking: has the waiting requester come through
		select {
		case n := <-t.arrive:
			x.place(t, n)
			return true
		case <-t.done:
			x.place(t, "")
			return true
		default:
			return false
		}
	}
	stepProd := func() (en bool, alive bool) {
		t := prod
		switch {
		case t.pos == 0:
			// RWMutex.Lock(): announces the writer, returns once no reader is inside
			select {
			case t.gate <- struct{}{}:
			case <-time.After(c08sWatchdog):
				hang("producer not parked at forkable:lock")
				return false, false
			}
			t.pos, t.arrived = 1, false
			if readersInside() == 0 {
				if !awaitLock() {
					return true, false
				}
				return true, true
			}
			deadline := time.Now().Add(c08sWatchdog)
			for {
				if pollLock() {
					return true, true // Lock returned although a reader is inside: recorded as it is
				}
				if fk.TryRLock() {
					fk.RWMutex.RUnlock() // not announced yet
				} else {
					return true, true // the writer has announced itself and waits
				}
				if time.Now().After(deadline) {
					hang("writer neither announced nor through")
					return true, false
				}
				runtime.Gosched()
			}
		case t.pos == 1 && !t.arrived:
			if readersInside() == 0 {
				if !awaitLock() {
					return false, false
				}
			} else if !pollLock() {
				return false, true
			}
			if t.pos == 1 && t.arrived {
				t.pos = 2
			}
			return true, true
		case t.pos == 1 && t.arrived:
			t.pos = 2 // Lock had returned already: the model's PWait -> PLocked
			return true, true
		case t.pos == 3 || t.pos == 6:
			if !th.fh.VerifSubscribersLockFree() {
				return false, true
			}
			return true, release(t)
		case t.pos == 4:
			// RWMutex.Unlock(): the readers that wait inside RLock() are let in before any later writer
			if !release(t) {
				return true, false
			}
			for i, q := range rts {
				if q.pos == 0 && q.committed {
					n, ok := x.await(q)
					if !ok {
						hang(fmt.Sprintf("requester %d waiting in RLock() was not let in by Unlock()", i))
						return true, false
					}
					q.committed = false
					x.place(q, n)
					auto = append(auto, 1+2*i)
				}
			}
			return true, true
		case t.pos == 2 || t.pos == 5:
			return true, release(t)
		}
		return false, true // 9: every block processed (or an unexpected position)
	}
	stepReq := func(i int) (en bool, alive bool) {
		t := rts[i]
		switch t.pos {
		case 0:
			if t.committed { // inside RLock(): let in by the producer's Unlock step only
				if pollReq(t) {
					t.committed = false
					return true, true
				}
				return false, true
			}
			if !fk.TryRLock() {
				// a writer holds or has announced
				if in.Commit {
					if !commit(t) {
						return false, false
					}
				}
				return false, true
			}
			fk.RWMutex.RUnlock()
			return true, release(t)
		case 2:
			if t.committed { // inside subscribersLock.Lock(): let in by the holder's Unlock step only
				if pollReq(t) {
					t.committed = false
					return true, true
				}
				return false, true
			}
			if !th.fh.VerifSubscribersLockFree() {
				// at most one requester waits inside Lock(): with several, which of them the runtime serves
				// first is not determined by the schedule (replays would differ)
				alone := true
				for _, q := range rts {
					if q.pos == 2 && q.committed {
						alone = false
					}
				}
				if in.Commit && alone {
					if !commit(t) {
						return false, false
					}
				}
				return false, true
			}
			return true, release(t)
		case 5:
			// subscribersLock.Unlock(): ONE of the requesters waiting inside Lock() gets the mutex
			if !release(t) {
				return true, false
			}
			var waiting []int
			for j, q := range rts {
				if q.pos == 2 && q.committed {
					waiting = append(waiting, j)
				}
			}
			if len(waiting) > 0 {
				deadline := time.Now().Add(c08sWatchdog)
				for got := false; !got; {
					for _, j := range waiting {
						if pollReq(rts[j]) {
							rts[j].committed = false
							auto = append(auto, 1+2*j)
							got = true
							break
						}
					}
					if !got && time.Now().After(deadline) {
						hang("no requester waiting in subscribersLock.Lock() got the mutex after Unlock()")
						return true, false
					}
					if !got {
						runtime.Gosched()
					}
				}
			}
			return true, true
		case 3:
			t.pos = 4 // the read of h.subscribers: same statement as the write
			return true, true
		case 1, 4:
			return true, release(t)
		case 6:
			if !release(t) {
				return true, false
			}
			// the last reader has left: a waiting writer gets the lock now
			if prod.pos == 1 && !prod.arrived && readersInside() == 0 {
				if !awaitLock() {
					return true, false
				}
			}
			if t.pos == 7 && t.src != nil {
				sub := t.src.(*hub.Subscription)
				c := newThread(2, i)
				c.recvd = nil
				cts[i] = c
				// the consumer goroutine delivers into the requester's record
				if !start(c, func() { sub.Run() }) {
					return true, false
				}
			}
			return true, true
		}
		return false, true
	}
	stepCons := func(i int) (skip, en bool, alive bool) {
		sub := subOf(i)
		if sub == nil || cts[i] == nil {
			return false, false, true
		}
		if sub.IsTerminating() {
			return true, false, true
		}
		if sub.VerifLen() == 0 {
			return false, false, true
		}
		return false, true, release(cts[i])
	}
	posOf := func(tid int) int {
		switch {
		case tid == 0:
			return prod.pos
		case tid%2 == 1:
			return rts[(tid-1)/2].pos
		default:
			return int(atomic.LoadInt32(&rts[(tid-2)/2].nrecv))
		}
	}
	record := func(st c08sStep) {
		st.Pos = posOf(st.T)
		q := qlens()
		for j := range q {
			if q[j] != lastQ[j] {
				if st.QI != 0 {
					x.flag(1, fmt.Sprintf("step %d changed the channel length of two subscriptions", len(obs.Steps)))
				}
				st.QI, st.QV = j+1, q[j]
			}
		}
		lastQ = q
		obs.Steps = append(obs.Steps, st)
		if st.En {
			counts["enabled"]++
		} else if st.Skip {
			counts["skipped"]++
		} else {
			counts["disabled"]++
		}
	}
	doStep := func(tid int) (bool, bool) {
		st := c08sStep{T: tid}
		alive := true
		auto = nil
		switch {
		case tid == 0:
			st.En, alive = stepProd()
			st.Arr = prod.pos == 1 && prod.arrived
			if !st.En && prod.pos == 1 {
				counts["writer-waits"]++
			}
		case tid%2 == 1:
			i := (tid - 1) / 2
			before := rts[i].pos
			st.En, alive = stepReq(i)
			if !st.En && before == 0 {
				counts["rlock-refused"]++
			}
			if !st.En && before == 2 {
				counts["mutex-busy"]++
			}
		default:
			st.Skip, st.En, alive = stepCons((tid - 2) / 2)
		}
		// the requesters let in by this step's unlock come right after it, as schedule entries of their own
		// (the real locks serve them before anybody else; in the model that is this particular schedule)
		let := auto
		auto = nil
		record(st)
		for _, a := range let {
			record(c08sStep{T: a, En: true, Auto: true})
			counts["let-in"]++
		}
		return st.En, alive && atomic.LoadInt32(&x.anomaly) != 2
	}

	nthreads := 1 + 2*nreq
	alive := ok
	for _, tid := range in.Sched {
		if !alive {
			break
		}
		if tid < 0 || tid >= nthreads {
			continue
		}
		_, alive = doStep(tid)
	}
	// completion: round-robin until nothing moves (lazy consumers never run)
	for round := 0; alive && len(obs.Steps) < 9000; round++ {
		moved := false
		for tid := 0; tid < nthreads && alive; tid++ {
			if tid >= 2 && tid%2 == 0 {
				i := (tid - 2) / 2
				if in.Reqs[i].Lazy {
					continue
				}
				// a consumer with nothing to receive is not scheduled here (the explicit schedule has such entries)
				if s := subOf(i); s == nil || s.IsTerminating() || s.VerifLen() == 0 {
					continue
				}
			}
			// entries that cannot move any more are not repeated for ever
			if tid == 0 && prod.pos == 9 {
				continue
			}
			if tid%2 == 1 && rts[(tid-1)/2].pos == 7 {
				continue
			}
			var en bool
			en, alive = doStep(tid)
			moved = moved || en
		}
		if !moved {
			break
		}
	}

	// ---- final observation (every thread is parked or has returned)
	obs.Reqs = make([]c08sReqObs, nreq)
	ptr := map[*hub.Subscription]int{}
	for i := range reqs {
		r := reqs[i]
		o := c08sReqObs{c08Sub: c08Sub{Kind: r.kind, Start: r.start, Cursor: r.bc, Chunks: [][]fkEvent{}}}
		if rts[i] != nil {
			o.Pos = rts[i].pos
		}
		if sub := subOf(i); sub != nil {
			ptr[sub] = i
			o.Served = true
			o.Cap = sub.VerifCap()
			o.Dropped = sub.IsTerminating() && sub.Err() != nil
			o.NRecv = int(atomic.LoadInt32(&rts[i].nrecv))
			all := append([]*bstream.PreprocessedBlock{}, rts[i].recvd[:o.NRecv]...)
			all = append(all, sub.VerifDrain()...)
			if r.kind == "forks" {
				n := o.Cap - 100
				if n > len(all) {
					n = len(all)
				}
				for _, pb := range all[:n] {
					o.Forks = append(o.Forks, fkFromPB(pb.Block))
				}
				sortForks(o.Forks)
				all = all[n:]
			}
			o.Chunks = [][]fkEvent{brEventsOf(all)}
		}
		obs.Reqs[i] = o
	}
	if atomic.LoadInt32(&x.anomaly) != 2 {
		for _, s := range th.fh.VerifSubscriberList() {
			if i, ok := ptr[s]; ok {
				obs.Order = append(obs.Order, i)
			} else {
				obs.Order = append(obs.Order, 999)
			}
		}
	}
	obs.Anomaly = int(atomic.LoadInt32(&x.anomaly))
	if n, ok := x.note.Load().(string); ok {
		obs.Note = n
	}
	obs.Note += fmt.Sprintf(" enabled=%d disabled=%d skipped=%d writer-waits=%d rlock-refused=%d mutex-busy=%d waits-inside=%d let-in=%d", counts["enabled"], counts["disabled"],
		counts["skipped"], counts["writer-waits"], counts["rlock-refused"], counts["mutex-busy"], counts["committed"], counts["let-in"])

	// ---- teardown: everybody runs freely to the end
	atomic.StoreInt32(&x.free, 1)
	close(x.freeCh)
	wait := func(t *c08sThread) {
		if t == nil {
			return
		}
		select {
		case <-t.done:
		case <-time.After(c08sWatchdog):
		}
	}
	wait(prod)
	for _, t := range rts {
		wait(t)
	}
	for _, t := range rts {
		if t != nil && t.src != nil {
			t.src.Shutdown(nil)
		}
	}
	for _, t := range cts {
		wait(t)
	}
	return obs
}

// place records where the thread is parked after an arrival ("" = its function returned)
func (x *c08sCtx) place(t *c08sThread, name string) {
	switch t.role {
	case 0:
		if name == "" {
			t.pos = 9
			return
		}
		p, ok := c08sProdPos[name]
		if !ok {
			p = 90
		}
		if p == 1 {
			if t.pos != 1 {
				// forkable:locked reached without the scheduler having released a Lock()
				x.flag(1, "producer at forkable:locked out of order")
			}
			t.pos, t.arrived = 1, true
			return
		}
		t.pos = p
	case 1:
		if name == "" {
			t.pos = 7
			return
		}
		p, ok := c08sReqPos[name]
		if !ok {
			p = 90
		}
		t.pos = p
	}
}

// ---------------------------------------------------------------- generation

func c08sGen(r *Rng, i int, tier string) any {
	in := &c08sInput{}
	in.First = uint64([]int{0, 0, 1}[r.Intn(3)])
	in.Kept = []int{0, 2, 5, 10}[r.Intn(4)]
	slow := i%15 == 7 // a consumer that never reads is dropped after 100 events
	sc := &c07Input{}
	if slow {
		c07ExtraBlocks = 45
	}
	c07GenScenario(r, sc)
	c07ExtraBlocks = 0
	arr := append([]fkBlock{sc.Root}, sc.Arrival...)
	nb := 8 + r.Intn(10)
	if nb >= len(arr) {
		nb = len(arr) / 2
	}
	in.Boot = arr[:nb]
	rest := arr[nb:]
	nl := 2 + r.Intn(12)
	if slow {
		nl = 75 + r.Intn(15) // more than 100 events after the registration
	}
	if nl > len(rest) {
		nl = len(rest)
	}
	in.Live = rest[:nl]
	nreq := 2 + r.Intn(5)
	if slow {
		nreq = 4 + r.Intn(3) // subscriptions registered after the slow one: its removal must not disturb the fan-out to them
	}
	in.Tracker = slow || r.Chance(65)
	in.Commit = r.Chance(50)
	kinds := []string{"num", "num", "forks", "cursor", "through"}
	for k := 0; k < nreq; k++ {
		in.Reqs = append(in.Reqs, c08sReq{Kind: kinds[r.Intn(len(kinds))], Sel: r.Intn(1 << 16), Sel2: r.Intn(1 << 16)})
		if slow && r.Chance(70) {
			in.Reqs[k].Kind, in.Reqs[k].Sel = "num", r.Intn(3) // served for sure
		}
	}
	if in.Tracker {
		in.Reqs[0] = c08sReq{Kind: "num"}
	}
	late := slow && r.Chance(50) // the slow subscriber starts reading at the end of the explicit schedule: too late, or just in time
	if slow {
		in.Reqs[1].Lazy = !late
		in.Reqs[1].Kind = []string{"num", "cursor", "through"}[r.Intn(3)]
	}
	var sched []int
	emit := func(tid int) {
		if slow && tid == 4 {
			return
		}
		sched = append(sched, tid)
		if in.Tracker && tid == 0 {
			sched = append(sched, 2) // the tracker keeps up
		}
	}
	first := 0
	if in.Tracker {
		for k := 0; k < 8; k++ {
			sched = append(sched, 1)
		}
		first = 1
	}
	if slow {
		for k := 0; k < 8; k++ {
			sched = append(sched, 3) // the slow subscriber registers early
		}
	}
	target := 60 + r.Intn(260)
	if slow {
		target = 500 + r.Intn(900)
	}
	pickReq := func() int { return first + r.Intn(nreq-first) }
	for len(sched) < target {
		seg := 4 + r.Intn(30)
		prof := r.Intn(7)
		if slow && r.Chance(60) {
			prof = 1
			seg = 40 + r.Intn(80)
		}
		switch prof {
		case 0: // uniform over thread kinds
			for k := 0; k < seg; k++ {
				switch r.Intn(3) {
				case 0:
					emit(0)
				case 1:
					emit(1 + 2*pickReq())
				default:
					emit(2 + 2*r.Intn(nreq))
				}
			}
		case 1: // producer heavy
			for k := 0; k < seg; k++ {
				if r.Chance(80) {
					emit(0)
				} else if r.Bool() {
					emit(1 + 2*pickReq())
				} else {
					emit(2 + 2*r.Intn(nreq))
				}
			}
		case 2: // requester heavy
			for k := 0; k < seg; k++ {
				if r.Chance(75) {
					emit(1 + 2*pickReq())
				} else if r.Bool() {
					emit(0)
				} else {
					emit(2 + 2*r.Intn(nreq))
				}
			}
		case 3: // consumer heavy
			for k := 0; k < seg; k++ {
				if r.Chance(70) {
					emit(2 + 2*r.Intn(nreq))
				} else if r.Bool() {
					emit(0)
				} else {
					emit(1 + 2*pickReq())
				}
			}
		case 4: // all requesters in lock step: they meet at the subscribers mutex
			rounds := 2 + r.Intn(7)
			for k := 0; k < rounds; k++ {
				for q := first; q < nreq; q++ {
					emit(1 + 2*q)
				}
				if r.Chance(25) {
					emit(0)
				}
			}
		case 5: // one requester alone
			q := pickReq()
			for k := 0; k < 3+r.Intn(6); k++ {
				emit(1 + 2*q)
			}
		default: // readers enter, the writer announces, a late reader knocks
			a, b := pickReq(), pickReq()
			for k := 0; k < 1+r.Intn(3); k++ {
				emit(1 + 2*a)
			}
			emit(0)
			emit(0)
			emit(1 + 2*b)
			emit(1 + 2*b)
			emit(0)
			for k := 0; k < 2+r.Intn(6); k++ {
				emit(1 + 2*a)
				if r.Chance(40) {
					emit(0)
				}
			}
		}
	}
	if late {
		for k := 0; k < 3+r.Intn(6); k++ {
			sched = append(sched, 4)
			if r.Chance(30) {
				sched = append(sched, 0, 2)
			}
		}
	}
	in.Sched = sched
	in.Shape = "sched"
	if in.Tracker {
		in.Shape = "sched/tracker"
	}
	if slow {
		in.Shape = "sched/slow-consumer"
	}
	return in
}

func c08sExec(raw json.RawMessage) (*Case, error) {
	var in c08sInput
	if err := json.Unmarshal(raw, &in); err != nil {
		return nil, err
	}
	obs := c08sRun(&in)
	cs := &Case{Obs: obs, Key: string(raw)}
	if obs.Skip != "" {
		cs.Class = "skip/" + obs.Skip
		cs.Coq = "C08SSkip"
		return cs, nil
	}
	reqs := make([]string, len(obs.Reqs))
	served, dropped := 0, 0
	for i, o := range obs.Reqs {
		reqs[i] = fmt.Sprintf("(mkSR %s %d %d)", coqC08Sub(o.c08Sub), o.NRecv, o.Pos)
		if o.Served {
			served++
		}
		if o.Dropped {
			dropped++
		}
	}
	steps := make([]string, len(obs.Steps))
	for i, s := range obs.Steps {
		steps[i] = fmt.Sprintf("(mkSS %d %s %s %d %s %d %d)", s.T, coqBool(s.Skip), coqBool(s.En), s.Pos, coqBool(s.Arr), s.QI, s.QV)
	}
	order := make([]uint64, len(obs.Order))
	for i, v := range obs.Order {
		order[i] = uint64(v)
	}
	cs.Coq = fmt.Sprintf("mkC08S %d %d %s %s %s %s %s %d %s", in.First, in.Kept, coqBlocks(in.Boot), coqBlocks(in.Live), coqList(reqs),
		coqList(steps), coqNList(order), obs.Anomaly, coqBool(in.Tracker))
	cs.Class = in.Shape
	if dropped > 0 {
		cs.Class += "/dropped"
	}
	if obs.Anomaly == 2 {
		cs.Class += "/hang"
	}
	cs.Nontrivial = served > 0 && len(obs.Steps) > 0
	cs.Tags = []string{fmt.Sprintf("reqs=%d served=%d dropped=%d steps=%d %s", len(obs.Reqs), served, dropped, len(obs.Steps), obs.Note)}
	return cs, nil
}

// c08sCorpus: hand-written schedules over a generated history.  (1) the schedule of
// c08_unfixed_lost_registration_refuted / c08_fixed_same_schedule_keeps_both (two requesters meet at
// the subscribers mutex) with a writer that announces itself while they are inside and a third
// requester knocking at the read lock; (2) the same with the late requesters really waiting inside
// RLock() / subscribersLock.Lock().
func c08sCorpus() []any {
	var out []any
	for _, commit := range []bool{false, true} {
		in := c08sGen(NewRng(20260930), 0, "quick").(*c08sInput)
		in.Tracker, in.Commit = false, commit
		in.Reqs = []c08sReq{{Kind: "num", Sel: 0}, {Kind: "num", Sel: 1}, {Kind: "cursor", Sel: 2}}
		in.Sched = []int{
			1, 1, 3, 3, // requesters 0 and 1: RLock, burst + NewSubscription; both at subscribe:before-append
			0,          // the producer announces the writer and waits for the two readers
			5,          // requester 2 knocks: a writer has announced
			1, 3,       // requester 0 takes subscribersLock, requester 1 finds it taken
			0,          // still two readers inside
			1, 1, 3,    // 0 reads and appends; 1 still locked out
			1,          // 0 unlocks the mutex (commit: 1 gets it at once)
			3, 3, 3,    // 1 locks / reads / appends
			1,          // 0 leaves the read lock
			0,          // one reader still inside
			2, 2,       // consumer 0 receives from its burst
			3, 3,       // 1 unlocks the mutex, leaves the read lock: the writer gets the lock
			5,          // requester 2: the writer holds
			0, 0, 0, 0, // acknowledged, the Forkable's work, snapshot, first push
			4, 2, 0, 0, 0, 0, 0, 0, 5, 0, 0, 0, 0, 0, 0, 0, 0, 5, 5, 5, 0, 5, 5, 5, 5,
		}
		in.Shape = "sched/corpus"
		out = append(out, in)
	}
	return out
}

func init() {
	props["C08S"] = &Prop{Gen: c08sGen, Exec: c08sExec, Corpus: c08sCorpus}
}
