package main

// C08: hub subscriptions. Sequential mode: an operation sequence (push live block, subscribe in one
// of the four ways, drain a subscription) against a real ForkableHub, compared with the model.
// The hub is ready after the boot in most cases; in the "not-ready" classes (V2, finding W1-C08-2) the
// first live block leaves a hole behind the one-block files, subscriptions are requested from the hub
// that is not ready yet, and it becomes ready during the case (a linkable live block, or a later live
// block that finds more one-block files: Passes). The model side is Model/HubAll.v hub_live_all.
// Concurrent mode: k goroutines subscribe together (start barrier) while a feeder pushes blocks; the
// observation (what every subscription received, what the hub produced) is judged by the property.

import (
	"encoding/json"
	"fmt"
	"runtime"
	"sync"
	"sync/atomic"
	"time"

	"github.com/streamingfast/bstream"
	"github.com/streamingfast/bstream/hub"
)

type c08Op struct {
	Op    string `json:"op"`    // push | sub | drain
	Kind  string `json:"kind"`  // num | forks | cursor | through   (sub)
	Sel   int    `json:"sel"`   // selects start number / cursor event
	Sel2  int    `json:"sel2"`  // through: start selector
	Which int    `json:"which"` // drain: which subscription (modulo)
	Skip0 bool   `json:"skip0"` // drain: never the first subscription (the consumer that never reads)
}
type c08Input struct {
	Mode    string    `json:"mode"` // seq | conc
	First   uint64    `json:"first"`
	Kept    int       `json:"kept"`
	Boot    []fkBlock `json:"boot"`    // one-block pass + first live block make the hub ready
	Live    []fkBlock `json:"live"`    // blocks pushed by "push" ops / by the feeder
	Passes  [][]fkBlock `json:"passes,omitempty"` // one-block files the store offers at the n-th push (missing: none)
	Ops     []c08Op   `json:"ops"`     // seq mode
	Workers int       `json:"workers"` // conc mode
	Kinds   []string  `json:"kinds"`   // conc mode: per worker
	Sels    []int     `json:"sels"`
	Shape   string    `json:"shape"`
}
type c08Sub struct {
	Kind    string    `json:"kind"`
	At      int       `json:"at"` // number of live blocks pushed when it was created (seq mode)
	Start   uint64    `json:"start"`
	Cursor  *brCursor `json:"cursor,omitempty"`
	Served  bool      `json:"served"`
	Chunks  [][]fkEvent `json:"chunks"` // what each drain returned, in order (seq) / single final drain (conc)
	Forks   []fkBlock `json:"forks"`  // first drain of a with-forks subscription (blocks only)
	Cap     int       `json:"cap"`
	Dropped bool      `json:"dropped"` // terminated with the capacity error
	HubReady bool     `json:"hub_ready"` // the hub was ready when the request was made (seq mode; not compared)
}
type c08Obs struct {
	Skip    string    `json:"skip,omitempty"`
	Log     []fkEvent `json:"log"`      // every event the hub produced after becoming ready (tracker)
	LogAt   []int     `json:"log_at"`   // length of Log after each live push
	Subs    []c08Sub  `json:"subs"`
	NSubs   int       `json:"nsubs"`    // subscribers registered at the end
	Pushed  int       `json:"pushed"`
	ReadyStart bool   `json:"ready_start"` // hub ready after the boot
	ReadyEnd   bool   `json:"ready_end"`
}

func c08Setup(in *c08Input) (*testHub, string) {
	th, err := newTestHub(in.Kept)
	if err != nil {
		return nil, "hub start"
	}
	n := len(in.Boot)
	if n < 1 {
		return nil, "boot"
	}
	pass := append([]fkBlock{}, in.Boot[:n-1]...)
	if err := th.push(in.Boot[n-1], pass); err != nil {
		th.close()
		return nil, "boot push"
	}
	return th, ""
}

func c08Run(in *c08Input) *c08Obs {
	saved := bstream.GetProtocolFirstStreamableBlock
	bstream.GetProtocolFirstStreamableBlock = in.First
	defer func() { bstream.GetProtocolFirstStreamableBlock = saved }()
	obs := &c08Obs{}
	th, skip := c08Setup(in)
	if skip != "" {
		obs.Skip = skip
		return obs
	}
	defer th.close()
	obs.ReadyStart = th.fh.IsReady()
	// the tracker: subscribed first, never falls behind (drained after every push)
	trackerLow := th.fh.LowestBlockNum()
	tsrc := th.fh.SourceFromBlockNum(trackerLow, hubNop)
	if tsrc == nil && !obs.ReadyStart {
		// a hub that is not ready reports 0 as its lowest block: the lowest number it serves is found by asking
		// (a refused request registers nothing)
		var maxNum uint64
		for _, b := range in.Boot {
			if b.Num > maxNum {
				maxNum = b.Num
			}
		}
		for n := uint64(0); n <= maxNum && tsrc == nil; n++ {
			trackerLow = n
			tsrc = th.fh.SourceFromBlockNum(n, hubNop)
		}
	}
	if tsrc == nil {
		obs.Skip = "no tracker"
		return obs
	}
	tracker := tsrc.(*hub.Subscription)
	trackerBurst := brEventsOf(tracker.VerifDrain())
	obs.Log = append(obs.Log, trackerBurst...) // Log starts with the canonical chain at subscription time
	obs.LogAt = append(obs.LogAt, len(obs.Log))

	type live struct {
		sub *hub.Subscription
		idx int
	}
	var subs []live
	mkCursor := func(sel int) (*bstream.Cursor, *brCursor) {
		var cand []fkEvent
		for _, e := range obs.Log {
			if e.Step == 1 || e.Step == 2 || e.Step == 17 {
				cand = append(cand, e)
			}
		}
		if len(cand) == 0 {
			return nil, nil
		}
		e := cand[sel%len(cand)]
		st := e.Step
		if st == 17 {
			st = 1
		}
		bc := &brCursor{st, e.CBlk, e.Head, e.Lib}
		return &bstream.Cursor{Step: bstream.StepType(st), Block: bstream.NewBlockRef(fkIDStr(e.CBlk.ID), e.CBlk.Num),
			HeadBlock: bstream.NewBlockRef(fkIDStr(e.Head.ID), e.Head.Num), LIB: bstream.NewBlockRef(fkIDStr(e.Lib.ID), e.Lib.Num)}, bc
	}
	// lowest / head number of what the hub serves; a hub that is not ready answers 0 to both questions
	lowHead := func() (uint64, uint64) {
		if th.fh.IsReady() {
			return th.fh.LowestBlockNum(), th.fh.HeadNum()
		}
		low, head := trackerLow, trackerLow
		for _, e := range obs.Log {
			if (e.Step == 1 || e.Step == 17) && e.Blk.Num > head {
				head = e.Blk.Num
			}
		}
		return low, head
	}
	subscribe := func(kind string, sel, sel2 int) (bstream.Source, c08Sub) {
		low, head := lowHead()
		span := int(head-low) + 3
		s := c08Sub{Kind: kind}
		var src bstream.Source
		switch kind {
		case "num":
			s.Start = low + uint64(sel%span)
			src = th.fh.SourceFromBlockNum(s.Start, hubNop)
		case "forks":
			s.Start = low + uint64(sel%span)
			src = th.fh.SourceFromBlockNumWithForks(s.Start, hubNop)
		case "cursor":
			c, bc := mkCursor(sel)
			if c == nil {
				return nil, s
			}
			s.Cursor = bc
			src = th.fh.SourceFromCursor(c, hubNop)
		case "through":
			c, bc := mkCursor(sel)
			if c == nil {
				return nil, s
			}
			s.Cursor = bc
			lo := bc.Lib.Num
			sp := int(bc.Blk.Num-lo) + 2
			s.Start = lo + uint64(sel2%sp)
			src = th.fh.SourceThroughCursor(s.Start, c, hubNop)
		}
		return src, s
	}
	pushed := 0
	pushOne := func() {
		if pushed >= len(in.Live) {
			return
		}
		pass := []fkBlock{}
		if pushed < len(in.Passes) && in.Passes[pushed] != nil {
			pass = in.Passes[pushed]
		}
		_ = th.push(in.Live[pushed], pass)
		pushed++
	}
	drainInto := func(l live) {
		evs := l.sub.VerifDrain()
		if obs.Subs[l.idx].Kind == "forks" && len(obs.Subs[l.idx].Chunks) == 0 {
			// the with-forks burst carries no steps: blocks only, canonically sorted
			n := obs.Subs[l.idx].Cap - 100
			if n > len(evs) {
				n = len(evs)
			}
			for _, pb := range evs[:n] {
				obs.Subs[l.idx].Forks = append(obs.Subs[l.idx].Forks, fkFromPB(pb.Block))
			}
			sortForks(obs.Subs[l.idx].Forks)
			obs.Subs[l.idx].Chunks = append(obs.Subs[l.idx].Chunks, brEventsOf(evs[n:]))
			return
		}
		obs.Subs[l.idx].Chunks = append(obs.Subs[l.idx].Chunks, brEventsOf(evs))
	}

	if in.Mode == "seq" {
		for _, op := range in.Ops {
			switch op.Op {
			case "push":
				pushOne()
				obs.Log = append(obs.Log, brEventsOf(tracker.VerifDrain())...)
				obs.LogAt = append(obs.LogAt, len(obs.Log))
			case "sub":
				hubReady := th.fh.IsReady()
				src, s := subscribe(op.Kind, op.Sel, op.Sel2)
				s.HubReady = hubReady
				s.At = pushed
				s.Chunks = [][]fkEvent{}
				if src != nil {
					s.Served = true
					sub := src.(*hub.Subscription)
					s.Cap = sub.VerifCap()
					obs.Subs = append(obs.Subs, s)
					subs = append(subs, live{sub, len(obs.Subs) - 1})
				} else {
					obs.Subs = append(obs.Subs, s)
				}
			case "drain":
				if op.Skip0 {
					if len(subs) > 1 {
						drainInto(subs[1+op.Which%(len(subs)-1)])
					}
				} else if len(subs) > 0 {
					drainInto(subs[op.Which%len(subs)])
				}
			}
		}
	} else {
		// concurrent mode: all workers subscribe together while the feeder pushes.  The schedule point
		// before the registration is used as a rendez-vous: the subscribers (all inside the shared read
		// lock) are released together, which is the interleaving the registration must survive.
		var arrived int32
		hub.VerifPoint = func(name string) {
			if name != "subscribe:before-append" {
				return
			}
			atomic.AddInt32(&arrived, 1)
			deadline := time.Now().Add(800 * time.Microsecond)
			for atomic.LoadInt32(&arrived) < int32(in.Workers) && time.Now().Before(deadline) {
				runtime.Gosched()
			}
		}
		defer func() { hub.VerifPoint = func(string) {} }()
		var wg sync.WaitGroup
		start := make(chan struct{})
		res := make([]bstream.Source, in.Workers)
		meta := make([]c08Sub, in.Workers)
		// cursors / start numbers are fixed before the race starts (deterministic requests)
		type req struct {
			kind  string
			start uint64
			cur   *bstream.Cursor
			bc    *brCursor
		}
		reqs := make([]req, in.Workers)
		low, head := lowHead()
		span := int(head-low) + 1
		for w := 0; w < in.Workers; w++ {
			k := in.Kinds[w%len(in.Kinds)]
			r := req{kind: k, start: low + uint64(in.Sels[w%len(in.Sels)]%span)}
			if k == "cursor" || k == "through" {
				r.cur, r.bc = mkCursor(in.Sels[w%len(in.Sels)])
				if r.cur == nil {
					r.kind = "num"
				} else if k == "through" {
					r.start = r.bc.Lib.Num
					if r.start < low {
						r.start = low
					}
				}
			}
			reqs[w] = r
		}
		for w := 0; w < in.Workers; w++ {
			wg.Add(1)
			go func(w int) {
				defer wg.Done()
				<-start
				r := reqs[w]
				meta[w] = c08Sub{Kind: r.kind, Start: r.start, Cursor: r.bc, Chunks: [][]fkEvent{}}
				switch r.kind {
				case "num":
					res[w] = th.fh.SourceFromBlockNum(r.start, hubNop)
				case "forks":
					res[w] = th.fh.SourceFromBlockNumWithForks(r.start, hubNop)
				case "cursor":
					res[w] = th.fh.SourceFromCursor(r.cur, hubNop)
				case "through":
					res[w] = th.fh.SourceThroughCursor(r.start, r.cur, hubNop)
				}
			}(w)
		}
		wg.Add(1)
		go func() {
			defer wg.Done()
			<-start
			for i := 0; i < len(in.Live); i++ {
				pushOne()
				if i%3 == 0 {
					time.Sleep(20 * time.Microsecond)
				}
			}
		}()
		close(start)
		wg.Wait()
		obs.Log = append(obs.Log, brEventsOf(tracker.VerifDrain())...)
		for w := 0; w < in.Workers; w++ {
			s := meta[w]
			if res[w] != nil {
				s.Served = true
				sub := res[w].(*hub.Subscription)
				s.Cap = sub.VerifCap()
				obs.Subs = append(obs.Subs, s)
				drainInto(live{sub, len(obs.Subs) - 1})
				subs = append(subs, live{sub, len(obs.Subs) - 1})
			} else {
				obs.Subs = append(obs.Subs, s)
			}
		}
	}
	// final drain of everything still registered (seq mode), dropped flags
	for _, l := range subs {
		if in.Mode == "seq" {
			drainInto(l)
		}
		if l.sub.IsTerminating() && l.sub.Err() != nil {
			obs.Subs[l.idx].Dropped = true
		}
	}
	obs.NSubs = th.fh.VerifSubscribers() - 1 // without the tracker
	obs.Pushed = pushed
	obs.ReadyEnd = th.fh.IsReady()
	return obs
}

func sortForks(f []fkBlock) {
	for i := 1; i < len(f); i++ {
		for j := i; j > 0 && (f[j].Num < f[j-1].Num || (f[j].Num == f[j-1].Num && f[j].ID < f[j-1].ID)); j-- {
			f[j], f[j-1] = f[j-1], f[j]
		}
	}
}

func c08Gen(r *Rng, i int, tier string) any {
	in := &c08Input{}
	in.First = uint64([]int{0, 0, 1}[r.Intn(3)])
	in.Kept = []int{0, 2, 5, 10}[r.Intn(4)]
	sc := &c07Input{}
	slow := i%3 != 2 && r.Chance(25) // a consumer that never reads: overflow after 100 events
	if slow {
		c07ExtraBlocks = 90
	}
	c07GenScenario(r, sc)
	c07ExtraBlocks = 0
	arr := append([]fkBlock{sc.Root}, sc.Arrival...)
	nb := 8 + r.Intn(10)
	if nb >= len(arr) {
		nb = len(arr) / 2
	}
	in.Boot = arr[:nb]
	rest := arr[nb:]
	// not-ready classes: the first live block lies beyond a hole of g arrivals, so the boot leaves the hub
	// not ready (unless the block happens to link); subscriptions are requested before the next live block.
	// "hole": the missing blocks arrive live (the first linkable one makes the hub ready), possibly after u
	// more blocks from beyond the hole; "feed": the next live block comes when the one-block store has
	// caught up, the bootstrap pass plays the missing files through the Forkable.
	notReady := r.Chance(30)
	feed := false
	if notReady {
		g := 2 + r.Intn(4)
		if nb+g+4 < len(arr) {
			in.Boot = append(append([]fkBlock{}, arr[:nb]...), arr[nb+g])
			if r.Chance(40) {
				feed = true
				rest = arr[nb+g+1:]
				in.Passes = [][]fkBlock{append([]fkBlock{}, arr[:nb+g+1]...)}
			} else {
				u := r.Intn(3)
				rest = append(append([]fkBlock{}, arr[nb+g+1:nb+g+1+u]...), arr[nb:]...)
			}
		} else {
			notReady = false
		}
	}
	if i%3 == 2 {
		in.Mode = "conc"
		in.Workers = 2 + r.Intn(15)
		nl := 3 + r.Intn(20)
		if nl > len(rest) {
			nl = len(rest)
		}
		in.Live = rest[:nl]
		kinds := []string{"num", "num", "forks", "cursor", "through"}
		for w := 0; w < in.Workers; w++ {
			in.Kinds = append(in.Kinds, kinds[r.Intn(len(kinds))])
			in.Sels = append(in.Sels, r.Intn(1<<16))
		}
		in.Shape = fmt.Sprintf("conc/w%d", in.Workers)
		if feed {
			in.Shape += "/feed"
		}
		return in
	}
	in.Mode = "seq"
	in.Live = rest
	nops := 10 + r.Intn(40)
	if slow {
		nops += 150
	}
	kinds := []string{"num", "num", "forks", "cursor", "through"}
	if slow {
		in.Ops = append(in.Ops, c08Op{Op: "sub", Kind: "num", Sel: r.Intn(4)})
	}
	if notReady {
		// requests served (or refused) by the hub that is not ready yet
		for k, n := 0, 1+r.Intn(3); k < n; k++ {
			in.Ops = append(in.Ops, c08Op{Op: "sub", Kind: kinds[r.Intn(len(kinds))], Sel: r.Intn(1 << 16), Sel2: r.Intn(1 << 16)})
		}
		if r.Chance(50) {
			in.Ops = append(in.Ops, c08Op{Op: "push"}, c08Op{Op: "sub", Kind: kinds[r.Intn(len(kinds))], Sel: r.Intn(1 << 16), Sel2: r.Intn(1 << 16)})
		}
	}
	for k := 0; k < nops; k++ {
		c := r.Intn(100)
		switch {
		case (!slow && c < 55) || (slow && c < 78):
			in.Ops = append(in.Ops, c08Op{Op: "push"})
		case (!slow && c < 80) || (slow && c < 88):
			in.Ops = append(in.Ops, c08Op{Op: "sub", Kind: kinds[r.Intn(len(kinds))], Sel: r.Intn(1 << 16), Sel2: r.Intn(1 << 16)})
		default:
			in.Ops = append(in.Ops, c08Op{Op: "drain", Which: r.Intn(1 << 16), Skip0: slow})
		}
	}
	in.Shape = "seq"
	if slow {
		in.Shape = "seq/slow-consumer"
	}
	if feed {
		in.Shape += "/feed"
	}
	return in
}

func coqC08Sub(s c08Sub) string {
	cur := "None"
	if s.Cursor != nil {
		cur = "(Some " + coqBrCursor(*s.Cursor) + ")"
	}
	chunks := make([]string, len(s.Chunks))
	for i, c := range s.Chunks {
		chunks[i] = coqEvents(c)
	}
	kind := map[string]int{"num": 2, "forks": 3, "cursor": 0, "through": 1}[s.Kind]
	return fmt.Sprintf("(mkSubObs %d %d %d %s %s %s %s %d %s)", kind, s.At, s.Start, cur, coqBool(s.Served), coqList(chunks), coqBlocks(s.Forks), s.Cap, coqBool(s.Dropped))
}

func c08Exec(raw json.RawMessage) (*Case, error) {
	var in c08Input
	if err := json.Unmarshal(raw, &in); err != nil {
		return nil, err
	}
	obs := c08Run(&in)
	cs := &Case{Obs: obs, Key: string(raw)}
	if obs.Skip != "" {
		cs.Class = "skip/" + obs.Skip
		cs.Coq = "mkC08X [] C08Skip"
		return cs, nil
	}
	subs := make([]string, len(obs.Subs))
	served, dropped, servedNotReady := 0, 0, 0
	for i, s := range obs.Subs {
		subs[i] = coqC08Sub(s)
		if s.Served {
			served++
			if in.Mode == "seq" && !s.HubReady {
				servedNotReady++
			}
		}
		if s.Dropped {
			dropped++
		}
	}
	ops := make([]string, len(in.Ops))
	for i, o := range in.Ops {
		switch o.Op {
		case "push":
			ops[i] = "OpPush"
		case "sub":
			ops[i] = "OpSub"
		default:
			ops[i] = fmt.Sprintf("(OpDrain %d %s)", o.Which, coqBool(o.Skip0))
		}
	}
	logAt := make([]uint64, len(obs.LogAt))
	for i, x := range obs.LogAt {
		logAt[i] = uint64(x)
	}
	mode := 0
	if in.Mode == "conc" {
		mode = 1
	}
	passes := make([]string, len(in.Passes))
	for i, p := range in.Passes {
		passes[i] = coqBlocks(p)
	}
	cs.Coq = fmt.Sprintf("mkC08X %s (mkC08 %d %d %d %s %s %s %s %s %s %d %d)", coqList(passes), mode, in.First, in.Kept, coqBlocks(in.Boot), coqBlocks(in.Live), coqList(ops),
		coqEvents(obs.Log), coqNList(logAt), coqList(subs), obs.NSubs, obs.Pushed)
	cs.Class = in.Shape
	if !obs.ReadyStart {
		// the hub was not ready when the first subscriptions were requested
		if obs.ReadyEnd {
			cs.Class += "/not-ready-to-ready"
		} else {
			cs.Class += "/not-ready"
		}
		if servedNotReady > 0 {
			cs.Class += "/served-before-ready"
		}
	}
	if dropped > 0 {
		cs.Class += "/dropped"
	}
	cs.Nontrivial = served > 0
	cs.Tags = []string{fmt.Sprintf("subs=%d served=%d dropped=%d log=%d", len(obs.Subs), served, dropped, len(obs.Log))}
	if servedNotReady > 0 {
		cs.Tags = append(cs.Tags, fmt.Sprintf("served-before-ready=%d", servedNotReady))
	}
	return cs, nil
}

func init() {
	props["C08"] = &Prop{Gen: c08Gen, Exec: c08Exec}
}
